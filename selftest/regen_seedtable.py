import json,glob,re,os
rows=[];det=late=miss=0
esc=lambda x:x.replace('|','\\|')
for d in sorted(glob.glob('seeded/*/meta.json'), key=lambda p:(p.split('/')[1].split('-')[0], int(p.split('/')[1].split('-')[1]))):
    m=json.load(open(d)); sid=d.split('/')[1]
    res=m['result']
    if res.startswith('MISSED'):
        miss+=1; r='**missed**'
    elif res.startswith('missed at first'):
        late+=1
        mm=re.search(r'detected (?:by C\d\d )?after (.*)', res)
        r='missed → '+(mm.group(1) if mm else res)
        r=r[:230]
    else:
        det+=1; r=res if res.startswith('detected by') else 'detected'
        r=r[:160]
    chg=m['change']; chg=chg if len(chg)<=110 else chg[:107]+'...'
    at=m.get('reported_at','-'); at=at if len(at)<=70 else at[:70]
    rows.append("| %s | %s | %s | %s |" % (sid, esc(chg), esc(r), esc(at)))
tbl="| seed | change | result | reported at |\n|---|---|---|---|\n"+"\n".join(rows)+"\n"
s=open('DESIGN.md').read()
a=s.index("| seed | change | result | reported at |")
b=s.index("   Reading the table:")
s=s[:a]+tbl+"\n"+s[b:]
s=re.sub(r"   \d+ changes in (two|three|four|five|six|seven|eight|nine|ten|eleven|twelve|thirteen|fourteen) rounds \((the second round was told to avoid the place the first one used|each later round was told to avoid the places the earlier ones used)\): \*\*.*?\*\*\.",
  "   %d changes in fourteen rounds (each later round was told to avoid the places the earlier ones used): **%d detected as delivered, %d detected after a rule was added or a key corrected, %d missed**." % (det+late+miss,det,late,miss), s)
open('DESIGN.md','w').write(s)
print(det,late,miss)
