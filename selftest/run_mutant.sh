#!/bin/bash
# usage: run_mutant.sh <patch.diff> <Cxx> [expected-key-substring]
# Applies the patch to a scratch copy of /repo (outside /repo and /verif), runs the property's
# quick check against the copy and requires a VIOLATION (whose key contains the expected
# substring, when given). The scratch copy is removed afterwards.
set -u
PATCH=$(readlink -f "$1"); PROP=$2; EXPECT=${3:-}
SCR=$(mktemp -d /tmp/pvmut.XXXXXX)
trap 'rm -rf "$SCR"' EXIT
mkdir -p "$SCR/repo" "$SCR/verif"
rsync -a --exclude .git /repo/ "$SCR/repo/"
cp /verif/KNOWN-FINDINGS.txt "$SCR/verif/"
if ! (cd "$SCR/repo" && patch -p1 -s < "$PATCH"); then echo "MUTANT $(basename $PATCH): patch does not apply"; exit 2; fi
export GOFLAGS=-mod=mod GOPROXY=off GOSUMDB=off GOTOOLCHAIN=local
if ! (cd "$SCR/repo" && go build ./... 2>"$SCR/build.err"); then echo "MUTANT $(basename $PATCH): does not compile"; head -5 "$SCR/build.err"; exit 2; fi
OUT=$(PV_REPO="$SCR/repo" PV_VERIF="$SCR/verif" /verif/bin/pv check "$PROP" --tier quick 2>&1)
RC=$?
if [ $RC -eq 1 ] && echo "$OUT" | grep -q "^VIOLATION property=$PROP"; then
  if [ -n "$EXPECT" ] && ! echo "$OUT" | grep -E "^  (VIOLATED|UNDECIDED)" | grep -qF -- "$EXPECT"; then
    echo "MUTANT $(basename $PATCH): detected, but not at the expected construct ($EXPECT)"; echo "$OUT" | grep -E "^  (VIOLATED|UNDECIDED)" | head -5; exit 1
  fi
  echo "MUTANT $(basename $PATCH): DETECTED by $PROP"; echo "$OUT" | grep -E "^  (VIOLATED|UNDECIDED)" | head -3 | cut -c1-220
  exit 0
fi
echo "MUTANT $(basename $PATCH): MISSED by $PROP (exit $RC)"; echo "$OUT" | tail -3
exit 1
