#!/bin/bash
# Runs every hand-written mutant, every revert-of-fix mutant and every seeded change against the check of its
# property and prints one line per diff plus a summary. Each run uses its own scratch copy of /repo under /tmp which is
# removed afterwards; PAR of them run at a time (default 5). Usage: [PAR=n] selftest/run_all.sh [filter-regex]
cd /verif
F=${1:-.}
PAR=${PAR:-5}
one() {
  f=$1
  case "$f" in
    seeded/*) p=$(basename $(dirname $f) | cut -d- -f1);;
    *) p=$(basename $f | cut -d- -f1);;
  esac
  # a seed may be recorded against a different check than its property (see its meta.json "check")
  if [ -f "$(dirname $f)/meta.json" ]; then c=$(python3 -c "import json,sys;print(json.load(open(sys.argv[1]))['check'])" "$(dirname $f)/meta.json"); [ -n "$c" ] && p=$c; fi
  out=$(./selftest/run_mutant.sh "$f" "$p" 2>&1 | head -1)
  echo "$out" | sed "s#MUTANT patch.diff#MUTANT $f#"
}
export -f one
TMP=$(mktemp /tmp/pvrunall.XXXXXX)
ls selftest/mutants/*.diff seeded/*/patch.diff | grep -E "$F" | xargs -P "$PAR" -I{} bash -c 'one {}' | tee "$TMP"
ok=$(grep -c "DETECTED" "$TMP"); miss=$(grep -c "MISSED" "$TMP"); tot=$(wc -l < "$TMP")
echo "SUMMARY detected=$ok missed=$miss other=$((tot-ok-miss))"
rm -f "$TMP"
