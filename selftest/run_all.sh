#!/bin/bash
# Runs every hand-written mutant, every revert-of-fix mutant and every seeded change against the check of its
# property and prints one line per diff plus a summary. Each run uses a scratch copy of /repo under /tmp which is
# removed afterwards. Usage: selftest/run_all.sh [filter-regex]
cd /verif
F=${1:-.}
ok=0; miss=0; other=0
for f in selftest/mutants/*.diff seeded/*/patch.diff; do
  echo "$f" | grep -Eq "$F" || continue
  case "$f" in
    seeded/*) p=$(basename $(dirname $f) | cut -d- -f1);;
    *) p=$(basename $f | cut -d- -f1);;
  esac
  # a seed may be recorded against a different check than its property (see its meta.json "check")
  if [ -f "$(dirname $f)/meta.json" ]; then c=$(python3 -c "import json,sys;print(json.load(open(sys.argv[1]))['check'])" "$(dirname $f)/meta.json"); [ -n "$c" ] && p=$c; fi
  out=$(./selftest/run_mutant.sh "$f" "$p" 2>&1 | head -1)
  echo "$out" | sed "s#MUTANT patch.diff#MUTANT $f#"
  case "$out" in *DETECTED*) ok=$((ok+1));; *MISSED*) miss=$((miss+1));; *) other=$((other+1));; esac
done
echo "SUMMARY detected=$ok missed=$miss other=$other"
