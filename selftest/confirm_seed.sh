#!/bin/bash
# usage: confirm_seed.sh <Cxx> <worktree> [name]
# Confirms a seeded change produced in a scratch worktree: extracts the source patch and the demonstration test,
# applies the patch to a fresh scratch copy of /repo, requires: build ok, the stable baseline tests still pass,
# the demonstration fails with the patch and passes without it. Stores the result under /verif/seeded/<name>/.
set -u
PROP=$1; WT=$2; NAME=${3:-$PROP}
OUT=/verif/seeded/$NAME
mkdir -p "$OUT"
export GOFLAGS=-mod=mod GOPROXY=off GOSUMDB=off GOTOOLCHAIN=local
(cd "$WT" && git diff -- . ':!*zz_seeded_demo_test.go') > "$OUT/patch.diff"
[ -s "$OUT/patch.diff" ] || { echo "no source change in $WT"; exit 2; }
DEMOS=$(cd "$WT" && git status --porcelain | awk '{print $2}' | grep 'zz_seeded_demo_test.go$')
[ -n "$DEMOS" ] || { echo "no demo test in $WT"; exit 2; }
SCR=$(mktemp -d /tmp/cseed.XXXXXX)
trap 'rm -rf "$SCR"' EXIT
rsync -a --exclude .git /repo/ "$SCR/repo/"
cd "$SCR/repo"
if ! patch -p1 -s < "$OUT/patch.diff"; then echo "CONFIRM $NAME: patch does not apply to current /repo"; exit 2; fi
if ! go build ./... 2>"$SCR/build.err"; then echo "CONFIRM $NAME: does not compile"; head "$SCR/build.err"; exit 2; fi
go test -vet=off -count=1 -json ./... > "$SCR/test.json" 2>/dev/null
python3 - "$SCR/test.json" <<'PY' > "$SCR/base.txt"
import json,sys
passed=set()
for l in open(sys.argv[1]):
    try: e=json.loads(l)
    except: continue
    if e.get('Test') and e.get('Action')=='pass': passed.add(e['Package']+'::'+e['Test'])
sp=set(json.load(open('/root/.vp/BASELINE.json'))['stable_pass'])
miss=sorted(sp-passed)
print(len(sp&passed), len(sp), ' '.join(miss[:8]))
PY
read OKN ALLN MISS < "$SCR/base.txt"
if [ "$OKN" != "$ALLN" ]; then echo "CONFIRM $NAME: existing tests break ($OKN/$ALLN): $MISS"; exit 2; fi
RACE=""
DEMOOK=1
for d in $DEMOS; do
  mkdir -p "$OUT/demo/$(dirname $d)"; cp "$WT/$d" "$OUT/demo/$d"; cp "$WT/$d" "$SCR/repo/$d"
done
PKGS=$(for d in $DEMOS; do echo ./$(dirname $d); done | sort -u)
if grep -rqi "race" "$OUT/demo" 2>/dev/null; then RACE="-race"; fi
go test -vet=off -count=1 $RACE -run 'Seeded|seeded|ZZ|Zz|zz' $PKGS > "$SCR/demo_mut.txt" 2>&1; RC_MUT=$?
patch -p1 -R -s < "$OUT/patch.diff"
go test -vet=off -count=1 $RACE -run 'Seeded|seeded|ZZ|Zz|zz' $PKGS > "$SCR/demo_orig.txt" 2>&1; RC_ORIG=$?
echo "CONFIRM $NAME: build ok, baseline $OKN/$ALLN, demo with patch rc=$RC_MUT, without rc=$RC_ORIG (race flag: '$RACE')"
if [ $RC_MUT -eq 0 ] || [ $RC_ORIG -ne 0 ]; then
  echo "  demo does not discriminate"; tail -5 "$SCR/demo_mut.txt"; tail -5 "$SCR/demo_orig.txt"; exit 1
fi
grep -E "^(--- FAIL|panic|WARNING: DATA RACE|    )" "$SCR/demo_mut.txt" | head -5
exit 0
