#!/bin/bash
# usage: run_equivalent.sh <patch.diff> [Cxx ...]
# Applies a behaviour-preserving edit to a scratch copy of /repo (outside /repo and /verif) and requires every
# check (or the listed ones) to stay silent: exit 0 and no VIOLATION line. The scratch copy is removed afterwards.
set -u
PATCH=$(readlink -f "$1"); shift
PROPS=${*:-C01 C02 C03 C04 C05 C06 C07 C08 C09 C10 C11 C12 C13 C14 C15 C16 C17 C18 C19 C20}
SCR=$(mktemp -d /tmp/pveq.XXXXXX)
trap 'rm -rf "$SCR"' EXIT
mkdir -p "$SCR/repo" "$SCR/verif"
rsync -a --exclude .git /repo/ "$SCR/repo/"
cp /verif/KNOWN-FINDINGS.txt "$SCR/verif/"
if ! (cd "$SCR/repo" && patch -p1 -s < "$PATCH"); then echo "EQUIVALENT $(basename $PATCH): patch does not apply"; exit 2; fi
export GOFLAGS=-mod=mod GOPROXY=off GOSUMDB=off GOTOOLCHAIN=local
if ! (cd "$SCR/repo" && go build ./... 2>"$SCR/build.err"); then echo "EQUIVALENT $(basename $PATCH): does not compile"; head -5 "$SCR/build.err"; exit 2; fi
bad=""
for p in $PROPS; do
  OUT=$(PV_REPO="$SCR/repo" PV_VERIF="$SCR/verif" /verif/bin/pv check "$p" --tier quick 2>&1); RC=$?
  if [ $RC -ne 0 ] || echo "$OUT" | grep -q "^VIOLATION"; then
    bad="$bad $p"
    echo "EQUIVALENT $(basename $PATCH): FALSE ALARM by $p"; echo "$OUT" | grep -E "^  (VIOLATED|UNDECIDED)" | head -3 | cut -c1-240
  fi
done
[ -z "$bad" ] && { echo "EQUIVALENT $(basename $PATCH): silent ($PROPS)"; exit 0; }
exit 1
