#!/usr/bin/env python3
"""Regenerates MANIFEST.json from manifest_src.json (claims) — keeps the file valid at all times."""
import json, sys
src = json.load(open('/verif/manifest_src.json'))
props = [json.loads(l) for l in open('/verif/properties.jsonl')]
ids = [p['id'] for p in props]
checks = []
claimed = set()
for c in src['claims']:
    claimed.add(c['id'])
    checks.append({
        "property_id": c['id'],
        "quick_cmd": f"./bin/pv check {c['id']} --tier quick",
        "thorough_cmd": f"./bin/pv check {c['id']} --tier thorough",
        "evidence_file": f"/verif/evidence/{c['id']}.json",
        "replay_cmd_template": "./bin/pv explain {path}",
        "engine": c.get('engine', 'pv'),
        "level_claimed": {"category": c['level'], "text": c['text'], "design_ref": c.get('design_ref', 'DESIGN.md section 4')},
        "level_note": c['note'],
        "technique": c['technique'],
    })
na = []
for i in ids:
    if i not in claimed:
        na.append({"property_id": i, "reason": src['not_applicable'].get(i, "designed (DESIGN.md section 4) but its static check is not built yet; no claim is made")})
m = {
    "version": 1,
    "setup_cmd": "cd /verif/pv && GOFLAGS=-mod=mod GOPROXY=off GOSUMDB=off GOTOOLCHAIN=local GOWORK=off go build -o ../bin/pv ./cmd/pv",
    "hooks": {"guard": "verif", "enable": "no hooks are needed: every check analyses /repo's source as it is (go/packages + go/ssa); the build tag 'verif' is reserved and unused",
              "baseline_off_cmd": src['baseline_off_cmd'], "source_commits": [], "add_only": True},
    "engines": [dict(e, serves_properties=sorted(claimed)) if e.get("name") == "pv" else e for e in src['engines']],
    "checks": checks,
    "notes": src['notes'],
    "not_applicable": na,
}
json.dump(m, open('/verif/MANIFEST.json', 'w'), indent=1)
print("checks:", len(checks), "not_applicable:", len(na))
