package absint

import (
	"fmt"
	"go/constant"
	"go/token"
	"go/types"
	"os"
	"sort"
	"strings"

	"golang.org/x/tools/go/ssa"

	"pv/core"
)

var traceForks = os.Getenv("PV_TRACE") != ""

// Config tunes one interpretation run.
type Config struct {
	MaxDepth     int  // inline depth
	MaxStates    int  // states per block before joining
	MaxOutcomes  int  // distinct callee outcomes that continue separately in the caller
	Budget       int  // total block-state executions before failing closed
	CapRule      bool // report cap()/3-index/hi>len on input-derived slices (capacity dependence)
	DecodeLenCap bool // slices of input regions may not extend past len
	NilRule      bool // report dereference of possibly-nil pointers obtained from external decoding
	// Opaque decides that a module function is not inlined (its effects are havoc'ed).
	Opaque func(fn *ssa.Function) bool
	// Heavy functions: all states reaching a call to one are joined into a single state first
	// (bounds the number of times an expensive callee is interpreted; sound, loses path facts).
	Heavy func(fn *ssa.Function) bool
	// OnExternalCall is invoked for every call to a function without a module body (after argument evaluation).
	OnExternalCall func(site ssa.Instruction, name string, args []Value, h *Heap)
	// ZeroInit: integer arrays of at most this many elements start with known zero elements (0 = not tracked).
	ZeroInit int64
	// OnCall is invoked for every resolved call (module or external) after argument evaluation.
	OnCall func(site ssa.Instruction, callee *ssa.Function, args []Value, h *Heap)
	// JoinAtCall: states are joined before calling these, but the callee itself keeps the normal state bound.
	JoinAtCall func(fn *ssa.Function) bool
	// Modular functions are verified once for arbitrary arguments (as their own root) and are
	// opaque at their call sites; every one encountered is recorded in Interp.ModularSeen.
	Modular func(fn *ssa.Function) bool
}

// Finding is one evaluated obligation instance.
type Finding struct {
	Site    ssa.Instruction
	Kind    string // slice-lo, slice-hi, slice-max, slice-len, index, toarray, extern-len, div, typeassert, panic, nil, cap, makeslice
	OK      bool
	Detail  string
	Basis   string
	Stack   []*ssa.Function
	Trail   []string
	Undecid bool
}

type Outcome struct {
	Ret      Value
	H        *Heap
	Panicked bool
	Trail    []string
}

type Interp struct {
	P           *core.Program
	Atoms       *AtomTable
	Cfg         Config
	regionN     int
	cellN       int
	emptyReg    *Region
	stack       []*ssa.Function
	steps       int
	Exceeded    bool
	Notes       map[string]int // externals encountered (assumed not to panic), joins, havocs
	sink        func(Finding)
	bufs        [][]Finding // loop-iteration buffers
	globals     map[*ssa.Global]*Cell
	gslice      map[*ssa.Global]int64 // constant length of never-reassigned global slices
	gstrMax     map[*ssa.Global]int64 // longest string literal of a never-reassigned global []string table
	regStrMax   map[*Region]int64
	gerr        map[*ssa.Global]bool // sentinel error globals (single init store from errors.New/fmt.Errorf)
	fieldLen    map[string]int64     // struct fields of slice type only ever assigned make([]T, const)
	poolType    map[*ssa.Global]types.Type
	instance    int
	StepsByFn   map[string]int // debug histogram
	ModularSeen map[*ssa.Function]bool
	roMemo      map[roKey]int
	// LoopFacts: per loop head, whether a ranking function was established in every context analysed.
	LoopFacts map[*ssa.BasicBlock]*LoopFact
}

// LoopFact records the termination argument found for a loop (conjunction over all contexts).
type LoopFact struct {
	Contexts   int
	Terminates bool
	Why        string
}

func New(p *core.Program, cfg Config, sink func(Finding)) *Interp {
	if cfg.MaxDepth == 0 {
		cfg.MaxDepth = 10
	}
	if cfg.MaxStates == 0 {
		cfg.MaxStates = 96
	}
	if cfg.Budget == 0 {
		cfg.Budget = 400000
	}
	in := &Interp{P: p, Atoms: NewAtomTable(), Cfg: cfg, Notes: map[string]int{}, sink: sink, globals: map[*ssa.Global]*Cell{}, LoopFacts: map[*ssa.BasicBlock]*LoopFact{}, ModularSeen: map[*ssa.Function]bool{}}
	in.emptyReg = in.newRegion("empty", false)
	in.scanGlobals()
	return in
}

func (in *Interp) emit(f Finding) {
	f.Stack = append([]*ssa.Function(nil), in.stack...)
	if n := len(in.bufs); n > 0 {
		in.bufs[n-1] = append(in.bufs[n-1], f)
		return
	}
	in.sink(f)
}

// check evaluates goal >= 0 in state s and records the obligation.
func (in *Interp) check(s *State, site ssa.Instruction, kind string, goal Lin, what string) bool {
	ok := s.h.entails(goal)
	f := Finding{Site: site, Kind: kind, OK: ok}
	if ok {
		f.Basis = what + " holds: " + goal.String() + " >= 0"
	} else {
		f.Detail = fmt.Sprintf("%s not entailed: need %s >= 0; facts: %s", what, goal.String(), factsStr(s.h.facts, goal))
		f.Trail = append([]string(nil), s.trail...)
	}
	in.emit(f)
	if !ok {
		// the program would have panicked otherwise: assume it for the continuation
		s.h.addFact(goal)
	}
	return ok
}

func factsStr(fs []Lin, goal Lin) string {
	// show only facts sharing an atom with the goal (transitively one step)
	rel := map[*Atom]bool{}
	for a := range goal.T {
		rel[a] = true
	}
	var out []string
	for _, f := range fs {
		for a := range f.T {
			if rel[a] {
				out = append(out, f.String()+">=0")
				break
			}
		}
	}
	if len(out) == 0 {
		return "(none relevant)"
	}
	if len(out) > 8 {
		out = out[:8]
	}
	return strings.Join(out, " ; ")
}

// ---------------- function execution ----------------

type edgeState struct {
	from, to *ssa.BasicBlock
	st       *State
}

type fnExec struct {
	recEntry map[int]recSnap // self-recursive function: entry length of slices behind pointer parameters
	in       *Interp
	fn       *ssa.Function
	cfg      *core.FuncCFG
	rpo      []*ssa.BasicBlock
	rpoIdx   map[*ssa.BasicBlock]int
	loops    []*core.Loop
	parent   map[*core.Loop]*core.Loop
	outs     []Outcome
	inst     int
}

type recSnap struct {
	cell *Cell
	path []int
	len  Lin
}

func hasSelfCall(fn *ssa.Function) bool {
	found := false
	core.EachInstr(fn, func(i ssa.Instruction) {
		if c, ok := i.(ssa.CallInstruction); ok && c.Common().StaticCallee() == fn {
			found = true
		}
	})
	return found
}

// Exec interprets fn on args from heap h and returns all outcomes (returns and panics).
func (in *Interp) Exec(fn *ssa.Function, args []Value, bind []Value, h *Heap) []Outcome {
	if fn.Blocks == nil {
		return []Outcome{{Ret: in.unknownOf(resultType(fn.Signature), "ext:"+fn.Name(), true), H: h}}
	}
	in.stack = append(in.stack, fn)
	defer func() { in.stack = in.stack[:len(in.stack)-1] }()
	if in.StepsByFn != nil {
		in.StepsByFn["CALLS "+fn.String()]++
	}
	in.instance++
	x := &fnExec{in: in, fn: fn, cfg: core.CFG(fn), inst: in.instance}
	x.computeRPO()
	x.loops = x.cfg.Loops()
	x.parent = map[*core.Loop]*core.Loop{}
	for _, l := range x.loops {
		var best *core.Loop
		for _, o := range x.loops {
			if o != l && o.Blocks[l.Head] && len(o.Blocks) > len(l.Blocks) {
				if best == nil || len(o.Blocks) < len(best.Blocks) {
					best = o
				}
			}
		}
		x.parent[l] = best
	}
	st := &State{env: map[ssa.Value]Value{}, h: h}
	for i, p := range fn.Params {
		if i < len(args) && args[i] != nil {
			st.env[p] = args[i]
		} else {
			st.env[p] = in.unknownOf(p.Type(), "param:"+p.Name(), false)
		}
	}
	for i, fv := range fn.FreeVars {
		if i < len(bind) && bind[i] != nil {
			st.env[fv] = bind[i]
		} else {
			st.env[fv] = in.unknownOf(fv.Type(), "free:"+fv.Name(), false)
		}
	}
	if hasSelfCall(fn) {
		// inductive hypothesis for the summarised recursive calls: a slice behind a pointer
		// parameter only grows (append); checked at every return of this activation
		x.recEntry = map[int]recSnap{}
		for i, p := range fn.Params {
			if pv, ok := st.env[p].(PtrV); ok && pv.Cell != nil {
				if root, ok := h.mem[pv.Cell]; ok {
					if sv, ok := getPath(root, pv.Path).(SliceV); ok {
						x.recEntry[i] = recSnap{pv.Cell, pv.Path, sv.Len}
					}
				}
			}
		}
	}
	inm := map[*ssa.BasicBlock][]*State{fn.Blocks[0]: {st}}
	exits, backs := x.run(x.rpo, inm, nil)
	_ = exits
	_ = backs
	return x.outs
}

func resultType(sig *types.Signature) types.Type {
	switch sig.Results().Len() {
	case 0:
		return nil
	case 1:
		return sig.Results().At(0).Type()
	}
	return sig.Results()
}

func (x *fnExec) computeRPO() {
	seen := map[*ssa.BasicBlock]bool{}
	var post []*ssa.BasicBlock
	var dfs func(b *ssa.BasicBlock)
	dfs = func(b *ssa.BasicBlock) {
		seen[b] = true
		for _, s := range b.Succs {
			if !seen[s] {
				dfs(s)
			}
		}
		post = append(post, b)
	}
	dfs(x.fn.Blocks[0])
	x.rpoIdx = map[*ssa.BasicBlock]int{}
	for i := len(post) - 1; i >= 0; i-- {
		x.rpoIdx[post[i]] = len(x.rpo)
		x.rpo = append(x.rpo, post[i])
	}
}

// childLoopOf returns the direct child loop of cur that contains b (nil if none).
func (x *fnExec) childLoopOf(cur *core.Loop, b *ssa.BasicBlock) *core.Loop {
	var best *core.Loop
	for _, l := range x.loops {
		if l == cur || !l.Blocks[b] {
			continue
		}
		if x.parent[l] == cur {
			if best == nil || len(l.Blocks) > len(best.Blocks) {
				best = l
			}
		}
	}
	return best
}

// run processes blocks (in RPO) of the region owned by loop cur (nil = whole function).
func (x *fnExec) run(blocks []*ssa.BasicBlock, inm map[*ssa.BasicBlock][]*State, cur *core.Loop) (exits, backs []edgeState) {
	in := x.in
	route := func(from, to *ssa.BasicBlock, st *State) {
		st.pred = from
		st.phiDone = false
		if cur != nil && to == cur.Head {
			backs = append(backs, edgeState{from, to, st})
			return
		}
		if cur != nil && !cur.Blocks[to] {
			exits = append(exits, edgeState{from, to, st})
			return
		}
		inm[to] = append(inm[to], st)
	}
	for _, b := range blocks {
		states := inm[b]
		if len(states) == 0 {
			continue
		}
		delete(inm, b)
		if child := x.childLoopOf(cur, b); child != nil {
			if b != child.Head {
				// entered a loop not through its head: irreducible; fail closed
				in.emit(Finding{Site: b.Instrs[0], Kind: "analysis", Undecid: true, Detail: "irreducible control flow (loop entered not through its head)"})
				continue
			}
			for _, es := range x.doLoop(child, states) {
				route(es.from, es.to, es.st)
			}
			continue
		}
		states = x.prepareBlock(b, states)
		in.steps += len(states)
		if in.StepsByFn != nil {
			in.StepsByFn[x.fn.String()] += len(states)
		}
		if in.steps > in.Cfg.Budget {
			if !in.Exceeded {
				in.Exceeded = true
				in.emit(Finding{Site: b.Instrs[0], Kind: "analysis", Undecid: true, Detail: "state budget exhausted"})
			}
			return
		}
		x.execBlock(b, states, route)
	}
	return
}

// prepareBlock evaluates φs, prunes the environment to dominating definitions, de-duplicates and joins.
func (x *fnExec) prepareBlock(b *ssa.BasicBlock, states []*State) []*State {
	in := x.in
	for _, st := range states {
		if st.phiDone {
			continue
		}
		var vals []Value
		var phis []*ssa.Phi
		for _, ins := range b.Instrs {
			phi, ok := ins.(*ssa.Phi)
			if !ok {
				break
			}
			idx := -1
			for i, p := range b.Preds {
				if p == st.pred {
					idx = i
					break
				}
			}
			var v Value
			if idx >= 0 {
				v = x.eval(st, phi.Edges[idx])
			} else {
				v = in.unknownOf(phi.Type(), "phi", false)
			}
			phis = append(phis, phi)
			vals = append(vals, v)
		}
		for i, phi := range phis {
			st.env[phi] = vals[i]
		}
		st.phiDone = true
	}
	keep := func(v ssa.Value) bool {
		switch d := v.(type) {
		case *ssa.Parameter, *ssa.FreeVar:
			return true
		case ssa.Instruction:
			db := d.Block()
			return db == b || db.Dominates(b)
		}
		return true
	}
	if len(states) > 1 || len(b.Preds) > 1 {
		for _, st := range states {
			for k := range st.env {
				if !keep(k) {
					delete(st.env, k)
				}
			}
			for k, bf := range st.bools {
				if !keep(bf.def) {
					delete(st.bools, k)
				}
			}
		}
	}
	if len(states) > 1 {
		seen := map[string]bool{}
		var out []*State
		for _, st := range states {
			fp := st.fingerprint(nil)
			if seen[fp] {
				continue
			}
			seen[fp] = true
			out = append(out, st)
		}
		states = out
	}
	limit := in.Cfg.MaxStates
	if in.Cfg.Heavy != nil && in.Cfg.Heavy(x.fn) {
		limit = 3
	}
	if len(states) > limit {
		in.Notes["join: state set joined at block (precision loss, sound)"]++
		states = []*State{x.joinStates(states)}
	}
	return states
}

// joinStates merges states into one: differing values become unknown, facts are intersected.
func (x *fnExec) joinStates(states []*State) *State {
	in := x.in
	base := states[0].fork()
	for _, o := range states[1:] {
		var pend []Lin // facts about freshly joined values, added after the fact intersection
		for k, v := range base.env {
			ov, ok := o.env[k]
			if !ok {
				base.env[k] = in.unknownOf(k.Type(), "join", false)
			} else {
				base.env[k] = in.joinValueH(v, ov, k.Type(), base.h, o.h, &pend)
			}
		}
		for c, v := range base.h.mem {
			ov, ok := o.h.mem[c]
			if !ok {
				base.h.mem[c] = in.unknownOf(c.T, "join", false)
			} else {
				base.h.mem[c] = in.joinValueH(v, ov, c.T, base.h, o.h, &pend)
			}
		}
		var nf []Lin
		for _, f := range base.h.facts {
			for _, g := range o.h.facts {
				if f.Equal(g) {
					nf = append(nf, f)
					break
				}
			}
		}
		base.h.facts = nf
		for _, f := range pend {
			base.h.addFact(f)
		}
		base.h.neqs = nil
		for k, v := range base.bools {
			if ov, ok := o.bools[k]; !ok || ov.val != v.val {
				delete(base.bools, k)
			}
		}
		for r, v := range o.h.regver {
			if base.h.regver[r] != v {
				// make a version no state has used
				in.instance++
				base.h.regver[r] = 1000000 + in.instance
			}
		}
		joinKnown(base.h, o.h)
		if len(o.defers) != len(base.defers) {
			base.defers = nil
		}
	}
	base.trail = append(base.trail, "(joined)")
	return base
}

// joinKnown keeps only the known elements on which both heaps agree.
func joinKnown(base, o *Heap) {
	for r, ks := range base.known {
		os := o.known[r]
		var nk []knownElem
		for _, k := range ks {
			for _, ok := range os {
				if ok.off == k.off && ok.val.Equal(k.val) {
					nk = append(nk, k)
					break
				}
			}
		}
		if len(nk) == 0 {
			delete(base.known, r)
		} else {
			base.known[r] = nk
		}
	}
}

// glb returns the greatest constant c in [0, 65536] with h ⊢ l >= c (binary search), or -1.
func glb(h *Heap, l Lin) int64 {
	if lo, _ := l.Bounds(); lo >= 65536 {
		return 65536
	}
	if !h.entails(l) {
		return -1
	}
	lo, hi := int64(0), int64(65536)
	for lo < hi {
		mid := (lo + hi + 1) / 2
		if h.entails(l.AddC(-mid)) {
			lo = mid
		} else {
			hi = mid - 1
		}
	}
	return lo
}

// joinValueH is joinValue with access to both heaps: when two slices of the same region are
// joined, the common constant lower bound of their lengths is carried over to the fresh length.
func (in *Interp) joinValueH(a, b Value, t types.Type, ha, hb *Heap, pend *[]Lin) Value {
	if valuesEqual(a, b) {
		return a
	}
	if sa, ok := a.(StructV); ok {
		if sb, ok := b.(StructV); ok && len(sa.F) == len(sb.F) && t != nil {
			if st, ok := t.Underlying().(*types.Struct); ok && st.NumFields() == len(sa.F) {
				n := StructV{F: make([]Value, len(sa.F))}
				for i := range sa.F {
					n.F[i] = in.joinValueH(sa.F[i], sb.F[i], st.Field(i).Type(), ha, hb, pend)
				}
				return n
			}
		}
	}
	if ia, ok := a.(IntV); ok {
		if ib, ok := b.(IntV); ok && t != nil {
			// carry the common constant lower bound (when non-negative) over to the fresh value
			res := in.unknownOf(t, "join", false)
			if rv, ok := res.(IntV); ok {
				la, lb := glb(ha, ia.L), glb(hb, ib.L)
				m := la
				if lb < m {
					m = lb
				}
				if m >= 0 {
					*pend = append(*pend, rv.L.AddC(-m))
				}
			}
			return res
		}
	}
	va, ok1 := a.(SliceV)
	vb, ok2 := b.(SliceV)
	if ok1 && ok2 && va.Str == nil && vb.Str == nil && !va.IsString && !vb.IsString {
		// nil joined with a definitely non-nil slice: "nil or that slice" (its facts stay valid for the non-nil case)
		nilOr := func(sv SliceV, h *Heap) Value {
			// fresh length/capacity symbols: only the constant lower bound is carried over, so the
			// facts are valid in the joined state whichever side it came from
			m := glb(h, sv.Len)
			if m < 0 {
				m = 0
			}
			ln := in.Atoms.Fresh("len:nilor", m, PosInf)
			cp := in.Atoms.Fresh("cap:nilor", m, PosInf)
			cp.Defs = []Lin{AtomLin(cp).Sub(AtomLin(ln))}
			ln.Defs = []Lin{AtomLin(cp).Sub(AtomLin(ln))}
			return SliceV{Reg: sv.Reg, Off: sv.Off, Len: AtomLin(ln), Cap: AtomLin(cp), NilOr: true}
		}
		if va.IsNil && !vb.IsNil && (!vb.MaybeNil || vb.NilOr) && vb.Reg != nil {
			return nilOr(vb, hb)
		}
		if vb.IsNil && !va.IsNil && (!va.MaybeNil || va.NilOr) && va.Reg != nil {
			return nilOr(va, ha)
		}
	}
	if ok1 && ok2 && !va.IsNil && !vb.IsNil && va.Reg != nil && vb.Reg != nil && va.Str == nil && vb.Str == nil {
		res := in.joinValue(a, b, t)
		if rs, ok := res.(SliceV); ok {
			la, lb := glb(ha, va.Len), glb(hb, vb.Len)
			if traceForks {
				fmt.Printf("[joinslice] %s | %s -> glb %d %d stack=%d\n", va.vstr(), vb.vstr(), la, lb, len(in.stack))
			}
			m := la
			if lb < m {
				m = lb
			}
			if m > 0 {
				*pend = append(*pend, rs.Len.AddC(-m))
			}
			if va.Reg == vb.Reg && va.Off.Equal(vb.Off) {
				rs.Off = va.Off
				res = rs
			}
			if va.Reg == vb.Reg && va.Off.Add(va.Cap).Equal(vb.Off.Add(vb.Cap)) {
				// both windows end at the same place of the backing array (reslicing keeps off+cap)
				rs.Cap = va.Off.Add(va.Cap).Sub(rs.Off)
				*pend = append(*pend, rs.Cap.Sub(rs.Len))
				res = rs
			}
			if !va.MaybeNil && !vb.MaybeNil {
				rs.MaybeNil = false
				res = rs
			}
			if va.NilOr || vb.NilOr {
				rs.NilOr = true
				rs.MaybeNil = false
				res = rs
			}
		}
		return res
	}
	return in.joinValue(a, b, t)
}

// joinValue joins two abstract values field-wise.
func (in *Interp) joinValue(a, b Value, t types.Type) Value {
	if valuesEqual(a, b) {
		return a
	}
	sa, ok1 := a.(StructV)
	sb, ok2 := b.(StructV)
	if ok1 && ok2 && len(sa.F) == len(sb.F) && t != nil {
		if st, ok := t.Underlying().(*types.Struct); ok && st.NumFields() == len(sa.F) {
			n := StructV{F: make([]Value, len(sa.F))}
			for i := range sa.F {
				n.F[i] = in.joinValue(sa.F[i], sb.F[i], st.Field(i).Type())
			}
			return n
		}
	}
	ta, ok1 := a.(TupleV)
	tb, ok2 := b.(TupleV)
	if ok1 && ok2 && len(ta.F) == len(tb.F) && t != nil {
		if tt, ok := t.(*types.Tuple); ok && tt.Len() == len(ta.F) {
			n := TupleV{F: make([]Value, len(ta.F))}
			for i := range ta.F {
				n.F[i] = in.joinValue(ta.F[i], tb.F[i], tt.At(i).Type())
			}
			return n
		}
	}
	if ia, ok := a.(IfaceV); ok {
		if ib, ok := b.(IfaceV); ok && ia.Nil == ib.Nil {
			return IfaceV{Nil: ia.Nil}
		}
	}
	if pa, ok := a.(PtrV); ok {
		if pb, ok := b.(PtrV); ok && pa.Nil == pb.Nil && pa.Cell == nil && pb.Cell == nil && pa.Reg == nil && pb.Reg == nil {
			return PtrV{Nil: pa.Nil, T: pa.T}
		}
	}
	va, ok1 := a.(SliceV)
	vb, ok2 := b.(SliceV)
	if ok1 && ok2 && va.Reg == vb.Reg && va.Reg != nil && !va.IsNil && !vb.IsNil {
		// same backing region: keep it, forget the window
		off := in.Atoms.Fresh("off:join", 0, PosInf)
		ln := in.Atoms.Fresh("len:join", 0, PosInf)
		cp := in.Atoms.Fresh("cap:join", 0, PosInf)
		cp.Defs = []Lin{AtomLin(cp).Sub(AtomLin(ln))}
		ln.Defs = []Lin{AtomLin(cp).Sub(AtomLin(ln))}
		return SliceV{Reg: va.Reg, Off: AtomLin(off), Len: AtomLin(ln), Cap: AtomLin(cp), IsString: va.IsString, MaybeNil: va.MaybeNil || vb.MaybeNil}
	}
	if t == nil {
		return Top{}
	}
	return in.unknownOf(t, "join", false)
}

// ---------------- loops (havoc + Houdini-style candidate invariants) ----------------

type candidate struct {
	phi   *ssa.Phi
	desc  string
	upper bool // φ <= loop-invariant bound
	lower bool // φ >= loop-invariant bound
	// build returns the Lin (>=0) for the candidate given the abstract value of the φ
	build func(v Value) (Lin, bool)
}

func (x *fnExec) doLoop(l *core.Loop, entry []*State) []edgeState {
	in := x.in
	entry = x.prepareBlock(l.Head, entry)
	var lblocks []*ssa.BasicBlock
	for _, b := range x.rpo {
		if l.Blocks[b] {
			lblocks = append(lblocks, b)
		}
	}
	var phis []*ssa.Phi
	for _, ins := range l.Head.Instrs {
		if p, ok := ins.(*ssa.Phi); ok {
			phis = append(phis, p)
		} else {
			break
		}
	}
	var allExits []edgeState
	startCell, startReg := in.cellN, in.regionN
	atomMark := in.Atoms.Mark()
	for _, e := range entry {
		// candidates per entry state
		cands := x.genCandidates(l, phis, e)
		havocCells := map[*Cell]bool{}
		droppedHyp := map[string]bool{}
		noGrow := map[*Cell]bool{}
		lostKnown := map[*Region]map[int64]bool{}
		havocRegs := map[*Region]bool{}
		keepRegion := map[*ssa.Phi]bool{}
		for _, p := range phis {
			keepRegion[p] = true
		}
		for iter := 0; ; iter++ {
			if iter > 12 {
				in.emit(Finding{Site: l.Head.Instrs[0], Kind: "analysis", Undecid: true, Detail: "loop invariant inference did not stabilise"})
				break
			}
			st := e.fork()
			st.phiDone = true
			// havoc φs
			for _, p := range phis {
				ev := e.env[p]
				nv := in.unknownOf(p.Type(), "loop:"+p.Name(), false)
				if sv, ok := ev.(SliceV); ok && keepRegion[p] {
					if nsv, ok2 := nv.(SliceV); ok2 {
						nsv.Reg = sv.Reg
						nsv.IsString = sv.IsString
						// offset unknown but non-negative
						off := in.Atoms.Fresh("off:"+p.Name(), 0, PosInf)
						nsv.Off = AtomLin(off)
						nv = nsv
					}
				}
				st.env[p] = nv
			}
			for c := range havocCells {
				nv := x.havocValue(e.h.mem[c], c.T)
				// candidate invariant for slices held in cells: the length only grows (append)
				if ev, ok := e.h.mem[c].(SliceV); ok && !noGrow[c] {
					if sv, ok := nv.(SliceV); ok {
						st.h.addFact(sv.Len.Sub(ev.Len))
					}
				}
				// candidate invariants for integer fields of cells: never below the entry value, and
				// inside the entry value's interval
				cc := c
				walkIntLeaves(e.h.mem[c], nv, "", func(path string, ev, hv IntV) {
					key := fmt.Sprintf("%d/%s", cc.ID, path)
					if !droppedHyp[key+"/mono"] {
						st.h.addFact(hv.L.Sub(ev.L))
					}
					lo, hi := ev.L.Bounds()
					if hi < PosInf && !droppedHyp[key+"/hi"] {
						st.h.addFact(Const(hi).Sub(hv.L))
					}
					if lo > NegInf && !droppedHyp[key+"/lo"] {
						st.h.addFact(hv.L.AddC(-lo))
					}
					// growth rate relative to an integer loop counter: L - L0 <= k*(φ - φ0), L - L0 >= k*(φ - φ0)
					for _, p := range phis {
						if len(arrayLens(cc.T)) == 0 {
							break // only for an index kept beside its array (a cursor into a buffer)
						}
						pv, ok1 := st.env[p].(IntV)
						p0, ok2 := e.env[p].(IntV)
						if !ok1 || !ok2 {
							continue
						}
						d := pv.L.Sub(p0.L)
						for _, k := range rateKs {
							ku := fmt.Sprintf("%s/up%d/%s", key, k, p.Name())
							if !droppedHyp[ku] {
								st.h.addFact(d.Scale(k).Sub(hv.L.Sub(ev.L)))
							}
							kl := fmt.Sprintf("%s/dn%d/%s", key, k, p.Name())
							if !droppedHyp[kl] {
								st.h.addFact(hv.L.Sub(ev.L).Sub(d.Scale(k)))
							}
						}
					}
					// an index into a sibling array: stays <= the array length
					for _, n := range arrayLens(cc.T) {
						k := fmt.Sprintf("%s/le%d", key, n)
						if _, tried := droppedHyp[k]; !tried {
							droppedHyp[k] = !e.h.entails(Const(n).Sub(ev.L))
						}
						if !droppedHyp[k] {
							st.h.addFact(Const(n).Sub(hv.L))
						}
					}
				})
				st.h.mem[c] = nv
			}
			for r := range havocRegs {
				in.writeRegion(st.h, r, nil, nil, 2000000)
				// known elements that no iteration overwrites stay known
				for _, k := range e.h.known[r] {
					if !lostKnown[r][k.off] {
						st.h.setKnown(r, k.off, k.val)
					}
				}
			}
			for _, c := range cands {
				if lin, ok := c.build(st.env[c.phi]); ok {
					st.h.addFact(lin)
				}
			}
			in.bufs = append(in.bufs, nil)
			outsBefore := len(x.outs)
			exits, backs := x.run(lblocks, map[*ssa.BasicBlock][]*State{l.Head: {st}}, l)
			buf := in.bufs[len(in.bufs)-1]
			in.bufs = in.bufs[:len(in.bufs)-1]
			// check candidates and memory stability on back edges
			changed := false
			if iter == 0 {
				if extra := x.harvestCandidates(l, phis, e, st, backs, atomMark); len(extra) > 0 {
					cands = append(cands, extra...)
					changed = true
				}
			}
			for _, be := range backs {
				idx := -1
				for i, p := range l.Head.Preds {
					if p == be.from {
						idx = i
					}
				}
				if idx < 0 {
					continue
				}
				var kept []candidate
				for _, c := range cands {
					nv := x.eval(be.st, c.phi.Edges[idx])
					lin, ok := c.build(nv)
					if ok && be.st.h.entails(lin) {
						kept = append(kept, c)
					} else {
						changed = true
					}
				}
				cands = kept
				for _, p := range phis {
					if !keepRegion[p] {
						continue
					}
					if sv, ok := e.env[p].(SliceV); ok {
						nv, ok2 := x.eval(be.st, p.Edges[idx]).(SliceV)
						if !ok2 || nv.Reg != sv.Reg {
							keepRegion[p] = false
							changed = true
						}
					}
				}
				for c := range havocCells {
					if noGrow[c] {
						continue
					}
					ev, ok1 := e.h.mem[c].(SliceV)
					bv, ok2 := be.st.h.mem[c].(SliceV)
					hv, ok3 := st.h.mem[c].(SliceV)
					_ = ev
					if ok1 && (!ok2 || !ok3 || !be.st.h.entails(bv.Len.Sub(hv.Len))) {
						// not monotone w.r.t. the head value: drop the growth hypothesis
						noGrow[c] = true
						changed = true
					}
				}
				for c := range havocCells {
					cc := c
					bv := be.st.h.mem[c]
					walkIntLeaves(e.h.mem[c], st.h.mem[c], "", func(path string, ev, hv IntV) {
						key := fmt.Sprintf("%d/%s", cc.ID, path)
						back, ok := leafAt(bv, path)
						drop := func(k string) {
							if !droppedHyp[key+k] {
								droppedHyp[key+k] = true
								changed = true
							}
						}
						if !ok {
							drop("/mono")
							drop("/hi")
							drop("/lo")
							return
						}
						if !droppedHyp[key+"/mono"] && !be.st.h.entails(back.L.Sub(hv.L)) {
							drop("/mono")
						}
						lo, hi := ev.L.Bounds()
						if hi < PosInf && !droppedHyp[key+"/hi"] && !be.st.h.entails(Const(hi).Sub(back.L)) {
							drop("/hi")
						}
						if lo > NegInf && !droppedHyp[key+"/lo"] && !be.st.h.entails(back.L.AddC(-lo)) {
							drop("/lo")
						}
						for _, n := range arrayLens(cc.T) {
							k := fmt.Sprintf("/le%d", n)
							if !droppedHyp[key+k] && !be.st.h.entails(Const(n).Sub(back.L)) {
								drop(k)
							}
						}
						for _, p := range phis {
							if len(arrayLens(cc.T)) == 0 {
								break
							}
							p0, ok2 := e.env[p].(IntV)
							if _, ok1 := st.env[p].(IntV); !ok1 || !ok2 {
								continue
							}
							pn, ok := x.eval(be.st, p.Edges[idx]).(IntV)
							for _, k := range rateKs {
								ku := fmt.Sprintf("/up%d/%s", k, p.Name())
								kl := fmt.Sprintf("/dn%d/%s", k, p.Name())
								if !ok {
									drop(ku)
									drop(kl)
									continue
								}
								d := pn.L.Sub(p0.L)
								if !droppedHyp[key+ku] && !be.st.h.entails(d.Scale(k).Sub(back.L.Sub(ev.L))) {
									drop(ku)
								}
								if !droppedHyp[key+kl] && !be.st.h.entails(back.L.Sub(ev.L).Sub(d.Scale(k))) {
									drop(kl)
								}
							}
						}
					})
				}
				for c, v := range be.st.h.mem {
					if havocCells[c] || c.ID > startCell {
						continue
					}
					if ev, ok := e.h.mem[c]; ok && !valuesEqual(ev, v) {
						havocCells[c] = true
						changed = true
					}
				}
				for r, ks := range e.h.known {
					bk := be.st.h.known[r]
					for _, k := range ks {
						if lostKnown[r][k.off] {
							continue
						}
						found := false
						for _, k2 := range bk {
							if k2.off == k.off && k2.val.Equal(k.val) {
								found = true
							}
						}
						if !found {
							if lostKnown[r] == nil {
								lostKnown[r] = map[int64]bool{}
							}
							lostKnown[r][k.off] = true
							havocRegs[r] = true
							changed = true
						}
					}
				}
				for r, v := range be.st.h.regver {
					if r.ID > startReg {
						continue
					}
					if !havocRegs[r] && e.h.regver[r] != v {
						havocRegs[r] = true
						changed = true
					}
				}
			}
			if changed {
				x.outs = x.outs[:outsBefore]
				continue
			}
			// stable: record the termination argument, then commit
			x.recordProgress(l, phis, st, backs, cands, keepRegion)
			for _, f := range buf {
				if n := len(in.bufs); n > 0 {
					in.bufs[n-1] = append(in.bufs[n-1], f)
				} else {
					in.sink(f)
				}
			}
			allExits = append(allExits, exits...)
			break
		}
	}
	return allExits
}

// harvestCandidates derives bound candidates for integer φs from the facts that hold on the
// back edges of a first (un-strengthened) pass: a fact g - h >= 0 about the φ's head atom h
// with g loop-invariant suggests the invariants φ <= g and φ <= g+1 (and symmetrically).
func (x *fnExec) harvestCandidates(l *core.Loop, phis []*ssa.Phi, e *State, head *State, backs []edgeState, mark int) []candidate {
	var out []candidate
	seen := map[string]bool{}
	for _, p := range phis {
		p := p
		hv, ok := head.env[p].(IntV)
		if !ok || len(hv.L.T) != 1 || hv.L.C != 0 {
			continue
		}
		var h *Atom
		for a, k := range hv.L.T {
			if k == 1 {
				h = a
			}
		}
		if h == nil {
			continue
		}
		init, ok := e.env[p].(IntV)
		if !ok {
			continue
		}
		for _, be := range backs {
			for _, f := range be.st.h.facts {
				k := f.T[h]
				if k != 1 && k != -1 {
					continue
				}
				g := f.Sub(AtomLin(h).Scale(k)) // f = g + k*h
				inv := true
				for a := range g.T {
					if !a.InvariantSince(mark) {
						inv = false
						break
					}
				}
				if !inv {
					continue
				}
				for _, c := range []int64{0, 1, 2} {
					var desc string
					var bound Lin
					upper := k == -1
					if upper {
						bound = g.AddC(c) // φ <= g + c
						desc = p.Name() + " <= " + bound.String()
					} else {
						bound = g.Neg().AddC(-c) // g + h >= 0  =>  φ >= -g - c
						desc = p.Name() + " >= " + bound.String()
					}
					if seen[desc] || len(out) > 16 {
						continue
					}
					seen[desc] = true
					var holds bool
					if upper {
						holds = e.h.entails(bound.Sub(init.L))
					} else {
						holds = e.h.entails(init.L.Sub(bound))
					}
					if !holds {
						continue
					}
					b := bound
					if upper {
						out = append(out, candidate{phi: p, upper: true, desc: desc, build: func(v Value) (Lin, bool) {
							iv, ok := v.(IntV)
							if !ok {
								return Lin{}, false
							}
							return b.Sub(iv.L), true
						}})
					} else {
						out = append(out, candidate{phi: p, lower: true, desc: desc, build: func(v Value) (Lin, bool) {
							iv, ok := v.(IntV)
							if !ok {
								return Lin{}, false
							}
							return iv.L.Sub(b), true
						}})
					}
				}
			}
		}
	}
	return out
}

// recordProgress looks for a ranking function: an integer φ that strictly increases on every
// back edge and has a retained upper-bound invariant (or symmetric), or a slice φ whose length
// strictly decreases on every back edge (len >= 0 is inherent).
func (x *fnExec) recordProgress(l *core.Loop, phis []*ssa.Phi, head *State, backs []edgeState, cands []candidate, keepRegion map[*ssa.Phi]bool) {
	in := x.in
	lf := in.LoopFacts[l.Head]
	if lf == nil {
		lf = &LoopFact{Terminates: true}
		in.LoopFacts[l.Head] = lf
	}
	lf.Contexts++
	if len(backs) == 0 {
		if lf.Why == "" {
			lf.Why = "no feasible back edge"
		}
		return
	}
	idxOf := func(from *ssa.BasicBlock) int {
		for i, p := range l.Head.Preds {
			if p == from {
				return i
			}
		}
		return -1
	}
	for _, p := range phis {
		switch hv := head.env[p].(type) {
		case IntV:
			inc, dec := true, true
			for _, be := range backs {
				nv, ok := x.eval(be.st, p.Edges[idxOf(be.from)]).(IntV)
				if !ok {
					inc, dec = false, false
					break
				}
				d := nv.L.Sub(hv.L)
				if !be.st.h.entails(d.AddC(-1)) {
					inc = false
				}
				if !be.st.h.entails(d.Neg().AddC(-1)) {
					dec = false
				}
			}
			for _, c := range cands {
				if c.phi != p {
					continue
				}
				if inc && c.upper {
					lf.Why = "ranking: " + c.desc + " and strictly increasing on every back edge"
					return
				}
				if dec && c.lower {
					lf.Why = "ranking: " + c.desc + " and strictly decreasing on every back edge"
					return
				}
			}
		case SliceV:
			if !keepRegion[p] {
				continue
			}
			consuming := true
			for _, be := range backs {
				nv, ok := x.eval(be.st, p.Edges[idxOf(be.from)]).(SliceV)
				if !ok || !be.st.h.entails(hv.Len.Sub(nv.Len).AddC(-1)) {
					consuming = false
					break
				}
			}
			if consuming {
				lf.Why = "ranking: len(" + p.Name() + ") >= 0 strictly decreasing on every back edge"
				return
			}
		}
	}
	lf.Terminates = false
	lf.Why = "no ranking function found (no induction value with strict progress and a retained bound)"
}

func (x *fnExec) havocValue(old Value, t types.Type) Value {
	return x.in.unknownOf(t, "loopcell", false)
}

func (x *fnExec) genCandidates(l *core.Loop, phis []*ssa.Phi, e *State) []candidate {
	var out []candidate
	// invariant operands compared against φ-derived values inside the loop
	for _, p := range phis {
		p := p
		if _, _, ok := isIntType(p.Type()); !ok {
			continue
		}
		ev, ok := e.env[p].(IntV)
		if !ok {
			continue
		}
		init := ev.L
		out = append(out, candidate{phi: p, lower: true, desc: p.Name() + " >= init", build: func(v Value) (Lin, bool) {
			iv, ok := v.(IntV)
			if !ok {
				return Lin{}, false
			}
			return iv.L.Sub(init), true
		}})
		out = append(out, candidate{phi: p, upper: true, desc: p.Name() + " <= init", build: func(v Value) (Lin, bool) {
			iv, ok := v.(IntV)
			if !ok {
				return Lin{}, false
			}
			return init.Sub(iv.L), true
		}})
		if lo, _ := init.Bounds(); lo >= 0 || e.h.entails(init) {
			out = append(out, candidate{phi: p, lower: true, desc: p.Name() + " >= 0", build: func(v Value) (Lin, bool) {
				iv, ok := v.(IntV)
				if !ok {
					return Lin{}, false
				}
				return iv.L, true
			}})
		}
		if e.h.entails(init.AddC(1)) {
			out = append(out, candidate{phi: p, lower: true, desc: p.Name() + " >= -1", build: func(v Value) (Lin, bool) {
				iv, ok := v.(IntV)
				if !ok {
					return Lin{}, false
				}
				return iv.L.AddC(1), true
			}})
		}
		// upper bounds: lengths/caps of slices defined outside the loop and used inside; loop-invariant ints compared in the loop
		for _, bound := range x.invariantBounds(l, e) {
			bound := bound
			if e.h.entails(bound.Sub(init)) {
				out = append(out, candidate{phi: p, upper: true, desc: p.Name() + " <= " + bound.String(), build: func(v Value) (Lin, bool) {
					iv, ok := v.(IntV)
					if !ok {
						return Lin{}, false
					}
					return bound.Sub(iv.L), true
				}})
			}
		}
	}
	return out
}

// invariantBounds collects integer expressions that are invariant in loop l: len/cap of
// slice values defined outside the loop that are used inside it, and integer values defined
// outside and used inside.
func (x *fnExec) invariantBounds(l *core.Loop, e *State) []Lin {
	var out []Lin
	seen := map[string]bool{}
	add := func(li Lin) {
		k := li.String()
		if !seen[k] && len(out) < 10 {
			seen[k] = true
			out = append(out, li)
		}
	}
	for b := range l.Blocks {
		for _, ins := range b.Instrs {
			for _, op := range ins.Operands(nil) {
				v := *op
				if v == nil {
					continue
				}
				if di, ok := v.(ssa.Instruction); ok && l.Blocks[di.Block()] {
					continue // defined inside the loop
				}
				if _, isConst := v.(*ssa.Const); isConst {
					continue
				}
				switch av := e.env[v].(type) {
				case SliceV:
					add(av.Len)
					add(av.Len.AddC(-1))
				case IntV:
					add(av.L)
					add(av.L.AddC(-1))
				}
			}
		}
	}
	sort.Slice(out, func(i, j int) bool { return out[i].String() < out[j].String() })
	return out
}

// ---------------- block execution ----------------

func (x *fnExec) execBlock(b *ssa.BasicBlock, states []*State, route func(from, to *ssa.BasicBlock, st *State)) {
	// states may fork inside a block (inlined calls with several outcomes, modelled externals)
	work := states
	for i := 0; i < len(b.Instrs); i++ {
		ins := b.Instrs[i]
		if _, ok := ins.(*ssa.Phi); ok {
			continue
		}
		if len(work) > 1 && x.in.Cfg.Heavy != nil {
			if ci, ok := ins.(ssa.CallInstruction); ok {
				if cal := ci.Common().StaticCallee(); cal != nil && (x.in.Cfg.Heavy(cal) || (x.in.Cfg.JoinAtCall != nil && x.in.Cfg.JoinAtCall(cal))) {
					x.in.Notes["join: states joined before a call to heavy callee "+cal.Name()]++
					work = []*State{x.joinStates(work)}
				}
			}
		}
		var next []*State
		for _, s := range work {
			next = append(next, x.step(b, ins, s, route)...)
		}
		work = next
		if len(work) == 0 {
			return
		}
		if len(work) > x.in.Cfg.MaxStates*2 || (len(work) > 3 && x.in.Cfg.Heavy != nil && x.in.Cfg.Heavy(x.fn)) {
			x.in.Notes["join: state set joined inside block (precision loss, sound)"]++
			work = []*State{x.joinStates(work)}
		}
	}
}

// step executes one instruction; returns continuation states (empty after a terminator).
func (x *fnExec) step(b *ssa.BasicBlock, ins ssa.Instruction, s *State, route func(from, to *ssa.BasicBlock, st *State)) []*State {
	in := x.in
	switch v := ins.(type) {
	case *ssa.DebugRef:
		return []*State{s}
	case *ssa.If:
		c := x.evalBool(s, v.Cond)
		x.branch(b, v.Cond, c, s, route)
		return nil
	case *ssa.Jump:
		route(b, b.Succs[0], s)
		return nil
	case *ssa.Return:
		var ret Value
		switch len(v.Results) {
		case 0:
		case 1:
			ret = x.eval(s, v.Results[0])
		default:
			t := TupleV{}
			for _, r := range v.Results {
				t.F = append(t.F, x.eval(s, r))
			}
			ret = t
		}
		for _, snap := range x.recEntry {
			if root, ok := s.h.mem[snap.cell]; ok {
				if sv, ok := getPath(root, snap.path).(SliceV); ok {
					if !s.h.entails(sv.Len.Sub(snap.len)) {
						in.emit(Finding{Site: v, Kind: "analysis", Undecid: true, Detail: "recursion summary hypothesis (slice behind pointer parameter only grows) not established at this return"})
					}
					continue
				}
			}
			in.emit(Finding{Site: v, Kind: "analysis", Undecid: true, Detail: "recursion summary hypothesis could not be evaluated"})
		}
		x.outs = append(x.outs, Outcome{Ret: ret, H: s.h, Trail: s.trail})
		return nil
	case *ssa.Panic:
		in.emit(Finding{Site: v, Kind: "panic", OK: false, Detail: "explicit panic reachable; facts: " + factsStr(s.h.facts, Lin{}), Trail: append([]string(nil), s.trail...)})
		x.outs = append(x.outs, Outcome{H: s.h, Panicked: true, Trail: s.trail})
		return nil
	case *ssa.Store:
		x.store(s, v)
		return []*State{s}
	case *ssa.MapUpdate, *ssa.Send:
		return []*State{s}
	case *ssa.RunDefers:
		return x.runDefers(s)
	case *ssa.Defer:
		d := deferred{call: v}
		s.defers = append(s.defers, d)
		// evaluate args now (for obligations inside arg evaluation none arise)
		return []*State{s}
	case *ssa.Go:
		// interpret the goroutine body for its obligations on a forked state; discard its effects
		f := s.fork()
		x.call(f, v, v.Common())
		return []*State{s}
	case *ssa.Call:
		return x.call(s, v, v.Common())
	case ssa.Value:
		outs := x.evalInstr(s, v)
		return outs
	}
	return []*State{s}
}

func (x *fnExec) branch(b *ssa.BasicBlock, cond ssa.Value, c BoolV, s *State, route func(from, to *ssa.BasicBlock, st *State)) {
	tb, fb := b.Succs[0], b.Succs[1]
	switch c.Kind {
	case BConst:
		if c.Const {
			route(b, tb, s)
		} else {
			route(b, fb, s)
		}
		return
	case BGe, BEq, BNe:
		ts := s.fork()
		fs := s
		tOK := x.assume(ts, c)
		fOK := x.assume(fs, c.Not())
		if traceForks && tOK && fOK {
			fmt.Printf("[fork] %s b%d: %s\n", x.fn.Name(), b.Index, c.vstr())
		}
		if tOK {
			ts.note("T:" + c.vstr())
			route(b, tb, ts)
		}
		if fOK {
			fs.note("F:" + c.vstr())
			route(b, fb, fs)
		}
		return
	case BNil:
		cur := c.OfV
		known := nilness(cur)
		if known != 0 {
			isNil := known == 1
			if isNil == c.IsNil {
				route(b, tb, s)
			} else {
				route(b, fb, s)
			}
			return
		}
		ts := s.fork()
		fs := s
		x.refineNil(ts, c.Of, c.IsNil)
		x.refineNil(fs, c.Of, !c.IsNil)
		route(b, tb, ts)
		route(b, fb, fs)
		return
	}
	// opaque
	key := c.Key
	neg := false
	if strings.HasPrefix(key, "!") {
		key, neg = key[1:], true
	}
	if bf, ok := s.bools[key]; ok {
		if bf.val != neg {
			route(b, tb, s)
		} else {
			route(b, fb, s)
		}
		return
	}
	ts := s.fork()
	fs := s
	// remember the outcome only when the tested value can be tested again
	if key != "" && cond.Referrers() != nil && len(*cond.Referrers()) > 1 {
		if ts.bools == nil {
			ts.bools = map[string]boolFact{}
		}
		if fs.bools == nil {
			fs.bools = map[string]boolFact{}
		}
		ts.bools[key] = boolFact{!neg, cond}
		fs.bools[key] = boolFact{neg, cond}
	}
	route(b, tb, ts)
	route(b, fb, fs)
}

func nilness(v Value) int {
	switch t := v.(type) {
	case IfaceV:
		return t.Nil
	case PtrV:
		return t.Nil
	case SliceV:
		if t.IsNil {
			return 1
		}
		if t.NilOr {
			return 0
		}
		if !t.MaybeNil {
			return 2
		}
	}
	return 0
}

// demote turns a nil-or-slice value into a plain unknown slice of the same region (used when
// the value is used without a nil test).
func (in *Interp) demote(sv SliceV) SliceV {
	if !sv.NilOr {
		return sv
	}
	ln := in.Atoms.Fresh("len:nilor", 0, PosInf)
	cp := in.Atoms.Fresh("cap:nilor", 0, PosInf)
	cp.Defs = []Lin{AtomLin(cp).Sub(AtomLin(ln))}
	ln.Defs = []Lin{AtomLin(cp).Sub(AtomLin(ln))}
	return SliceV{Reg: sv.Reg, Off: sv.Off, Len: AtomLin(ln), Cap: AtomLin(cp), MaybeNil: true, IsString: sv.IsString}
}

func (x *fnExec) refineNil(s *State, of ssa.Value, isNil bool) {
	cur, ok := s.env[of]
	if !ok {
		return
	}
	switch t := cur.(type) {
	case IfaceV:
		if isNil {
			t.Nil = 1
		} else {
			t.Nil = 2
		}
		s.env[of] = t
	case PtrV:
		if isNil {
			t.Nil = 1
		} else {
			t.Nil = 2
		}
		s.env[of] = t
	case SliceV:
		if t.NilOr {
			if isNil {
				t = SliceV{Reg: x.in.emptyReg, Len: Const(0), Cap: Const(0), IsNil: true}
			} else {
				t.NilOr = false
				t.MaybeNil = false
			}
			s.env[of] = t
			break
		}
		if isNil {
			t.IsNil = true
			s.h.addEq(t.Len)
			t.Len = Const(0)
			t.Cap = Const(0)
		} else {
			t.MaybeNil = false
		}
		s.env[of] = t
	}
	// a refined value loaded from a tracked cell refines the cell too (x := *p; if x != nil)
	if u, ok := of.(*ssa.UnOp); ok && u.Op == token.MUL {
		if p, ok := s.env[u.X].(PtrV); ok && p.Cell != nil {
			if root, ok := s.h.mem[p.Cell]; ok {
				s.h.mem[p.Cell] = setPath(root, p.Path, s.env[of], nil)
			}
		}
	}
}

// assume adds the condition to the state; returns false when the state becomes infeasible.
func (x *fnExec) assume(s *State, c BoolV) bool {
	switch c.Kind {
	case BGe:
		if !s.h.feasibleWith(c.L) {
			return false
		}
		s.h.addFact(c.L)
	case BEq:
		if !s.h.feasibleWith(c.L) || !s.h.feasibleWith(c.L.Neg()) {
			return false
		}
		// both directions together
		if Infeasible(append(append([]Lin{}, s.h.facts...), c.L.Neg(), c.L)) {
			return false
		}
		for _, n := range s.h.neqs {
			if n.Equal(c.L) || n.Equal(c.L.Neg()) {
				return false
			}
		}
		s.h.addEq(c.L)
	case BNe:
		// infeasible iff facts entail L == 0
		if s.h.entails(c.L) && s.h.entails(c.L.Neg()) {
			return false
		}
		// if L >= 0 is entailed then L >= 1 ; if L <= 0 entailed then L <= -1
		if s.h.entails(c.L) {
			s.h.addFact(c.L.AddC(-1))
		} else if s.h.entails(c.L.Neg()) {
			s.h.addFact(c.L.Neg().AddC(-1))
		} else {
			s.h.neqs = append(s.h.neqs, c.L)
		}
	}
	return true
}

// ---------------- evaluation of values ----------------

func (x *fnExec) eval(s *State, v ssa.Value) Value {
	in := x.in
	if val, ok := s.env[v]; ok {
		return val
	}
	switch c := v.(type) {
	case *ssa.Const:
		return in.constValue(c)
	case *ssa.Global:
		return PtrV{Cell: in.globalCell(c), Nil: 2, T: c.Type()}
	case *ssa.Function:
		return FuncV{Fn: c}
	case *ssa.Builtin:
		return Top{}
	}
	// value not in env (pruned or defined on another path): unknown
	val := in.unknownOf(v.Type(), "undef:"+v.Name(), false)
	s.env[v] = val
	return val
}

func (in *Interp) constValue(c *ssa.Const) Value {
	t := c.Type()
	if c.Value == nil {
		return in.zeroValue(t)
	}
	switch c.Value.Kind() {
	case constant.Int:
		if i, ok := constant.Int64Val(c.Value); ok {
			return IntV{Const(i)}
		}
		if u, ok := constant.Uint64Val(c.Value); ok {
			_ = u
			return IntV{AtomLin(in.Atoms.Fresh("bigconst", 0, PosInf))}
		}
	case constant.Bool:
		return BoolV{Kind: BConst, Const: constant.BoolVal(c.Value)}
	case constant.String:
		str := constant.StringVal(c.Value)
		return SliceV{Reg: in.emptyReg, Len: Const(int64(len(str))), Cap: Const(int64(len(str))), Str: &str, IsString: true}
	}
	return Top{t}
}

func (x *fnExec) evalInt(s *State, v ssa.Value) (Lin, bool) {
	switch t := x.eval(s, v).(type) {
	case IntV:
		return t.L, true
	}
	return Lin{}, false
}

func (x *fnExec) intOrFresh(s *State, v ssa.Value) Lin {
	if l, ok := x.evalInt(s, v); ok {
		return l
	}
	lo, hi := typeRange(v.Type())
	return AtomLin(x.in.Atoms.Fresh("int?", lo, hi))
}

func (x *fnExec) evalBool(s *State, v ssa.Value) BoolV {
	switch t := x.eval(s, v).(type) {
	case BoolV:
		if t.Kind == BNil {
			// re-read current nilness of the tested value
			if cur, ok := s.env[t.Of]; ok {
				t.OfV = cur
			}
		}
		return t
	}
	return BoolV{Kind: BOpaque, Key: fmt.Sprintf("v%p.%d", v, x.inst)}
}

// evalInstr evaluates a value-producing instruction. May fork (returns several states).
func (x *fnExec) evalInstr(s *State, v ssa.Value) []*State {
	in := x.in
	set := func(val Value) []*State {
		s.env[v] = val
		return []*State{s}
	}
	switch t := v.(type) {
	case *ssa.Alloc:
		elem := t.Type().Underlying().(*types.Pointer).Elem()
		if arr, ok := elem.Underlying().(*types.Array); ok {
			r := in.newRegion("array:"+t.Comment, false)
			r.Fresh = true
			if in.Cfg.ZeroInit > 0 && arr.Len() <= in.Cfg.ZeroInit {
				if b, ok := arr.Elem().Underlying().(*types.Basic); ok && b.Info()&types.IsInteger != 0 {
					for i := int64(0); i < arr.Len(); i++ {
						s.h.setKnown(r, i, Const(0))
					}
				}
			}
			return set(PtrV{Reg: r, ArrLen: arr.Len(), Nil: 2, T: t.Type()})
		}
		c := in.newCell(t.Comment, elem)
		s.h.mem[c] = in.zeroValue(elem)
		return set(PtrV{Cell: c, Nil: 2, T: t.Type()})
	case *ssa.BinOp:
		return set(x.binop(s, t))
	case *ssa.UnOp:
		return x.unop(s, t)
	case *ssa.ChangeType:
		return set(x.eval(s, t.X))
	case *ssa.ChangeInterface:
		return set(x.eval(s, t.X))
	case *ssa.Convert:
		return set(x.convert(s, t))
	case *ssa.MultiConvert:
		return set(in.unknownOf(t.Type(), "multiconvert", false))
	case *ssa.Extract:
		if tv, ok := x.eval(s, t.Tuple).(TupleV); ok && t.Index < len(tv.F) && tv.F[t.Index] != nil {
			return set(tv.F[t.Index])
		}
		return set(in.unknownOf(t.Type(), "extract", false))
	case *ssa.Field:
		if sv, ok := x.eval(s, t.X).(StructV); ok && t.Field < len(sv.F) && sv.F[t.Field] != nil {
			return set(sv.F[t.Field])
		}
		return set(in.unknownOf(t.Type(), "field", false))
	case *ssa.FieldAddr:
		p, _ := x.eval(s, t.X).(PtrV)
		x.checkNil(s, t, p, "field address of possibly-nil pointer")
		if p.Cell != nil {
			np := PtrV{Cell: p.Cell, Path: append(append([]int(nil), p.Path...), t.Field), Nil: 2, T: t.Type()}
			return set(np)
		}
		return set(PtrV{Nil: 2, T: t.Type()})
	case *ssa.IndexAddr:
		return set(x.indexAddr(s, t))
	case *ssa.Index:
		return set(x.index(s, t))
	case *ssa.Lookup:
		if isStringType(t.X.Type()) {
			sv, _ := x.eval(s, t.X).(SliceV)
			idx := x.intOrFresh(s, t.Index)
			if sv.Reg != nil {
				in.check(s, t, "index", idx, "index >= 0")
				in.check(s, t, "index", sv.Len.Sub(idx).AddC(-1), "index < len")
			}
			return set(in.unknownOf(t.Type(), "strbyte", false))
		}
		return set(in.unknownOf(t.Type(), "maplookup", false))
	case *ssa.MakeChan, *ssa.MakeMap:
		return set(Top{t.Type()})
	case *ssa.MakeClosure:
		fv := FuncV{Fn: t.Fn.(*ssa.Function)}
		for _, b := range t.Bindings {
			fv.Bind = append(fv.Bind, x.eval(s, b))
		}
		return set(fv)
	case *ssa.MakeInterface:
		return set(IfaceV{Nil: 2, Dyn: x.eval(s, t.X), DT: t.X.Type()})
	case *ssa.MakeSlice:
		ln := x.intOrFresh(s, t.Len)
		cp := x.intOrFresh(s, t.Cap)
		in.check(s, t, "makeslice", ln, "make: len >= 0")
		in.check(s, t, "makeslice", cp.Sub(ln), "make: len <= cap")
		r := in.newRegion("make", false)
		r.Fresh = true
		if n, ok := ln.ConstVal(); ok && in.Cfg.ZeroInit > 0 && n <= in.Cfg.ZeroInit {
			if st, ok := t.Type().Underlying().(*types.Slice); ok {
				if b, ok := st.Elem().Underlying().(*types.Basic); ok && b.Info()&types.IsInteger != 0 {
					for i := int64(0); i < n; i++ {
						s.h.setKnown(r, i, Const(0))
					}
				}
			}
		}
		return set(SliceV{Reg: r, Len: ln, Cap: cp})
	case *ssa.Next:
		return set(in.unknownOf(t.Type(), "next", false))
	case *ssa.Range:
		return set(Top{t.Type()})
	case *ssa.Select:
		return set(in.unknownOf(t.Type(), "select", false))
	case *ssa.Slice:
		return set(x.slice(s, t))
	case *ssa.SliceToArrayPointer:
		sv, _ := x.eval(s, t.X).(SliceV)
		n := t.Type().Underlying().(*types.Pointer).Elem().Underlying().(*types.Array).Len()
		if sv.Reg != nil {
			in.check(s, t, "toarray", sv.Len.AddC(-n), fmt.Sprintf("slice to array pointer: len >= %d", n))
			return set(PtrV{Reg: sv.Reg, Off: sv.Off, ArrLen: n, Nil: 2, T: t.Type()})
		}
		in.emit(Finding{Site: t, Kind: "toarray", OK: false, Detail: "slice to array conversion of unknown slice"})
		return set(PtrV{Nil: 2, T: t.Type()})
	case *ssa.TypeAssert:
		return set(x.typeAssert(s, t))
	case *ssa.Phi:
		return []*State{s}
	}
	return set(in.unknownOf(v.Type(), "instr", false))
}

func (x *fnExec) checkNil(s *State, site ssa.Instruction, p PtrV, what string) {
	if !x.in.Cfg.NilRule {
		return
	}
	if p.Nil == 2 || p.Cell != nil || p.Reg != nil {
		x.in.emit(Finding{Site: site, Kind: "nil", OK: true, Basis: "pointer known non-nil"})
		return
	}
	x.in.emit(Finding{Site: site, Kind: "nil", OK: false, Detail: what + " (nil-ness depends on externally decoded data and no nil test dominates the use)", Trail: append([]string(nil), s.trail...)})
}

func (x *fnExec) typeAssert(s *State, t *ssa.TypeAssert) Value {
	in := x.in
	iv, _ := x.eval(s, t.X).(IfaceV)
	if t.CommaOk {
		var val Value
		ok := BoolV{Kind: BOpaque, Key: fmt.Sprintf("ta%p.%d", t, x.inst)}
		if iv.DT != nil && types.Identical(iv.DT, t.AssertedType) && iv.Dyn != nil {
			val = iv.Dyn
			ok = BoolV{Kind: BConst, Const: true}
		} else {
			val = in.unknownOf(t.AssertedType, "typeassert", false)
		}
		return TupleV{F: []Value{val, ok}}
	}
	if iv.DT != nil && (types.Identical(iv.DT, t.AssertedType) || types.IsInterface(t.AssertedType)) {
		in.emit(Finding{Site: t, Kind: "typeassert", OK: true, Basis: "dynamic type known: " + iv.DT.String()})
		if iv.Dyn != nil && !types.IsInterface(t.AssertedType) {
			return iv.Dyn
		}
		return iv
	}
	in.emit(Finding{Site: t, Kind: "typeassert", OK: false, Detail: "type assertion without comma-ok on a value whose dynamic type is not established"})
	return in.unknownOf(t.AssertedType, "typeassert", false)
}

func (x *fnExec) store(s *State, st *ssa.Store) {
	in := x.in
	p, _ := x.eval(s, st.Addr).(PtrV)
	val := x.eval(s, st.Val)
	switch {
	case p.Cell != nil:
		root, ok := s.h.mem[p.Cell]
		if !ok {
			root = in.unknownOf(p.Cell.T, "cell", false)
		}
		cell := p.Cell
		s.h.mem[p.Cell] = setPath(root, p.Path, val, func(int) Value { return in.unknownOf(cell.T, "cell", false) })
	case p.Reg != nil:
		if p.ArrLen > 0 {
			n := Const(p.ArrLen)
			in.writeRegion(s.h, p.Reg, &p.Off, &n, 3000000)
			return
		}
		// element store: other elements at constant offsets stay known
		one := Const(1)
		in.writeRegion(s.h, p.Reg, &p.Off, &one, 3000000)
		if iv, ok := val.(IntV); ok {
			if o, ok := p.Off.ConstVal(); ok {
				s.h.setKnown(p.Reg, o, iv.L)
			} else {
				lo, hi := typeRange(st.Val.Type())
				a := in.elemAtom(s.h, p.Reg, p.Off, lo, hi)
				s.h.addEq(AtomLin(a).Sub(iv.L))
			}
		}
	default:
		x.checkNil(s, st, p, "store through possibly-nil pointer")
	}
}

// isNICMAC recognises &(<*NICInfo>.HostAddr4|RouterAddr4).MAC
func isNICMAC(fa *ssa.FieldAddr) bool {
	if fieldNameOf(fa) != "MAC" {
		return false
	}
	inner, ok := fa.X.(*ssa.FieldAddr)
	if !ok {
		return false
	}
	n := fieldNameOf(inner)
	if n != "HostAddr4" && n != "RouterAddr4" {
		return false
	}
	pt, ok := inner.X.Type().Underlying().(*types.Pointer)
	if !ok {
		return false
	}
	nt, ok := pt.Elem().(*types.Named)
	return ok && nt.Obj().Name() == "NICInfo" && nt.Obj().Pkg().Path() == core.ModPath
}

func fieldNameOf(fa *ssa.FieldAddr) string {
	pt, ok := fa.X.Type().Underlying().(*types.Pointer)
	if !ok {
		return ""
	}
	st, ok := pt.Elem().Underlying().(*types.Struct)
	if !ok || fa.Field >= st.NumFields() {
		return ""
	}
	return st.Field(fa.Field).Name()
}

// fieldKey names a struct field for the field-length invariant table.
func fieldKey(ptrT types.Type, field int) string {
	pt, ok := ptrT.Underlying().(*types.Pointer)
	if !ok {
		return ""
	}
	nt, ok := pt.Elem().(*types.Named)
	if !ok {
		return ""
	}
	return fmt.Sprintf("%s.%s#%d", nt.Obj().Pkg().Path(), nt.Obj().Name(), field)
}

func (x *fnExec) load(s *State, u *ssa.UnOp) Value {
	in := x.in
	p, _ := x.eval(s, u.X).(PtrV)
	t := u.Type()
	if fa, ok := u.X.(*ssa.FieldAddr); ok && p.Cell == nil && p.Reg == nil {
		if isNICMAC(fa) {
			in.Notes["configuration invariant assumed: NICInfo.HostAddr4.MAC / RouterAddr4.MAC have length 6"]++
			return SliceV{Reg: in.newRegion("nicmac", false), Len: Const(6), Cap: Const(6)}
		}
		if n, ok := in.fieldLen[fieldKey(fa.X.Type(), fa.Field)]; ok {
			in.Notes["field length invariant used (all module stores are make([]T, const)): "+fieldKey(fa.X.Type(), fa.Field)]++
			return SliceV{Reg: in.newRegion("field", false), Len: Const(n), Cap: Const(n)}
		}
	}
	switch {
	case p.Cell != nil:
		root, ok := s.h.mem[p.Cell]
		if !ok {
			root = in.cellInit(p.Cell)
			s.h.mem[p.Cell] = root
		}
		if v := getPath(root, p.Path); v != nil {
			if _, isTop := v.(Top); !isTop {
				return v
			}
		}
		nv := in.unknownOf(t, "load", false)
		cell := p.Cell
		s.h.mem[p.Cell] = setPath(root, p.Path, nv, func(int) Value { return in.unknownOf(cell.T, "cell", false) })
		return nv
	case p.Reg != nil:
		if p.ArrLen > 0 {
			return ArrayV{Reg: p.Reg, Off: p.Off, N: p.ArrLen}
		}
		if _, _, ok := isIntType(t); ok {
			lo, hi := typeRange(t)
			return IntV{in.elemLin(s.h, p.Reg, p.Off, lo, hi)}
		}
		if m, ok := in.regStrMax[p.Reg]; ok && isStringType(t) {
			// element of a constant table of strings: its length is bounded by the longest literal
			ln := in.Atoms.Fresh("len:tabstr", 0, m)
			return SliceV{Reg: in.newRegion("tabstr", false), Len: AtomLin(ln), Cap: AtomLin(ln), IsString: true}
		}
		return in.unknownOf(t, "elem", false)
	}
	x.checkNil(s, u, p, "load through possibly-nil pointer")
	return in.unknownOf(t, "load?", false)
}

func (x *fnExec) unop(s *State, u *ssa.UnOp) []*State {
	in := x.in
	set := func(val Value) []*State {
		s.env[u] = val
		return []*State{s}
	}
	switch u.Op {
	case token.MUL:
		return set(x.load(s, u))
	case token.NOT:
		return set(x.evalBool(s, u.X).Not())
	case token.SUB:
		if l, ok := x.evalInt(s, u.X); ok {
			return set(x.wrap(s, l.Neg(), u.Type(), "neg"))
		}
	case token.XOR:
		if l, ok := x.evalInt(s, u.X); ok {
			if _, signed, _ := isIntType(u.Type()); !signed {
				_, hi := typeRange(u.Type())
				if hi < PosInf {
					return set(IntV{Const(hi).Sub(l)})
				}
			} else {
				return set(IntV{l.Neg().AddC(-1)})
			}
		}
	case token.ARROW:
		return set(in.unknownOf(u.Type(), "recv", false))
	}
	return set(in.unknownOf(u.Type(), "unop", false))
}

// wrap models fixed-width integer arithmetic: if the mathematical value provably fits
// the type it is kept affine, otherwise it becomes a fresh atom in the type's range.
func (x *fnExec) wrap(s *State, l Lin, t types.Type, why string) Value {
	lo, hi := typeRange(t)
	if lo <= NegInf && hi >= PosInf {
		return IntV{l}
	}
	blo, bhi := l.Bounds()
	if blo >= lo && bhi <= hi {
		return IntV{l}
	}
	if (lo <= NegInf || s.h.entails(l.AddC(-lo))) && (hi >= PosInf || s.h.entails(Const(hi).Sub(l))) {
		return IntV{l}
	}
	a := x.in.Atoms.Struct(fmt.Sprintf("wrap%d(%s)", hi, l.String()), lo, hi, l)
	return IntV{AtomLin(a)}
}

func (x *fnExec) convert(s *State, c *ssa.Convert) Value {
	in := x.in
	src := x.eval(s, c.X)
	dt := c.Type()
	st := c.X.Type()
	if _, _, ok := isIntType(dt); ok {
		if iv, ok := src.(IntV); ok {
			return x.wrap(s, iv.L, dt, "conv")
		}
		return in.unknownOf(dt, "conv", false)
	}
	if sv, ok := src.(SliceV); ok && sv.NilOr {
		src = in.demote(sv)
	}
	if isStringType(dt) {
		if sv, ok := src.(SliceV); ok {
			if sv.IsString {
				return sv
			}
			r := in.newRegion("string()", false)
			return SliceV{Reg: r, Len: sv.Len, Cap: sv.Len, IsString: true}
		}
		return in.unknownOf(dt, "tostring", false)
	}
	if _, ok := dt.Underlying().(*types.Slice); ok {
		if sv, ok := src.(SliceV); ok {
			if isStringType(st) {
				r := in.newRegion("[]byte()", false)
				r.Fresh = true
				return SliceV{Reg: r, Len: sv.Len, Cap: sv.Len}
			}
			return sv
		}
	}
	if _, ok := dt.Underlying().(*types.Pointer); ok {
		return src
	}
	return in.unknownOf(dt, "convert", false)
}

func (x *fnExec) binop(s *State, b *ssa.BinOp) Value {
	in := x.in
	t := b.Type()
	xt := b.X.Type()
	// comparisons
	switch b.Op {
	case token.EQL, token.NEQ, token.LSS, token.LEQ, token.GTR, token.GEQ:
		if _, _, ok := isIntType(xt); ok {
			l, ok1 := x.evalInt(s, b.X)
			r, ok2 := x.evalInt(s, b.Y)
			if ok1 && ok2 {
				d := l.Sub(r)
				var bv BoolV
				switch b.Op {
				case token.EQL:
					bv = BoolV{Kind: BEq, L: d}
				case token.NEQ:
					bv = BoolV{Kind: BNe, L: d}
				case token.LSS: // l < r  <=> r - l - 1 >= 0
					bv = BoolV{Kind: BGe, L: d.Neg().AddC(-1)}
				case token.LEQ:
					bv = BoolV{Kind: BGe, L: d.Neg()}
				case token.GTR:
					bv = BoolV{Kind: BGe, L: d.AddC(-1)}
				case token.GEQ:
					bv = BoolV{Kind: BGe, L: d}
				}
				if c, ok := bv.L.ConstVal(); ok {
					switch bv.Kind {
					case BEq:
						return BoolV{Kind: BConst, Const: c == 0}
					case BNe:
						return BoolV{Kind: BConst, Const: c != 0}
					case BGe:
						return BoolV{Kind: BConst, Const: c >= 0}
					}
				}
				return bv
			}
			return BoolV{Kind: BOpaque, Key: fmt.Sprintf("cmp%p.%d", b, x.inst)}
		}
		if isBoolType(xt) {
			l, r := x.evalBool(s, b.X), x.evalBool(s, b.Y)
			if l.Kind == BConst && r.Kind == BConst {
				eq := l.Const == r.Const
				return BoolV{Kind: BConst, Const: eq == (b.Op == token.EQL)}
			}
			if r.Kind == BConst {
				if r.Const == (b.Op == token.EQL) {
					return l
				}
				return l.Not()
			}
			if l.Kind == BConst {
				if l.Const == (b.Op == token.EQL) {
					return r
				}
				return r.Not()
			}
			return BoolV{Kind: BOpaque, Key: fmt.Sprintf("cmp%p.%d", b, x.inst)}
		}
		// nil comparisons
		if b.Op == token.EQL || b.Op == token.NEQ {
			if isNilConst(b.Y) || isNilConst(b.X) {
				of := b.X
				if isNilConst(b.X) {
					of = b.Y
				}
				ov := x.eval(s, of)
				switch ov.(type) {
				case IfaceV, PtrV, SliceV:
					if n := nilness(ov); n != 0 {
						return BoolV{Kind: BConst, Const: (n == 1) == (b.Op == token.EQL)}
					}
					return BoolV{Kind: BNil, Of: of, OfV: ov, IsNil: b.Op == token.EQL}
				}
				return BoolV{Kind: BOpaque, Key: fmt.Sprintf("nil%p.%d", of, x.inst)}
			}
			// constant strings
			if isStringType(xt) {
				l, _ := x.eval(s, b.X).(SliceV)
				r, _ := x.eval(s, b.Y).(SliceV)
				if l.Str != nil && r.Str != nil {
					return BoolV{Kind: BConst, Const: (*l.Str == *r.Str) == (b.Op == token.EQL)}
				}
				// different lengths decide inequality
				if l.Reg != nil && r.Reg != nil {
					d := l.Len.Sub(r.Len)
					if s.h.entails(d.AddC(-1)) || s.h.entails(d.Neg().AddC(-1)) {
						return BoolV{Kind: BConst, Const: b.Op == token.NEQ}
					}
				}
			}
		}
		return BoolV{Kind: BOpaque, Key: fmt.Sprintf("cmp%p.%d", b, x.inst)}
	}
	if isStringType(t) && b.Op == token.ADD {
		l, _ := x.eval(s, b.X).(SliceV)
		r, _ := x.eval(s, b.Y).(SliceV)
		if l.Reg != nil && r.Reg != nil {
			nl := l.Len.Add(r.Len)
			res := SliceV{Reg: in.newRegion("concat", false), Len: nl, Cap: nl, IsString: true}
			if l.Str != nil && r.Str != nil {
				c := *l.Str + *r.Str
				res.Str = &c
			}
			return res
		}
		return in.unknownOf(t, "concat", false)
	}
	if _, _, ok := isIntType(t); !ok {
		return in.unknownOf(t, "binop", false)
	}
	l, ok1 := x.evalInt(s, b.X)
	r, ok2 := x.evalInt(s, b.Y)
	if !ok1 || !ok2 {
		return in.unknownOf(t, "binop", false)
	}
	tlo, thi := typeRange(t)
	rc, rIsC := r.ConstVal()
	lc, lIsC := l.ConstVal()
	if lIsC && rIsC {
		// constant folding (on the mathematical values; wrap() re-normalises to the type)
		var v int64
		ok := true
		switch b.Op {
		case token.ADD:
			v = lc + rc
		case token.SUB:
			v = lc - rc
		case token.MUL:
			v = lc * rc
		case token.QUO:
			if rc == 0 {
				ok = false
			} else {
				v = lc / rc
			}
		case token.REM:
			if rc == 0 {
				ok = false
			} else {
				v = lc % rc
			}
		case token.AND:
			v = lc & rc
		case token.OR:
			v = lc | rc
		case token.XOR:
			v = lc ^ rc
		case token.AND_NOT:
			v = lc &^ rc
		case token.SHL:
			if rc < 0 || rc > 62 {
				ok = false
			} else {
				v = lc << uint(rc)
			}
		case token.SHR:
			if rc < 0 || rc > 63 {
				ok = false
			} else {
				v = lc >> uint(rc)
			}
		default:
			ok = false
		}
		if ok {
			if v >= tlo && v <= thi {
				return IntV{Const(v)}
			}
			if thi < PosInf && tlo >= 0 {
				return IntV{Const(v & thi)} // unsigned wrap-around
			}
		}
	}
	llo, lhi := l.Bounds()
	rlo, rhi := r.Bounds()
	nonneg := func(lo int64) bool { return lo >= 0 }
	mk := func(key string, lo, hi int64, defs ...Lin) Value {
		if lo < tlo {
			lo = tlo
		}
		if hi > thi {
			hi = thi
		}
		a := in.Atoms.Struct(key, lo, hi, l, r)
		if len(a.Defs) == 0 && len(defs) > 0 {
			// defs are expressed in terms of `self`: substitute
			a.Defs = defs
		}
		return IntV{AtomLin(a)}
	}
	switch b.Op {
	case token.ADD:
		return x.wrap(s, l.Add(r), t, "add")
	case token.SUB:
		return x.wrap(s, l.Sub(r), t, "sub")
	case token.MUL:
		if rIsC {
			return x.wrap(s, l.Scale(rc), t, "mul")
		}
		if lIsC {
			return x.wrap(s, r.Scale(lc), t, "mul")
		}
		// product atom with interval; keeps structure for re-linearisation
		ks := []string{l.String(), r.String()}
		sort.Strings(ks)
		key := "mul(" + ks[0] + "," + ks[1] + ")"
		lo, hi := mulBounds(llo, lhi, rlo, rhi)
		a := in.Atoms.Struct(key, lo, hi, l, r)
		if a.Kind == "" {
			a.Kind = "mul"
			lc2, rc2 := l, r
			a.A, a.B = &lc2, &rc2
		}
		return x.wrap(s, AtomLin(a), t, "mul")
	case token.QUO, token.REM:
		// divisor must be non-zero
		if rIsC {
			if rc == 0 {
				in.emit(Finding{Site: b, Kind: "div", OK: false, Detail: "division by constant zero"})
				return in.unknownOf(t, "div0", false)
			}
		} else {
			nz := s.h.entails(r.AddC(-1)) || s.h.entails(r.Neg().AddC(-1))
			f := Finding{Site: b, Kind: "div", OK: nz}
			if !nz {
				f.Detail = "divisor not proved non-zero: " + r.String()
				f.Trail = append([]string(nil), s.trail...)
			} else {
				f.Basis = "divisor non-zero"
			}
			in.emit(f)
		}
		if rIsC && rc > 0 && (nonneg(llo) || s.h.entails(l)) {
			if b.Op == token.QUO {
				key := fmt.Sprintf("div(%s,%d)", l.String(), rc)
				hi := int64(PosInf)
				if lhi < PosInf {
					hi = int64(lhi / rc)
				}
				a := in.Atoms.Struct(key, 0, int64(hi), l)
				if len(a.Defs) == 0 {
					// rc*q <= l <= rc*q + rc-1
					a.Defs = []Lin{l.Sub(AtomLin(a).Scale(rc)), AtomLin(a).Scale(rc).AddC(rc - 1).Sub(l)}
				}
				return IntV{AtomLin(a)}
			}
			key := fmt.Sprintf("rem(%s,%d)", l.String(), rc)
			a := in.Atoms.Struct(key, 0, rc-1, l)
			if len(a.Defs) == 0 {
				a.Defs = []Lin{l.Sub(AtomLin(a))}
			}
			return IntV{AtomLin(a)}
		}
		return in.unknownOf(t, "divrem", false)
	case token.AND:
		if rIsC && rc == 1 && !nonneg(llo) {
			// parity of a possibly negative value (two's complement): x = 2*half + (x&1)
			a := in.Atoms.Struct(fmt.Sprintf("and(%s,1)", l.String()), 0, 1, l)
			k := in.Atoms.Struct(fmt.Sprintf("half(%s)", l.String()), NegInf, PosInf, l)
			eq := l.Sub(AtomLin(k).Scale(2)).Sub(AtomLin(a))
			if len(a.Defs) == 0 {
				a.Defs = []Lin{eq, eq.Neg()}
				k.Defs = []Lin{eq, eq.Neg()}
			}
			// also as state facts, so that the relation is found starting from the atoms of x
			s.h.addFact(eq)
			s.h.addFact(eq.Neg())
			return IntV{AtomLin(a)}
		}
		if rIsC && rc >= 0 && nonneg(llo) {
			// x & (2^k-1) where x < 2^k: identity
			if lhi <= rc && isMask(rc) {
				return IntV{l}
			}
			hi := rc
			if lhi < hi {
				hi = lhi
			}
			a := in.Atoms.Struct(fmt.Sprintf("and(%s,%d)", l.String(), rc), 0, hi, l)
			if len(a.Defs) == 0 {
				a.Defs = []Lin{l.Sub(AtomLin(a))}
			}
			return IntV{AtomLin(a)}
		}
		if lIsC && lc >= 0 && nonneg(rlo) {
			hi := lc
			if rhi < hi {
				hi = rhi
			}
			a := in.Atoms.Struct(fmt.Sprintf("and(%s,%d)", r.String(), lc), 0, hi, r)
			if len(a.Defs) == 0 {
				a.Defs = []Lin{r.Sub(AtomLin(a))}
			}
			return IntV{AtomLin(a)}
		}
		if nonneg(llo) && nonneg(rlo) {
			hi := lhi
			if rhi < hi {
				hi = rhi
			}
			ks := []string{l.String(), r.String()}
			sort.Strings(ks)
			return mk("and("+ks[0]+","+ks[1]+")", 0, hi)
		}
	case token.OR, token.XOR:
		if nonneg(llo) && nonneg(rlo) && lhi < PosInf && rhi < PosInf {
			hi := bitCeil(lhi) | bitCeil(rhi)
			op := "or"
			if b.Op == token.XOR {
				op = "xor"
			}
			ks := []string{l.String(), r.String()}
			sort.Strings(ks)
			v := mk(op+"("+ks[0]+","+ks[1]+")", 0, hi)
			if b.Op == token.OR {
				// a|b >= a, a|b >= b ; and when the operands have disjoint bit ranges, a|b == a+b
				if disjointBits(l, r) {
					return x.wrap(s, l.Add(r), t, "or")
				}
				a := v.(IntV).L
				for at := range a.T {
					if len(at.Defs) == 0 {
						at.Defs = []Lin{AtomLin(at).Sub(l), AtomLin(at).Sub(r)}
					}
				}
			}
			return v
		}
	case token.SHL:
		if rIsC && rc >= 0 && rc < 63 {
			return x.wrap(s, l.Scale(1<<uint(rc)), t, "shl")
		}
	case token.SHR:
		if rIsC && rc >= 0 && rc < 63 && (nonneg(llo) || s.h.entails(l)) {
			if lIsC {
				return IntV{Const(lc >> uint(rc))}
			}
			k := int64(1) << uint(rc)
			hi := int64(PosInf)
			if lhi < PosInf {
				hi = lhi >> uint(rc)
			}
			a := in.Atoms.Struct(fmt.Sprintf("shr(%s,%d)", l.String(), rc), 0, int64(hi), l)
			if len(a.Defs) == 0 {
				a.Defs = []Lin{l.Sub(AtomLin(a).Scale(k)), AtomLin(a).Scale(k).AddC(k - 1).Sub(l)}
			}
			return IntV{AtomLin(a)}
		}
	case token.AND_NOT:
		if nonneg(llo) {
			a := in.Atoms.Struct(fmt.Sprintf("andnot(%s,%s)", l.String(), r.String()), 0, lhi, l, r)
			if len(a.Defs) == 0 {
				a.Defs = []Lin{l.Sub(AtomLin(a))}
			}
			return IntV{AtomLin(a)}
		}
	}
	return in.unknownOf(t, "binop", false)
}

// disjointBits: l is a multiple of 2^k and 0 <= r < 2^k (or vice versa).
func disjointBits(l, r Lin) bool {
	chk := func(a, b Lin) bool {
		_, bhi := b.Bounds()
		blo, _ := b.Bounds()
		if blo < 0 || bhi >= PosInf {
			return false
		}
		k := int64(1)
		for k <= bhi {
			k <<= 1
		}
		if a.C%k != 0 {
			return false
		}
		for _, c := range a.T {
			if c%k != 0 {
				return false
			}
		}
		alo, _ := a.Bounds()
		return alo >= 0
	}
	return chk(l, r) || chk(r, l)
}

func isMask(c int64) bool { return c&(c+1) == 0 }

func bitCeil(v int64) int64 {
	r := int64(0)
	for r < v {
		r = r<<1 | 1
	}
	return r
}

func mulBounds(alo, ahi, blo, bhi int64) (int64, int64) {
	cands := []int64{satMul(alo, blo), satMul(alo, bhi), satMul(ahi, blo), satMul(ahi, bhi)}
	lo, hi := cands[0], cands[0]
	for _, c := range cands {
		if c < lo {
			lo = c
		}
		if c > hi {
			hi = c
		}
	}
	return lo, hi
}

func isNilConst(v ssa.Value) bool {
	c, ok := v.(*ssa.Const)
	return ok && c.Value == nil
}

// ---------------- slices and indexing ----------------

// sliceOf resolves a slice/string/pointer-to-array operand to a SliceV.
func (x *fnExec) sliceOf(s *State, v ssa.Value) (SliceV, bool) {
	switch t := x.eval(s, v).(type) {
	case SliceV:
		return x.in.demote(t), true
	case PtrV:
		if t.Reg != nil && t.ArrLen > 0 {
			return SliceV{Reg: t.Reg, Off: t.Off, Len: Const(t.ArrLen), Cap: Const(t.ArrLen)}, true
		}
		if t.Cell != nil {
			// pointer to an array stored inside a tracked struct cell
			if root, ok := s.h.mem[t.Cell]; ok {
				if av, ok := getPath(root, t.Path).(ArrayV); ok {
					return SliceV{Reg: av.Reg, Off: av.Off, Len: Const(av.N), Cap: Const(av.N)}, true
				}
			}
			if pt, ok := v.Type().Underlying().(*types.Pointer); ok {
				if at, ok := pt.Elem().Underlying().(*types.Array); ok {
					// materialise the array
					av := ArrayV{Reg: x.in.newRegion("arr:"+t.Cell.Name, false), N: at.Len()}
					root, ok := s.h.mem[t.Cell]
					if !ok {
						root = x.in.cellInit(t.Cell)
					}
					cell := t.Cell
					s.h.mem[t.Cell] = setPath(root, t.Path, av, func(int) Value { return x.in.unknownOf(cell.T, "cell", false) })
					return SliceV{Reg: av.Reg, Len: Const(av.N), Cap: Const(av.N)}, true
				}
			}
		}
		if pt, ok := v.Type().Underlying().(*types.Pointer); ok {
			if at, ok := pt.Elem().Underlying().(*types.Array); ok {
				r := x.in.newRegion("arr?", false)
				return SliceV{Reg: r, Len: Const(at.Len()), Cap: Const(at.Len())}, true
			}
		}
	case ArrayV:
		return SliceV{Reg: t.Reg, Off: t.Off, Len: Const(t.N), Cap: Const(t.N)}, true
	}
	return SliceV{}, false
}

func (x *fnExec) indexAddr(s *State, t *ssa.IndexAddr) Value {
	in := x.in
	sv, ok := x.sliceOf(s, t.X)
	idx := x.intOrFresh(s, t.Index)
	if !ok {
		in.emit(Finding{Site: t, Kind: "index", Undecid: true, Detail: "index into a value the domain cannot represent"})
		return PtrV{Nil: 2, T: t.Type()}
	}
	in.check(s, t, "index", idx, "index >= 0")
	in.check(s, t, "index", sv.Len.Sub(idx).AddC(-1), "index < len")
	return PtrV{Reg: sv.Reg, Off: sv.Off.Add(idx), Nil: 2, T: t.Type()}
}

func (x *fnExec) index(s *State, t *ssa.Index) Value {
	in := x.in
	idx := x.intOrFresh(s, t.Index)
	sv, ok := x.sliceOf(s, t.X)
	if !ok {
		if at, ok2 := t.X.Type().Underlying().(*types.Array); ok2 {
			in.check(s, t, "index", idx, "index >= 0")
			in.check(s, t, "index", Const(at.Len()-1).Sub(idx), "index < len")
			return in.unknownOf(t.Type(), "arrelem", false)
		}
		in.emit(Finding{Site: t, Kind: "index", Undecid: true, Detail: "index into a value the domain cannot represent"})
		return in.unknownOf(t.Type(), "elem", false)
	}
	in.check(s, t, "index", idx, "index >= 0")
	in.check(s, t, "index", sv.Len.Sub(idx).AddC(-1), "index < len")
	if _, _, isInt := isIntType(t.Type()); isInt && !sv.IsString {
		lo, hi := typeRange(t.Type())
		return IntV{in.elemLin(s.h, sv.Reg, sv.Off.Add(idx), lo, hi)}
	}
	return in.unknownOf(t.Type(), "elem", false)
}

func (x *fnExec) slice(s *State, t *ssa.Slice) Value {
	in := x.in
	sv, ok := x.sliceOf(s, t.X)
	if !ok {
		in.emit(Finding{Site: t, Kind: "slice-hi", Undecid: true, Detail: "slice of a value the domain cannot represent"})
		return in.unknownOf(t.Type(), "slice?", false)
	}
	lo := Const(0)
	if t.Low != nil {
		lo = x.intOrFresh(s, t.Low)
	}
	hi := sv.Len
	hiGiven := t.High != nil
	if hiGiven {
		hi = x.intOrFresh(s, t.High)
	}
	limit := sv.Cap
	if sv.IsString {
		limit = sv.Len
	}
	inputRule := sv.Reg != nil && sv.Reg.Input && in.Cfg.DecodeLenCap
	if inputRule {
		limit = sv.Len
	}
	mx := limit
	if t.Max != nil {
		mx = x.intOrFresh(s, t.Max)
		in.check(s, t, "slice-max", limit.Sub(mx), "slice: max <= cap")
		if inputRule && in.Cfg.CapRule {
			in.emit(Finding{Site: t, Kind: "cap", OK: false, Detail: "3-index slice of an input-derived slice (capacity dependence)"})
		}
	}
	if t.Low != nil {
		in.check(s, t, "slice-lo", lo, "slice: low >= 0")
	}
	in.check(s, t, "slice-lohi", hi.Sub(lo), "slice: low <= high")
	if hiGiven {
		what := "slice: high <= cap"
		if inputRule {
			what = "slice: high <= len (decode role: a view may not extend into spare capacity)"
		} else if sv.IsString {
			what = "slice: high <= len"
		}
		if inputRule && t.Max == nil && !s.h.entails(mx.Sub(hi)) && s.h.entails(sv.Cap.Sub(hi)) {
			// within capacity but possibly past len: capacity dependence, not a run-time panic
			if in.Cfg.CapRule {
				in.emit(Finding{Site: t, Kind: "cap", OK: false, Detail: "slice of an input-derived view extends past len into spare capacity (high <= cap holds, high <= len does not): the result depends on bytes outside the frame"})
			}
		} else {
			in.check(s, t, "slice-hi", mx.Sub(hi), what)
		}
	}
	res := SliceV{Reg: sv.Reg, Off: sv.Off.Add(lo), Len: hi.Sub(lo), Cap: sv.Cap.Sub(lo), IsString: sv.IsString}
	if t.Max != nil {
		res.Cap = mx.Sub(lo)
	}
	if sv.IsString {
		res.Cap = res.Len
		if sv.Str != nil {
			l, ok1 := lo.ConstVal()
			h, ok2 := hi.ConstVal()
			if ok1 && ok2 && l >= 0 && h >= l && h <= int64(len(*sv.Str)) {
				sub := (*sv.Str)[l:h]
				res.Str = &sub
			}
		}
	}
	// slicing a nil slice with [0:0] stays nil-able; a slice whose high bound is >= 1 has a non-nil base
	res.MaybeNil = sv.MaybeNil || sv.IsNil
	if s.h.entails(hi.AddC(-1)) {
		res.MaybeNil = false
		res.IsNil = false
	}
	if _, isPtr := t.X.Type().Underlying().(*types.Pointer); isPtr {
		res.MaybeNil = false
	}
	return res
}

// ---------------- globals ----------------

func (in *Interp) globalCell(g *ssa.Global) *Cell {
	if c, ok := in.globals[g]; ok {
		return c
	}
	c := in.newCell("global:"+g.Name(), g.Type().Underlying().(*types.Pointer).Elem())
	in.globals[g] = c
	return c
}

// cellInit gives the initial abstract content of a cell that was never written in this run.
func (in *Interp) cellInit(c *Cell) Value {
	for g, gc := range in.globals {
		if gc == c {
			return in.globalInit(g)
		}
	}
	return in.unknownOf(c.T, "cell:"+c.Name, false)
}

func (in *Interp) globalInit(g *ssa.Global) Value {
	t := g.Type().Underlying().(*types.Pointer).Elem()
	if n, ok := in.gslice[g]; ok {
		r := in.newRegion("global:"+g.Name(), false)
		if m, ok := in.gstrMax[g]; ok {
			if in.regStrMax == nil {
				in.regStrMax = map[*Region]int64{}
			}
			in.regStrMax[r] = m
		}
		return SliceV{Reg: r, Len: Const(n), Cap: Const(n)}
	}
	if types.Identical(t, types.Universe.Lookup("error").Type()) && !core.IsLibPath(pkgPathOf(g)) && g.Object() != nil && g.Object().Exported() {
		in.Notes["exported sentinel error of an external package assumed non-nil: "+g.String()]++
		return IfaceV{Nil: 2}
	}
	if types.Identical(t, types.Universe.Lookup("error").Type()) && in.gerr[g] {
		// package-level sentinel error: assigned exactly once, in init, from errors.New / fmt.Errorf
		return IfaceV{Nil: 2}
	}
	return in.unknownOf(t, "global:"+g.Name(), false)
}

func pkgPathOf(g *ssa.Global) string {
	if g.Pkg != nil && g.Pkg.Pkg != nil {
		return g.Pkg.Pkg.Path()
	}
	return ""
}

// scanGlobals finds module globals of slice type assigned exactly once (in init) from a
// composite literal of constant length, and sync.Pool globals with their New result type.
func (in *Interp) scanGlobals() {
	in.gslice = map[*ssa.Global]int64{}
	in.gerr = map[*ssa.Global]bool{}
	in.fieldLen = map[string]int64{}
	fieldBad := map[string]bool{}
	for _, fn := range in.P.ModuleFunctions() {
		core.EachInstr(fn, func(i ssa.Instruction) {
			st, ok := i.(*ssa.Store)
			if !ok {
				return
			}
			fa, ok := st.Addr.(*ssa.FieldAddr)
			if !ok {
				return
			}
			if _, isSlice := st.Val.Type().Underlying().(*types.Slice); !isSlice {
				return
			}
			key := fieldKey(fa.X.Type(), fa.Field)
			if key == "" {
				return
			}
			if ms, ok := st.Val.(*ssa.MakeSlice); ok {
				if c, ok := ms.Len.(*ssa.Const); ok && c.Value != nil {
					if n, ok := constant.Int64Val(c.Value); ok {
						if old, seen := in.fieldLen[key]; seen && old != n {
							fieldBad[key] = true
						}
						in.fieldLen[key] = n
						return
					}
				}
			}
			if sl, ok := st.Val.(*ssa.Slice); ok && sl.Low == nil && sl.Max == nil {
				if al, ok := sl.X.(*ssa.Alloc); ok {
					if at, ok := al.Type().Underlying().(*types.Pointer).Elem().Underlying().(*types.Array); ok {
						n := at.Len()
						if sl.High != nil {
							hc, ok := sl.High.(*ssa.Const)
							if !ok || hc.Value == nil {
								fieldBad[key] = true
								return
							}
							n, _ = constant.Int64Val(hc.Value)
						}
						if old, seen := in.fieldLen[key]; seen && old != n {
							fieldBad[key] = true
						}
						in.fieldLen[key] = n
						return
					}
				}
			}
			fieldBad[key] = true
		})
	}
	for k := range fieldBad {
		delete(in.fieldLen, k)
	}
	in.poolType = map[*ssa.Global]types.Type{}
	stores := map[*ssa.Global][]*ssa.Store{}
	for _, fn := range in.P.ModuleFunctions() {
		core.EachInstr(fn, func(i ssa.Instruction) {
			if st, ok := i.(*ssa.Store); ok {
				if g, ok := st.Addr.(*ssa.Global); ok {
					stores[g] = append(stores[g], st)
				}
			}
		})
	}
	for g, sts := range stores {
		if len(sts) != 1 || sts[0].Parent().Name() != "init" {
			continue
		}
		if c, ok := sts[0].Val.(*ssa.Call); ok {
			if n := core.CalleeName(c); n == "errors.New" || n == "fmt.Errorf" {
				in.gerr[g] = true
			}
		}
		if sl, ok := sts[0].Val.(*ssa.Slice); ok && sl.Low == nil && sl.High == nil {
			if al, ok := sl.X.(*ssa.Alloc); ok {
				if at, ok := al.Type().Underlying().(*types.Pointer).Elem().Underlying().(*types.Array); ok {
					in.gslice[g] = at.Len()
					if isStringType(at.Elem()) && al.Referrers() != nil {
						// every element store is a constant string: remember the longest
						max, all, n := int64(0), true, int64(0)
						for _, ref := range *al.Referrers() {
							ia, ok := ref.(*ssa.IndexAddr)
							if !ok {
								continue
							}
							if ia.Referrers() == nil {
								continue
							}
							for _, rr := range *ia.Referrers() {
								if es, ok := rr.(*ssa.Store); ok && es.Addr == ssa.Value(ia) {
									cv, ok := es.Val.(*ssa.Const)
									if !ok || cv.Value == nil || cv.Value.Kind() != constant.String {
										all = false
										continue
									}
									n++
									if l := int64(len(constant.StringVal(cv.Value))); l > max {
										max = l
									}
								}
							}
						}
						if all && n == at.Len() {
							if in.gstrMax == nil {
								in.gstrMax = map[*ssa.Global]int64{}
							}
							in.gstrMax[g] = max
						}
					}
				}
			}
		}
	}
	// sync.Pool{New: func() interface{} { return new(T) }} globals
	for _, pk := range in.P.SSAPkgs {
		for _, m := range pk.Members {
			g, ok := m.(*ssa.Global)
			if !ok {
				continue
			}
			et := g.Type().Underlying().(*types.Pointer).Elem()
			if nt, ok := et.(*types.Named); !ok || nt.Obj().Pkg() == nil || nt.Obj().Pkg().Path() != "sync" || nt.Obj().Name() != "Pool" {
				continue
			}
			// find the store of the New field in init
			initFn := pk.Func("init")
			if initFn == nil {
				continue
			}
			var rt types.Type
			consistent := true
			core.EachInstr(initFn, func(i ssa.Instruction) {
				st, ok := i.(*ssa.Store)
				if !ok {
					return
				}
				fa, ok := st.Addr.(*ssa.FieldAddr)
				if !ok || fa.X != ssa.Value(g) {
					return
				}
				var f *ssa.Function
				switch fv := st.Val.(type) {
				case *ssa.Function:
					f = fv
				case *ssa.MakeClosure:
					f = fv.Fn.(*ssa.Function)
				}
				if f == nil {
					return
				}
				core.EachInstr(f, func(j ssa.Instruction) {
					if r, ok := j.(*ssa.Return); ok && len(r.Results) == 1 {
						if mi, ok := r.Results[0].(*ssa.MakeInterface); ok {
							if rt == nil {
								rt = mi.X.Type()
							} else if !types.Identical(rt, mi.X.Type()) {
								consistent = false
							}
						} else {
							consistent = false
						}
					}
				})
			})
			if rt == nil || !consistent {
				continue
			}
			// every Put on this pool must pass a value of the same dynamic type
			for _, fn := range in.P.ModuleFunctions() {
				core.EachInstr(fn, func(i ssa.Instruction) {
					c, ok := i.(ssa.CallInstruction)
					if !ok {
						return
					}
					if core.CalleeName(c) != "(*sync.Pool).Put" || len(c.Common().Args) != 2 {
						return
					}
					if c.Common().Args[0] != ssa.Value(g) {
						return
					}
					if mi, ok := c.Common().Args[1].(*ssa.MakeInterface); !ok || !types.Identical(mi.X.Type(), rt) {
						consistent = false
					}
				})
			}
			if consistent {
				in.poolType[g] = rt
			}
		}
	}
}

// walkIntLeaves visits the integer leaves that two values of the same shape have in common.
func walkIntLeaves(a, b Value, path string, f func(path string, a, b IntV)) {
	switch av := a.(type) {
	case IntV:
		if bv, ok := b.(IntV); ok {
			f(path, av, bv)
		}
	case StructV:
		bv, ok := b.(StructV)
		if !ok || len(bv.F) != len(av.F) {
			return
		}
		for i := range av.F {
			walkIntLeaves(av.F[i], bv.F[i], fmt.Sprintf("%s.%d", path, i), f)
		}
	}
}

func leafAt(v Value, path string) (IntV, bool) {
	var out IntV
	found := false
	walkIntLeaves(v, v, "", func(p string, a, _ IntV) {
		if p == path {
			out, found = a, true
		}
	})
	return out, found
}

// arrayLens returns the lengths of the array fields of a struct type (candidates for index bounds).
func arrayLens(t types.Type) []int64 {
	if t == nil {
		return nil
	}
	st, ok := t.Underlying().(*types.Struct)
	if !ok {
		return nil
	}
	var out []int64
	for i := 0; i < st.NumFields(); i++ {
		if at, ok := st.Field(i).Type().Underlying().(*types.Array); ok {
			out = append(out, at.Len())
		}
	}
	return out
}

// rateKs: the per-iteration growth rates tried for integer cell fields relative to loop counters.
var rateKs = []int64{1, 2, 3, 4, 5, 6, 8}
