package absint

import (
	"fmt"
	"go/token"
	"go/types"
	"strings"

	"golang.org/x/tools/go/ssa"

	"pv/core"
)

// ExprString renders an SSA value in a normal form that does not depend on local names or
// positions: parameters by role, constants by value, operators structurally (depth-limited).
func ExprString(v ssa.Value, depth int) string {
	if v == nil {
		return "_"
	}
	if depth <= 0 {
		return "…"
	}
	switch t := v.(type) {
	case *ssa.Const:
		if t.Value == nil {
			return "nil"
		}
		return t.Value.ExactString()
	case *ssa.Parameter:
		fn := t.Parent()
		for i, p := range fn.Params {
			if p == t {
				if i == 0 && fn.Signature.Recv() != nil {
					return "recv"
				}
				if fn.Signature.Recv() != nil {
					return fmt.Sprintf("arg%d", i-1)
				}
				return fmt.Sprintf("arg%d", i)
			}
		}
		return "param"
	case *ssa.FreeVar:
		return "free:" + t.Name()
	case *ssa.Global:
		return t.Name()
	case *ssa.Function:
		return core.FuncName(t)
	case *ssa.BinOp:
		return "(" + ExprString(t.X, depth-1) + t.Op.String() + ExprString(t.Y, depth-1) + ")"
	case *ssa.UnOp:
		if t.Op == token.MUL {
			return "*" + ExprString(t.X, depth-1)
		}
		return t.Op.String() + ExprString(t.X, depth-1)
	case *ssa.Convert:
		return ExprString(t.X, depth)
	case *ssa.ChangeType:
		return ExprString(t.X, depth)
	case *ssa.ChangeInterface:
		return ExprString(t.X, depth)
	case *ssa.MakeInterface:
		return ExprString(t.X, depth)
	case *ssa.Call:
		name := core.CalleeName(t)
		if name == "" {
			if b, ok := t.Call.Value.(*ssa.Builtin); ok {
				name = b.Name()
			} else {
				name = "call"
			}
		}
		name = strings.ReplaceAll(name, core.ModPath+"/handlers/", "")
		name = strings.ReplaceAll(name, core.ModPath+"/", "")
		name = strings.ReplaceAll(name, core.ModPath, "packet")
		var as []string
		for _, a := range t.Call.Args {
			as = append(as, ExprString(a, depth-1))
		}
		if t.Call.IsInvoke() {
			as = append([]string{ExprString(t.Call.Value, depth-1)}, as...)
		}
		return name + "(" + strings.Join(as, ",") + ")"
	case *ssa.IndexAddr:
		return ExprString(t.X, depth-1) + "[" + ExprString(t.Index, depth-1) + "]"
	case *ssa.Index:
		return ExprString(t.X, depth-1) + "[" + ExprString(t.Index, depth-1) + "]"
	case *ssa.Lookup:
		return ExprString(t.X, depth-1) + "[" + ExprString(t.Index, depth-1) + "]"
	case *ssa.FieldAddr:
		return ExprString(t.X, depth-1) + "." + fieldName(t.X.Type(), t.Field)
	case *ssa.Field:
		return ExprString(t.X, depth-1) + "." + fieldName(t.X.Type(), t.Field)
	case *ssa.Slice:
		return ExprString(t.X, depth-1) + "[" + optExpr(t.Low, depth-1) + ":" + optExpr(t.High, depth-1) + maxExpr(t.Max, depth-1) + "]"
	case *ssa.Extract:
		return ExprString(t.Tuple, depth-1) + fmt.Sprintf("#%d", t.Index)
	case *ssa.Phi:
		return "φ"
	case *ssa.Alloc:
		if t.Comment != "" {
			return "local(" + t.Comment + ")"
		}
		return "local"
	case *ssa.SliceToArrayPointer:
		return "toarray(" + ExprString(t.X, depth-1) + ")"
	case *ssa.MakeSlice:
		return "make(" + ExprString(t.Len, depth-1) + ")"
	case *ssa.TypeAssert:
		return ExprString(t.X, depth-1) + ".(" + types.TypeString(t.AssertedType, func(p *types.Package) string { return p.Name() }) + ")"
	case *ssa.Next:
		return "next"
	}
	return strings.TrimPrefix(fmt.Sprintf("%T", v), "*ssa.")
}

func optExpr(v ssa.Value, d int) string {
	if v == nil {
		return ""
	}
	return ExprString(v, d)
}

func maxExpr(v ssa.Value, d int) string {
	if v == nil {
		return ""
	}
	return ":" + ExprString(v, d)
}

func fieldName(t types.Type, i int) string {
	if p, ok := t.Underlying().(*types.Pointer); ok {
		t = p.Elem()
	}
	if st, ok := t.Underlying().(*types.Struct); ok && i < st.NumFields() {
		return st.Field(i).Name()
	}
	return fmt.Sprint(i)
}

// SiteString renders the construct at an obligation site.
func SiteString(site ssa.Instruction) string {
	switch t := site.(type) {
	case ssa.Value:
		return ExprString(t, 5)
	case *ssa.Panic:
		return "panic(" + ExprString(t.X, 3) + ")"
	case *ssa.Store:
		return "store " + ExprString(t.Addr, 4)
	case *ssa.MapUpdate:
		return "mapupdate " + ExprString(t.Map, 4) + "[" + ExprString(t.Key, 3) + "]"
	case *ssa.Send:
		return "send " + ExprString(t.Chan, 4)
	case *ssa.Go:
		return "go " + core.CalleeName(t)
	case *ssa.Defer:
		return "defer " + core.CalleeName(t)
	}
	return fmt.Sprintf("%T", site)
}
