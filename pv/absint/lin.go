// Package absint is engine B/C of DESIGN.md: a path-sensitive abstract interpreter over go/ssa
// whose integer domain is affine forms over hash-consed atoms with intervals, and whose
// entailment is bounded Fourier–Motzkin elimination (no external solver).
package absint

import (
	"fmt"
	"math"
	"sort"
	"strings"
)

const (
	NegInf = math.MinInt64 / 4
	PosInf = math.MaxInt64 / 4
)

// Atom is an opaque integer term with an interval and optional defining facts.
type Atom struct {
	ID   int
	Key  string
	Lo   int64
	Hi   int64
	Defs []Lin // facts (each >= 0) that always hold for this atom; may mention other atoms
	// structure for re-linearisation of products
	Kind string // "", "mul", ...
	A, B *Lin
	// Structural atoms are functions of their parent atoms (hash-consed by key); fresh atoms are not.
	Structural bool
	Par        []*Atom
	Volatile   bool // content atom of a havoc'ed region version
}

func (a *Atom) String() string { return a.Key }

// Lin is c + Σ k_i·a_i. Treated as immutable.
type Lin struct {
	C int64
	T map[*Atom]int64
}

func Const(c int64) Lin { return Lin{C: c} }

func AtomLin(a *Atom) Lin { return Lin{T: map[*Atom]int64{a: 1}} }

func (l Lin) IsConst() bool { return len(l.T) == 0 }

func (l Lin) ConstVal() (int64, bool) {
	if len(l.T) == 0 {
		return l.C, true
	}
	return 0, false
}

func (l Lin) Add(o Lin) Lin {
	r := Lin{C: l.C + o.C}
	if len(l.T)+len(o.T) > 0 {
		r.T = make(map[*Atom]int64, len(l.T)+len(o.T))
		for a, k := range l.T {
			r.T[a] = k
		}
		for a, k := range o.T {
			if nk := r.T[a] + k; nk == 0 {
				delete(r.T, a)
			} else {
				r.T[a] = nk
			}
		}
		if len(r.T) == 0 {
			r.T = nil
		}
	}
	return r
}

func (l Lin) Scale(k int64) Lin {
	if k == 0 {
		return Lin{}
	}
	r := Lin{C: l.C * k}
	if len(l.T) > 0 {
		r.T = make(map[*Atom]int64, len(l.T))
		for a, c := range l.T {
			r.T[a] = c * k
		}
	}
	return r
}

func (l Lin) Neg() Lin        { return l.Scale(-1) }
func (l Lin) Sub(o Lin) Lin   { return l.Add(o.Neg()) }
func (l Lin) AddC(c int64) Lin { r := l; r.C += c; return r }

func (l Lin) Equal(o Lin) bool {
	if l.C != o.C || len(l.T) != len(o.T) {
		return false
	}
	for a, k := range l.T {
		if o.T[a] != k {
			return false
		}
	}
	return true
}

func (l Lin) atomsSorted() []*Atom {
	as := make([]*Atom, 0, len(l.T))
	for a := range l.T {
		as = append(as, a)
	}
	sort.Slice(as, func(i, j int) bool { return as[i].ID < as[j].ID })
	return as
}

func (l Lin) String() string {
	if len(l.T) == 0 {
		return fmt.Sprint(l.C)
	}
	var sb strings.Builder
	first := true
	for _, a := range l.atomsSorted() {
		k := l.T[a]
		switch {
		case first && k == 1:
		case first && k == -1:
			sb.WriteString("-")
		case first:
			fmt.Fprintf(&sb, "%d*", k)
		case k == 1:
			sb.WriteString(" + ")
		case k == -1:
			sb.WriteString(" - ")
		case k < 0:
			fmt.Fprintf(&sb, " - %d*", -k)
		default:
			fmt.Fprintf(&sb, " + %d*", k)
		}
		sb.WriteString(a.Key)
		first = false
	}
	if l.C > 0 {
		fmt.Fprintf(&sb, " + %d", l.C)
	} else if l.C < 0 {
		fmt.Fprintf(&sb, " - %d", -l.C)
	}
	return sb.String()
}

// Interval of l using atom bounds only.
func (l Lin) Bounds() (lo, hi int64) {
	lo, hi = l.C, l.C
	for a, k := range l.T {
		alo, ahi := a.Lo, a.Hi
		if k < 0 {
			alo, ahi = ahi, alo
		}
		lo = satAdd(lo, satMul(k, alo))
		hi = satAdd(hi, satMul(k, ahi))
	}
	return
}

func satMul(k, v int64) int64 {
	if v <= NegInf || v >= PosInf {
		if k == 0 {
			return 0
		}
		if (k > 0) == (v > 0) {
			return PosInf
		}
		return NegInf
	}
	r := k * v
	if k != 0 && (r/k != v || r >= PosInf || r <= NegInf) {
		if (k > 0) == (v > 0) {
			return PosInf
		}
		return NegInf
	}
	return r
}

func satAdd(a, b int64) int64 {
	if a >= PosInf || b >= PosInf {
		if a <= NegInf || b <= NegInf {
			return 0 // undefined; callers treat infinities conservatively
		}
		return PosInf
	}
	if a <= NegInf || b <= NegInf {
		return NegInf
	}
	r := a + b
	if r >= PosInf {
		return PosInf
	}
	if r <= NegInf {
		return NegInf
	}
	return r
}

// ---------------- atom table ----------------

type AtomTable struct {
	byKey map[string]*Atom
	next  int
}

func NewAtomTable() *AtomTable { return &AtomTable{byKey: map[string]*Atom{}} }

func (t *AtomTable) Get(key string, lo, hi int64) *Atom {
	if a, ok := t.byKey[key]; ok {
		return a
	}
	t.next++
	a := &Atom{ID: t.next, Key: key, Lo: lo, Hi: hi}
	t.byKey[key] = a
	return a
}

// Struct returns the hash-consed structural atom for key, recording the atoms it is a function of.
func (t *AtomTable) Struct(key string, lo, hi int64, of ...Lin) *Atom {
	if a, ok := t.byKey[key]; ok {
		return a
	}
	a := t.Get(key, lo, hi)
	a.Structural = true
	for _, l := range of {
		for p := range l.T {
			a.Par = append(a.Par, p)
		}
	}
	return a
}

// InvariantSince reports whether atom a denotes the same value as it did when the atom
// counter was at mark (i.e. it is not created per loop iteration).
func (a *Atom) InvariantSince(mark int) bool {
	if a.Volatile {
		return false
	}
	if a.ID <= mark {
		return true
	}
	if !a.Structural {
		return false
	}
	for _, p := range a.Par {
		if !p.InvariantSince(mark) {
			return false
		}
	}
	return true
}

// Mark returns the current atom counter.
func (t *AtomTable) Mark() int { return t.next }

// Fresh returns a new unique atom.
func (t *AtomTable) Fresh(prefix string, lo, hi int64) *Atom {
	t.next++
	key := fmt.Sprintf("%s#%d", prefix, t.next)
	a := &Atom{ID: t.next, Key: key, Lo: lo, Hi: hi}
	t.byKey[key] = a
	return a
}

// ---------------- entailment ----------------

// Facts is a conjunction of linear inequalities (each Lin >= 0).
type Facts struct {
	Ge []Lin
}

func (f *Facts) clone() *Facts {
	n := &Facts{Ge: make([]Lin, len(f.Ge), len(f.Ge)+4)}
	copy(n.Ge, f.Ge)
	return n
}

// constraint row for FM: Σ coef·x + c >= 0
type row struct {
	c int64
	t map[*Atom]int64
}

const fmMaxRows = 400

// Entails reports whether facts ⊢ goal >= 0 (sound; incomplete only through the row cap and rational relaxation with integer tightening).
func Entails(facts []Lin, goal Lin) bool {
	if lo, _ := goal.Bounds(); lo >= 0 && lo > NegInf {
		return true
	}
	if len(goal.T) == 0 {
		return goal.C >= 0
	}
	// Show facts ∧ (-goal - 1 >= 0) infeasible.
	neg := goal.Neg().AddC(-1)
	return Infeasible(append(append([]Lin{}, facts...), neg))
}

// Infeasible reports whether the conjunction (each >= 0) has no rational solution
// given atom bounds and defining facts. The last constraint is the focus (negated goal):
// only constraints connected to it through shared atoms are used.
func Infeasible(cons []Lin) bool {
	if len(cons) == 0 {
		return false
	}
	focus := cons[len(cons)-1]
	if len(focus.T) == 0 {
		return focus.C < 0
	}
	// relevance closure over shared atoms (product atoms pull in their factors, atoms pull in their defs)
	rel := map[*Atom]bool{}
	var defs []Lin
	var addAtom func(a *Atom)
	addAtom = func(a *Atom) {
		if rel[a] {
			return
		}
		rel[a] = true
		if a.Kind == "mul" {
			for b := range a.A.T {
				addAtom(b)
			}
			for b := range a.B.T {
				addAtom(b)
			}
		}
		for _, d := range a.Defs {
			defs = append(defs, d)
			for b := range d.T {
				addAtom(b)
			}
		}
	}
	for a := range focus.T {
		addAtom(a)
	}
	used := make([]bool, len(cons))
	used[len(cons)-1] = true
	for changed := true; changed; {
		changed = false
		for i, c := range cons {
			if used[i] {
				continue
			}
			for a := range c.T {
				if rel[a] {
					used[i] = true
					changed = true
					for b := range c.T {
						addAtom(b)
					}
					break
				}
			}
		}
	}
	var sel []Lin
	for i, c := range cons {
		if len(c.T) == 0 {
			if c.C < 0 {
				return true
			}
			continue
		}
		if used[i] {
			sel = append(sel, c)
		}
	}
	sel = append(sel, defs...)
	sel = simplifySystem(sel)
	var rows []row
	atomSet := map[*Atom]bool{}
	for _, c := range sel {
		if len(c.T) == 0 {
			if c.C < 0 {
				return true
			}
			continue
		}
		rows = append(rows, row{c: c.C, t: c.T})
		for a := range c.T {
			atomSet[a] = true
		}
	}
	atoms := make([]*Atom, 0, len(atomSet))
	for a := range atomSet {
		atoms = append(atoms, a)
	}
	sort.Slice(atoms, func(i, j int) bool { return atoms[i].ID < atoms[j].ID })
	for _, a := range atoms {
		if a.Lo > NegInf {
			rows = append(rows, row{c: -a.Lo, t: map[*Atom]int64{a: 1}})
		}
		if a.Hi < PosInf {
			rows = append(rows, row{c: a.Hi, t: map[*Atom]int64{a: -1}})
		}
	}
	return fmInfeasible(rows, atoms)
}

func gcd(a, b int64) int64 {
	if a < 0 {
		a = -a
	}
	if b < 0 {
		b = -b
	}
	for b != 0 {
		a, b = b, a%b
	}
	return a
}

func normalizeRow(r row) (row, bool) {
	// divide by gcd of coefficients; tighten constant with floor (integer atoms)
	var g int64
	for _, k := range r.t {
		g = gcd(g, k)
	}
	if g > 1 {
		nt := make(map[*Atom]int64, len(r.t))
		for a, k := range r.t {
			nt[a] = k / g
		}
		// Σ k x + c >= 0  with all k divisible by g  =>  Σ (k/g) x + floor(c/g) >= 0
		c := r.c
		q := c / g
		if c%g != 0 && c < 0 {
			q--
		}
		return row{c: q, t: nt}, true
	}
	return r, true
}

func fmInfeasible(rows []row, atoms []*Atom) bool {
	// eliminate atoms one by one, choosing the one with the fewest pos*neg products
	remaining := map[*Atom]bool{}
	for _, a := range atoms {
		remaining[a] = true
	}
	for i := range rows {
		rows[i], _ = normalizeRow(rows[i])
	}
	for len(remaining) > 0 {
		// constant rows check
		for _, r := range rows {
			if len(r.t) == 0 && r.c < 0 {
				return true
			}
		}
		var best *Atom
		bestCost := int64(math.MaxInt64)
		for a := range remaining {
			var p, n int64
			nonUnit := false
			for _, r := range rows {
				if k := r.t[a]; k > 0 {
					p++
					if k > 1 {
						nonUnit = true
					}
				} else if k < 0 {
					n++
					if k < -1 {
						nonUnit = true
					}
				}
			}
			cost := p*n - p - n
			if nonUnit {
				// eliminate unit-coefficient atoms first: rows left over atoms with larger coefficients
				// can then be tightened to integers (parity / divisibility arguments)
				cost += 1 << 20
			}
			if cost < bestCost || (cost == bestCost && best != nil && a.ID < best.ID) {
				best, bestCost = a, cost
			}
		}
		a := best
		delete(remaining, a)
		var pos, neg, rest []row
		for _, r := range rows {
			k := r.t[a]
			switch {
			case k > 0:
				pos = append(pos, r)
			case k < 0:
				neg = append(neg, r)
			default:
				rest = append(rest, r)
			}
		}
		if len(pos)*len(neg)+len(rest) > fmMaxRows {
			return false // give up: unknown => not proven infeasible
		}
		for _, p := range pos {
			for _, n := range neg {
				kp, kn := p.t[a], -n.t[a]
				g := gcd(kp, kn)
				mp, mn := kn/g, kp/g
				nr := row{c: satAdd(satMul(mp, p.c), satMul(mn, n.c)), t: map[*Atom]int64{}}
				overflow := false
				for b, k := range p.t {
					if b != a {
						nr.t[b] += k * mp
					}
				}
				for b, k := range n.t {
					if b != a {
						nr.t[b] += k * mn
					}
				}
				for b, k := range nr.t {
					if k == 0 {
						delete(nr.t, b)
					} else if k > 1<<40 || k < -(1<<40) {
						overflow = true
					}
				}
				if overflow || nr.c >= PosInf || nr.c <= NegInf {
					continue // dropping a constraint is sound
				}
				nr, _ = normalizeRow(nr)
				if len(nr.t) == 0 {
					if nr.c < 0 {
						return true
					}
					continue
				}
				rest = append(rest, nr)
			}
		}
		rows = dedupRows(rest)
	}
	for _, r := range rows {
		if len(r.t) == 0 && r.c < 0 {
			return true
		}
	}
	return false
}

func dedupRows(rows []row) []row {
	seen := map[string]int{}
	var out []row
	for _, r := range rows {
		k := rowKey(r)
		if i, ok := seen[k]; ok {
			if r.c < out[i].c {
				out[i] = r // tighter
			}
			continue
		}
		seen[k] = len(out)
		out = append(out, r)
	}
	return out
}

func rowKey(r row) string {
	as := make([]*Atom, 0, len(r.t))
	for a := range r.t {
		as = append(as, a)
	}
	sort.Slice(as, func(i, j int) bool { return as[i].ID < as[j].ID })
	var sb strings.Builder
	for _, a := range as {
		fmt.Fprintf(&sb, "%d:%d,", a.ID, r.t[a])
	}
	return sb.String()
}

// simplifySystem: find atoms pinned to a constant by the constraints (a >= c and a <= c via
// single-atom rows or bounds) and substitute them inside product atoms so that
// mul(x, y) with y == c becomes c*x.
func simplifySystem(cons []Lin) []Lin {
	// collect single-atom bounds
	lo := map[*Atom]int64{}
	hi := map[*Atom]int64{}
	for _, c := range cons {
		if len(c.T) == 1 {
			for a, k := range c.T {
				// k*a + C >= 0
				if k == 1 {
					if v, ok := lo[a]; !ok || -c.C > v {
						lo[a] = -c.C
					}
				} else if k == -1 {
					if v, ok := hi[a]; !ok || c.C < v {
						hi[a] = c.C
					}
				}
			}
		}
	}
	pinned := map[*Atom]int64{}
	consider := func(a *Atom) {
		l, h := a.Lo, a.Hi
		if v, ok := lo[a]; ok && v > l {
			l = v
		}
		if v, ok := hi[a]; ok && v < h {
			h = v
		}
		if l == h {
			pinned[a] = l
		}
	}
	hasMul := false
	var visit func(l Lin)
	seen := map[*Atom]bool{}
	visit = func(l Lin) {
		for a := range l.T {
			if seen[a] {
				continue
			}
			seen[a] = true
			consider(a)
			if a.Kind == "mul" {
				hasMul = true
				visit(*a.A)
				visit(*a.B)
			}
		}
	}
	for _, c := range cons {
		visit(c)
	}
	if !hasMul || len(pinned) == 0 {
		return cons
	}
	subst := func(l Lin) Lin {
		return substLin(l, pinned)
	}
	out := make([]Lin, len(cons))
	for i, c := range cons {
		out[i] = subst(c)
	}
	return out
}

func substLin(l Lin, pinned map[*Atom]int64) Lin {
	r := Lin{C: l.C}
	for a, k := range l.T {
		if a.Kind == "mul" {
			A := substLin(*a.A, pinned)
			B := substLin(*a.B, pinned)
			if v, ok := evalPinned(A, pinned); ok {
				r = r.Add(B.Scale(v).Scale(k))
				continue
			}
			if v, ok := evalPinned(B, pinned); ok {
				r = r.Add(A.Scale(v).Scale(k))
				continue
			}
		}
		r = r.Add(AtomLin(a).Scale(k))
	}
	return r
}

func evalPinned(l Lin, pinned map[*Atom]int64) (int64, bool) {
	v := l.C
	for a, k := range l.T {
		p, ok := pinned[a]
		if !ok {
			return 0, false
		}
		v += k * p
	}
	return v, true
}

// hashing (order-independent) used for state fingerprints
func mix64(x uint64) uint64 {
	x ^= x >> 33
	x *= 0xff51afd7ed558ccd
	x ^= x >> 33
	x *= 0xc4ceb9fe1a85ec53
	x ^= x >> 33
	return x
}

// Hash returns two independent 64-bit hashes of l.
func (l Lin) Hash() (uint64, uint64) {
	h1 := mix64(uint64(l.C) + 0x9e3779b97f4a7c15)
	h2 := mix64(uint64(l.C) ^ 0xc2b2ae3d27d4eb4f)
	for a, k := range l.T {
		h1 += mix64(uint64(a.ID)*0x100000001b3+uint64(k)) * 0x9e3779b97f4a7c15
		h2 += mix64(uint64(a.ID)*0x1000193+uint64(k)*0x27d4eb2f165667c5) * 0xc2b2ae3d27d4eb4f
	}
	return h1, h2
}
