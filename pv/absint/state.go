package absint

import (
	"fmt"
	"reflect"
	"go/types"

	"golang.org/x/tools/go/ssa"
)

// Heap is the part of the state shared across frames: tracked memory, facts, region versions.
type Heap struct {
	mem    map[*Cell]Value
	facts  []Lin
	neqs   []Lin
	regver map[*Region]int
	known  map[*Region][]knownElem // elements written with a known value at a constant offset (copy-on-write slices)
}

type knownElem struct {
	off int64
	val Lin
}

// writeRegion records a write to region r covering [off, off+n) (nil = unknown extent): the
// region's unknown contents get a new version; known elements outside the written range survive.
func (in *Interp) writeRegion(h *Heap, r *Region, off *Lin, n *Lin, tag int) {
	in.instance++
	h.regver[r] = tag + in.instance
	old := h.known[r]
	if traceForks {
		os, ns := "nil", "nil"
		if off != nil {
			os = off.String()
		}
		if n != nil {
			ns = n.String()
		}
		fmt.Printf("[write] %s off=%s n=%s tag=%d known=%d stack=%v\n", r.Name, os, ns, tag, len(old), len(in.stack))
	}
	if len(old) == 0 {
		return
	}
	var lo, hi int64
	exact := false
	if off != nil && n != nil {
		if o, ok := off.ConstVal(); ok {
			if c, ok := n.ConstVal(); ok {
				lo, hi, exact = o, o+c, true
			}
		}
	}
	if !exact {
		// symbolic start/extent: a known element survives when the write provably starts after it
		// or ends before it
		if off != nil {
			o, _ := off.Bounds()
			var nk []knownElem
			for _, k := range old {
				switch {
				case o > NegInf && k.off < o:
					nk = append(nk, k)
				case h.entails(off.AddC(-(k.off + 1))):
					nk = append(nk, k)
				case n != nil && h.entails(Const(k.off).Sub(*off).Sub(*n)):
					nk = append(nk, k)
				}
			}
			if len(nk) == 0 {
				delete(h.known, r)
			} else {
				h.known[r] = nk
			}
			return
		}
		delete(h.known, r)
		return
	}
	var nk []knownElem
	for _, k := range old {
		if k.off < lo || k.off >= hi {
			nk = append(nk, k)
		}
	}
	if len(nk) == 0 {
		delete(h.known, r)
	} else {
		h.known[r] = nk
	}
}

func (h *Heap) setKnown(r *Region, off int64, val Lin) {
	old := h.known[r]
	nk := make([]knownElem, 0, len(old)+1)
	for _, k := range old {
		if k.off != off {
			nk = append(nk, k)
		}
	}
	nk = append(nk, knownElem{off, val})
	h.known[r] = nk
}

func (h *Heap) getKnown(r *Region, off Lin) (Lin, bool) {
	ks := h.known[r]
	if len(ks) == 0 {
		return Lin{}, false
	}
	o, ok := off.ConstVal()
	if !ok {
		return Lin{}, false
	}
	for _, k := range ks {
		if k.off == o {
			return k.val, true
		}
	}
	return Lin{}, false
}

func newHeap() *Heap {
	return &Heap{mem: map[*Cell]Value{}, regver: map[*Region]int{}, known: map[*Region][]knownElem{}}
}

func (h *Heap) clone() *Heap {
	n := &Heap{mem: make(map[*Cell]Value, len(h.mem)), regver: make(map[*Region]int, len(h.regver)), known: make(map[*Region][]knownElem, len(h.known))}
	for k, v := range h.known {
		n.known[k] = v
	}
	for k, v := range h.mem {
		n.mem[k] = v
	}
	for k, v := range h.regver {
		n.regver[k] = v
	}
	n.facts = append(make([]Lin, 0, len(h.facts)+4), h.facts...)
	n.neqs = append([]Lin(nil), h.neqs...)
	return n
}

func (h *Heap) addFact(l Lin) {
	if lo, _ := l.Bounds(); lo >= 0 && lo > NegInf {
		return // implied by atom bounds
	}
	for _, f := range h.facts {
		if f.Equal(l) {
			return
		}
	}
	h.facts = append(h.facts, l)
}

func (h *Heap) addEq(l Lin) {
	h.addFact(l)
	h.addFact(l.Neg())
}

func (h *Heap) entails(goal Lin) bool { return Entails(h.facts, goal) }

// feasible reports false only when the facts are provably contradictory together with extra (>=0).
func (h *Heap) feasibleWith(extra Lin) bool {
	if lo, hi := extra.Bounds(); hi < 0 && hi < PosInf {
		_ = lo
		return false
	}
	return !Infeasible(append(append([]Lin{}, h.facts...), extra))
}

type deferred struct {
	fn   Value
	args []Value
	call *ssa.Defer
}

// State is one abstract execution state inside a function activation.
type boolFact struct {
	val bool
	def ssa.Value
}

type State struct {
	env     map[ssa.Value]Value
	bools   map[string]boolFact // outcome of opaque conditions that are tested more than once
	h       *Heap
	pred    *ssa.BasicBlock
	phiDone bool
	defers  []deferred
	trail   []string // branch decisions (bounded) for diagnostics
}

func (s *State) fork() *State {
	n := &State{env: make(map[ssa.Value]Value, len(s.env)+8), h: s.h.clone(), pred: s.pred, phiDone: s.phiDone}
	for k, v := range s.env {
		n.env[k] = v
	}
	if len(s.bools) > 0 {
		n.bools = make(map[string]boolFact, len(s.bools))
		for k, v := range s.bools {
			n.bools[k] = v
		}
	}
	n.defers = append([]deferred(nil), s.defers...)
	n.trail = append([]string(nil), s.trail...)
	return n
}

func (s *State) note(msg string) {
	if len(s.trail) < 40 {
		s.trail = append(s.trail, msg)
	}
}

// fingerprint hashes the state (128 bits, order-independent over maps) for de-duplication.
func (s *State) fingerprint(keep func(ssa.Value) bool) string {
	var h1, h2 uint64
	add := func(a, b uint64) {
		h1 += a
		h2 += b
	}
	for k, v := range s.env {
		if keep != nil && !keep(k) {
			continue
		}
		a, b := hashValue(v)
		kp := ptrHash(k)
		add(mix64(a^kp), mix64(b+kp*31))
	}
	for _, f := range s.h.facts {
		a, b := f.Hash()
		add(mix64(a^0x11), mix64(b^0x12))
	}
	for _, f := range s.h.neqs {
		a, b := f.Hash()
		add(mix64(a^0x21), mix64(b^0x22))
	}
	for c, v := range s.h.mem {
		a, b := hashValue(v)
		add(mix64(a^uint64(c.ID)*0x9e37), mix64(b+uint64(c.ID)*0x85eb))
	}
	for k, v := range s.bools {
		a, b := hashString(k)
		if v.val {
			a, b = a+1, b+7
		}
		add(mix64(a), mix64(b))
	}
	for r, v := range s.h.regver {
		if v != 0 {
			add(mix64(uint64(r.ID)<<32|uint64(uint32(v))), mix64(uint64(r.ID)*0x9e3779b1+uint64(v)))
		}
	}
	for r, ks := range s.h.known {
		for _, k := range ks {
			a, b := k.val.Hash()
			add(mix64(a+uint64(r.ID)*0x3b+uint64(k.off)*0x1d), mix64(b^(uint64(r.ID)*0x6f+uint64(k.off))))
		}
	}
	add(uint64(len(s.defers))*0x51ed, uint64(len(s.defers))*0x7f4a)
	return fmt.Sprintf("%016x%016x", h1, h2)
}

func ptrHash(v ssa.Value) uint64 {
	return mix64(uint64(reflectPtr(v)))
}

func hashString(s string) (uint64, uint64) {
	var a, b uint64 = 14695981039346656037, 0x9e3779b97f4a7c15
	for i := 0; i < len(s); i++ {
		a = (a ^ uint64(s[i])) * 1099511628211
		b = (b + uint64(s[i])) * 0xff51afd7ed558ccd
	}
	return a, b
}

func hashValue(v Value) (uint64, uint64) {
	if v == nil {
		return 1, 2
	}
	switch t := v.(type) {
	case IntV:
		a, b := t.L.Hash()
		return a ^ 0x101, b ^ 0x102
	case BoolV:
		switch t.Kind {
		case BConst:
			if t.Const {
				return 0x201, 0x202
			}
			return 0x203, 0x204
		case BGe, BEq, BNe:
			a, b := t.L.Hash()
			return a ^ uint64(0x210+int(t.Kind)), b ^ uint64(0x220+int(t.Kind))
		case BNil:
			p := uint64(0)
			if t.Of != nil {
				p = ptrHash(t.Of)
			}
			if t.IsNil {
				p++
			}
			return p ^ 0x231, mix64(p)
		}
		return hashString("o" + t.Key)
	case SliceV:
		if t.IsNil {
			return 0x301, 0x302
		}
		if t.Str != nil {
			a, b := hashString(*t.Str)
			return a ^ 0x311, b ^ 0x312
		}
		a1, b1 := t.Off.Hash()
		a2, b2 := t.Len.Hash()
		a3, b3 := t.Cap.Hash()
		rid := uint64(0)
		if t.Reg != nil {
			rid = uint64(t.Reg.ID)
		}
		f := uint64(0)
		if t.MaybeNil {
			f = 0x5555
		}
		if t.NilOr {
			f += 0x77777
		}
		return mix64(a1+rid*0x1f) + mix64(a2^0x77) + mix64(a3^0x99) + f, mix64(b1^rid) + mix64(b2+0x77) + mix64(b3+0x99) + f
	case PtrV:
		var a, b uint64 = 0x401, 0x402
		if t.Cell != nil {
			a += uint64(t.Cell.ID) * 0x9e3779b97f4a7c15
			b += uint64(t.Cell.ID) * 0xc2b2ae3d27d4eb4f
			for i, p := range t.Path {
				a = mix64(a + uint64(p+1)*uint64(i+3))
				b = mix64(b ^ uint64(p+7)*uint64(i+5))
			}
		}
		if t.Reg != nil {
			oa, ob := t.Off.Hash()
			a += mix64(uint64(t.Reg.ID)*0x1b3 + oa)
			b += mix64(uint64(t.Reg.ID)*0x193 ^ ob)
			a += uint64(t.ArrLen) * 31
		}
		a += uint64(t.Nil) * 0x1001
		b += uint64(t.Nil) * 0x2003
		return a, b
	case StructV:
		var a, b uint64 = 0x501, 0x502
		for i, f := range t.F {
			fa, fb := hashValue(f)
			a = mix64(a + fa*uint64(2*i+3))
			b = mix64(b ^ (fb + uint64(i)*0x9e37))
		}
		return a, b
	case TupleV:
		a, b := hashValue(StructV{t.F})
		return a ^ 0x61, b ^ 0x62
	case ArrayV:
		oa, ob := t.Off.Hash()
		return mix64(uint64(t.Reg.ID)*0x71+oa) ^ uint64(t.N), mix64(uint64(t.Reg.ID)*0x73^ob) + uint64(t.N)
	case IfaceV:
		a, b := hashValue(t.Dyn)
		if t.DT != nil {
			sa, sb := hashString(t.DT.String())
			a, b = a^sa, b+sb
		}
		return a + uint64(t.Nil)*0x801, b + uint64(t.Nil)*0x803
	case FuncV:
		a, b := hashString(t.Fn.String())
		for i, bd := range t.Bind {
			fa, fb := hashValue(bd)
			a = mix64(a + fa*uint64(i+3))
			b = mix64(b ^ fb)
		}
		return a, b
	case Top:
		return 0x901, 0x902
	}
	return hashString(v.vstr())
}

func valStr(v Value) string {
	if v == nil {
		return "_"
	}
	return v.vstr()
}

// valuesEqual: structural equality of abstract values.
func valuesEqual(a, b Value) bool {
	if a == nil || b == nil {
		return a == nil && b == nil
	}
	switch x := a.(type) {
	case IntV:
		y, ok := b.(IntV)
		return ok && x.L.Equal(y.L)
	case BoolV:
		y, ok := b.(BoolV)
		if !ok || x.Kind != y.Kind {
			return false
		}
		switch x.Kind {
		case BConst:
			return x.Const == y.Const
		case BGe, BEq, BNe:
			return x.L.Equal(y.L)
		case BNil:
			return x.Of == y.Of && x.IsNil == y.IsNil
		}
		return x.Key == y.Key
	case SliceV:
		y, ok := b.(SliceV)
		if !ok || x.IsNil != y.IsNil || x.IsString != y.IsString || x.MaybeNil != y.MaybeNil || x.NilOr != y.NilOr {
			return false
		}
		if x.IsNil {
			return true
		}
		if (x.Str == nil) != (y.Str == nil) || (x.Str != nil && *x.Str != *y.Str) {
			return false
		}
		return x.Reg == y.Reg && x.Off.Equal(y.Off) && x.Len.Equal(y.Len) && x.Cap.Equal(y.Cap)
	case PtrV:
		y, ok := b.(PtrV)
		if !ok || x.Cell != y.Cell || x.Reg != y.Reg || x.Nil != y.Nil || x.ArrLen != y.ArrLen || len(x.Path) != len(y.Path) {
			return false
		}
		for i := range x.Path {
			if x.Path[i] != y.Path[i] {
				return false
			}
		}
		return x.Reg == nil || x.Off.Equal(y.Off)
	case StructV:
		y, ok := b.(StructV)
		if !ok || len(x.F) != len(y.F) {
			return false
		}
		for i := range x.F {
			if !valuesEqual(x.F[i], y.F[i]) {
				return false
			}
		}
		return true
	case TupleV:
		y, ok := b.(TupleV)
		if !ok || len(x.F) != len(y.F) {
			return false
		}
		for i := range x.F {
			if !valuesEqual(x.F[i], y.F[i]) {
				return false
			}
		}
		return true
	case ArrayV:
		y, ok := b.(ArrayV)
		return ok && x.Reg == y.Reg && x.N == y.N && x.Off.Equal(y.Off)
	case IfaceV:
		y, ok := b.(IfaceV)
		if !ok || x.Nil != y.Nil {
			return false
		}
		if (x.DT == nil) != (y.DT == nil) {
			return false
		}
		if x.DT != nil && x.DT.String() != y.DT.String() {
			return false
		}
		return valuesEqual(x.Dyn, y.Dyn)
	case FuncV:
		y, ok := b.(FuncV)
		if !ok || x.Fn != y.Fn || len(x.Bind) != len(y.Bind) {
			return false
		}
		for i := range x.Bind {
			if !valuesEqual(x.Bind[i], y.Bind[i]) {
				return false
			}
		}
		return true
	case Top:
		_, ok := b.(Top)
		return ok
	}
	return valStr(a) == valStr(b)
}

// zeroValue builds the zero value of type t.
func (in *Interp) zeroValue(t types.Type) Value {
	switch u := t.Underlying().(type) {
	case *types.Basic:
		switch {
		case u.Info()&types.IsInteger != 0:
			return IntV{Const(0)}
		case u.Info()&types.IsBoolean != 0:
			return BoolV{Kind: BConst, Const: false}
		case u.Info()&types.IsString != 0:
			e := ""
			return SliceV{Reg: in.emptyReg, Len: Const(0), Cap: Const(0), Str: &e, IsString: true}
		}
		return Top{t}
	case *types.Slice:
		return SliceV{Reg: in.emptyReg, Len: Const(0), Cap: Const(0), IsNil: true}
	case *types.Pointer, *types.Signature, *types.Map, *types.Chan:
		if _, ok := u.(*types.Pointer); ok {
			return PtrV{Nil: 1, T: t}
		}
		return Top{t}
	case *types.Interface:
		return IfaceV{Nil: 1}
	case *types.Struct:
		s := StructV{F: make([]Value, u.NumFields())}
		for i := range s.F {
			s.F[i] = in.zeroValue(u.Field(i).Type())
		}
		return s
	case *types.Array:
		return ArrayV{Reg: in.newRegion("zero-array", false), N: u.Len()}
	}
	return Top{t}
}

// unknownOf builds an unconstrained value of type t. external=true marks pointers as possibly nil.
func (in *Interp) unknownOf(t types.Type, why string, external bool) Value {
	return in.unknownDepth(t, why, external, 0)
}

func (in *Interp) unknownDepth(t types.Type, why string, external bool, depth int) Value {
	if t == nil {
		return Top{}
	}
	switch u := t.Underlying().(type) {
	case *types.Basic:
		switch {
		case u.Info()&types.IsInteger != 0:
			lo, hi := typeRange(t)
			return IntV{AtomLin(in.Atoms.Fresh(why, lo, hi))}
		case u.Info()&types.IsBoolean != 0:
			return BoolV{Kind: BOpaque, Key: in.Atoms.Fresh("b:"+why, 0, 1).Key}
		case u.Info()&types.IsString != 0:
			r := in.newRegion("str:"+why, false)
			ln := in.Atoms.Fresh("len:"+why, 0, PosInf)
			return SliceV{Reg: r, Len: AtomLin(ln), Cap: AtomLin(ln), IsString: true}
		}
		return Top{t}
	case *types.Slice:
		r := in.newRegion("mem:"+why, false)
		ln := in.Atoms.Fresh("len:"+why, 0, PosInf)
		cp := in.Atoms.Fresh("cap:"+why, 0, PosInf)
		cp.Defs = []Lin{AtomLin(cp).Sub(AtomLin(ln))}
		ln.Defs = []Lin{AtomLin(cp).Sub(AtomLin(ln))}
		return SliceV{Reg: r, Len: AtomLin(ln), Cap: AtomLin(cp), MaybeNil: true}
	case *types.Pointer:
		if external {
			return PtrV{Nil: 0, T: t}
		}
		return PtrV{Nil: 2, T: t}
	case *types.Interface:
		return IfaceV{Nil: 0}
	case *types.Struct:
		if depth > 3 {
			return Top{t}
		}
		s := StructV{F: make([]Value, u.NumFields())}
		for i := range s.F {
			s.F[i] = in.unknownDepth(u.Field(i).Type(), why+"."+u.Field(i).Name(), external, depth+1)
		}
		return s
	case *types.Tuple:
		tv := TupleV{F: make([]Value, u.Len())}
		for i := range tv.F {
			tv.F[i] = in.unknownDepth(u.At(i).Type(), fmt.Sprintf("%s.%d", why, i), external, depth+1)
		}
		return tv
	case *types.Array:
		return ArrayV{Reg: in.newRegion("arr:"+why, false), N: u.Len()}
	}
	return Top{t}
}

func (in *Interp) newRegion(name string, input bool) *Region {
	in.regionN++
	return &Region{ID: in.regionN, Name: fmt.Sprintf("%s@%d", name, in.regionN), Input: input}
}

func (in *Interp) newCell(name string, t types.Type) *Cell {
	in.cellN++
	return &Cell{ID: in.cellN, Name: fmt.Sprintf("%s@%d", name, in.cellN), T: t}
}

// symbolic slice for an input buffer parameter.
func (in *Interp) InputSlice(name string, input bool) SliceV {
	r := in.newRegion(name, input)
	ln := in.Atoms.Get("len("+r.Name+")", 0, PosInf)
	cp := in.Atoms.Get("cap("+r.Name+")", 0, PosInf)
	cp.Defs = []Lin{AtomLin(cp).Sub(AtomLin(ln))}
	ln.Defs = []Lin{AtomLin(cp).Sub(AtomLin(ln))}
	return SliceV{Reg: r, Len: AtomLin(ln), Cap: AtomLin(cp), MaybeNil: true}
}

// byteAtom returns the atom for the element at off of region r (current version).
func (in *Interp) elemAtom(h *Heap, r *Region, off Lin, lo, hi int64) *Atom {
	key := fmt.Sprintf("%s.v%d[%s]", r.Name, h.regver[r], off.String())
	a := in.Atoms.Struct(key, lo, hi, off)
	if h.regver[r] >= 1000000 {
		a.Volatile = true
	}
	return a
}

// elemLin returns the value of the element at off: a known written value or the content atom.
func (in *Interp) elemLin(h *Heap, r *Region, off Lin, lo, hi int64) Lin {
	if v, ok := h.getKnown(r, off); ok {
		return v
	}
	return AtomLin(in.elemAtom(h, r, off, lo, hi))
}

// get/set within a cell value following a field path.
func getPath(v Value, path []int) Value {
	for _, i := range path {
		s, ok := v.(StructV)
		if !ok || i >= len(s.F) {
			return nil
		}
		v = s.F[i]
	}
	return v
}

func setPath(v Value, path []int, nv Value, mk func(depth int) Value) Value {
	if len(path) == 0 {
		return nv
	}
	s, ok := v.(StructV)
	if !ok {
		// materialise an unknown struct at this level
		if mk != nil {
			if ms, ok2 := mk(0).(StructV); ok2 {
				s = ms
			} else {
				return v
			}
		} else {
			return v
		}
	}
	ns := StructV{F: append([]Value(nil), s.F...)}
	if path[0] < len(ns.F) {
		var sub func(int) Value
		ns.F[path[0]] = setPath(ns.F[path[0]], path[1:], nv, sub)
	}
	return ns
}

func reflectPtr(v ssa.Value) uintptr {
	rv := reflect.ValueOf(v)
	if rv.Kind() == reflect.Ptr {
		return rv.Pointer()
	}
	return 0
}
