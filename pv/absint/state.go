package absint

import (
	"fmt"
	"go/types"
	"sort"
	"strings"

	"golang.org/x/tools/go/ssa"
)

// Heap is the part of the state shared across frames: tracked memory, facts, region versions.
type Heap struct {
	mem    map[*Cell]Value
	facts  []Lin
	neqs   []Lin
	regver map[*Region]int
}

func newHeap() *Heap {
	return &Heap{mem: map[*Cell]Value{}, regver: map[*Region]int{}}
}

func (h *Heap) clone() *Heap {
	n := &Heap{mem: make(map[*Cell]Value, len(h.mem)), regver: make(map[*Region]int, len(h.regver))}
	for k, v := range h.mem {
		n.mem[k] = v
	}
	for k, v := range h.regver {
		n.regver[k] = v
	}
	n.facts = append(make([]Lin, 0, len(h.facts)+4), h.facts...)
	n.neqs = append([]Lin(nil), h.neqs...)
	return n
}

func (h *Heap) addFact(l Lin) {
	if lo, _ := l.Bounds(); lo >= 0 && lo > NegInf {
		return // implied by atom bounds
	}
	for _, f := range h.facts {
		if f.Equal(l) {
			return
		}
	}
	h.facts = append(h.facts, l)
}

func (h *Heap) addEq(l Lin) {
	h.addFact(l)
	h.addFact(l.Neg())
}

func (h *Heap) entails(goal Lin) bool { return Entails(h.facts, goal) }

// feasible reports false only when the facts are provably contradictory together with extra (>=0).
func (h *Heap) feasibleWith(extra Lin) bool {
	if lo, hi := extra.Bounds(); hi < 0 && hi < PosInf {
		_ = lo
		return false
	}
	return !Infeasible(append(append([]Lin{}, h.facts...), extra))
}

type deferred struct {
	fn   Value
	args []Value
	call *ssa.Defer
}

// State is one abstract execution state inside a function activation.
type boolFact struct {
	val bool
	def ssa.Value
}

type State struct {
	env     map[ssa.Value]Value
	bools   map[string]boolFact // outcome of opaque conditions that are tested more than once
	h       *Heap
	pred    *ssa.BasicBlock
	phiDone bool
	defers  []deferred
	trail   []string // branch decisions (bounded) for diagnostics
}

func (s *State) fork() *State {
	n := &State{env: make(map[ssa.Value]Value, len(s.env)+8), h: s.h.clone(), pred: s.pred, phiDone: s.phiDone}
	for k, v := range s.env {
		n.env[k] = v
	}
	if len(s.bools) > 0 {
		n.bools = make(map[string]boolFact, len(s.bools))
		for k, v := range s.bools {
			n.bools[k] = v
		}
	}
	n.defers = append([]deferred(nil), s.defers...)
	n.trail = append([]string(nil), s.trail...)
	return n
}

func (s *State) note(msg string) {
	if len(s.trail) < 40 {
		s.trail = append(s.trail, msg)
	}
}

// fingerprint renders the state for de-duplication at block entries.
func (s *State) fingerprint(keep func(ssa.Value) bool) string {
	var sb strings.Builder
	type kv struct {
		k string
		v string
	}
	var es []kv
	for k, v := range s.env {
		if keep != nil && !keep(k) {
			continue
		}
		es = append(es, kv{fmt.Sprintf("%p", k), valStr(v)})
	}
	sort.Slice(es, func(i, j int) bool { return es[i].k < es[j].k })
	for _, e := range es {
		sb.WriteString(e.k)
		sb.WriteByte('=')
		sb.WriteString(e.v)
		sb.WriteByte(';')
	}
	sb.WriteString("|F:")
	fs := make([]string, len(s.h.facts))
	for i, f := range s.h.facts {
		fs[i] = f.String()
	}
	sort.Strings(fs)
	sb.WriteString(strings.Join(fs, "&"))
	sb.WriteString("|N:")
	ns := make([]string, len(s.h.neqs))
	for i, f := range s.h.neqs {
		ns[i] = f.String()
	}
	sort.Strings(ns)
	sb.WriteString(strings.Join(ns, "&"))
	sb.WriteString("|M:")
	var ms []kv
	for c, v := range s.h.mem {
		ms = append(ms, kv{fmt.Sprint(c.ID), valStr(v)})
	}
	sort.Slice(ms, func(i, j int) bool { return ms[i].k < ms[j].k })
	for _, e := range ms {
		sb.WriteString(e.k + "=" + e.v + ";")
	}
	sb.WriteString("|B:")
	var bs []string
	for k, v := range s.bools {
		bs = append(bs, fmt.Sprintf("%s=%v", k, v.val))
	}
	sort.Strings(bs)
	sb.WriteString(strings.Join(bs, ","))
	sb.WriteString("|V:")
	var vs []string
	for r, v := range s.h.regver {
		if v != 0 {
			vs = append(vs, fmt.Sprintf("%d=%d", r.ID, v))
		}
	}
	sort.Strings(vs)
	sb.WriteString(strings.Join(vs, ","))
	fmt.Fprintf(&sb, "|D:%d", len(s.defers))
	return sb.String()
}

func valStr(v Value) string {
	if v == nil {
		return "_"
	}
	return v.vstr()
}

// valuesEqual: structural equality of abstract values.
func valuesEqual(a, b Value) bool {
	return valStr(a) == valStr(b) && fmt.Sprintf("%T", a) == fmt.Sprintf("%T", b)
}

// zeroValue builds the zero value of type t.
func (in *Interp) zeroValue(t types.Type) Value {
	switch u := t.Underlying().(type) {
	case *types.Basic:
		switch {
		case u.Info()&types.IsInteger != 0:
			return IntV{Const(0)}
		case u.Info()&types.IsBoolean != 0:
			return BoolV{Kind: BConst, Const: false}
		case u.Info()&types.IsString != 0:
			e := ""
			return SliceV{Reg: in.emptyReg, Len: Const(0), Cap: Const(0), Str: &e, IsString: true}
		}
		return Top{t}
	case *types.Slice:
		return SliceV{Reg: in.emptyReg, Len: Const(0), Cap: Const(0), IsNil: true}
	case *types.Pointer, *types.Signature, *types.Map, *types.Chan:
		if _, ok := u.(*types.Pointer); ok {
			return PtrV{Nil: 1, T: t}
		}
		return Top{t}
	case *types.Interface:
		return IfaceV{Nil: 1}
	case *types.Struct:
		s := StructV{F: make([]Value, u.NumFields())}
		for i := range s.F {
			s.F[i] = in.zeroValue(u.Field(i).Type())
		}
		return s
	case *types.Array:
		return ArrayV{Reg: in.newRegion("zero-array", false), N: u.Len()}
	}
	return Top{t}
}

// unknownOf builds an unconstrained value of type t. external=true marks pointers as possibly nil.
func (in *Interp) unknownOf(t types.Type, why string, external bool) Value {
	return in.unknownDepth(t, why, external, 0)
}

func (in *Interp) unknownDepth(t types.Type, why string, external bool, depth int) Value {
	if t == nil {
		return Top{}
	}
	switch u := t.Underlying().(type) {
	case *types.Basic:
		switch {
		case u.Info()&types.IsInteger != 0:
			lo, hi := typeRange(t)
			return IntV{AtomLin(in.Atoms.Fresh(why, lo, hi))}
		case u.Info()&types.IsBoolean != 0:
			return BoolV{Kind: BOpaque, Key: in.Atoms.Fresh("b:"+why, 0, 1).Key}
		case u.Info()&types.IsString != 0:
			r := in.newRegion("str:"+why, false)
			ln := in.Atoms.Fresh("len:"+why, 0, PosInf)
			return SliceV{Reg: r, Len: AtomLin(ln), Cap: AtomLin(ln), IsString: true}
		}
		return Top{t}
	case *types.Slice:
		r := in.newRegion("mem:"+why, false)
		ln := in.Atoms.Fresh("len:"+why, 0, PosInf)
		cp := in.Atoms.Fresh("cap:"+why, 0, PosInf)
		cp.Defs = []Lin{AtomLin(cp).Sub(AtomLin(ln))}
		ln.Defs = []Lin{AtomLin(cp).Sub(AtomLin(ln))}
		return SliceV{Reg: r, Len: AtomLin(ln), Cap: AtomLin(cp), MaybeNil: true}
	case *types.Pointer:
		if external {
			return PtrV{Nil: 0, T: t}
		}
		return PtrV{Nil: 2, T: t}
	case *types.Interface:
		return IfaceV{Nil: 0}
	case *types.Struct:
		if depth > 3 {
			return Top{t}
		}
		s := StructV{F: make([]Value, u.NumFields())}
		for i := range s.F {
			s.F[i] = in.unknownDepth(u.Field(i).Type(), why+"."+u.Field(i).Name(), external, depth+1)
		}
		return s
	case *types.Tuple:
		tv := TupleV{F: make([]Value, u.Len())}
		for i := range tv.F {
			tv.F[i] = in.unknownDepth(u.At(i).Type(), fmt.Sprintf("%s.%d", why, i), external, depth+1)
		}
		return tv
	case *types.Array:
		return ArrayV{Reg: in.newRegion("arr:"+why, false), N: u.Len()}
	}
	return Top{t}
}

func (in *Interp) newRegion(name string, input bool) *Region {
	in.regionN++
	return &Region{ID: in.regionN, Name: fmt.Sprintf("%s@%d", name, in.regionN), Input: input}
}

func (in *Interp) newCell(name string, t types.Type) *Cell {
	in.cellN++
	return &Cell{ID: in.cellN, Name: fmt.Sprintf("%s@%d", name, in.cellN), T: t}
}

// symbolic slice for an input buffer parameter.
func (in *Interp) InputSlice(name string, input bool) SliceV {
	r := in.newRegion(name, input)
	ln := in.Atoms.Get("len("+r.Name+")", 0, PosInf)
	cp := in.Atoms.Get("cap("+r.Name+")", 0, PosInf)
	cp.Defs = []Lin{AtomLin(cp).Sub(AtomLin(ln))}
	ln.Defs = []Lin{AtomLin(cp).Sub(AtomLin(ln))}
	return SliceV{Reg: r, Len: AtomLin(ln), Cap: AtomLin(cp), MaybeNil: true}
}

// byteAtom returns the atom for the element at off of region r (current version).
func (in *Interp) elemAtom(h *Heap, r *Region, off Lin, lo, hi int64) *Atom {
	key := fmt.Sprintf("%s.v%d[%s]", r.Name, h.regver[r], off.String())
	a := in.Atoms.Struct(key, lo, hi, off)
	if h.regver[r] >= 1000000 {
		a.Volatile = true
	}
	return a
}

// get/set within a cell value following a field path.
func getPath(v Value, path []int) Value {
	for _, i := range path {
		s, ok := v.(StructV)
		if !ok || i >= len(s.F) {
			return nil
		}
		v = s.F[i]
	}
	return v
}

func setPath(v Value, path []int, nv Value, mk func(depth int) Value) Value {
	if len(path) == 0 {
		return nv
	}
	s, ok := v.(StructV)
	if !ok {
		// materialise an unknown struct at this level
		if mk != nil {
			if ms, ok2 := mk(0).(StructV); ok2 {
				s = ms
			} else {
				return v
			}
		} else {
			return v
		}
	}
	ns := StructV{F: append([]Value(nil), s.F...)}
	if path[0] < len(ns.F) {
		var sub func(int) Value
		ns.F[path[0]] = setPath(ns.F[path[0]], path[1:], nv, sub)
	}
	return ns
}
