package absint

import "go/types"

// NewHeap returns an empty heap for a root execution.
func NewHeap() *Heap { return newHeap() }

// Clone copies a heap.
func (h *Heap) Clone() *Heap { return h.clone() }

// AddFact adds l >= 0.
func (h *Heap) AddFact(l Lin) { h.addFact(l) }

// Facts returns the current facts.
func (h *Heap) Facts() []Lin { return h.facts }

// Entails reports facts ⊢ l >= 0.
func (h *Heap) Entails(l Lin) bool { return h.entails(l) }

// SetCell initialises a tracked cell.
func (h *Heap) SetCell(c *Cell, v Value) { h.mem[c] = v }

// Cell returns the content of a tracked cell.
func (h *Heap) Cell(c *Cell) (Value, bool) { v, ok := h.mem[c]; return v, ok }

// NewCell creates a tracked cell (pointee of a root pointer parameter).
func (in *Interp) NewCell(name string, v Value) (*Cell, PtrV) {
	c := in.newCell(name, nil)
	return c, PtrV{Cell: c, Nil: 2}
}

// Nilness of an outcome value: 1 nil, 2 non-nil, 0 unknown.
func Nilness(v Value) int { return nilness(v) }

// SetMaxStates changes the per-block state bound for subsequent executions.
func (in *Interp) SetMaxStates(n int) { in.Cfg.MaxStates = n }

// JoinOutcomes joins outcomes into one (field-wise values, intersected facts).
func (in *Interp) JoinOutcomes(g []Outcome, t types.Type) Outcome {
	if len(g) == 1 {
		return g[0]
	}
	return in.joinOutcomes(g, t)
}

// ValueString renders an abstract value (debugging).
func ValueString(v Value) string { return valStr(v) }

// KnownElems returns the elements of slice sv (index relative to the slice start) whose value
// is known in heap h because they were written at constant offsets.
func (h *Heap) KnownElems(sv SliceV) map[int64]Lin {
	out := map[int64]Lin{}
	base, ok := sv.Off.ConstVal()
	if !ok || sv.Reg == nil {
		return out
	}
	for _, k := range h.known[sv.Reg] {
		if k.off >= base {
			out[k.off-base] = k.val
		}
	}
	return out
}

// EntailsEq reports h |- l == 0.
func (h *Heap) EntailsEq(l Lin) bool { return h.entails(l) && h.entails(l.Neg()) }

// SetKnown records that element idx of slice sv holds value v (precondition of a root execution).
func (h *Heap) SetKnown(sv SliceV, idx int64, v Lin) {
	if base, ok := sv.Off.ConstVal(); ok && sv.Reg != nil {
		h.setKnown(sv.Reg, base+idx, v)
	}
}

// NewTypedCell creates a tracked cell of type t holding v (pointee of a root pointer argument).
func (in *Interp) NewTypedCell(name string, t types.Type, v Value, h *Heap) PtrV {
	c := in.newCell(name, t)
	h.mem[c] = v
	return PtrV{Cell: c, Nil: 2}
}

// UnknownOf returns the unknown value of type t.
func (in *Interp) UnknownOf(t types.Type, why string) Value { return in.unknownOf(t, why, false) }
