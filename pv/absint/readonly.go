package absint

import (
	"go/types"
	"strings"

	"golang.org/x/tools/go/ssa"

	"pv/core"
)

// mayWriteParam reports whether fn may store through its idx-th parameter (a slice or a
// value containing slices). Conservative: any construct it does not understand counts as a write.
// Recursion is resolved optimistically (greatest fixpoint), which is sound for "never writes".
func (in *Interp) mayWriteParam(fn *ssa.Function, idx int) bool {
	if in.roMemo == nil {
		in.roMemo = map[roKey]int{}
	}
	k := roKey{fn, idx}
	switch in.roMemo[k] {
	case 1:
		return false // in progress: optimistic
	case 2:
		return false
	case 3:
		return true
	}
	in.roMemo[k] = 1
	w := in.computeMayWrite(fn, idx)
	if w {
		in.roMemo[k] = 3
	} else {
		in.roMemo[k] = 2
	}
	return w
}

type roKey struct {
	fn  *ssa.Function
	idx int
}

func carriesSlice(t types.Type) bool {
	switch u := t.Underlying().(type) {
	case *types.Slice:
		return true
	case *types.Struct:
		for i := 0; i < u.NumFields(); i++ {
			if carriesSlice(u.Field(i).Type()) {
				return true
			}
		}
	case *types.Pointer, *types.Map, *types.Interface, *types.Chan, *types.Signature:
		return true
	}
	return false
}

func (in *Interp) computeMayWrite(fn *ssa.Function, idx int) bool {
	if fn.Blocks == nil || idx >= len(fn.Params) {
		return true
	}
	p := fn.Params[idx]
	if !carriesSlice(p.Type()) {
		return false
	}
	if _, isPtr := p.Type().Underlying().(*types.Pointer); isPtr {
		return true // pointers to state: not tracked by this analysis
	}
	// derived values (aliases of the parameter's backing array)
	derived := map[ssa.Value]bool{p: true}
	work := []ssa.Value{p}
	for len(work) > 0 {
		v := work[len(work)-1]
		work = work[:len(work)-1]
		refs := v.Referrers()
		if refs == nil {
			continue
		}
		for _, r := range *refs {
			switch t := r.(type) {
			case *ssa.Slice, *ssa.ChangeType, *ssa.Convert, *ssa.Phi, *ssa.Field, *ssa.Extract, *ssa.SliceToArrayPointer:
				val := r.(ssa.Value)
				if c, ok := r.(*ssa.Convert); ok {
					// string(b) copies
					if isStringType(c.Type()) {
						continue
					}
				}
				if !derived[val] {
					derived[val] = true
					work = append(work, val)
				}
			case *ssa.IndexAddr:
				if t.X == v {
					// element address: a Store through it is a write
					if t.Referrers() != nil {
						for _, rr := range *t.Referrers() {
							if st, ok := rr.(*ssa.Store); ok && st.Addr == ssa.Value(t) {
								return true
							}
							if _, ok := rr.(*ssa.UnOp); ok {
								continue
							}
							if _, ok := rr.(*ssa.DebugRef); ok {
								continue
							}
							// address escapes (e.g. &p[i] passed on): conservative
							if _, ok := rr.(*ssa.Store); !ok {
								return true
							}
						}
					}
				}
			case *ssa.UnOp, *ssa.Index, *ssa.Lookup, *ssa.BinOp, *ssa.DebugRef, *ssa.If, *ssa.Range, *ssa.Return:
				// reads / comparisons / returning an alias (the caller still holds the only writer role)
			case *ssa.Store:
				if t.Val == v {
					// alias stored somewhere: could be written later through it
					if _, isAlloc := t.Addr.(*ssa.Alloc); !isAlloc {
						return true
					}
					// stored into a local: follow loads of that local
					al := t.Addr.(*ssa.Alloc)
					if al.Referrers() != nil {
						for _, rr := range *al.Referrers() {
							if ld, ok := rr.(*ssa.UnOp); ok && !derived[ld] {
								derived[ld] = true
								work = append(work, ld)
							}
						}
					}
				}
			case *ssa.MapUpdate, *ssa.Send, *ssa.MakeClosure:
				return true
			case *ssa.MakeInterface:
				// only tolerated when the interface goes straight into a fastlog call
				ok := true
				if t.Referrers() != nil {
					for _, rr := range *t.Referrers() {
						if c, isCall := rr.(ssa.CallInstruction); isCall {
							if cal := c.Common().StaticCallee(); cal != nil && cal.Pkg != nil && cal.Pkg.Pkg.Path() == core.ModPath+"/fastlog" {
								continue
							}
						}
						if _, isDbg := rr.(*ssa.DebugRef); isDbg {
							continue
						}
						ok = false
					}
				}
				if !ok {
					return true
				}
			case ssa.CallInstruction:
				cc := t.Common()
				if b, ok := cc.Value.(*ssa.Builtin); ok {
					switch b.Name() {
					case "copy":
						if len(cc.Args) > 0 && cc.Args[0] == v {
							return true
						}
					case "len", "cap", "print", "println", "append", "min", "max":
					default:
						return true
					}
					continue
				}
				callee := cc.StaticCallee()
				if callee == nil {
					return true
				}
				for ai, a := range cc.Args {
					if a != v {
						continue
					}
					if callee.Blocks != nil && core.InModule(callee) {
						if callee.Pkg != nil && callee.Pkg.Pkg.Path() == core.ModPath+"/fastlog" {
							continue
						}
						if in.mayWriteParam(callee, ai) {
							return true
						}
					} else {
						name := calleeFullName(callee)
						if externalWrites(name) || strings.Contains(name, "PutUint") {
							return true
						}
					}
				}
			default:
				return true
			}
		}
	}
	return false
}
