package absint

import (
	"fmt"
	"go/types"
	"strings"

	"golang.org/x/tools/go/ssa"
)

// Value is an abstract value.
type Value interface{ vstr() string }

// Top: nothing known.
type Top struct{ T types.Type }

func (Top) vstr() string { return "⊤" }

// IntV: an integer as an affine form.
type IntV struct{ L Lin }

func (v IntV) vstr() string { return v.L.String() }

// BoolV
type BoolKind int

const (
	BConst BoolKind = iota
	BGe             // L >= 0
	BEq             // L == 0
	BNe             // L != 0
	BNil            // Of is nil (IsNil=true) / non-nil (IsNil=false)
	BOpaque         // unknown, identified by Key for correlation
)

type BoolV struct {
	Kind  BoolKind
	Const bool
	L     Lin
	Of    ssa.Value // for BNil: the SSA value tested (refined on branches)
	OfV   Value     // its abstract value at test time
	IsNil bool
	Key   string
}

func (b BoolV) vstr() string {
	switch b.Kind {
	case BConst:
		return fmt.Sprint(b.Const)
	case BGe:
		return "(" + b.L.String() + " >= 0)"
	case BEq:
		return "(" + b.L.String() + " == 0)"
	case BNe:
		return "(" + b.L.String() + " != 0)"
	case BNil:
		if b.IsNil {
			return "isnil"
		}
		return "nonnil"
	}
	return "bool?" + b.Key
}

func (b BoolV) Not() BoolV {
	switch b.Kind {
	case BConst:
		return BoolV{Kind: BConst, Const: !b.Const}
	case BGe: // !(L>=0) == -L-1 >= 0
		return BoolV{Kind: BGe, L: b.L.Neg().AddC(-1)}
	case BEq:
		return BoolV{Kind: BNe, L: b.L}
	case BNe:
		return BoolV{Kind: BEq, L: b.L}
	case BNil:
		n := b
		n.IsNil = !b.IsNil
		return n
	}
	n := b
	if strings.HasPrefix(b.Key, "!") {
		n.Key = b.Key[1:]
	} else {
		n.Key = "!" + b.Key
	}
	return n
}

// Region is a backing array (input buffer, make, array alloc, pool buffer, unknown).
type Region struct {
	ID    int
	Name  string
	Input bool // derived from an input packet buffer: decode role applies
	Fresh bool // allocated inside the analysed code
}

// SliceV: slice or string value.
type SliceV struct {
	Reg      *Region
	Off      Lin
	Len      Lin
	Cap      Lin
	MaybeNil bool
	IsNil    bool
	Str      *string // constant string contents when known
	IsString bool
	NilOr    bool // the value is either nil or the described (non-nil) slice; must be tested before use
}

func (s SliceV) vstr() string {
	if s.IsNil {
		return "nil-slice"
	}
	if s.Str != nil {
		return fmt.Sprintf("%q", *s.Str)
	}
	pre := ""
	if s.NilOr {
		pre = "nil|"
	}
	return fmt.Sprintf("%s%s[%s : +%s | cap %s]", pre, s.Reg.Name, s.Off.String(), s.Len.String(), s.Cap.String())
}

// Cell is a tracked memory location (an Alloc instance, or the pointee of a root pointer parameter).
type Cell struct {
	ID   int
	Name string
	T    types.Type
}

// PtrV: pointer. Either into a tracked cell (with a field/index path), into an array region, or unknown.
type PtrV struct {
	Cell   *Cell
	Path   []int   // field indices inside the cell's value
	Reg    *Region // pointer to array / element of region
	Off    Lin     // element offset when Reg != nil
	ArrLen int64   // >0 when this points to a whole array [ArrLen]T located at Off
	Nil    int     // 0 unknown, 1 nil, 2 non-nil
	T      types.Type
}

func (p PtrV) vstr() string {
	switch {
	case p.Cell != nil:
		return fmt.Sprintf("&%s%v", p.Cell.Name, p.Path)
	case p.Reg != nil:
		return fmt.Sprintf("&%s[%s]", p.Reg.Name, p.Off.String())
	case p.Nil == 1:
		return "nil-ptr"
	}
	return "ptr?"
}

// StructV / TupleV / ArrayV
type StructV struct{ F []Value }

func (s StructV) vstr() string {
	var parts []string
	for _, f := range s.F {
		if f == nil {
			parts = append(parts, "_")
		} else {
			parts = append(parts, f.vstr())
		}
	}
	return "{" + strings.Join(parts, ", ") + "}"
}

type TupleV struct{ F []Value }

func (t TupleV) vstr() string { return StructV{t.F}.vstr() }

// ArrayV: an array value (by value) backed by a region snapshot.
type ArrayV struct {
	Reg *Region
	Off Lin
	N   int64
}

func (a ArrayV) vstr() string { return fmt.Sprintf("array(%s+%s,%d)", a.Reg.Name, a.Off.String(), a.N) }

// IfaceV: interface value. Nil: 0 unknown, 1 nil, 2 non-nil.
type IfaceV struct {
	Nil int
	Dyn Value      // dynamic value when known
	DT  types.Type // dynamic type when known
}

func (i IfaceV) vstr() string {
	switch i.Nil {
	case 1:
		return "nil-iface"
	case 2:
		if i.DT != nil {
			return "iface(" + i.DT.String() + ")"
		}
		return "nonnil-iface"
	}
	return "iface?"
}

// FuncV: function value / closure.
type FuncV struct {
	Fn   *ssa.Function
	Bind []Value
}

func (f FuncV) vstr() string { return "func " + f.Fn.Name() }

// ---- helpers ----

func isIntType(t types.Type) (bits int, signed bool, ok bool) {
	b, isb := t.Underlying().(*types.Basic)
	if !isb {
		return 0, false, false
	}
	switch b.Kind() {
	case types.Int8:
		return 8, true, true
	case types.Int16:
		return 16, true, true
	case types.Int32:
		return 32, true, true
	case types.Int64, types.Int, types.UntypedInt, types.UntypedRune:
		return 64, true, true
	case types.Uint8:
		return 8, false, true
	case types.Uint16:
		return 16, false, true
	case types.Uint32:
		return 32, false, true
	case types.Uint64, types.Uint, types.Uintptr:
		return 64, false, true
	}
	return 0, false, false
}

func typeRange(t types.Type) (lo, hi int64) {
	bits, signed, ok := isIntType(t)
	if !ok {
		return NegInf, PosInf
	}
	if signed {
		if bits >= 64 {
			return NegInf, PosInf
		}
		return -(1 << (bits - 1)), (1 << (bits - 1)) - 1
	}
	if bits >= 64 {
		return 0, PosInf
	}
	return 0, (1 << bits) - 1
}

func isBoolType(t types.Type) bool {
	b, ok := t.Underlying().(*types.Basic)
	return ok && b.Info()&types.IsBoolean != 0
}

func isStringType(t types.Type) bool {
	b, ok := t.Underlying().(*types.Basic)
	return ok && b.Info()&types.IsString != 0
}
