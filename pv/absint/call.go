package absint

import (
	"fmt"
	"go/types"
	"strings"

	"golang.org/x/tools/go/ssa"

	"pv/core"
)

// call interprets a call; it may fork (several callee outcomes). Result is bound to instr when it is a value.
func (x *fnExec) call(s *State, instr ssa.Instruction, c *ssa.CallCommon) []*State {
	in := x.in
	bindResult := func(st *State, v Value) {
		if val, ok := instr.(ssa.Value); ok {
			if v == nil {
				v = in.unknownOf(val.Type(), "ret", false)
			}
			st.env[val] = v
		}
	}
	var args []Value
	for _, a := range c.Args {
		args = append(args, x.eval(s, a))
	}
	// builtins
	if b, ok := c.Value.(*ssa.Builtin); ok {
		return x.builtin(s, instr, b, c, args, bindResult)
	}
	var callee *ssa.Function
	var bind []Value
	var resT types.Type = resultType(c.Signature())
	if c.IsInvoke() {
		recv, _ := x.eval(s, c.Value).(IfaceV)
		if recv.DT != nil {
			callee = in.P.Prog.LookupMethod(recv.DT, c.Method.Pkg(), c.Method.Name())
			if callee != nil && recv.Dyn != nil {
				args = append([]Value{recv.Dyn}, args...)
			} else {
				callee = nil
			}
		}
		if callee == nil {
			name := c.Method.FullName()
			return x.opaqueCall(s, instr, name, nil, args, resT, bindResult)
		}
	} else {
		switch fv := x.eval(s, c.Value).(type) {
		case FuncV:
			callee, bind = fv.Fn, fv.Bind
		default:
			if f := c.StaticCallee(); f != nil {
				callee = f
			}
		}
		if callee == nil {
			return x.opaqueCall(s, instr, "dynamic func value", nil, args, resT, bindResult)
		}
	}
	name := calleeFullName(callee)
	if in.Cfg.OnCall != nil {
		in.Cfg.OnCall(instr, callee, args, s.h)
	}
	// modelled externals and special cases
	if outs, handled := x.modelled(s, instr, callee, name, args, bindResult); handled {
		return outs
	}
	if callee.Blocks == nil || !core.InModule(callee) {
		return x.opaqueCall(s, instr, name, callee, args, resT, bindResult)
	}
	if in.Cfg.Modular != nil && len(in.stack) > 0 && in.Cfg.Modular(callee) {
		in.ModularSeen[callee] = true
		in.Notes["modular callee (verified separately for arbitrary arguments, opaque here): "+name]++
		return x.opaqueModuleCall(s, instr, callee, args, resT, bindResult)
	}
	// unwrap synthetic wrappers (pointer-receiver wrappers, bound methods) by inlining them as ordinary code
	onStack := false
	for _, f := range in.stack {
		if f == callee {
			onStack = true
			break
		}
	}
	if onStack || len(in.stack) >= in.Cfg.MaxDepth || (in.Cfg.Opaque != nil && in.Cfg.Opaque(callee)) {
		why := "opaque by configuration"
		if onStack {
			why = "recursive call summarised"
		} else if len(in.stack) >= in.Cfg.MaxDepth {
			why = "inline depth limit"
			in.emit(Finding{Site: instr, Kind: "analysis", Undecid: true, Detail: "call depth limit reached at " + name})
		}
		in.Notes["module call not inlined ("+why+"): "+name]++
		if onStack {
			// remember lengths of slices behind pointer arguments (hypothesis: they only grow)
			type pre struct {
				p PtrV
				l Lin
			}
			var pres []pre
			for _, a := range args {
				if pv, ok := a.(PtrV); ok && pv.Cell != nil {
					if root, ok := s.h.mem[pv.Cell]; ok {
						if sv, ok := getPath(root, pv.Path).(SliceV); ok {
							pres = append(pres, pre{pv, sv.Len})
						}
					}
				}
			}
			outs := x.opaqueModuleCall(s, instr, callee, args, resT, bindResult)
			for _, st := range outs {
				for _, pr := range pres {
					if root, ok := st.h.mem[pr.p.Cell]; ok {
						if sv, ok := getPath(root, pr.p.Path).(SliceV); ok {
							st.h.addFact(sv.Len.Sub(pr.l))
						}
					}
				}
			}
			return outs
		}
		return x.opaqueModuleCall(s, instr, callee, args, resT, bindResult)
	}
	markCell, markReg := in.cellN, in.regionN
	outs := in.Exec(callee, args, bind, s.h)
	live := outs[:0]
	for _, o := range outs {
		if !o.Panicked {
			in.gcHeap(o.H, markCell, markReg, o.Ret)
			live = append(live, o)
		}
	}
	outs = in.capOutcomes(live, resT)
	var res []*State
	for i, o := range outs {
		if o.Panicked {
			continue
		}
		st := s
		if i < len(outs)-1 {
			st = s.fork()
		}
		st.h = o.H
		if len(o.Trail) > 0 && len(st.trail) < 40 {
			st.trail = append(st.trail, "in "+callee.Name()+":["+strings.Join(o.Trail, ",")+"]")
		}
		bindResult(st, o.Ret)
		res = append(res, st)
	}
	// de-duplicate identical outcomes
	if len(res) > 1 {
		seen := map[string]bool{}
		var out []*State
		for _, st := range res {
			fp := st.fingerprint(nil)
			if !seen[fp] {
				seen[fp] = true
				out = append(out, st)
			}
		}
		res = out
	}
	return res
}

// gcHeap drops cells and region versions created after the marks that are not reachable from
// the returned value or from older cells (nothing else can refer to them).
func (in *Interp) gcHeap(h *Heap, markCell, markReg int, ret Value) {
	liveC := map[*Cell]bool{}
	liveR := map[*Region]bool{}
	var visit func(v Value, d int)
	visit = func(v Value, d int) {
		if v == nil || d > 8 {
			return
		}
		switch t := v.(type) {
		case PtrV:
			if t.Cell != nil && !liveC[t.Cell] {
				liveC[t.Cell] = true
				if t.Cell.ID > markCell {
					visit(h.mem[t.Cell], d+1)
				}
			}
			if t.Reg != nil {
				liveR[t.Reg] = true
			}
		case SliceV:
			if t.Reg != nil {
				liveR[t.Reg] = true
			}
		case ArrayV:
			liveR[t.Reg] = true
		case StructV:
			for _, f := range t.F {
				visit(f, d+1)
			}
		case TupleV:
			for _, f := range t.F {
				visit(f, d+1)
			}
		case IfaceV:
			visit(t.Dyn, d+1)
		case FuncV:
			for _, b := range t.Bind {
				visit(b, d+1)
			}
		}
	}
	visit(ret, 0)
	for c, v := range h.mem {
		if c.ID <= markCell {
			visit(v, 0)
		}
	}
	for c := range h.mem {
		if c.ID > markCell && !liveC[c] {
			delete(h.mem, c)
		}
	}
	for r := range h.regver {
		if r.ID > markReg && !liveR[r] {
			delete(h.regver, r)
		}
	}
	for r := range h.known {
		if r.ID > markReg && !liveR[r] {
			delete(h.known, r)
		}
	}
}

// capOutcomes bounds the number of distinct callee outcomes that continue separately in the caller.
func (in *Interp) capOutcomes(outs []Outcome, resT types.Type) []Outcome {
	maxOutcomes := in.Cfg.MaxOutcomes
	if maxOutcomes == 0 {
		maxOutcomes = 12
	}
	if len(outs) <= maxOutcomes {
		return outs
	}
	// keep outcomes apart by nil-ness of an error / pointer result (success vs failure paths), join within groups
	groups := map[string][]Outcome{}
	var order []string
	for _, o := range outs {
		k := outcomeClass(o.Ret)
		if _, ok := groups[k]; !ok {
			order = append(order, k)
		}
		groups[k] = append(groups[k], o)
	}
	var res []Outcome
	for _, k := range order {
		g := groups[k]
		if len(g) == 1 {
			res = append(res, g[0])
			continue
		}
		in.Notes["join: callee outcomes joined per result class (precision loss, sound)"]++
		res = append(res, in.joinOutcomes(g, resT))
	}
	return res
}

func outcomeClass(v Value) string {
	switch t := v.(type) {
	case TupleV:
		var parts []string
		for _, f := range t.F {
			parts = append(parts, outcomeClass(f))
		}
		return strings.Join(parts, ",")
	case IfaceV:
		return fmt.Sprintf("i%d", t.Nil)
	case PtrV:
		return fmt.Sprintf("p%d", t.Nil)
	case BoolV:
		if t.Kind == BConst {
			return fmt.Sprintf("b%v", t.Const)
		}
		return "b?"
	case SliceV:
		if t.IsNil {
			return "snil"
		}
		return "s"
	}
	return "_"
}

func (in *Interp) joinOutcomes(g []Outcome, resT types.Type) Outcome {
	base := Outcome{Ret: g[0].Ret, H: g[0].H.clone(), Trail: []string{"(joined outcomes)"}}
	for _, o := range g[1:] {
		var pend []Lin
		base.Ret = in.joinRet(base.Ret, o.Ret, resT, base.H, o.H, &pend)
		for c, v := range base.H.mem {
			ov, ok := o.H.mem[c]
			if !ok {
				base.H.mem[c] = in.unknownOf(c.T, "join", false)
			} else {
				base.H.mem[c] = in.joinValueH(v, ov, c.T, base.H, o.H, &pend)
			}
		}
		var nf []Lin
		for _, f := range base.H.facts {
			for _, gf := range o.H.facts {
				if f.Equal(gf) {
					nf = append(nf, f)
					break
				}
			}
		}
		base.H.facts = nf
		for _, f := range pend {
			base.H.addFact(f)
		}
		base.H.neqs = nil
		for r, v := range o.H.regver {
			if base.H.regver[r] != v {
				in.instance++
				base.H.regver[r] = 1000000 + in.instance
			}
		}
		joinKnown(base.H, o.H)
		for r := range base.H.regver {
			if _, ok := o.H.regver[r]; !ok && base.H.regver[r] != 0 {
				in.instance++
				base.H.regver[r] = 1000000 + in.instance
			}
		}
	}
	return base
}

func (in *Interp) joinRet(a, b Value, t types.Type, ha, hb *Heap, pend *[]Lin) Value {
	ta, ok1 := a.(TupleV)
	tb, ok2 := b.(TupleV)
	if ok1 && ok2 && len(ta.F) == len(tb.F) && t != nil {
		if tt, ok := t.(*types.Tuple); ok && tt.Len() == len(ta.F) {
			n := TupleV{F: make([]Value, len(ta.F))}
			for i := range ta.F {
				n.F[i] = in.joinValueH(ta.F[i], tb.F[i], tt.At(i).Type(), ha, hb, pend)
			}
			return n
		}
	}
	return in.joinValueH(a, b, t, ha, hb, pend)
}

func calleeFullName(f *ssa.Function) string {
	if f.Object() != nil {
		if fn, ok := f.Object().(*types.Func); ok {
			return fn.FullName()
		}
	}
	return f.String()
}

func (x *fnExec) runDefers(s *State) []*State {
	states := []*State{s}
	ds := s.defers
	for i := len(ds) - 1; i >= 0; i-- {
		d := ds[i]
		var next []*State
		for _, st := range states {
			st.defers = nil
			next = append(next, x.call(st, d.call, d.call.Common())...)
		}
		states = next
	}
	for _, st := range states {
		st.defers = nil
	}
	return states
}

// havocArgs forgets tracked cells whose address escapes into an opaque call.
func (x *fnExec) havocArgs(s *State, args []Value, external bool, writes bool) {
	in := x.in
	var visit func(v Value, depth int)
	visit = func(v Value, depth int) {
		if depth > 4 {
			return
		}
		switch t := v.(type) {
		case PtrV:
			if t.Cell != nil {
				root, ok := s.h.mem[t.Cell]
				if ok {
					cur := getPath(root, t.Path)
					visit(cur, depth+1) // pointers stored inside
				}
				var nt types.Type = t.Cell.T
				if len(t.Path) == 0 {
					s.h.mem[t.Cell] = in.unknownOf(nt, "havoc:"+t.Cell.Name, external)
				} else if pt, ok := t.T.Underlying().(*types.Pointer); ok {
					cell := t.Cell
					s.h.mem[t.Cell] = setPath(root, t.Path, in.unknownOf(pt.Elem(), "havoc", external), func(int) Value { return in.unknownOf(cell.T, "cell", external) })
				}
			}
			if t.Reg != nil && writes {
				in.writeRegion(s.h, t.Reg, nil, nil, 4000000)
			}
		case SliceV:
			if writes && t.Reg != nil {
				in.writeRegion(s.h, t.Reg, &t.Off, &t.Len, 4000000)
			}
		case StructV:
			for _, f := range t.F {
				visit(f, depth+1)
			}
		case IfaceV:
			visit(t.Dyn, depth+1)
		case FuncV:
			for _, b := range t.Bind {
				visit(b, depth+1)
			}
		}
	}
	for _, a := range args {
		visit(a, 0)
	}
}

func (x *fnExec) opaqueCall(s *State, instr ssa.Instruction, name string, callee *ssa.Function, args []Value, resT types.Type, bind func(*State, Value)) []*State {
	in := x.in
	if in.Cfg.OnExternalCall != nil {
		in.Cfg.OnExternalCall(instr, name, args, s.h)
	}
	in.Notes["external callee assumed not to panic: "+name]++
	if traceForks && externalWrites(name) {
		fmt.Printf("[extwrite] %s\n", name)
	}
	x.havocArgs(s, args, true, externalWrites(name))
	var ret Value
	if resT != nil {
		ret = in.unknownOf(resT, "ext:"+shortName(name), true)
	}
	bind(s, ret)
	return []*State{s}
}

func (x *fnExec) opaqueModuleCall(s *State, instr ssa.Instruction, callee *ssa.Function, args []Value, resT types.Type, bind func(*State, Value)) []*State {
	in := x.in
	if callee.Pkg != nil && callee.Pkg.Pkg.Path() == core.ModPath+"/fastlog" {
		// fastlog appenders only read their value arguments
		x.havocArgs(s, args, false, false)
	} else if in.Cfg.Opaque != nil && in.Cfg.Opaque(callee) {
		// configured-opaque host-table/session functions copy what they keep and never write into caller slices
		x.havocArgs(s, args, false, false)
	} else {
		// per argument: only parameters the callee may store through invalidate region contents
		for i, a := range args {
			w := in.mayWriteParam(callee, i)
			if traceForks && w {
				fmt.Printf("[modwrite] %s param %d\n", callee.String(), i)
			}
			x.havocArgs(s, []Value{a}, false, w)
		}
	}
	var ret Value
	if resT != nil {
		ret = in.unknownOf(resT, "mod:"+callee.Name(), false)
	}
	bind(s, ret)
	return []*State{s}
}

func shortName(n string) string {
	if i := strings.LastIndex(n, "/"); i >= 0 {
		n = n[i+1:]
	}
	return n
}

// externalWrites: external callees that write through their slice arguments (visible within len).
func externalWrites(name string) bool {
	switch {
	case strings.HasSuffix(name, ".Read"), strings.HasSuffix(name, ".ReadFrom"), strings.HasSuffix(name, ".ReadFull"),
		strings.Contains(name, ".Put"), strings.HasPrefix(name, "crypto/rand."), strings.HasPrefix(name, "io.Read"),
		strings.Contains(name, "Unmarshal"), strings.Contains(name, "Decode"), strings.HasPrefix(name, "sort."),
		strings.HasPrefix(name, "syscall."), strings.HasPrefix(name, "golang.org/x/sys/unix."):
		return true
	}
	return false
}

func (x *fnExec) builtin(s *State, instr ssa.Instruction, b *ssa.Builtin, c *ssa.CallCommon, args []Value, bind func(*State, Value)) []*State {
	in := x.in
	switch b.Name() {
	case "len", "cap":
		if len(args) == 1 {
			if sv, ok := args[0].(SliceV); ok && sv.NilOr {
				args[0] = in.demote(sv)
			}
			switch t := args[0].(type) {
			case SliceV:
				if b.Name() == "len" {
					bind(s, IntV{t.Len})
				} else {
					if in.Cfg.CapRule && t.Reg != nil && t.Reg.Input {
						in.emit(Finding{Site: instr, Kind: "cap", OK: false, Detail: "cap() of an input-derived slice: the result depends on spare capacity, not on the bytes within len"})
					}
					bind(s, IntV{t.Cap})
				}
				return []*State{s}
			case ArrayV:
				bind(s, IntV{Const(t.N)})
				return []*State{s}
			case PtrV:
				if t.ArrLen > 0 {
					bind(s, IntV{Const(t.ArrLen)})
					return []*State{s}
				}
				if sv, ok := x.sliceOf(s, c.Args[0]); ok {
					bind(s, IntV{sv.Len})
					return []*State{s}
				}
			}
		}
		bind(s, IntV{AtomLin(in.Atoms.Fresh(b.Name(), 0, PosInf))})
		return []*State{s}
	case "copy":
		n := AtomLin(in.Atoms.Fresh("copied", 0, PosInf))
		if len(args) == 2 {
			dst, ok1 := args[0].(SliceV)
			src, ok2 := args[1].(SliceV)
			dst, src = in.demote(dst), in.demote(src)
			if ok1 && ok2 {
				// n = min(len(dst), len(src))
				switch {
				case s.h.entails(src.Len.Sub(dst.Len)):
					n = dst.Len
				case s.h.entails(dst.Len.Sub(src.Len)):
					n = src.Len
				default:
					a := in.Atoms.Get(fmt.Sprintf("min(%s,%s)", dst.Len.String(), src.Len.String()), 0, PosInf)
					if len(a.Defs) == 0 {
						a.Defs = []Lin{dst.Len.Sub(AtomLin(a)), src.Len.Sub(AtomLin(a))}
					}
					n = AtomLin(a)
				}
			}
			if ok1 && dst.Reg != nil {
				in.writeRegion(s.h, dst.Reg, &dst.Off, &dst.Len, 5000000)
			}
		}
		bind(s, IntV{n})
		return []*State{s}
	case "append":
		if len(args) >= 1 {
			base, ok := args[0].(SliceV)
			base = in.demote(base)
			if ok {
				add := AtomLin(in.Atoms.Fresh("appended", 0, PosInf))
				if len(args) == 2 {
					if sv, ok := args[1].(SliceV); ok {
						add = in.demote(sv).Len
					}
				}
				nl := base.Len.Add(add)
				r := in.newRegion("append", false)
				r.Fresh = true
				cp := in.Atoms.Fresh("cap:append", 0, PosInf)
				cp.Defs = []Lin{AtomLin(cp).Sub(nl)}
				// the prefix keeps its known bytes
				if bo, ok := base.Off.ConstVal(); ok && base.Reg != nil && len(s.h.known[base.Reg]) > 0 {
					if m := glb(s.h, base.Len); m > 0 {
						for _, k := range s.h.known[base.Reg] {
							if k.off >= bo && k.off-bo < m {
								s.h.setKnown(r, k.off-bo, k.val)
							}
						}
					}
				}
				bind(s, SliceV{Reg: r, Len: nl, Cap: AtomLin(cp)})
				return []*State{s}
			}
		}
		bind(s, nil)
		return []*State{s}
	case "min", "max":
		if len(args) == 2 {
			l, ok1 := args[0].(IntV)
			r, ok2 := args[1].(IntV)
			if ok1 && ok2 {
				a := in.Atoms.Get(fmt.Sprintf("%s(%s,%s)", b.Name(), l.L.String(), r.L.String()), NegInf, PosInf)
				if len(a.Defs) == 0 {
					if b.Name() == "min" {
						a.Defs = []Lin{l.L.Sub(AtomLin(a)), r.L.Sub(AtomLin(a))}
					} else {
						a.Defs = []Lin{AtomLin(a).Sub(l.L), AtomLin(a).Sub(r.L)}
					}
				}
				bind(s, IntV{AtomLin(a)})
				return []*State{s}
			}
		}
	case "ssa:wrapnilchk":
		if len(args) > 0 {
			bind(s, args[0])
			return []*State{s}
		}
	}
	bind(s, nil)
	return []*State{s}
}

// modelled handles external functions with a precise abstract semantics and module special cases.
func (x *fnExec) modelled(s *State, instr ssa.Instruction, callee *ssa.Function, name string, args []Value, bind func(*State, Value)) ([]*State, bool) {
	in := x.in
	if callee.Blocks == nil || !core.InModule(callee) {
		for i, a := range args {
			if sv, ok := a.(SliceV); ok && sv.NilOr {
				args[i] = in.demote(sv)
			}
		}
	}
	one := func(v Value) ([]*State, bool) {
		bind(s, v)
		return []*State{s}, true
	}
	beRead := func(n int64) ([]*State, bool) {
		sv, ok := args[len(args)-1].(SliceV)
		if !ok || sv.Reg == nil {
			in.emit(Finding{Site: instr, Kind: "extern-len", Undecid: true, Detail: name + " on a slice the domain cannot represent"})
			return one(nil)
		}
		in.check(s, instr, "extern-len", sv.Len.AddC(-n), fmt.Sprintf("%s needs len >= %d", shortName(name), n))
		if n > 4 {
			return one(nil)
		}
		res := Lin{}
		for i := int64(0); i < n; i++ {
			a := in.elemLin(s.h, sv.Reg, sv.Off.AddC(i), 0, 255)
			res = res.Add(a.Scale(1 << uint(8*(n-1-i))))
		}
		return one(IntV{res})
	}
	leRead := func(n int64) ([]*State, bool) {
		sv, ok := args[len(args)-1].(SliceV)
		if !ok || sv.Reg == nil {
			in.emit(Finding{Site: instr, Kind: "extern-len", Undecid: true, Detail: name + " on a slice the domain cannot represent"})
			return one(nil)
		}
		in.check(s, instr, "extern-len", sv.Len.AddC(-n), fmt.Sprintf("%s needs len >= %d", shortName(name), n))
		return one(nil)
	}
	put := func(n int64) ([]*State, bool) {
		// args: recv, slice, value
		var sv SliceV
		var ok bool
		for _, a := range args {
			if t, isS := a.(SliceV); isS {
				sv, ok = t, true
				break
			}
		}
		if !ok || sv.Reg == nil {
			in.emit(Finding{Site: instr, Kind: "extern-len", Undecid: true, Detail: name + " on a slice the domain cannot represent"})
			return one(nil)
		}
		in.check(s, instr, "extern-len", sv.Len.AddC(-n), fmt.Sprintf("%s needs len >= %d", shortName(name), n))
		nn := Const(n)
		in.writeRegion(s.h, sv.Reg, &sv.Off, &nn, 6000000)
		if o, ok := sv.Off.ConstVal(); ok && strings.Contains(name, "bigEndian") && n <= 4 {
			if iv, ok := args[len(args)-1].(IntV); ok {
				if c, ok := iv.L.ConstVal(); ok {
					for i := int64(0); i < n; i++ {
						s.h.setKnown(sv.Reg, o+i, Const((c>>uint(8*(n-1-i)))&0xff))
					}
				} else if n == 2 {
					// value = 256*hi + lo with hi, lo bytes
					hiA := in.Atoms.Struct("hi8("+iv.L.String()+")", 0, 255, iv.L)
					loA := in.Atoms.Struct("lo8("+iv.L.String()+")", 0, 255, iv.L)
					eq := AtomLin(hiA).Scale(256).Add(AtomLin(loA)).Sub(iv.L)
					vlo, vhi := iv.L.Bounds()
					if vlo >= 0 && vhi <= 65535 {
						if len(hiA.Defs) == 0 {
							hiA.Defs = []Lin{eq, eq.Neg()}
							loA.Defs = []Lin{eq, eq.Neg()}
						}
					} else if s.h.entails(iv.L) && s.h.entails(Const(65535).Sub(iv.L)) {
						// in range in this state only: a state fact, not a definition of the (hash-consed) atoms
						s.h.addFact(eq)
						s.h.addFact(eq.Neg())
					}
					s.h.setKnown(sv.Reg, o, AtomLin(hiA))
					s.h.setKnown(sv.Reg, o+1, AtomLin(loA))
				}
			}
		}
		return one(nil)
	}
	switch name {
	case "(encoding/binary.bigEndian).Uint16":
		return beRead(2)
	case "(encoding/binary.bigEndian).Uint32":
		return beRead(4)
	case "(encoding/binary.bigEndian).Uint64":
		return beRead(8)
	case "(encoding/binary.littleEndian).Uint16":
		return leRead(2)
	case "(encoding/binary.littleEndian).Uint32":
		return leRead(4)
	case "(encoding/binary.littleEndian).Uint64":
		return leRead(8)
	case "(encoding/binary.bigEndian).PutUint16", "(encoding/binary.littleEndian).PutUint16":
		return put(2)
	case "(encoding/binary.bigEndian).PutUint32", "(encoding/binary.littleEndian).PutUint32":
		return put(4)
	case "(encoding/binary.bigEndian).PutUint64", "(encoding/binary.littleEndian).PutUint64":
		return put(8)
	case "(net.IP).To4":
		return x.forkSlices(s, bind, true, 4)
	case "(net.IP).To16":
		return x.forkSlices(s, bind, true, 16)
	case "(net/netip.Addr).AsSlice":
		// nil, 4 or 16 bytes: one value with len in [0,16] (exact length never matters to the callers: copy source)
		r := in.newRegion("AsSlice", false)
		r.Fresh = true
		ln := in.Atoms.Fresh("len:AsSlice", 0, 16)
		return one(SliceV{Reg: r, Len: AtomLin(ln), Cap: AtomLin(ln), MaybeNil: true})
	case "(net/netip.Addr).As4":
		return one(ArrayV{Reg: in.newRegion("As4", false), N: 4})
	case "(net/netip.Addr).As16":
		return one(ArrayV{Reg: in.newRegion("As16", false), N: 16})
	case "net.CIDRMask":
		r := in.newRegion("CIDRMask", false)
		r.Fresh = true
		// CIDRMask(ones, bits) has bits/8 bytes when 0 <= ones <= bits, and is nil otherwise. With a constant bits the
		// length is taken as bits/8: the callers pass Prefix.Bits() of a prefix whose address they tested with Is4 / Is6,
		// which netip keeps within 0..bits (noted as an assumption)
		if len(args) == 2 {
			if iv, ok := args[1].(IntV); ok {
				if b, isC := iv.L.ConstVal(); isC && (b == 32 || b == 128) {
					in.Notes["net.CIDRMask(ones, const bits): ones assumed within 0..bits (Prefix.Bits of a tested address)"]++
					return one(SliceV{Reg: r, Len: Const(b / 8), Cap: Const(b / 8)})
				}
			}
		}
		ln := in.Atoms.Fresh("len:CIDRMask", 0, 16)
		return one(SliceV{Reg: r, Len: AtomLin(ln), Cap: AtomLin(ln), MaybeNil: true})
	case "bytes.LastIndex", "bytes.Index", "strings.LastIndex", "strings.Index":
		// -1, or an offset at which the whole separator fits: r >= 0 and r + len(sep) <= len(s)
		var hay, sep *SliceV
		if len(args) == 2 {
			if a, ok := args[0].(SliceV); ok {
				hay = &a
			}
			if b, ok := args[1].(SliceV); ok {
				sep = &b
			}
		}
		if hay == nil || sep == nil || hay.Reg == nil {
			return nil, false
		}
		found := s.fork()
		miss := s
		ra := in.Atoms.Fresh("ext:"+shortName(name), 0, PosInf)
		fit := hay.Len.Sub(AtomLin(ra)).Sub(sep.Len) // len(s) - r - len(sep) >= 0
		bind(miss, IntV{Const(-1)})
		if !found.h.feasibleWith(fit) {
			return []*State{miss}, true
		}
		found.h.addFact(fit)
		bind(found, IntV{AtomLin(ra)})
		return []*State{found, miss}, true
	case "(*sync.Pool).Get":
		if len(args) == 1 {
			if p, ok := args[0].(PtrV); ok && p.Cell != nil {
				for g, c := range in.globals {
					if c == p.Cell {
						if t, ok := in.poolType[g]; ok {
							var dyn Value
							if pt, ok := t.Underlying().(*types.Pointer); ok {
								if at, ok := pt.Elem().Underlying().(*types.Array); ok {
									r := in.newRegion("pool:"+g.Name(), false)
									r.Fresh = true
									dyn = PtrV{Reg: r, ArrLen: at.Len(), Nil: 2, T: t}
								}
							}
							if dyn == nil {
								dyn = in.unknownOf(t, "pool", false)
							}
							return one(IfaceV{Nil: 2, Dyn: dyn, DT: t})
						}
					}
				}
			}
		}
		return nil, false
	case "(*sync.Pool).Put", "(*sync.Mutex).Lock", "(*sync.Mutex).Unlock", "(*sync.RWMutex).Lock", "(*sync.RWMutex).Unlock",
		"(*sync.RWMutex).RLock", "(*sync.RWMutex).RUnlock", "time.Now", "(time.Time).Add", "(time.Time).Before", "(time.Time).After":
		var resT types.Type = resultType(callee.Signature)
		var ret Value
		if resT != nil {
			ret = in.unknownOf(resT, "ext:"+shortName(name), false)
		}
		return one(ret)
	case "fmt.Errorf", "errors.New":
		return one(IfaceV{Nil: 2})
	case "(*golang.org/x/net/dns/dnsmessage.Parser).Start":
		// (Header, error): success implies the 12-byte header was unpacked (message.go: Header.unpack needs headerLen bytes)
		var msg SliceV
		ok := false
		for _, a := range args {
			if sv, isS := a.(SliceV); isS {
				msg, ok = sv, true
			}
		}
		resT := resultType(callee.Signature)
		okS := s.fork()
		hdrOK := in.unknownOf(resT, "dnsStart", false).(TupleV)
		hdrOK.F[1] = IfaceV{Nil: 1}
		if ok && msg.Reg != nil {
			if !okS.h.feasibleWith(msg.Len.AddC(-12)) {
				okS = nil
			} else {
				okS.h.addFact(msg.Len.AddC(-12))
			}
		}
		hdrErr := in.unknownOf(resT, "dnsStart", false).(TupleV)
		hdrErr.F[1] = IfaceV{Nil: 2}
		bind(s, hdrErr)
		if okS != nil {
			bind(okS, hdrOK)
			return []*State{okS, s}, true
		}
		return []*State{s}, true
	case "crypto/rand.Read":
		in.Notes["crypto/rand.Read assumed not to fail"]++
		n := in.Atoms.Fresh("randn", 0, PosInf)
		x.havocArgs(s, args, true, true)
		return one(TupleV{F: []Value{IntV{AtomLin(n)}, IfaceV{Nil: 1}}})
	case "strings.Split", "bytes.Split":
		// at least one element
		r := in.newRegion("split", false)
		ln := in.Atoms.Fresh("len:split", 1, PosInf)
		return one(SliceV{Reg: r, Len: AtomLin(ln), Cap: AtomLin(ln)})
	case "(" + core.ModPath + "/fastlog.Line).Struct", "(*" + core.ModPath + "/fastlog.Line).Struct":
		// dynamic dispatch to value.FastLog(l): inline when the dynamic type is known
		if len(args) == 2 {
			if iv, ok := args[1].(IfaceV); ok && iv.DT != nil && iv.Dyn != nil {
				if m := in.P.Prog.LookupMethod(iv.DT, nil, "FastLog"); m != nil && m.Blocks != nil && core.InModule(m) {
					onStack := false
					for _, f := range in.stack {
						if f == m {
							onStack = true
						}
					}
					if !onStack && len(in.stack) < in.Cfg.MaxDepth {
						outs := in.Exec(m, []Value{iv.Dyn, args[0]}, nil, s.h)
						var res []*State
						for i, o := range outs {
							if o.Panicked {
								continue
							}
							st := s
							if i < len(outs)-1 {
								st = s.fork()
							}
							st.h = o.H
							bind(st, args[0])
							res = append(res, st)
						}
						return res, true
					}
				}
			}
			// nil or unknown dynamic type
			in.Notes["fastlog.Struct with unknown dynamic type: FastLog body analysed by getter contracts only"]++
			return one(args[0])
		}
	}
	return nil, false
}

// forkSlices returns one state per possible result length (nil first when withNil).
func (x *fnExec) forkSlices(s *State, bind func(*State, Value), withNil bool, lens ...int64) ([]*State, bool) {
	in := x.in
	var out []*State
	var vals []Value
	if withNil {
		vals = append(vals, SliceV{Reg: in.emptyReg, Len: Const(0), Cap: Const(0), IsNil: true})
	}
	for _, n := range lens {
		r := in.newRegion(fmt.Sprintf("fresh%d", n), false)
		r.Fresh = true
		vals = append(vals, SliceV{Reg: r, Len: Const(n), Cap: Const(n)})
	}
	for i, v := range vals {
		st := s
		if i < len(vals)-1 {
			st = s.fork()
		}
		bind(st, v)
		out = append(out, st)
	}
	return out, true
}
