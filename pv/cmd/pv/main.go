// pv: static verification of irai/packet properties. See /verif/DESIGN.md.
package main

import (
	"encoding/json"
	"fmt"
	"os"
	"runtime/debug"
	"runtime/pprof"
	"strings"
	"time"

	"pv/core"
	"pv/props"
)

func usage() {
	fmt.Fprintf(os.Stderr, "usage: pv check <Cxx> [--tier quick|thorough]\n       pv explain <violation.json>\n       pv list\n")
	os.Exit(2)
}

func main() {
	if len(os.Args) < 2 {
		usage()
	}
	switch os.Args[1] {
	case "list":
		for _, id := range props.IDs() {
			fmt.Println(id)
		}
	case "debug-exec":
		prog, err := core.Load(core.RepoDir(), "")
		if err != nil {
			fmt.Println(err)
			os.Exit(1)
		}
		props.DebugExec(prog, os.Args[2], os.Args[3])
	case "fields":
		prog, err := core.Load(core.RepoDir(), "")
		if err != nil {
			fmt.Println(err)
			os.Exit(1)
		}
		f := ""
		if len(os.Args) > 2 {
			f = os.Args[2]
		}
		props.DebugFields(prog, f)
	case "writes":
		prog, err := core.Load(core.RepoDir(), "")
		if err != nil {
			fmt.Println(err)
			os.Exit(1)
		}
		props.DebugWrites(prog, os.Args[2])
	case "stale":
		prog, err := core.Load(core.RepoDir(), "")
		if err != nil {
			fmt.Println(err)
			os.Exit(1)
		}
		props.DebugStale(&props.Ctx{P: prog})
	case "flags":
		prog, err := core.Load(core.RepoDir(), "")
		if err != nil {
			fmt.Println(err)
			os.Exit(1)
		}
		props.DebugLoopFlags(prog)
	case "rangestr":
		prog, err := core.Load(core.RepoDir(), "")
		if err != nil {
			fmt.Println(err)
			os.Exit(1)
		}
		props.DebugRangeString(prog)
	case "errdrop":
		prog, err := core.Load(core.RepoDir(), "")
		if err != nil {
			fmt.Println(err)
			os.Exit(1)
		}
		props.DebugDroppedErrors(prog)
	case "ackjoin":
		prog, err := core.Load(core.RepoDir(), "")
		if err != nil {
			fmt.Println(err)
			os.Exit(1)
		}
		props.DebugAckJoin(prog)
	case "tight":
		prog, err := core.Load(core.RepoDir(), "")
		if err != nil {
			fmt.Println(err)
			os.Exit(1)
		}
		f := ""
		if len(os.Args) > 2 {
			f = os.Args[2]
		}
		props.DebugTight(prog, f)
	case "dnf":
		prog, err := core.Load(core.RepoDir(), "")
		if err != nil {
			fmt.Println(err)
			os.Exit(1)
		}
		props.DebugDNF(prog, os.Args[2], os.Args[3], os.Args[4])
	case "unlocked":
		prog, err := core.Load(core.RepoDir(), "")
		if err != nil {
			fmt.Println(err)
			os.Exit(1)
		}
		props.DebugUnlocked(prog)
	case "guards":
		prog, err := core.Load(core.RepoDir(), "")
		if err != nil {
			fmt.Println(err)
			os.Exit(1)
		}
		props.DebugGuards(prog, os.Args[2], os.Args[3])
	case "explain":
		if len(os.Args) < 3 {
			usage()
		}
		explain(os.Args[2])
	case "check":
		if len(os.Args) < 3 {
			usage()
		}
		id := os.Args[2]
		tier := os.Getenv("VERIF_TIER")
		for i := 3; i < len(os.Args); i++ {
			if os.Args[i] == "--tier" && i+1 < len(os.Args) {
				tier = os.Args[i+1]
				i++
			}
		}
		if tier != "thorough" {
			tier = "quick"
		}
		if pf := os.Getenv("PV_CPUPROFILE"); pf != "" {
			f, _ := os.Create(pf)
			pprof.StartCPUProfile(f)
			go func() {
				time.Sleep(90 * time.Second)
				pprof.StopCPUProfile()
				f.Close()
				os.Exit(3)
			}()
			code := runCheck(id, tier)
			pprof.StopCPUProfile()
			f.Close()
			os.Exit(code)
		}
		os.Exit(runCheck(id, tier))
	default:
		usage()
	}
}

func runCheck(id, tier string) (code int) {
	chk := props.Get(id)
	if chk == nil {
		fmt.Fprintf(os.Stderr, "unknown property %s\n", id)
		return 2
	}
	rep := core.NewReport(id, tier, chk.Level)
	defer func() {
		if e := recover(); e != nil {
			rep.Fatal("analyser panic: %v\n%s", e, trim(string(debug.Stack()), 3000))
			code = rep.Finish()
			if code == 0 {
				code = 1
			}
		}
	}()
	prog, err := core.Load(core.RepoDir(), "")
	if err != nil {
		rep.Fatal("cannot load %s: %v", core.RepoDir(), err)
		return rep.Finish()
	}
	ctx := &props.Ctx{P: prog, R: rep, Tier: tier, A: &core.Anchors{P: prog}}
	rep.Extra["packages_loaded"] = len(prog.Pkgs)
	rep.Extra["module_functions"] = len(prog.ModuleFunctions())
	chk.Run(ctx)
	for _, m := range ctx.A.Missing {
		rep.Fatal("unresolved anchor: %s", m)
	}
	if tier == "thorough" {
		// the same rules over the program as built for other targets (build-constrained files, 32-bit int):
		// obligations with the same key keep their worst status
		archs := []string{"arm64", "386"}
		done := []string{"amd64"}
		for _, arch := range archs {
			p2, err := core.Load(core.RepoDir(), arch)
			if err != nil {
				rep.Fatal("cannot load %s for GOARCH=%s: %v", core.RepoDir(), arch, err)
				continue
			}
			c2 := &props.Ctx{P: p2, R: rep, Tier: tier, A: &core.Anchors{P: p2}}
			chk.Run(c2)
			for _, m := range c2.A.Missing {
				rep.Fatal("unresolved anchor (GOARCH=%s): %s", arch, m)
			}
			done = append(done, arch)
		}
		rep.Extra["targets_analysed"] = done
	}
	return rep.Finish()
}

func trim(s string, n int) string {
	if len(s) > n {
		return s[:n]
	}
	return s
}

func explain(path string) {
	b, err := os.ReadFile(path)
	if err != nil {
		fmt.Println(err)
		os.Exit(1)
	}
	var v map[string]any
	if err := json.Unmarshal(b, &v); err != nil {
		fmt.Println(err)
		os.Exit(1)
	}
	fmt.Printf("property : %v\nrule     : %v\nkey      : %v\nstatus   : %v\nfunction : %v\nat       : %v\n\n%v\n", v["property"], v["rule"], v["key"], v["status"], v["function"], v["pos"], v["detail"])
	if h, ok := v["hint"]; ok && h != "" {
		fmt.Printf("hint     : %v\n", h)
	}
	// print the source line
	pos, _ := v["pos"].(string)
	parts := strings.Split(pos, ":")
	if len(parts) >= 2 {
		repo, _ := v["repo"].(string)
		if repo == "" {
			repo = core.RepoDir()
		}
		if src, err := os.ReadFile(repo + "/" + parts[0]); err == nil {
			lines := strings.Split(string(src), "\n")
			var ln int
			fmt.Sscanf(parts[1], "%d", &ln)
			for i := ln - 2; i <= ln+1; i++ {
				if i >= 1 && i <= len(lines) {
					mark := "  "
					if i == ln {
						mark = "=>"
					}
					fmt.Printf("%s %5d  %s\n", mark, i, lines[i-1])
				}
			}
		}
	}
}
