package core

import (
	"go/token"
	"go/types"
	"sort"

	"golang.org/x/tools/go/ssa"
)

// FuncCFG caches per-function CFG facts: post-dominators, control dependence, loops.
type FuncCFG struct {
	Fn    *ssa.Function
	N     int
	ipdom []int // immediate post-dominator index; N = virtual exit; -1 = none
	// cdep[b] = list of (branch block, successor index) on which b is control dependent
	cdep  [][]CDep
	loops []*Loop
}

type CDep struct {
	Branch *ssa.BasicBlock
	Succ   int // index in Branch.Succs whose edge leads to the dependent block
}

type Loop struct {
	Head   *ssa.BasicBlock
	Blocks map[*ssa.BasicBlock]bool
	Latch  []*ssa.BasicBlock // sources of back edges
}

var cfgCache = map[*ssa.Function]*FuncCFG{}

func CFG(fn *ssa.Function) *FuncCFG {
	if c, ok := cfgCache[fn]; ok {
		return c
	}
	c := &FuncCFG{Fn: fn, N: len(fn.Blocks)}
	c.computePostDom()
	c.computeCDep()
	c.computeLoops()
	cfgCache[fn] = c
	return c
}

// exits: blocks ending in Return or Panic (no successors).
func (c *FuncCFG) computePostDom() {
	n := c.N
	exit := n
	// reverse graph: preds in reverse = succs; virtual exit has edges from every no-succ block
	// Cooper-Harvey-Kennedy on the reverse CFG.
	order := []int{} // reverse postorder of reverse graph starting at exit
	visited := make([]bool, n+1)
	var rsuccs = func(b int) []int { // successors in reverse graph = predecessors in CFG
		if b == exit {
			var out []int
			for _, bb := range c.Fn.Blocks {
				if len(bb.Succs) == 0 {
					out = append(out, bb.Index)
				}
			}
			return out
		}
		var out []int
		for _, p := range c.Fn.Blocks[b].Preds {
			out = append(out, p.Index)
		}
		return out
	}
	var post []int
	var dfs func(int)
	dfs = func(b int) {
		visited[b] = true
		for _, s := range rsuccs(b) {
			if !visited[s] {
				dfs(s)
			}
		}
		post = append(post, b)
	}
	dfs(exit)
	for i := len(post) - 1; i >= 0; i-- {
		order = append(order, post[i])
	}
	rpoNum := make([]int, n+1)
	for i := range rpoNum {
		rpoNum[i] = -1
	}
	for i, b := range order {
		rpoNum[b] = i
	}
	idom := make([]int, n+1)
	for i := range idom {
		idom[i] = -1
	}
	idom[exit] = exit
	rpreds := func(b int) []int { // predecessors in reverse graph = successors in CFG (+exit for no-succ)
		if b == exit {
			return nil
		}
		var out []int
		bb := c.Fn.Blocks[b]
		if len(bb.Succs) == 0 {
			out = append(out, exit)
		}
		for _, s := range bb.Succs {
			out = append(out, s.Index)
		}
		return out
	}
	intersect := func(a, b int) int {
		for a != b {
			for rpoNum[a] > rpoNum[b] {
				a = idom[a]
			}
			for rpoNum[b] > rpoNum[a] {
				b = idom[b]
			}
		}
		return a
	}
	changed := true
	for changed {
		changed = false
		for _, b := range order {
			if b == exit {
				continue
			}
			newIdom := -1
			for _, p := range rpreds(b) {
				if rpoNum[p] < 0 || idom[p] == -1 {
					continue
				}
				if newIdom == -1 {
					newIdom = p
				} else {
					newIdom = intersect(p, newIdom)
				}
			}
			if newIdom != -1 && idom[b] != newIdom {
				idom[b] = newIdom
				changed = true
			}
		}
	}
	c.ipdom = idom
}

// PostDominates reports whether a post-dominates b (every path from b to exit passes a).
func (c *FuncCFG) PostDominates(a, b *ssa.BasicBlock) bool {
	x := b.Index
	for {
		if x == a.Index {
			return true
		}
		nx := c.ipdom[x]
		if nx == -1 || nx == x || nx == c.N {
			return false
		}
		x = nx
	}
}

func (c *FuncCFG) computeCDep() {
	c.cdep = make([][]CDep, c.N)
	for _, a := range c.Fn.Blocks {
		if len(a.Succs) < 2 {
			continue
		}
		for si, s := range a.Succs {
			// walk from s up the post-dominator tree until ipdom(a)
			stop := c.ipdom[a.Index]
			x := s.Index
			for x != stop && x != -1 && x != c.N {
				c.cdep[x] = append(c.cdep[x], CDep{Branch: a, Succ: si})
				nx := c.ipdom[x]
				if nx == x {
					break
				}
				x = nx
			}
		}
	}
}

// ControlDeps returns the direct control dependences of block b.
func (c *FuncCFG) ControlDeps(b *ssa.BasicBlock) []CDep { return c.cdep[b.Index] }

// TransitiveControlDeps returns all (branch, succ) pairs b is transitively control dependent on.
func (c *FuncCFG) TransitiveControlDeps(b *ssa.BasicBlock) []CDep {
	seen := map[CDep]bool{}
	var out []CDep
	var work = []*ssa.BasicBlock{b}
	vis := map[*ssa.BasicBlock]bool{b: true}
	for len(work) > 0 {
		x := work[len(work)-1]
		work = work[:len(work)-1]
		for _, d := range c.cdep[x.Index] {
			if !seen[d] {
				seen[d] = true
				out = append(out, d)
			}
			if !vis[d.Branch] {
				vis[d.Branch] = true
				work = append(work, d.Branch)
			}
		}
	}
	return out
}

func (c *FuncCFG) computeLoops() {
	byHead := map[*ssa.BasicBlock]*Loop{}
	for _, b := range c.Fn.Blocks {
		for _, s := range b.Succs {
			if s.Dominates(b) { // back edge b->s
				l := byHead[s]
				if l == nil {
					l = &Loop{Head: s, Blocks: map[*ssa.BasicBlock]bool{s: true}}
					byHead[s] = l
					c.loops = append(c.loops, l)
				}
				l.Latch = append(l.Latch, b)
				// collect natural loop
				stack := []*ssa.BasicBlock{b}
				for len(stack) > 0 {
					x := stack[len(stack)-1]
					stack = stack[:len(stack)-1]
					if l.Blocks[x] {
						continue
					}
					l.Blocks[x] = true
					for _, p := range x.Preds {
						stack = append(stack, p)
					}
				}
			}
		}
	}
	sort.Slice(c.loops, func(i, j int) bool { return c.loops[i].Head.Index < c.loops[j].Head.Index })
}

func (c *FuncCFG) Loops() []*Loop { return c.loops }

// IsBackEdge reports whether from->to is a back edge (to dominates from).
func IsBackEdge(from, to *ssa.BasicBlock) bool { return to.Dominates(from) }

// BlockReaches: is there a CFG path from a to b (a==b counts only via a cycle unless same=true).
func BlockReaches(a, b *ssa.BasicBlock) bool {
	seen := map[*ssa.BasicBlock]bool{}
	stack := append([]*ssa.BasicBlock{}, a.Succs...)
	for len(stack) > 0 {
		x := stack[len(stack)-1]
		stack = stack[:len(stack)-1]
		if x == b {
			return true
		}
		if seen[x] {
			continue
		}
		seen[x] = true
		stack = append(stack, x.Succs...)
	}
	return false
}

// InstrIndex returns the index of instr within its block.
func InstrIndex(instr ssa.Instruction) int {
	for i, in := range instr.Block().Instrs {
		if in == instr {
			return i
		}
	}
	return -1
}

// InstrDominates: a executes before b on every path reaching b.
func InstrDominates(a, b ssa.Instruction) bool {
	if a.Block() == b.Block() {
		return InstrIndex(a) < InstrIndex(b)
	}
	return a.Block().Dominates(b.Block())
}

// InstrReaches: some path executes a then b.
func InstrReaches(a, b ssa.Instruction) bool {
	if a.Block() == b.Block() && InstrIndex(a) < InstrIndex(b) {
		return true
	}
	return BlockReaches(a.Block(), b.Block())
}

// EachInstr visits every instruction of fn.
func EachInstr(fn *ssa.Function, f func(ssa.Instruction)) {
	for _, b := range fn.Blocks {
		for _, in := range b.Instrs {
			f(in)
		}
	}
}

// CalleeOf returns the statically resolved callee of a call (function, method, or closure literal).
func CalleeOf(c ssa.CallInstruction) *ssa.Function {
	cc := c.Common()
	if f := cc.StaticCallee(); f != nil {
		return f
	}
	return nil
}

// CalleeName returns "pkgpath.Func" or "(pkgpath.T).M" for static and interface calls alike
// ("" when dynamic through a func value).
func CalleeName(c ssa.CallInstruction) string {
	cc := c.Common()
	if f := cc.StaticCallee(); f != nil {
		if f.Object() != nil {
			return f.Object().(*types.Func).FullName()
		}
		return f.String()
	}
	if cc.IsInvoke() {
		return cc.Method.FullName()
	}
	return ""
}

// PosOf returns the best available position for an instruction (falls back to operands / block).
func PosOf(in ssa.Instruction) token.Pos {
	if in.Pos().IsValid() {
		return in.Pos()
	}
	if v, ok := in.(ssa.Value); ok {
		_ = v
	}
	for _, op := range in.Operands(nil) {
		if *op != nil && (*op).Pos().IsValid() {
			return (*op).Pos()
		}
	}
	// nearest previous instruction with a position
	b := in.Block()
	idx := InstrIndex(in)
	for i := idx - 1; i >= 0; i-- {
		if b.Instrs[i].Pos().IsValid() {
			return b.Instrs[i].Pos()
		}
	}
	for i := idx + 1; i < len(b.Instrs); i++ {
		if b.Instrs[i].Pos().IsValid() {
			return b.Instrs[i].Pos()
		}
	}
	return in.Parent().Pos()
}
