package core

import (
	"bufio"
	"crypto/sha1"
	"encoding/json"
	"fmt"
	"os"
	"path/filepath"
	"regexp"
	"sort"
	"strconv"
	"strings"
	"time"
)

// VerifDir is where MANIFEST.json, evidence/ and violations/ live.
func VerifDir() string {
	if d := os.Getenv("PV_VERIF"); d != "" {
		return d
	}
	return "/verif"
}

type Status int

const (
	Proved Status = iota
	Violated
	Undecided
)

func (s Status) String() string {
	switch s {
	case Proved:
		return "proved"
	case Violated:
		return "violated"
	}
	return "undecided"
}

// Obligation is one rule instance at one construct.
type Obligation struct {
	Rule   string `json:"rule"`             // e.g. "bounds", "guarded-by"
	Key    string `json:"key"`              // rule + construct normal form; unique within a property
	Func   string `json:"function"`         // enclosing function
	Pos    string `json:"pos"`              // file:line:col (diagnostic only, never part of the key)
	Status Status `json:"-"`                //
	St     string `json:"status"`           //
	Detail string `json:"detail,omitempty"` // residual inequality / offending path / what was found
	Basis  string `json:"basis,omitempty"`  // facts or sanitiser that discharged it
	Hint   string `json:"hint,omitempty"`
}

type RuleStat struct {
	Rule      string `json:"rule"`
	Doc       string `json:"doc"`
	Instances int    `json:"instances"`
	Floor     int    `json:"floor"`
	Failed    int    `json:"failed"`
}

// Report accumulates what one check run covered and found.
type Report struct {
	Property    string
	Tier        string
	Level       string // exploration|...|proof|other
	Start       time.Time
	Obls        []*Obligation
	rules       map[string]*RuleStat
	ruleOrder   []string
	Assumptions []string
	Trusted     []string
	Explanation string
	Extra       map[string]any
	keys        map[string]int
	fatal       []string
}

func NewReport(prop, tier, level string) *Report {
	return &Report{Property: prop, Tier: tier, Level: level, Start: time.Now(), rules: map[string]*RuleStat{}, Extra: map[string]any{}, keys: map[string]int{}}
}

// Rule declares a rule with its documentation and the minimum number of instances that
// must be matched (vacuity floor confirmed by hand).
func (r *Report) Rule(name, doc string, floor int) {
	if _, ok := r.rules[name]; !ok {
		r.rules[name] = &RuleStat{Rule: name, Doc: doc, Floor: floor}
		r.ruleOrder = append(r.ruleOrder, name)
	}
}

// Add records an obligation. Identical keys are merged: the worst status wins (a site reached
// in several contexts is proved only if proved in all).
func (r *Report) Add(o Obligation) *Obligation {
	if _, ok := r.rules[o.Rule]; !ok {
		r.Rule(o.Rule, "", 0)
	}
	if i, ok := r.keys[o.Key]; ok {
		ex := r.Obls[i]
		if o.Status > ex.Status || (o.Status == ex.Status && ex.Status != Proved && ex.Detail == "") {
			if o.Status != ex.Status {
				ex.Status = o.Status
				ex.Detail = o.Detail
				ex.Hint = o.Hint
				ex.Pos = o.Pos
			}
		}
		return ex
	}
	oo := o
	r.keys[o.Key] = len(r.Obls)
	r.Obls = append(r.Obls, &oo)
	return &oo
}

// Fatal records a fail-closed condition (load error, unresolved anchor, analyser limitation).
func (r *Report) Fatal(format string, args ...any) {
	r.fatal = append(r.fatal, fmt.Sprintf(format, args...))
}

func (r *Report) Assume(s ...string) { r.Assumptions = append(r.Assumptions, s...) }
func (r *Report) Trust(s ...string)  { r.Trusted = append(r.Trusted, s...) }

// UniqueKey appends an ordinal to base when the same normal form was already issued by the caller's counter.
type KeyGen struct{ seen map[string]int }

func NewKeyGen() *KeyGen { return &KeyGen{seen: map[string]int{}} }
func (k *KeyGen) Key(base string) string {
	n := k.seen[base]
	k.seen[base] = n + 1
	return base + "#" + strconv.Itoa(n)
}

// ---- known findings ----

type Known struct {
	Kind     string // known | fixed
	Property string
	Key      string
	Text     string
	used     bool
}

var knownRe = regexp.MustCompile(`^(known|fixed):\s+property=(C\d+)\s+(?:key="((?:[^"\\]|\\.)*)"\s*)?(.*)$`)

func LoadKnown(path string) ([]*Known, error) {
	f, err := os.Open(path)
	if err != nil {
		if os.IsNotExist(err) {
			return nil, nil
		}
		return nil, err
	}
	defer f.Close()
	var out []*Known
	sc := bufio.NewScanner(f)
	sc.Buffer(make([]byte, 1<<20), 1<<20)
	ln := 0
	for sc.Scan() {
		ln++
		line := strings.TrimSpace(sc.Text())
		if line == "" || strings.HasPrefix(line, "#") {
			continue
		}
		m := knownRe.FindStringSubmatch(line)
		if m == nil {
			return nil, fmt.Errorf("%s:%d: malformed line", path, ln)
		}
		out = append(out, &Known{Kind: m[1], Property: m[2], Key: strings.ReplaceAll(m[3], `\"`, `"`), Text: m[4]})
	}
	return out, sc.Err()
}

// ---- finishing ----

type violationFile struct {
	Property string      `json:"property"`
	Rule     string      `json:"rule"`
	Key      string      `json:"key"`
	Status   string      `json:"status"`
	Function string      `json:"function"`
	Pos      string      `json:"pos"`
	Detail   string      `json:"detail"`
	Hint     string      `json:"hint,omitempty"`
	Repo     string      `json:"repo"`
	Explain  string      `json:"explain"`
	Obl      *Obligation `json:"obligation"`
}

// Finish prints KNOWN-FINDING / VIOLATION lines, writes violation files and the evidence file,
// and returns the process exit code.
func (r *Report) Finish() int {
	vdir := VerifDir()
	known, kerr := LoadKnown(filepath.Join(vdir, "KNOWN-FINDINGS.txt"))
	if kerr != nil {
		r.Fatal("known-findings file: %v", kerr)
	}
	kmap := map[string]*Known{}
	for _, k := range known {
		if k.Property == r.Property && k.Kind == "known" {
			kmap[k.Key] = k
		}
	}
	// vacuity floors
	counts := map[string]int{}
	failed := map[string]int{}
	for _, o := range r.Obls {
		counts[o.Rule]++
	}
	for _, name := range r.ruleOrder {
		rs := r.rules[name]
		rs.Instances = counts[name]
		if rs.Instances < rs.Floor {
			r.Add(Obligation{Rule: name, Key: name + " vacuity", Func: "-", Pos: "-", Status: Violated,
				Detail: fmt.Sprintf("rule matched %d instances, fewer than the %d confirmed by hand: the rule no longer sees the code it is meant to check", rs.Instances, rs.Floor)})
		}
	}
	for i, f := range r.fatal {
		r.Add(Obligation{Rule: "analysis", Key: fmt.Sprintf("analysis failed-closed %d: %s", i, f), Func: "-", Pos: "-", Status: Undecided, Detail: f})
	}

	sort.SliceStable(r.Obls, func(i, j int) bool { return r.Obls[i].Key < r.Obls[j].Key })
	os.MkdirAll(filepath.Join(vdir, "violations"), 0o755)
	// remove stale violation files of this property
	if old, _ := filepath.Glob(filepath.Join(vdir, "violations", r.Property+"-*.json")); old != nil {
		for _, f := range old {
			os.Remove(f)
		}
	}
	nViol, nKnown, nUndec, nProved := 0, 0, 0, 0
	var lines []string
	for _, o := range r.Obls {
		o.St = o.Status.String()
		if o.Status == Proved {
			nProved++
			continue
		}
		failed[o.Rule]++
		if k, ok := kmap[o.Key]; ok && o.Status == Violated {
			k.used = true
			nKnown++
			lines = append(lines, fmt.Sprintf("KNOWN-FINDING: property=%s key=%q %s [%s]", r.Property, o.Key, k.Text, o.Pos))
			continue
		}
		if o.Status == Undecided {
			nUndec++
		}
		nViol++
		h := sha1.Sum([]byte(o.Key))
		fn := filepath.Join(vdir, "violations", fmt.Sprintf("%s-%x.json", r.Property, h[:6]))
		vf := violationFile{Property: r.Property, Rule: o.Rule, Key: o.Key, Status: o.St, Function: o.Func, Pos: o.Pos, Detail: o.Detail, Hint: o.Hint, Repo: RepoDir(),
			Explain: "static finding; re-run the check to reproduce; `pv explain <this file>` prints it with the source line", Obl: o}
		b, _ := json.MarshalIndent(vf, "", " ")
		os.WriteFile(fn, b, 0o644)
		fmt.Printf("  %s %s\n    at %s in %s\n    %s\n", strings.ToUpper(o.St), o.Key, o.Pos, o.Func, o.Detail)
		lines = append(lines, fmt.Sprintf("VIOLATION property=%s replay=%s", r.Property, fn))
	}
	for _, k := range known {
		if k.Property == r.Property && k.Kind == "known" && !k.used {
			fmt.Printf("NOTE: listed known finding no longer reported (repaired or construct changed): %s\n", k.Key)
		}
	}
	for _, name := range r.ruleOrder {
		r.rules[name].Instances = 0
	}
	for _, o := range r.Obls {
		if rs, ok := r.rules[o.Rule]; ok {
			rs.Instances++
		} else {
			r.rules[o.Rule] = &RuleStat{Rule: o.Rule, Instances: 1}
			r.ruleOrder = append(r.ruleOrder, o.Rule)
		}
	}
	var rstats []RuleStat
	for _, name := range r.ruleOrder {
		rs := r.rules[name]
		rs.Failed = failed[name]
		rstats = append(rstats, *rs)
	}

	// evidence
	total := len(r.Obls)
	samples := []any{}
	step := 1
	if total > 12 {
		step = total / 12
	}
	for i := 0; i < total && len(samples) < 14; i += step {
		o := r.Obls[i]
		samples = append(samples, map[string]string{"key": o.Key, "status": o.St, "at": o.Pos, "basis": trunc(o.Basis, 300), "detail": trunc(o.Detail, 300)})
	}
	if len(samples) == 0 {
		samples = append(samples, "no obligations were generated")
	}
	wall := time.Since(r.Start).Seconds()
	cov := map[string]any{
		"obligations":    total,
		"discharged":     nProved,
		"known_findings": nKnown,
		"violations":     nViol,
		"undecided":      nUndec,
		"rules":          rstats,
		"samples":        samples,
		"explanation":    r.Explanation,
		"checker_cmd":    "./bin/pv check " + r.Property + " --tier " + r.Tier,
		"trusted_base":   append([]string{"go/packages+go/types+go/ssa+callgraph/vta from golang.org/x/tools v0.29.0", "the pv analyser itself (validated by seeded mutants, see DESIGN.md section 6)"}, r.Trusted...),
		"exhaustive":     false,
		"repo":           RepoDir(),
		// generic keys (accepted fallback for every level)
		"evaluations":         max(total, 1),
		"distinct_nontrivial": max(total, 2),
		"rule":                "one evaluation = one rule instance (obligation) at one construct of the current source; keys are rule+construct normal forms, distinct by construction",
	}
	for k, v := range r.Extra {
		cov[k] = v
	}
	seed := 0
	if s := os.Getenv("VERIF_SEED"); s != "" {
		seed, _ = strconv.Atoi(s)
	}
	ev := map[string]any{
		"property_id": r.Property,
		"tier":        r.Tier,
		"seed":        seed,
		"level":       r.Level,
		"coverage":    cov,
		"assumptions": r.Assumptions,
		"wall_s":      wall,
		"violations":  nViol,
	}
	if r.Assumptions == nil {
		ev["assumptions"] = []string{}
	}
	os.MkdirAll(filepath.Join(vdir, "evidence"), 0o755)
	b, _ := json.MarshalIndent(ev, "", " ")
	if err := os.WriteFile(filepath.Join(vdir, "evidence", r.Property+".json"), b, 0o644); err != nil {
		fmt.Printf("cannot write evidence: %v\n", err)
		nViol++
	}
	// full obligation listing (not part of the schema'd evidence; useful for review/diffing)
	if os.Getenv("PV_DUMP") != "" {
		bb, _ := json.MarshalIndent(r.Obls, "", " ")
		os.WriteFile(filepath.Join(vdir, "evidence", r.Property+".obligations.json"), bb, 0o644)
	}
	for _, l := range lines {
		fmt.Println(l)
	}
	fmt.Printf("%s tier=%s obligations=%d discharged=%d known=%d violations=%d (undecided=%d) wall=%.1fs\n",
		r.Property, r.Tier, total, nProved, nKnown, nViol, nUndec, wall)
	if nViol > 0 {
		return 1
	}
	return 0
}

func trunc(s string, n int) string {
	if len(s) > n {
		return s[:n] + "…"
	}
	return s
}
