// Package core holds the shared plumbing: loading /repo into go/ssa, the call graph,
// evidence and violation files, the known-findings matcher.
package core

import (
	"fmt"
	"go/token"
	"go/types"
	"os"
	"path/filepath"
	"sort"
	"strings"

	"golang.org/x/tools/go/callgraph"
	"golang.org/x/tools/go/callgraph/cha"
	"golang.org/x/tools/go/callgraph/vta"
	"golang.org/x/tools/go/packages"
	"golang.org/x/tools/go/ssa"
	"golang.org/x/tools/go/ssa/ssautil"
)

const ModPath = "github.com/irai/packet"

// Program is the loaded, type-checked, SSA-built module.
type Program struct {
	RepoDir string
	Fset    *token.FileSet
	Pkgs    []*packages.Package // module packages (incl. examples)
	All     []*packages.Package // all packages incl. deps
	Prog    *ssa.Program
	SSAPkgs map[string]*ssa.Package // by import path (module packages only)
	cg      *callgraph.Graph
	allFns  map[*ssa.Function]bool
}

// RepoDir returns the directory analysed (PV_REPO overrides /repo; used by selftests on scratch copies).
func RepoDir() string {
	if d := os.Getenv("PV_REPO"); d != "" {
		return d
	}
	return "/repo"
}

// Load loads all packages of the module rooted at dir. It fails closed on any
// list/parse/type error and on an empty package set.
func Load(dir string, goarch string) (*Program, error) {
	env := append(os.Environ(),
		"GOFLAGS=-mod=mod", "GOPROXY=off", "GOSUMDB=off", "GOTOOLCHAIN=local", "GOWORK=off", "CGO_ENABLED=0", "GOOS=linux")
	if goarch != "" {
		env = append(env, "GOARCH="+goarch)
	}
	cfg := &packages.Config{
		Mode:  packages.LoadAllSyntax,
		Dir:   dir,
		Tests: false,
		Env:   env,
	}
	pkgs, err := packages.Load(cfg, "./...")
	if err != nil {
		return nil, fmt.Errorf("packages.Load: %w", err)
	}
	if len(pkgs) == 0 {
		return nil, fmt.Errorf("no packages loaded from %s", dir)
	}
	var errs []string
	packages.Visit(pkgs, nil, func(p *packages.Package) {
		for _, e := range p.Errors {
			errs = append(errs, e.Error())
		}
	})
	if len(errs) > 0 {
		return nil, fmt.Errorf("load errors (%d): %s", len(errs), strings.Join(errs[:min(len(errs), 5)], "; "))
	}
	prog, _ := ssautil.AllPackages(pkgs, ssa.InstantiateGenerics)
	prog.Build()
	p := &Program{RepoDir: dir, Fset: pkgs[0].Fset, Prog: prog, SSAPkgs: map[string]*ssa.Package{}}
	for _, pk := range pkgs {
		if pk.PkgPath == ModPath || strings.HasPrefix(pk.PkgPath, ModPath+"/") {
			p.Pkgs = append(p.Pkgs, pk)
			sp := prog.Package(pk.Types)
			if sp == nil {
				return nil, fmt.Errorf("no ssa package for %s", pk.PkgPath)
			}
			p.SSAPkgs[pk.PkgPath] = sp
		}
	}
	sort.Slice(p.Pkgs, func(i, j int) bool { return p.Pkgs[i].PkgPath < p.Pkgs[j].PkgPath })
	if len(p.Pkgs) == 0 {
		return nil, fmt.Errorf("module %s not found under %s", ModPath, dir)
	}
	if _, ok := p.SSAPkgs[ModPath]; !ok {
		return nil, fmt.Errorf("root package %s not loaded", ModPath)
	}
	return p, nil
}

// AllFunctions returns every function of the program (cached).
func (p *Program) AllFunctions() map[*ssa.Function]bool {
	if p.allFns == nil {
		p.allFns = ssautil.AllFunctions(p.Prog)
	}
	return p.allFns
}

// CallGraph returns the VTA call graph (cached).
func (p *Program) CallGraph() *callgraph.Graph {
	if p.cg == nil {
		fns := p.AllFunctions()
		p.cg = vta.CallGraph(fns, cha.CallGraph(p.Prog))
	}
	return p.cg
}

// InModule reports whether fn belongs to the analysed module (library, handlers, fastlog, examples).
func InModule(fn *ssa.Function) bool {
	if fn == nil {
		return false
	}
	pk := fn.Package()
	if pk == nil {
		if fn.Parent() != nil {
			return InModule(fn.Parent())
		}
		// instantiated generic or synthetic wrapper
		if o := fn.Origin(); o != nil && o != fn {
			return InModule(o)
		}
		if fn.Object() != nil && fn.Object().Pkg() != nil {
			return isModPath(fn.Object().Pkg().Path())
		}
		return false
	}
	return isModPath(pk.Pkg.Path())
}

func isModPath(path string) bool {
	return path == ModPath || strings.HasPrefix(path, ModPath+"/")
}

// IsLibPath: module package that is not an example program.
func IsLibPath(path string) bool {
	return isModPath(path) && !strings.HasPrefix(path, ModPath+"/examples")
}

// InLib reports whether fn is in a non-example module package.
func InLib(fn *ssa.Function) bool {
	if !InModule(fn) {
		return false
	}
	for f := fn; f != nil; f = f.Parent() {
		if f.Package() != nil {
			return IsLibPath(f.Package().Pkg.Path())
		}
	}
	if fn.Object() != nil && fn.Object().Pkg() != nil {
		return IsLibPath(fn.Object().Pkg().Path())
	}
	return true
}

// ModuleFunctions returns all source functions (with bodies) of the module, incl. anonymous
// functions and methods, sorted by name for deterministic iteration.
func (p *Program) ModuleFunctions() []*ssa.Function {
	var out []*ssa.Function
	for fn := range p.AllFunctions() {
		if fn.Blocks == nil || !InModule(fn) {
			continue
		}
		if fn.Synthetic != "" && !strings.HasPrefix(fn.Synthetic, "package initializer") {
			// wrappers, bound methods, thunks: analysed through their targets
			continue
		}
		out = append(out, fn)
	}
	sort.Slice(out, func(i, j int) bool {
		if out[i].String() != out[j].String() {
			return out[i].String() < out[j].String()
		}
		return out[i].Pos() < out[j].Pos()
	})
	return out
}

// LibFunctions is ModuleFunctions without the example programs.
func (p *Program) LibFunctions() []*ssa.Function {
	var out []*ssa.Function
	for _, f := range p.ModuleFunctions() {
		if InLib(f) {
			out = append(out, f)
		}
	}
	return out
}

// Pkg returns the ssa package for a module-relative path ("" = root, "handlers/arp_spoofer", "fastlog").
func (p *Program) Pkg(rel string) *ssa.Package {
	path := ModPath
	if rel != "" {
		path += "/" + rel
	}
	return p.SSAPkgs[path]
}

// Func looks up a package-level function; nil if absent.
func (p *Program) Func(rel, name string) *ssa.Function {
	pk := p.Pkg(rel)
	if pk == nil {
		return nil
	}
	return pk.Func(name)
}

// Method looks up method `name` on named type `typ` (value or pointer receiver) in package rel.
func (p *Program) Method(rel, typ, name string) *ssa.Function {
	pk := p.Pkg(rel)
	if pk == nil {
		return nil
	}
	t := pk.Type(typ)
	if t == nil {
		return nil
	}
	nt := t.Type()
	for _, T := range []types.Type{nt, types.NewPointer(nt)} {
		ms := p.Prog.MethodSets.MethodSet(T)
		for i := 0; i < ms.Len(); i++ {
			sel := ms.At(i)
			if sel.Obj().Name() == name {
				fn := p.Prog.MethodValue(sel)
				if fn == nil {
					continue
				}
				// unwrap synthetic pointer-receiver wrapper to the declared method
				if fn.Synthetic != "" {
					if decl := p.Prog.FuncValue(sel.Obj().(*types.Func)); decl != nil {
						return decl
					}
				}
				return fn
			}
		}
	}
	return nil
}

// MustFunc / MustMethod record unresolved anchors instead of panicking; checks fail closed on them.
type Anchors struct {
	P       *Program
	Missing []string
}

func (a *Anchors) Func(rel, name string) *ssa.Function {
	f := a.P.Func(rel, name)
	if f == nil {
		a.Missing = append(a.Missing, fmt.Sprintf("func %s.%s", rel, name))
	}
	return f
}

func (a *Anchors) Method(rel, typ, name string) *ssa.Function {
	f := a.P.Method(rel, typ, name)
	if f == nil {
		a.Missing = append(a.Missing, fmt.Sprintf("method %s.(%s).%s", rel, typ, name))
	}
	return f
}

// Pos renders a position relative to the repo dir.
func (p *Program) Pos(pos token.Pos) string {
	if !pos.IsValid() {
		return "-"
	}
	ps := p.Fset.Position(pos)
	rel, err := filepath.Rel(p.RepoDir, ps.Filename)
	if err != nil || strings.HasPrefix(rel, "..") {
		rel = ps.Filename
	}
	return fmt.Sprintf("%s:%d:%d", rel, ps.Line, ps.Column)
}

// FuncName renders a stable function name: (pkg.T).M / pkg.F / pkg.F$1, with the module prefix shortened.
func FuncName(fn *ssa.Function) string {
	if fn == nil {
		return "<nil>"
	}
	s := fn.String()
	s = strings.ReplaceAll(s, ModPath+"/handlers/", "")
	s = strings.ReplaceAll(s, ModPath+"/", "")
	s = strings.ReplaceAll(s, ModPath, "packet")
	return s
}

// Callees returns the call-graph callees of a call instruction (VTA-resolved).
func (p *Program) Callees(site ssa.CallInstruction) []*ssa.Function {
	if c := site.Common().StaticCallee(); c != nil {
		return []*ssa.Function{c}
	}
	n := p.CallGraph().Nodes[site.Parent()]
	if n == nil {
		return nil
	}
	var out []*ssa.Function
	seen := map[*ssa.Function]bool{}
	for _, e := range n.Out {
		if e.Site == site && !seen[e.Callee.Func] {
			seen[e.Callee.Func] = true
			out = append(out, e.Callee.Func)
		}
	}
	sort.Slice(out, func(i, j int) bool { return out[i].String() < out[j].String() })
	return out
}

// Reachable returns the set of functions reachable from roots over the call graph,
// optionally stopping at functions for which stop returns true (they are included, not expanded).
func (p *Program) Reachable(roots []*ssa.Function, stop func(*ssa.Function) bool) map[*ssa.Function]bool {
	cg := p.CallGraph()
	seen := map[*ssa.Function]bool{}
	var work []*ssa.Function
	for _, r := range roots {
		if r != nil && !seen[r] {
			seen[r] = true
			work = append(work, r)
		}
	}
	for len(work) > 0 {
		f := work[len(work)-1]
		work = work[:len(work)-1]
		if stop != nil && stop(f) {
			continue
		}
		n := cg.Nodes[f]
		if n == nil {
			continue
		}
		for _, e := range n.Out {
			c := e.Callee.Func
			if !seen[c] {
				seen[c] = true
				work = append(work, c)
			}
		}
		// anonymous functions defined here are reachable when referenced; MakeClosure edges are
		// not call edges, so include closures conservatively.
		for _, an := range f.AnonFuncs {
			if !seen[an] {
				seen[an] = true
				work = append(work, an)
			}
		}
	}
	return seen
}
