// Package locks is engine E of DESIGN.md: lock classes, per-function locksets (must/may),
// caller-holds entry locksets, acquisition summaries and the lock-order graph.
package locks

import (
	"fmt"
	"go/types"
	"sort"
	"strings"

	"golang.org/x/tools/go/ssa"

	"pv/core"
)

// Held is one lock held: class + mode ("R" or "W").
type Held struct {
	Class string
	Mode  string
}

type Set map[Held]bool

func (s Set) clone() Set {
	n := Set{}
	for k := range s {
		n[k] = true
	}
	return n
}

func (s Set) String() string {
	var out []string
	for h := range s {
		out = append(out, h.Class+":"+h.Mode)
	}
	sort.Strings(out)
	return "{" + strings.Join(out, ",") + "}"
}

func (s Set) HasClass(c string) bool { return s[Held{c, "R"}] || s[Held{c, "W"}] }

// intersect: locks held in both; a lock held for writing on one side and for reading on the
// other is held (at least) for reading.
func intersect(a, b Set) Set {
	n := Set{}
	for k := range a {
		if b[k] {
			n[k] = true
		} else if b[Held{k.Class, "W"}] && k.Mode == "R" {
			n[k] = true
		} else if k.Mode == "W" && b[Held{k.Class, "R"}] {
			n[Held{k.Class, "R"}] = true
		}
	}
	return n
}

func union(a, b Set) Set {
	n := a.clone()
	for k := range b {
		n[k] = true
	}
	return n
}

func equal(a, b Set) bool {
	if len(a) != len(b) {
		return false
	}
	for k := range a {
		if !b[k] {
			return false
		}
	}
	return true
}

// Op is a lock operation at a call instruction.
type Op struct {
	Instr   ssa.Instruction
	Class   string
	Mode    string // R | W
	Acquire bool
	Defer   bool
}

type FuncInfo struct {
	Fn       *ssa.Function
	Ops      []Op
	MustIn   map[ssa.Instruction]Set // locks certainly held just before the instruction (local + entry)
	MayIn    map[ssa.Instruction]Set
	ExitMay  []ExitState
	Problems []string // pairing problems
}

type ExitState struct {
	Ret  ssa.Instruction
	Held Set // may-held at return after deferred unlocks
}

type Analysis struct {
	// Constructor reports functions whose call sites are ignored when computing caller-holds
	// (the object they work on is not shared yet).
	Constructor func(fn *ssa.Function) bool
	P        *core.Program
	Fns      []*ssa.Function
	Info     map[*ssa.Function]*FuncInfo
	Classes  map[string]bool
	Entry    map[*ssa.Function]Set    // must-held at entry (caller-holds), nil = not yet known (top)
	Acquires map[*ssa.Function]Set    // classes (with mode) acquired transitively
	Roots    map[*ssa.Function]string // functions entered with no lock held (API, goroutine bodies)
	Edges    map[[2]string][]string   // lock order edges held -> acquired, with example sites
}

// ClassOf names the lock class of the receiver expression of a sync call.
func ClassOf(v ssa.Value) string {
	switch t := v.(type) {
	case *ssa.FieldAddr:
		base := t.X.Type()
		if p, ok := base.Underlying().(*types.Pointer); ok {
			base = p.Elem()
		}
		fname := fieldNameOf(base, t.Field)
		if nt, ok := base.(*types.Named); ok {
			return nt.Obj().Name() + "." + fname
		}
		// anonymous struct: name it by the global / variable it lives in
		switch x := t.X.(type) {
		case *ssa.Global:
			return x.Name() + "." + fname
		case *ssa.FieldAddr:
			return ClassOf(x) + "." + fname
		}
		return "anon." + fname
	case *ssa.Global:
		return t.Name()
	case *ssa.Alloc:
		return "local:" + t.Comment
	case *ssa.UnOp:
		return "ptr:" + t.X.Name()
	}
	return "unknown"
}

func fieldNameOf(t types.Type, i int) string {
	if st, ok := t.Underlying().(*types.Struct); ok && i < st.NumFields() {
		return st.Field(i).Name()
	}
	return fmt.Sprint(i)
}

func lockOp(c ssa.CallInstruction) (mode string, acquire bool, ok bool) {
	switch core.CalleeName(c) {
	case "(*sync.Mutex).Lock", "(*sync.RWMutex).Lock":
		return "W", true, true
	case "(*sync.RWMutex).RLock":
		return "R", true, true
	case "(*sync.Mutex).Unlock", "(*sync.RWMutex).Unlock":
		return "W", false, true
	case "(*sync.RWMutex).RUnlock":
		return "R", false, true
	}
	return "", false, false
}

func Analyse(p *core.Program, fns []*ssa.Function, constructor func(*ssa.Function) bool) *Analysis {
	a := &Analysis{Constructor: constructor, P: p, Fns: fns, Info: map[*ssa.Function]*FuncInfo{}, Classes: map[string]bool{}, Entry: map[*ssa.Function]Set{},
		Acquires: map[*ssa.Function]Set{}, Roots: map[*ssa.Function]string{}, Edges: map[[2]string][]string{}}
	for _, fn := range fns {
		fi := &FuncInfo{Fn: fn}
		core.EachInstr(fn, func(i ssa.Instruction) {
			c, ok := i.(ssa.CallInstruction)
			if !ok {
				return
			}
			mode, acq, isLock := lockOp(c)
			if !isLock || len(c.Common().Args) == 0 {
				return
			}
			cls := ClassOf(c.Common().Args[0])
			a.Classes[cls] = true
			_, isDefer := i.(*ssa.Defer)
			fi.Ops = append(fi.Ops, Op{Instr: i, Class: cls, Mode: mode, Acquire: acq, Defer: isDefer})
		})
		a.Info[fn] = fi
	}
	a.computeAcquires()
	a.computeRoots()
	a.computeEntry()
	for _, fn := range fns {
		a.localFlow(fn, a.Entry[fn])
	}
	a.computeEdges()
	return a
}

// callees restricted to module functions with bodies
func (a *Analysis) callees(site ssa.CallInstruction) []*ssa.Function {
	var out []*ssa.Function
	for _, f := range a.P.Callees(site) {
		if f.Blocks != nil && core.InModule(f) {
			out = append(out, f)
		}
	}
	return out
}

func (a *Analysis) computeAcquires() {
	for _, fn := range a.Fns {
		s := Set{}
		for _, op := range a.Info[fn].Ops {
			if op.Acquire {
				s[Held{op.Class, op.Mode}] = true
			}
		}
		a.Acquires[fn] = s
	}
	for changed := true; changed; {
		changed = false
		for _, fn := range a.Fns {
			core.EachInstr(fn, func(i ssa.Instruction) {
				site, ok := i.(ssa.CallInstruction)
				if !ok {
					return
				}
				if _, isGo := i.(*ssa.Go); isGo {
					return // runs in another goroutine: does not acquire in this thread
				}
				for _, cal := range a.callees(site) {
					for h := range a.Acquires[cal] {
						if !a.Acquires[fn][h] {
							a.Acquires[fn][h] = true
							changed = true
						}
					}
				}
			})
		}
	}
}

// computeRoots: exported functions/methods of library packages, goroutine bodies, and functions
// without module callers start with no lock held.
func (a *Analysis) computeRoots() {
	called := map[*ssa.Function]bool{}
	for _, fn := range a.Fns {
		core.EachInstr(fn, func(i ssa.Instruction) {
			site, ok := i.(ssa.CallInstruction)
			if !ok {
				return
			}
			_, isGo := i.(*ssa.Go)
			for _, cal := range a.callees(site) {
				if isGo {
					a.Roots[cal] = "started with go at " + a.P.Pos(core.PosOf(i))
				} else {
					called[cal] = true
				}
			}
		})
	}
	for _, fn := range a.Fns {
		if fn.Object() != nil && fn.Object().Exported() && fn.Parent() == nil {
			// exported method of an exported or unexported type, or exported function
			a.Roots[fn] = "exported API"
		}
		if !called[fn] && fn.Parent() == nil && false {
			if _, ok := a.Roots[fn]; !ok {
				a.Roots[fn] = "no module caller"
			}
		}
	}
}

// computeEntry: greatest fixpoint of "locks must-held at every call site" (roots: empty).
func (a *Analysis) computeEntry() {
	// start optimistic: unknown (nil) for non-roots
	for _, fn := range a.Fns {
		if _, ok := a.Roots[fn]; ok {
			a.Entry[fn] = Set{}
		}
	}
	for iter := 0; iter < 50; iter++ {
		changed := false
		for _, fn := range a.Fns {
			if a.Entry[fn] == nil {
				// closures inherit from where they are created only when called; treat uncalled closures as roots later
				continue
			}
			if a.Constructor != nil && a.Constructor(fn) {
				continue
			}
			a.localFlow(fn, a.Entry[fn])
			fi := a.Info[fn]
			core.EachInstr(fn, func(i ssa.Instruction) {
				site, ok := i.(ssa.CallInstruction)
				if !ok {
					return
				}
				if _, isGo := i.(*ssa.Go); isGo {
					return
				}
				if _, isDefer := i.(*ssa.Defer); isDefer {
					return // runs at exit: conservatively nothing held is assumed below
				}
				held := fi.MustIn[i]
				for _, cal := range a.callees(site) {
					if _, isRoot := a.Roots[cal]; isRoot {
						continue
					}
					if a.Entry[cal] == nil {
						a.Entry[cal] = held.clone()
						changed = true
					} else {
						n := intersect(a.Entry[cal], held)
						if !equal(n, a.Entry[cal]) {
							a.Entry[cal] = n
							changed = true
						}
					}
				}
			})
		}
		if !changed {
			break
		}
	}
	for _, fn := range a.Fns {
		if a.Entry[fn] == nil {
			a.Entry[fn] = Set{}
		}
	}
}

// localFlow computes must/may locksets before each instruction, given the entry set.
func (a *Analysis) localFlow(fn *ssa.Function, entry Set) {
	fi := a.Info[fn]
	fi.MustIn = map[ssa.Instruction]Set{}
	fi.MayIn = map[ssa.Instruction]Set{}
	fi.ExitMay = nil
	fi.Problems = nil
	if fn.Blocks == nil {
		return
	}
	opAt := map[ssa.Instruction]Op{}
	for _, op := range fi.Ops {
		opAt[op.Instr] = op
	}
	type st struct {
		must, may Set
		defers    []Op
		init      bool
	}
	in := make([]st, len(fn.Blocks))
	in[0] = st{must: entry.clone(), may: entry.clone(), init: true}
	work := []*ssa.BasicBlock{fn.Blocks[0]}
	inWork := map[*ssa.BasicBlock]bool{fn.Blocks[0]: true}
	problems := map[string]bool{}
	visits := 0
	for len(work) > 0 && visits < 20000 {
		visits++
		b := work[0]
		work = work[1:]
		inWork[b] = false
		cur := st{must: in[b.Index].must.clone(), may: in[b.Index].may.clone(), defers: append([]Op(nil), in[b.Index].defers...)}
		for _, ins := range b.Instrs {
			fi.MustIn[ins] = cur.must.clone()
			fi.MayIn[ins] = cur.may.clone()
			if op, ok := opAt[ins]; ok {
				h := Held{op.Class, op.Mode}
				switch {
				case op.Defer:
					cur.defers = append(cur.defers, op)
				case op.Acquire:
					if cur.may.HasClass(op.Class) {
						problems[fmt.Sprintf("re-acquire %s:%s while %s may be held at %s", op.Class, op.Mode, cur.may, a.P.Pos(core.PosOf(ins)))] = true
					}
					cur.must[h] = true
					cur.may[h] = true
				default:
					if !cur.must[h] {
						problems[fmt.Sprintf("release %s:%s not certainly held (must=%s) at %s", op.Class, op.Mode, cur.must, a.P.Pos(core.PosOf(ins)))] = true
					}
					delete(cur.must, h)
					delete(cur.may, h)
				}
			}
			if _, ok := ins.(*ssa.RunDefers); ok {
				for i := len(cur.defers) - 1; i >= 0; i-- {
					op := cur.defers[i]
					h := Held{op.Class, op.Mode}
					if !op.Acquire {
						delete(cur.must, h)
						delete(cur.may, h)
					}
				}
			}
			if r, ok := ins.(*ssa.Return); ok {
				// locks held beyond what the caller held at entry
				extra := Set{}
				for h := range cur.may {
					if !entry[h] {
						extra[h] = true
					}
				}
				fi.ExitMay = append(fi.ExitMay, ExitState{Ret: r, Held: extra})
			}
		}
		for _, s := range b.Succs {
			o := &in[s.Index]
			if !o.init {
				*o = st{must: cur.must.clone(), may: cur.may.clone(), defers: append([]Op(nil), cur.defers...), init: true}
			} else {
				nm := intersect(o.must, cur.must)
				ny := union(o.may, cur.may)
				if equal(nm, o.must) && equal(ny, o.may) && len(o.defers) >= len(cur.defers) {
					continue
				}
				o.must, o.may = nm, ny
				if len(cur.defers) > len(o.defers) {
					o.defers = append([]Op(nil), cur.defers...)
				}
			}
			if !inWork[s] {
				inWork[s] = true
				work = append(work, s)
			}
		}
	}
	for p := range problems {
		fi.Problems = append(fi.Problems, p)
	}
	sort.Strings(fi.Problems)
}

// computeEdges builds the lock-order graph: (held -> acquired) for direct acquisitions and for
// calls to functions that acquire transitively.
func (a *Analysis) computeEdges() {
	add := func(from, to Held, where string) {
		k := [2]string{from.Class, to.Class}
		if len(a.Edges[k]) < 4 {
			a.Edges[k] = append(a.Edges[k], where)
		}
	}
	for _, fn := range a.Fns {
		fi := a.Info[fn]
		opAt := map[ssa.Instruction]Op{}
		for _, op := range fi.Ops {
			opAt[op.Instr] = op
		}
		core.EachInstr(fn, func(i ssa.Instruction) {
			may := fi.MayIn[i]
			if len(may) == 0 {
				return
			}
			if op, ok := opAt[i]; ok && op.Acquire && !op.Defer {
				for h := range may {
					add(h, Held{op.Class, op.Mode}, fmt.Sprintf("%s at %s", core.FuncName(fn), a.P.Pos(core.PosOf(i))))
				}
				return
			}
			site, ok := i.(ssa.CallInstruction)
			if !ok {
				return
			}
			if _, isGo := i.(*ssa.Go); isGo {
				return
			}
			for _, cal := range a.callees(site) {
				for acq := range a.Acquires[cal] {
					for h := range may {
						add(h, acq, fmt.Sprintf("%s calls %s at %s", core.FuncName(fn), core.FuncName(cal), a.P.Pos(core.PosOf(i))))
					}
				}
			}
		})
	}
}

// Cycles returns the elementary cycles (as class sequences) of the lock-order graph, self-loops included.
func (a *Analysis) Cycles() [][]string {
	adj := map[string][]string{}
	for k := range a.Edges {
		adj[k[0]] = append(adj[k[0]], k[1])
	}
	var out [][]string
	seenCycle := map[string]bool{}
	var nodes []string
	for n := range adj {
		nodes = append(nodes, n)
	}
	sort.Strings(nodes)
	for _, start := range nodes {
		var path []string
		onPath := map[string]bool{}
		var dfs func(n string)
		dfs = func(n string) {
			path = append(path, n)
			onPath[n] = true
			for _, m := range adj[n] {
				if m == start {
					cyc := append([]string(nil), path...)
					// canonical rotation
					min := 0
					for i := range cyc {
						if cyc[i] < cyc[min] {
							min = i
						}
					}
					rot := append(append([]string(nil), cyc[min:]...), cyc[:min]...)
					key := strings.Join(rot, "->")
					if !seenCycle[key] {
						seenCycle[key] = true
						out = append(out, rot)
					}
				} else if !onPath[m] && m > start {
					dfs(m)
				}
			}
			path = path[:len(path)-1]
			onPath[n] = false
		}
		dfs(start)
	}
	sort.Slice(out, func(i, j int) bool { return strings.Join(out[i], ">") < strings.Join(out[j], ">") })
	return out
}
