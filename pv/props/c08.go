package props

import (
	"fmt"
	"os"
	"sort"
	"strings"
	"time"

	"golang.org/x/tools/go/ssa"

	"pv/absint"
	"pv/core"
)

func init() { register("C08", "other", runC08) }

// handlerOpaque: module callees not inlined when interpreting handlers: host-table/session
// bookkeeping whose indices do not depend on packet bytes, and logging.
func handlerOpaque(fn *ssa.Function) bool {
	if opaqueFastlog(fn) {
		return true
	}
	switch core.FuncName(fn) {
	case "(*packet.Session).findOrCreateHostWithLock", "(*packet.Session).onlineTransition", "packet.echoNotify",
		"(*packet.Session).DHCPv4Update", "(*packet.Session).SetDHCPv4IPOffer", "(*packet.Session).DHCPv4IPOffer",
		"(*packet.Session).IsCaptured", "(*packet.Session).FindIP", "(*packet.Session).FindMACEntry", "(*packet.Session).FindByMAC",
		"(*packet.Session).GetHosts", "(*packet.Session).IPAddrs", "(*packet.Session).Capture", "(*packet.Session).Release",
		"packet.FindManufacturer":
		return true
	}
	return false
}

// modularSend: send-path and encoder functions that obtain their own buffer or guard the one
// they are given; they are verified for arbitrary arguments once instead of at every call site.
// joinAtCall: big per-message handlers; the states reaching their call are joined first.
func joinAtCall(fn *ssa.Function) bool {
	switch core.FuncName(fn) {
	case "(*dhcp4_spoofer.Handler).handleDiscover", "(*dhcp4_spoofer.Handler).handleRequest", "(*dhcp4_spoofer.Handler).handleDecline",
		"(*dhcp4_spoofer.Handler).handleRelease", "(*dhcp4_spoofer.Handler).processClientPacket", "(*dhcp4_spoofer.Handler).findOrCreate",
		"(*dhcp4_spoofer.Handler).allocIPOffer":
		return true
	}
	return false
}

func heavySend(fn *ssa.Function) bool {
	switch core.FuncName(fn) {
	case "dhcp4_spoofer.sendDHCP4Packet", "packet.EncodeDHCP4", "(packet.DHCP4).AppendOptions", "packet.EncodeIP4", "packet.EncodeUDP", "packet.EncodeEther", "(*dhcp4_spoofer.Handler).SendDiscoverPacket",
		"(*dhcp4_spoofer.Handler).sendDeclineReleasePacket", "(*dhcp4_spoofer.Handler).forceDecline", "(*dhcp4_spoofer.Handler).forceRelease",
		"(*dhcp4_spoofer.Handler).attackDHCPServer", "dhcp4_spoofer.nakPacket",
		"(*packet.Session).icmp6SendPacket", "(*packet.Session).icmp4SendPacket",
		"(*arp_spoofer.Handler).RequestRaw", "(*arp_spoofer.Handler).reply":
		return true
	}
	return false
}

type parseOutcome struct {
	frame absint.Value
	h     *absint.Heap
	pid   int64
	pidOK bool
}

// parseOutcomes runs Session.Parse on an arbitrary buffer and returns its nil-error outcomes.
// Findings inside Parse are discarded here (they are C01's); only the return states are used.
func parseOutcomes(c *Ctx, in *absint.Interp, sink *boundsSink) (absint.SliceV, []parseOutcome) {
	parse := c.A.Method("", "Session", "Parse")
	p := in.InputSlice("P", true)
	if parse == nil {
		return p, nil
	}
	old := sink.filter
	sink.filter = func(absint.Finding) bool { return false }
	saved := in.Cfg.MaxStates
	in.SetMaxStates(1024) // Parse's classified return states must stay apart
	outs := in.Exec(parse, []absint.Value{absint.PtrV{Nil: 2}, p}, nil, absint.NewHeap())
	in.SetMaxStates(saved)
	sink.filter = old
	// group the nil-error outcomes by (PayloadID, layer offsets): states that differ only in
	// host-table results and flags are joined (handlers do not index by those).
	groups := map[string][]absint.Outcome{}
	var order []string
	for _, o := range outs {
		if o.Panicked {
			continue
		}
		tv, ok := o.Ret.(absint.TupleV)
		if !ok || len(tv.F) != 2 || absint.Nilness(tv.F[1]) == 2 {
			continue
		}
		key := "?"
		if sv, ok := tv.F[0].(absint.StructV); ok && len(sv.F) > 6 {
			key = ""
			for _, i := range []int{1, 2, 3, 4, 5, 6} {
				if iv, ok := sv.F[i].(absint.IntV); ok {
					key += iv.L.String() + "|"
				} else {
					key += "?|"
				}
			}
		}
		if _, seen := groups[key]; !seen {
			order = append(order, key)
		}
		groups[key] = append(groups[key], o)
	}
	var res []parseOutcome
	for _, k := range order {
		o := in.JoinOutcomes(groups[k], parse.Signature.Results())
		tv, ok := o.Ret.(absint.TupleV)
		if !ok || len(tv.F) != 2 {
			continue
		}
		po := parseOutcome{frame: tv.F[0], h: o.H}
		if sv, ok := tv.F[0].(absint.StructV); ok && len(sv.F) > 6 {
			if iv, ok := sv.F[6].(absint.IntV); ok {
				po.pid, po.pidOK = iv.L.ConstVal()
			}
		}
		res = append(res, po)
		if os.Getenv("PV_DEBUG") == "2" {
			fmt.Printf("[debug] parse group pid=%d members=%d key=%s\n", po.pid, len(groups[k]), k)
			for _, f := range po.h.Facts() {
				fmt.Printf("          fact %s >= 0\n", f.String())
			}
		}
	}
	return p, res
}

func runC08(c *Ctx) {
	r := c.R
	r.Explanation = "Static panic-freedom and termination of the protocol handlers and payload decoders. The abstract interpreter of C01 is run on each handler entry point " +
		"with the Frame constrained only by the nil-error return states of Session.Parse for the dispatched PayloadID, and on each exported payload-level decoder with arbitrary bytes; " +
		"every index/slice/conversion/division/explicit-panic obligation in the inlined call trees is discharged or reported. Every loop in the module functions reachable from these " +
		"roots is classified terminating (range, counted, dividing, ranking function found by the interpreter, dnsmessage parser typestate) or reported; recursion is accepted only when guarded by a depth parameter. " +
		"Trusted as total: golang.org/x/net/dns/dnsmessage, net/http, bufio, encoding/xml, yaml, puny. Not decided: wall-clock bounds, resource exhaustion."
	r.Assume("the packet buffer is not mutated concurrently during a handler call",
		"external callees not in the modelled table do not panic and terminate (listed under interpreter_notes)",
		"session/handler state pointers are non-nil; host-table and logging callees are opaque here (their bodies are covered by C05/C09/C20)",
		"len < 2^62; go/ssa is faithful to the compiler")
	r.Rule("bounds", "every index/slice/array-conversion/binary.BigEndian access in handler and decoder call trees is within bounds", 400)
	// netip.Addr.As4 panics on anything but an IPv4 (or IPv4-mapped) address. Wherever the library converts an address that
	// came out of a packet or a file, the call is under an Is4 / Is4In6 test of that address. EncodeIP4 converts addresses
	// its caller chose: that is its precondition, listed here.
	r.Rule("as4", "As4 is called only on addresses tested with Is4 (decoders, handlers)", 1)
	{
		allowed := map[string]string{"packet.EncodeIP4": "the caller supplies the addresses of the header it asks for"}
		kga4 := core.NewKeyGen()
		for _, fn := range c.P.LibFunctions() {
			for _, site := range callsIn(fn, nameIs("As4")) {
				if core.CalleeName(site) != "(net/netip.Addr).As4" || len(site.Common().Args) != 1 {
					continue
				}
				ins := site.(ssa.Instruction)
				arg := norm(site.Common().Args[0])
				root := arg
				if k := strings.Index(root, "(net/netip.Prefix).Addr("); k >= 0 {
					root = strings.TrimSuffix(root[k+len("(net/netip.Prefix).Addr("):], ")")
				}
				ok := false
				basis := "dominated by Is4() of the converted address"
				if why, isAllowed := allowed[core.FuncName(fn)]; isAllowed {
					ok, basis = true, "listed: "+why
				}
				for _, g := range guardsOf(ins) {
					if g.Pol && (strings.HasPrefix(g.Text, "(net/netip.Addr).Is4(") || strings.HasPrefix(g.Text, "(net/netip.Addr).Is4In6(")) && (strings.Contains(g.Text, arg) || strings.Contains(g.Text, root)) {
						ok = true
					}
				}
				if cl, isCall := site.Common().Args[0].(*ssa.Call); isCall && cl.Common().StaticCallee() != nil && core.FuncName(cl.Common().StaticCallee()) == "net/netip.AddrFrom4" {
					ok = true
				}
				st := core.Proved
				if !ok {
					st = core.Violated
				}
				r.Add(core.Obligation{Rule: "as4", Key: strings.TrimSuffix(kga4.Key("as4 "+core.FuncName(fn)), "#0"), Func: core.FuncName(fn), Pos: c.P.Pos(core.PosOf(ins)), Status: st,
					Basis: basis, Detail: "As4() of " + arg + " is not under an Is4 test: an address of the other family (an IPv6 literal in a reverse-lookup owner name, a prefix from a damaged file) makes the call panic"})
			}
		}
	}
	r.Rule("panic", "no explicit panic reachable from a handler or decoder root", 0)
	r.Rule("div", "no division by a possibly-zero value", 0)
	r.Rule("typeassert", "no unchecked type assertion on a value of unestablished dynamic type", 0)
	r.Rule("roots", "handler and decoder roots analysed", 14)
	r.Rule("loops", "every loop reachable from the roots is classified terminating", 25)
	r.Rule("recursion", "every recursive cycle reachable from the roots is bounded by a depth parameter", 1)
	r.Rule("parser-typestate", "dnsmessage.Parser loops consume the resource whose header they read, in the section it belongs to", 2)

	sink := newBoundsSink(c)
	optionSized := 0
	sink.filter = func(f absint.Finding) bool {
		// Indices into the 1024-byte scratch buffer of AppendOptions and the End-marker store in
		// EncodeDHCP4 depend on the total size of a server-built option map, not on packet bytes;
		// the interval domain cannot bound a map's total size, so these are not claimed (DESIGN.md C08).
		if f.Site != nil && !f.OK {
			fn := core.FuncName(f.Site.Parent())
			if fn == "(packet.DHCP4).AppendOptions" || (fn == "packet.EncodeDHCP4" && f.Kind == "index") {
				optionSized++
				return false
			}
		}
		return true
	}
	defer func() { r.Extra["option_size_dependent_sites_not_claimed"] = optionSized }()
	cfg := absint.Config{DecodeLenCap: false, CapRule: false, Opaque: handlerOpaque, Budget: 3000000, MaxStates: 48, MaxOutcomes: 8, Heavy: heavySend, JoinAtCall: joinAtCall}
	in := absint.New(c.P, cfg, sink.sink)
	if os.Getenv("PV_DEBUG") != "" {
		in.StepsByFn = map[string]int{}
		go func() {
			time.Sleep(80 * time.Second)
			type kv struct {
				k string
				v int
			}
			var l []kv
			for k, v := range in.StepsByFn {
				l = append(l, kv{k, v})
			}
			sort.Slice(l, func(i, j int) bool { return l[i].v > l[j].v })
			for i := 0; i < 400 && i < len(l); i++ {
				fmt.Printf("[debug] steps %7d %s\n", l[i].v, l[i].k)
			}
		}()
	}
	_, pouts := parseOutcomes(c, in, sink)
	byPID := map[int64][]parseOutcome{}
	for _, po := range pouts {
		if po.pidOK {
			byPID[po.pid] = append(byPID[po.pid], po)
		}
	}
	r.Extra["parse_nil_error_states"] = len(pouts)

	var rootFns []*ssa.Function
	addRoot := func(fn *ssa.Function, desc string) bool {
		if fn == nil {
			return false
		}
		rootFns = append(rootFns, fn)
		r.Add(core.Obligation{Rule: "roots", Key: "roots " + desc, Func: core.FuncName(fn), Pos: c.P.Pos(fn.Pos()), Status: core.Proved, Basis: "root analysed"})
		return true
	}
	hptr := absint.PtrV{Nil: 2}

	// ---- frame-level handlers ----
	type frameRoot struct {
		rel, typ, name string
		pids           []int64
	}
	for _, fr := range []frameRoot{
		{"handlers/arp_spoofer", "Handler", "ProcessPacket", []int64{3}},
		{"handlers/dhcp4_spoofer", "Handler", "ProcessPacket", []int64{10}},
		{"handlers/icmp_spoofer", "Handler4", "ProcessPacket", []int64{6}},
		{"handlers/icmp_spoofer", "Handler6", "ProcessPacket", []int64{7}},
		{"handlers/dns_naming", "DNSHandler", "ProcessDNS", []int64{12}},
		{"handlers/dns_naming", "DNSHandler", "ProcessMDNS", []int64{13, 21}},
	} {
		fn := c.A.Method(fr.rel, fr.typ, fr.name)
		desc := fmt.Sprintf("(%s.%s).%s", fr.rel[strings.LastIndex(fr.rel, "/")+1:], fr.typ, fr.name)
		if !addRoot(fn, desc) {
			continue
		}
		n := 0
		t0 := time.Now()
		for _, pid := range fr.pids {
			for _, po := range byPID[pid] {
				n++
				sink.root = desc
				in.Exec(fn, []absint.Value{hptr, po.frame}, nil, po.h.Clone())
			}
		}
		if os.Getenv("PV_DEBUG") != "" {
			fmt.Printf("[debug] root %s: %d parse states, %.1fs\n", desc, n, time.Since(t0).Seconds())
		}
		if n == 0 {
			r.Fatal("no Parse return state dispatches to %s (PayloadID %v)", desc, fr.pids)
		}
	}
	// Process8023Frame(frame, pos)
	if fn := c.A.Func("", "Process8023Frame"); addRoot(fn, "packet.Process8023Frame") {
		n := 0
		for _, po := range byPID[2] {
			n++
			sink.root = "packet.Process8023Frame"
			in.Exec(fn, []absint.Value{po.frame, nil}, nil, po.h.Clone())
		}
		if n == 0 {
			r.Fatal("no Parse return state with Payload8023")
		}
	}
	// ProcessNBNS / ProcessSSDP (host, ether, payload): the caller passes frame.Ether() and frame.Payload()
	frameEther := c.A.Method("", "Frame", "Ether")
	framePayload := c.A.Method("", "Frame", "Payload")
	for _, hr := range []struct {
		name string
		pid  int64
	}{{"ProcessNBNS", 18}, {"ProcessSSDP", 16}} {
		fn := c.A.Method("handlers/dns_naming", "DNSHandler", hr.name)
		desc := "(dns_naming.DNSHandler)." + hr.name
		if !addRoot(fn, desc) || frameEther == nil || framePayload == nil {
			continue
		}
		n := 0
		for _, po := range byPID[hr.pid] {
			sink.root = desc
			h := po.h.Clone()
			eo := in.Exec(frameEther, []absint.Value{po.frame}, nil, h)
			for _, e := range eo {
				for _, pl := range in.Exec(framePayload, []absint.Value{po.frame}, nil, e.H.Clone()) {
					n++
					in.Exec(fn, []absint.Value{hptr, absint.PtrV{Nil: 2}, e.Ret, pl.Ret}, nil, pl.H.Clone())
				}
			}
		}
		if n == 0 {
			r.Fatal("no Parse return state dispatches to %s", desc)
		}
	}

	// ---- byte-level decoders with arbitrary input ----
	arb := func(name string) absint.SliceV { return in.InputSlice(name, true) }
	if fn := c.A.Func("", "DecodeQuestion"); addRoot(fn, "packet.DecodeQuestion") {
		sink.root = "packet.DecodeQuestion"
		in.Exec(fn, []absint.Value{arb("P"), nil, arb("B")}, nil, absint.NewHeap())
	}
	if fn := c.A.Method("", "DNSEntry", "DecodeAnswers"); addRoot(fn, "(*packet.DNSEntry).DecodeAnswers") {
		sink.root = "(*packet.DNSEntry).DecodeAnswers"
		in.Exec(fn, []absint.Value{hptr, arb("P"), nil, arb("B")}, nil, absint.NewHeap())
	}
	// view-type decoders with parameters or loops, under their IsValid facts
	for _, vr := range []struct{ typ, method string }{
		{"LLDP", "GetPDU"}, {"LLDP", "FastLog"}, {"LLDP", "ChassisID"}, {"LLDP", "PortID"},
		{"HopByHopExtensionHeader", "ParseHopByHopExtensions"},
		{"ICMP6RouterAdvertisement", "Options"}, {"ICMP6RouterSolicitation", "Options"},
		{"DHCP4", "ParseOptions"}, {"ICMP4Redirect", "Addrs"},
	} {
		isValid := c.A.Method("", vr.typ, "IsValid")
		fn := c.A.Method("", vr.typ, vr.method)
		desc := "(" + vr.typ + ")." + vr.method + " after IsValid"
		if isValid == nil || !addRoot(fn, desc) {
			continue
		}
		recv := arb("P")
		old := sink.filter
		sink.filter = func(absint.Finding) bool { return false }
		outs := in.Exec(isValid, []absint.Value{recv}, nil, absint.NewHeap())
		sink.filter = old
		succ, _ := successOutcomes(outs)
		for _, o := range succ {
			sink.root = desc
			args := []absint.Value{recv}
			for i := 1; i < len(fn.Params); i++ {
				args = append(args, nil)
			}
			in.Exec(fn, args, nil, o.H.Clone())
		}
	}
	// the hop-by-hop decoder is named by the property among the decoders that are handed byte strings directly: no IsValid
	if fn := c.A.Method("", "HopByHopExtensionHeader", "ParseHopByHopExtensions"); fn != nil {
		sink.root = "(HopByHopExtensionHeader).ParseHopByHopExtensions arbitrary"
		in.Exec(fn, []absint.Value{arb("P")}, nil, absint.NewHeap())
	}
	// DHCP4.ParseOptions on arbitrary bytes (no IsValid): it is exported and used on reply buffers
	if fn := c.A.Method("", "DHCP4", "ParseOptions"); fn != nil {
		sink.root = "(DHCP4).ParseOptions arbitrary"
		in.Exec(fn, []absint.Value{arb("P")}, nil, absint.NewHeap())
	}
	// ---- modular callees: each verified once for arbitrary arguments ----
	done := map[*ssa.Function]bool{}
	for {
		var next []*ssa.Function
		for fn := range in.ModularSeen {
			if !done[fn] {
				next = append(next, fn)
			}
		}
		if len(next) == 0 {
			break
		}
		sort.Slice(next, func(i, j int) bool { return next[i].String() < next[j].String() })
		for _, fn := range next {
			done[fn] = true
			desc := "modular " + core.FuncName(fn)
			if !addRoot(fn, desc) {
				continue
			}
			sink.root = desc
			t0 := time.Now()
			in.Exec(fn, nil, nil, absint.NewHeap())
			if os.Getenv("PV_DEBUG") != "" {
				fmt.Printf("[debug] root %s: %.1fs\n", desc, time.Since(t0).Seconds())
			}
		}
	}
	r.Extra["modular_functions"] = len(done)
	noteExternals(c, in)

	// ---- loops, recursion, parser typestate over everything reachable from the roots ----
	loopFactsFrom = []*absint.Interp{in}
	reach := reachableRefined(c.P, rootFns)
	var fns []*ssa.Function
	for fn := range reach {
		if core.InLib(fn) && fn.Blocks != nil && !opaqueFastlog(fn) {
			fns = append(fns, fn)
		}
	}
	sort.Slice(fns, func(i, j int) bool { return fns[i].String() < fns[j].String() })
	r.Extra["functions_reachable_from_roots"] = len(fns)
	parserLoops := parserTypestate(c, fns)
	for _, fn := range fns {
		for _, l := range core.CFG(fn).Loops() {
			key := fmt.Sprintf("loops %s %s", core.FuncName(fn), loopDesc(l))
			if ok, seen := parserLoops[l.Head]; seen {
				st := core.Proved
				if !ok {
					st = core.Violated
				}
				r.Add(core.Obligation{Rule: "loops", Key: key, Func: core.FuncName(fn), Pos: c.P.Pos(core.PosOf(l.Head.Instrs[0])), Status: st,
					Basis: "dnsmessage parser loop: every iteration consumes a resource (parser-typestate rule)", Detail: "dnsmessage parser loop with a non-consuming iteration (see parser-typestate findings)"})
				continue
			}
			cls, why := classifyLoop(c.P, fn, l)
			st := core.Proved
			if cls == "" {
				st = core.Violated
			}
			r.Add(core.Obligation{Rule: "loops", Key: key, Func: core.FuncName(fn), Pos: c.P.Pos(core.PosOf(l.Head.Instrs[0])), Status: st,
				Basis: cls + ": " + why, Detail: "loop not classified terminating: " + why, Hint: "an input that keeps the loop's induction value unchanged makes the packet loop spin forever"})
		}
	}
	checkRecursion(c, fns)
}

// checkRecursion: every call-graph cycle among fns must pass through a call whose argument is
// param+const (const>0) for a parameter that is compared with a constant bound at function entry.
func checkRecursion(c *Ctx, fns []*ssa.Function) {
	inSet := map[*ssa.Function]bool{}
	for _, f := range fns {
		inSet[f] = true
	}
	for _, fn := range fns {
		core.EachInstr(fn, func(i ssa.Instruction) {
			site, ok := i.(ssa.CallInstruction)
			if !ok {
				return
			}
			callee := site.Common().StaticCallee()
			if callee != fn {
				return // only direct self-recursion occurs in this code base; mutual recursion is reported below
			}
			// find an argument of the form param + k
			ok2 := false
			why := "recursive call passes no parameter increased by a positive constant"
			for ai, a := range site.Common().Args {
				if ai >= len(fn.Params) {
					break
				}
				if k, isAdd := addParam(a, fn.Params[ai]); isAdd && k > 0 {
					// the parameter must be tested against a constant upper bound at entry
					if entryBound(fn, fn.Params[ai]) {
						ok2 = true
						why = fmt.Sprintf("parameter %d grows by %d on each recursive call and is compared with a constant bound before any recursion", ai, k)
					} else {
						why = "depth parameter is not compared with a constant bound at function entry"
					}
				}
			}
			st := core.Proved
			if !ok2 {
				st = core.Violated
			}
			c.R.Add(core.Obligation{Rule: "recursion", Key: "recursion " + core.FuncName(fn) + " self-call", Func: core.FuncName(fn), Pos: c.P.Pos(core.PosOf(i)), Status: st, Basis: why, Detail: why})
		})
	}
	// mutual recursion: SCCs of size > 1 among fns
	idx := map[*ssa.Function]int{}
	low := map[*ssa.Function]int{}
	on := map[*ssa.Function]bool{}
	var stack []*ssa.Function
	n := 0
	var strong func(f *ssa.Function)
	strong = func(f *ssa.Function) {
		n++
		idx[f], low[f] = n, n
		stack = append(stack, f)
		on[f] = true
		core.EachInstr(f, func(i ssa.Instruction) {
			if site, ok := i.(ssa.CallInstruction); ok {
				if cal := site.Common().StaticCallee(); cal != nil && inSet[cal] && cal != f {
					if idx[cal] == 0 {
						strong(cal)
						if low[cal] < low[f] {
							low[f] = low[cal]
						}
					} else if on[cal] && idx[cal] < low[f] {
						low[f] = idx[cal]
					}
				}
			}
		})
		if low[f] == idx[f] {
			var comp []*ssa.Function
			for {
				w := stack[len(stack)-1]
				stack = stack[:len(stack)-1]
				on[w] = false
				comp = append(comp, w)
				if w == f {
					break
				}
			}
			if len(comp) > 1 {
				var names []string
				for _, w := range comp {
					names = append(names, core.FuncName(w))
				}
				sort.Strings(names)
				c.R.Add(core.Obligation{Rule: "recursion", Key: "recursion cycle " + strings.Join(names, ","), Func: names[0], Status: core.Violated,
					Detail: "mutually recursive functions reachable from a handler root; no depth bound recognised"})
			}
		}
	}
	for _, f := range fns {
		if idx[f] == 0 {
			strong(f)
		}
	}
}

func addParam(v ssa.Value, p *ssa.Parameter) (int64, bool) {
	bo, ok := v.(*ssa.BinOp)
	if !ok || bo.Op.String() != "+" {
		return 0, false
	}
	if bo.X == ssa.Value(p) {
		if c, ok := bo.Y.(*ssa.Const); ok && c.Value != nil {
			return c.Int64(), true
		}
	}
	return 0, false
}

// entryBound: the entry block (or its chain of single-successor dominators) branches on param > const.
func entryBound(fn *ssa.Function, p *ssa.Parameter) bool {
	b := fn.Blocks[0]
	iff, ok := b.Instrs[len(b.Instrs)-1].(*ssa.If)
	if !ok {
		return false
	}
	cmp, ok := iff.Cond.(*ssa.BinOp)
	if !ok || cmp.X != ssa.Value(p) {
		return false
	}
	if _, ok := cmp.Y.(*ssa.Const); !ok {
		return false
	}
	switch cmp.Op.String() {
	case ">", ">=":
		// the true branch must not reach a recursive call: it returns
		ret := true
		for _, ins := range b.Succs[0].Instrs {
			if call, ok := ins.(ssa.CallInstruction); ok && call.Common().StaticCallee() == fn {
				ret = false
			}
		}
		_, isRet := b.Succs[0].Instrs[len(b.Succs[0].Instrs)-1].(*ssa.Return)
		return ret && isRet
	}
	return false
}
