package props

import (
	"golang.org/x/tools/go/ssa"

	"pv/core"
)

// dataSlice is the backward data slice of v inside fn: operands of the defining instructions, and for a load from a local
// allocation every store into that allocation whose field path overlaps the one loaded (through element and field addresses and slices of it) together with the
// index operands of those addresses. Control dependence is not followed. Call results are followed into their arguments.
func dataSlice(fn *ssa.Function, v ssa.Value) map[ssa.Value]bool {
	return dataSliceStop(fn, v, nil)
}

// dataSliceStop is dataSlice that does not look behind stop: what remains reachable depends on v's inputs by a route that
// bypasses stop.
func dataSliceStop(fn *ssa.Function, v ssa.Value, stop ssa.Value) map[ssa.Value]bool {
	seen := map[ssa.Value]bool{}
	// stores per root allocation
	rootOf := func(a ssa.Value) (ssa.Value, []ssa.Value, []int) {
		var idx []ssa.Value
		var path []int // field indices from the access up to the root (innermost first); -1 for an element
		for {
			switch x := a.(type) {
			case *ssa.IndexAddr:
				idx = append(idx, x.Index)
				path = append(path, -1)
				a = x.X
			case *ssa.FieldAddr:
				path = append(path, x.Field)
				a = x.X
			case *ssa.Slice:
				if x.Low != nil {
					idx = append(idx, x.Low)
				}
				if x.High != nil {
					idx = append(idx, x.High)
				}
				a = x.X
			default:
				for i, j := 0, len(path)-1; i < j; i, j = i+1, j-1 {
					path[i], path[j] = path[j], path[i]
				}
				return a, idx, path
			}
		}
	}
	type st struct {
		val  ssa.Value
		idx  []ssa.Value
		path []int
	}
	// two access paths from one root may overlap when one is a prefix of the other
	overlap := func(a, b []int) bool {
		for i := 0; i < len(a) && i < len(b); i++ {
			if a[i] != b[i] {
				return false
			}
		}
		return true
	}
	stores := map[ssa.Value][]st{}
	core.EachInstr(fn, func(i ssa.Instruction) {
		if s, ok := i.(*ssa.Store); ok {
			root, idx, path := rootOf(s.Addr)
			if _, isAl := root.(*ssa.Alloc); isAl {
				stores[root] = append(stores[root], st{s.Val, idx, path})
			}
		}
	})
	var walk func(v ssa.Value)
	walk = func(v ssa.Value) {
		if v == nil || seen[v] {
			return
		}
		seen[v] = true
		if stop != nil && v == stop {
			return
		}
		if u, ok := v.(*ssa.UnOp); ok && u.Op.String() == "*" {
			root, idx, path := rootOf(u.X)
			for _, i := range idx {
				walk(i)
			}
			if _, isAl := root.(*ssa.Alloc); isAl {
				for _, s := range stores[root] {
					if !overlap(path, s.path) {
						continue
					}
					walk(s.val)
					for _, i := range s.idx {
						walk(i)
					}
				}
				return
			}
		}
		// the address of (a part of) a local allocation handed on as a value (a variadic argument list, a slice of a local
		// array): whatever was stored there is part of the value
		switch v.(type) {
		case *ssa.Slice, *ssa.Alloc:
			root, idx, path := rootOf(v)
			if _, isAl := root.(*ssa.Alloc); isAl {
				for _, i := range idx {
					walk(i)
				}
				for _, st := range stores[root] {
					if overlap(path, st.path) {
						walk(st.val)
					}
				}
			}
		}
		if ins, ok := v.(ssa.Instruction); ok {
			for _, op := range ins.Operands(nil) {
				if *op != nil {
					walk(*op)
				}
			}
		}
	}
	walk(v)
	return seen
}
