package props

import (
	"fmt"
	"go/token"
	"go/types"
	"regexp"
	"sort"
	"strings"

	"golang.org/x/tools/go/ssa"

	"pv/absint"
	"pv/core"
)

func init() { register("C18", "other", runC18) }

// nilSources computes, for the functions of one package, which pointer values may be nil because of
// externally decoded data: pointer fields of a struct handed to yaml.Unmarshal, nil constants merged
// through φs, loads of fields that were assigned such values, and results of module functions that
// can return nil together with a nil error.
type nilProv struct {
	p        *core.Program
	fns      []*ssa.Function
	decoded  map[*ssa.Alloc]bool      // locals passed to yaml.Unmarshal
	fieldNil map[string]bool          // "Type.field" assigned a maybe-nil value somewhere
	retNil   map[*ssa.Function][]bool // result i may be nil while the error result is nil
	memo     map[ssa.Value]int        // 0 unknown, 1 in progress, 2 no, 3 yes
}

func (n *nilProv) mayNil(v ssa.Value) bool {
	switch n.memo[v] {
	case 1, 2:
		return false
	case 3:
		return true
	}
	n.memo[v] = 1
	r := n.mayNil1(v)
	if r {
		n.memo[v] = 3
	} else {
		n.memo[v] = 2
	}
	return r
}

func isPtrType(t types.Type) bool {
	_, ok := t.Underlying().(*types.Pointer)
	return ok
}

func (n *nilProv) mayNil1(v ssa.Value) bool {
	if !isPtrType(v.Type()) {
		return false
	}
	switch t := v.(type) {
	case *ssa.Const:
		return t.Value == nil
	case *ssa.Phi:
		for _, e := range t.Edges {
			if n.mayNil(e) {
				return true
			}
		}
	case *ssa.UnOp:
		if t.Op != token.MUL {
			return false
		}
		if fa, ok := t.X.(*ssa.FieldAddr); ok {
			if al, ok := fa.X.(*ssa.Alloc); ok && n.decoded[al] {
				return true
			}
			if k := fieldOwner(fa); k != "" && n.fieldNil[k] {
				return true
			}
		}
	case *ssa.Extract:
		if call, ok := t.Tuple.(*ssa.Call); ok {
			if callee := call.Call.StaticCallee(); callee != nil {
				if rn := n.retNil[callee]; t.Index < len(rn) && rn[t.Index] {
					return true
				}
			}
		}
	case *ssa.Call:
		if callee := t.Call.StaticCallee(); callee != nil {
			if rn := n.retNil[callee]; len(rn) == 1 && rn[0] {
				return true
			}
		}
	}
	return false
}

func newNilProv(p *core.Program, fns []*ssa.Function) *nilProv {
	n := &nilProv{p: p, fns: fns, decoded: map[*ssa.Alloc]bool{}, fieldNil: map[string]bool{}, retNil: map[*ssa.Function][]bool{}, memo: map[ssa.Value]int{}}
	for _, fn := range fns {
		core.EachInstr(fn, func(i ssa.Instruction) {
			if call, ok := i.(*ssa.Call); ok && strings.HasSuffix(core.CalleeName(call), "yaml.v2.Unmarshal") {
				for _, a := range call.Call.Args {
					if mi, ok := a.(*ssa.MakeInterface); ok {
						if al, ok := mi.X.(*ssa.Alloc); ok {
							n.decoded[al] = true
						}
					}
				}
			}
		})
	}
	// fixpoint over field assignments and return summaries
	for iter := 0; iter < 6; iter++ {
		changed := false
		n.memo = map[ssa.Value]int{}
		for _, fn := range fns {
			core.EachInstr(fn, func(i ssa.Instruction) {
				switch t := i.(type) {
				case *ssa.Store:
					if fa, ok := t.Addr.(*ssa.FieldAddr); ok && isPtrType(t.Val.Type()) {
						if k := fieldOwner(fa); k != "" && !n.fieldNil[k] && n.mayNil(t.Val) {
							n.fieldNil[k] = true
							changed = true
						}
					}
				case *ssa.Return:
					res := fn.Signature.Results()
					if res.Len() == 0 {
						return
					}
					errIdx := -1
					if types.Identical(res.At(res.Len()-1).Type(), types.Universe.Lookup("error").Type()) {
						errIdx = res.Len() - 1
					}
					if errIdx >= 0 {
						if k, ok := t.Results[errIdx].(*ssa.Const); !ok || k.Value != nil {
							// a non-constant error may be nil too, unless it is visibly a fresh error
							if c, isCall := t.Results[errIdx].(*ssa.Call); isCall {
								if nm := core.CalleeName(c); nm == "fmt.Errorf" || nm == "errors.New" {
									return
								}
							}
							if gs := guardsOf(t); hasGuard(gs, `^!\(.*==nil\)$`) {
								// returned under "err != nil"
								if hasGuard(gs, `^!\(`+regexpQuote(norm(t.Results[errIdx]))+`==nil\)$`) {
									return
								}
							}
						}
					}
					if n.retNil[fn] == nil {
						n.retNil[fn] = make([]bool, res.Len())
					}
					for k, rv := range t.Results {
						if k != errIdx && !n.retNil[fn][k] && n.mayNil(rv) {
							n.retNil[fn][k] = true
							changed = true
						}
					}
				}
			})
		}
		if !changed {
			break
		}
	}
	n.memo = map[ssa.Value]int{}
	return n
}

func regexpQuote(s string) string {
	r := strings.NewReplacer(`\`, `\\`, `(`, `\(`, `)`, `\)`, `[`, `\[`, `]`, `\]`, `.`, `\.`, `*`, `\*`, `+`, `\+`, `?`, `\?`, `|`, `\|`, `{`, `\{`, `}`, `\}`, `^`, `\^`, `$`, `\$`)
	return r.Replace(s)
}

func runC18(c *Ctx) {
	r := c.R
	r.Explanation = "Crash-freedom of lease loading, decided on the code of handlers/dhcp4_spoofer. (nil-deref) Every pointer that may be nil because of the decoded file — the pointer fields of the struct handed to yaml.Unmarshal, nil merged through φs, " +
		"fields assigned such values, results of functions that can return nil with a nil error — is an obligation at each place it is dereferenced; the obligation is discharged when the path-sensitive interpreter (nil tests refine the pointer) proves it non-nil there in every state, starting from Config.New and from loadByteArray with arbitrary file contents. " +
		"(insert-guards) the insertion of a loaded lease into the table is dominated by State == Allocated, a valid address inside the home subnet and a non-empty client id. (reset) Config.New keeps the loaded tables only on the branch where err == nil, both subnets and the table are non-nil and the configuration is unchanged. " +
		"(persist) handleRequest passes saveConfig on the path that acknowledges; saveConfig writes only allocated leases. Trusted: yaml.Unmarshal itself does not panic. (complete-file) writer and reader use one structure whose last field is a lease count, set by saveConfig after the list is complete and compared by loadByteArray before any table is returned, so a file cut short anywhere is refused whole. (checksum) the writer appends a checksum computed over the bytes it marshalled, the loader verifies it over exactly the bytes it hands to yaml.Unmarshal and returns a table only when it matched, so a file damaged in any way the checksum detects is refused whole."
	r.Rule("nil-deref", "dereferences of pointers whose nil-ness depends on the lease file are proved non-nil", 4)
	r.Rule("insert-guards", "a loaded lease enters the table only when allocated, inside the home subnet and with a client id; net2 only for captured MACs", 6)
	r.Rule("reset", "New falls back to fresh tables unless the loaded state is complete and matches the configuration", 1)
	r.Rule("persist", "acknowledged leases are saved under a non-empty key; only allocated leases are written; the file is replaced whole and read whole; a freed binding leaves the file", 7)

	const rel = "handlers/dhcp4_spoofer"
	pk := c.P.Pkg(rel)
	if pk == nil {
		r.Fatal("package %s not loaded", rel)
		return
	}
	var fns []*ssa.Function
	for _, fn := range c.P.LibFunctions() {
		if fn.Pkg == pk {
			fns = append(fns, fn)
		}
	}
	np := newNilProv(c.P, fns)

	// obligations: dereference sites of maybe-nil pointers in the load path
	loadPath := map[string]bool{"loadByteArray": true, "loadConfig": true, "New": true, "saveConfig": true, "configChanged": true}
	type site struct {
		ins ssa.Instruction
		ptr ssa.Value
	}
	var sites []site
	for _, fn := range fns {
		if !loadPath[fn.Name()] {
			continue
		}
		core.EachInstr(fn, func(i ssa.Instruction) {
			switch t := i.(type) {
			case *ssa.FieldAddr:
				if np.mayNil(t.X) {
					sites = append(sites, site{i, t.X})
				}
			case *ssa.UnOp:
				if t.Op == token.MUL && np.mayNil(t.X) {
					sites = append(sites, site{i, t.X})
				}
			}
		})
	}
	// interpreter runs with the nil rule: collect the verdict per site
	proved := map[ssa.Instruction]bool{}
	failed := map[ssa.Instruction]string{}
	sink := func(f absint.Finding) {
		if f.Kind != "nil" {
			return
		}
		ins, ok := f.Site.(ssa.Instruction)
		if !ok {
			return
		}
		if f.OK {
			proved[ins] = true
		} else {
			failed[ins] = f.Detail
		}
	}
	in := absint.New(c.P, absint.Config{NilRule: true, MaxStates: 128, MaxOutcomes: 32, Opaque: func(f *ssa.Function) bool {
		return f.Pkg != pk
	}}, sink)
	if fn := c.P.Method(rel, "Handler", "loadByteArray"); fn != nil {
		in.Exec(fn, []absint.Value{absint.PtrV{Nil: 2}, in.InputSlice("file", false)}, nil, absint.NewHeap())
	}
	if fn := c.P.Method(rel, "Config", "New"); fn != nil {
		args := make([]absint.Value, len(fn.Params))
		args[len(args)-1] = absint.PtrV{Nil: 2}
		in.Exec(fn, args, nil, absint.NewHeap())
	}
	kg := core.NewKeyGen()
	sort.Slice(sites, func(i, j int) bool { return core.PosOf(sites[i].ins) < core.PosOf(sites[j].ins) })
	for _, s := range sites {
		fn := s.ins.Parent()
		key := strings.TrimSuffix(kg.Key(fmt.Sprintf("nil-deref %s %s", core.FuncName(fn), norm(s.ptr))), "#0")
		st := core.Proved
		det := ""
		switch {
		case failed[s.ins] != "":
			st = core.Violated
			det = fmt.Sprintf("%s is dereferenced here but can be nil when the lease file lacks the corresponding entry: %s", norm(s.ptr), failed[s.ins])
		case !proved[s.ins]:
			// not reached by the interpreter: fall back to a dominating nil test on the same expression
			gs := guardsOf(s.ins)
			if !hasGuard(gs, `^!\(`+regexpQuote(norm(s.ptr))+`==nil\)$`) {
				st = core.Violated
				det = norm(s.ptr) + " may be nil (lease file content) and no nil test dominates this dereference; the interpreter did not reach the site"
			}
		}
		r.Add(core.Obligation{Rule: "nil-deref", Key: key, Func: core.FuncName(fn), Pos: c.P.Pos(core.PosOf(s.ins)), Status: st,
			Basis: "maybe-nil pointer proved non-nil at the dereference on every path", Detail: det, Hint: "reject the file (return an error) when net1/net2 are missing before using them"})
	}
	r.Extra["maybe_nil_fields"] = sortedKeys(np.fieldNil)

	// ---- insert-guards ----
	if fn := c.P.Method(rel, "Handler", "loadByteArray"); fn != nil {
		found := false
		core.EachInstr(fn, func(i ssa.Instruction) {
			mu, ok := i.(*ssa.MapUpdate)
			if !ok {
				return
			}
			found = true
			requireGuards(c, "insert-guards", "loadByteArray table insert", i, []guardReq{
				{"State == StateAllocated", `^\(local\(\w+\)\.State==2\)$`},
				{"address valid and inside the home subnet", `^\(net/netip\.Prefix\)\.Contains\(.*SubnetConfig\.LAN,local\(\w+\)\.Addr\.IP\)$`},
				{"non-empty client id", `^!\(len\(local\(\w+\)\.ClientID\)==0\)$`},
			})
			_ = mu
		})
		if !found {
			r.Add(core.Obligation{Rule: "insert-guards", Key: "insert-guards loadByteArray", Status: core.Violated, Detail: "no table insertion found in loadByteArray"})
		}
		// a restored lease is attached to the netfilter subnet only for a captured MAC: the request path
		// (findOrCreate) selects net2 iff IsCaptured(mac) and replaces a lease whose subnet differs, so any other
		// choice here makes the first renewal after a restart lose the binding
		core.EachInstr(fn, func(i ssa.Instruction) {
			st, ok := i.(*ssa.Store)
			if !ok || !leaseLocalField(norm(st.Addr), "subnet") {
				return
			}
			// which subnet? the value is a φ of the two loaded subnets; the default assignment (net1) is the first store
			gs := guardsOf(i)
			if !hasGuard(gs, `Contains\(`) && !hasGuard(gs, `IsCaptured\(`) {
				return // the unconditional default (home subnet)
			}
			requireGuards(c, "insert-guards", "loadByteArray subnet = net2", i, []guardReq{
				{"the MAC is captured", `^\(packet\.Session\)\.IsCaptured\(recv\.session,local\(\w+\)\.Addr\.MAC\)$`},
				{"the address is inside net2", `^\(net/netip\.Prefix\)\.Contains\(.*SubnetConfig\.LAN,local\(\w+\)\.Addr\.IP\)$`},
			})
			// ... inside *that* subnet: the prefix tested is the LAN of the very subnet value being attached (both loaded
			// subnets print alike, so the test is on SSA identity)
			same := false
			for _, g := range gs {
				call, ok := g.Cond.(*ssa.Call)
				if !ok || !g.Pol || !strings.HasSuffix(core.CalleeName(call), "Prefix).Contains") || len(call.Call.Args) != 2 {
					continue
				}
				if subnetOfPrefix(call.Call.Args[0]) == st.Val {
					same = true
				}
			}
			sst := core.Proved
			if !same {
				sst = core.Violated
			}
			r.Add(core.Obligation{Rule: "insert-guards", Key: "insert-guards loadByteArray subnet = net2 requires the address inside the subnet being attached", Func: core.FuncName(fn), Pos: c.P.Pos(core.PosOf(i)), Status: sst,
				Basis: "a dominating Contains test on the LAN of the same subnet value", Detail: "the lease is attached to a subnet whose prefix was not tested against the lease's address (the Contains test that dominates the store is on another subnet): a captured client's home-LAN lease is served with the netfilter subnet's mask and router"})
		})
	}

	// ---- reset ----
	if fn := c.P.Method(rel, "Config", "New"); fn != nil {
		// the store of a fresh table (make(map)) must be reached whenever any of the tests fails: the block doing it is
		// the common target of the true edges of: err != nil, net1 == nil, net2 == nil, table == nil, configChanged x2
		var entry *ssa.BasicBlock
		core.EachInstr(fn, func(i ssa.Instruction) {
			if iff, ok := i.(*ssa.If); ok && strings.Contains(norm(iff.Cond), "configChanged(") {
				entry = i.Block().Succs[0]
			}
		})
		st := core.Violated
		det := "the branch that resets the tables was not found"
		if entry != nil {
			var conds []string
			allTrue := true
			for _, p := range entry.Preds {
				iff, ok := p.Instrs[len(p.Instrs)-1].(*ssa.If)
				if !ok || p.Succs[0] != entry {
					allTrue = false
					continue
				}
				conds = append(conds, norm(iff.Cond))
			}
			sort.Strings(conds)
			joined := strings.Join(conds, " || ")
			need := []string{"#3!=nil)", ".net1==nil", ".net2==nil", ".table==nil", "configChanged("}
			missing := []string{}
			for _, nd := range need {
				if !strings.Contains(joined, nd) {
					missing = append(missing, nd)
				}
			}
			if strings.Count(joined, "configChanged(") < 2 {
				missing = append(missing, "second configChanged")
			}
			// the branch really installs fresh state: a fresh map and two newSubnet results are stored in blocks it dominates
			fresh := 0
			core.EachInstr(fn, func(i ssa.Instruction) {
				if stv, ok := i.(*ssa.Store); ok && entry.Dominates(i.Block()) {
					if _, isMap := stv.Val.(*ssa.MakeMap); isMap && strings.HasSuffix(norm(stv.Addr), ".table") {
						fresh++
					}
					if strings.Contains(norm(stv.Val), "newSubnet(") && (strings.HasSuffix(norm(stv.Addr), ".net1") || strings.HasSuffix(norm(stv.Addr), ".net2")) {
						fresh++
					}
				}
			})
			switch {
			case !allTrue:
				det = "the reset branch is also entered on a false edge"
			case len(missing) > 0:
				det = "the reset branch is not taken for: " + strings.Join(missing, ", ") + " | tests: " + joined
			case fresh != 3:
				det = fmt.Sprintf("the reset branch installs %d of the 3 fresh objects (table, net1, net2)", fresh)
			default:
				st, det = core.Proved, ""
			}
		}
		r.Add(core.Obligation{Rule: "reset", Key: "reset Config.New", Func: core.FuncName(fn), Pos: c.P.Pos(fn.Pos()), Status: st,
			Basis: "fresh tables when err != nil or net1/net2/table == nil or the configuration changed", Detail: det})
	}

	// ---- persist ----
	if fn := c.P.Method(rel, "Handler", "saveConfig"); fn != nil {
		ok := false
		core.EachInstr(fn, func(i ssa.Instruction) {
			if call, isApp := isBuiltinCall(i, "append"); isApp && strings.Contains(norm(call.Call.Args[0]), "Leases") {
				if hasGuard(guardsOf(i), `State==2\)$`) {
					ok = true
				}
			}
		})
		st := core.Proved
		if !ok {
			st = core.Violated
		}
		r.Add(core.Obligation{Rule: "persist", Key: "persist saveConfig writes allocated leases only", Func: core.FuncName(fn), Pos: c.P.Pos(fn.Pos()), Status: st,
			Basis: "append to Leases under State == StateAllocated", Detail: "a lease is appended to the saved list without the State == StateAllocated test"})
	}
	if fn := c.P.Method(rel, "Handler", "saveConfig"); fn != nil {
		// the file is rewritten whole: WriteFile, or OpenFile with O_TRUNC among its constant flags
		okW, how := false, "no write of the lease file found"
		for _, s := range callsIn(fn, func(string, ssa.CallInstruction) bool { return true }) {
			switch core.CalleeName(s) {
			case "io/ioutil.WriteFile", "os.WriteFile":
				okW, how = true, core.CalleeName(s)
			case "os.OpenFile", "os.Create":
				how = core.CalleeName(s)
				if core.CalleeName(s) == "os.Create" {
					okW = true
				} else if k, ok := s.Common().Args[1].(*ssa.Const); ok && k.Int64()&0x200 != 0 { // O_TRUNC on linux
					okW = true
				} else {
					how += " without O_TRUNC"
				}
			}
		}
		st := core.Proved
		if !okW {
			st = core.Violated
		}
		r.Add(core.Obligation{Rule: "persist", Key: "persist saveConfig replaces the whole file", Func: core.FuncName(fn), Pos: c.P.Pos(fn.Pos()), Status: st,
			Basis: "written with " + how, Detail: "the lease file is not truncated when rewritten (" + how + "): when the table shrinks, the tail of the previous table stays in the file and is loaded at the next start"})
	}
	if fn := c.P.Method(rel, "Handler", "handleRequest"); fn != nil {
		// every return of a non-nil reply built by the ACK encoder passes saveConfig
		var ack ssa.Instruction
		for _, s := range callsIn(fn, nameIs("EncodeDHCP4")) {
			if len(s.Common().Args) > 2 && strings.Contains(norm(s.Common().Args[2]), "5") {
				ack = s.(ssa.Instruction)
			}
		}
		st := core.Violated
		det := "ACK construction not found in handleRequest"
		if ack != nil {
			ok, exit := mustPass(ack, func(j ssa.Instruction) bool {
				cj, isCall := j.(ssa.CallInstruction)
				return isCall && strings.HasSuffix(core.CalleeName(cj), ").saveConfig")
			})
			if ok {
				st, det = core.Proved, ""
			} else {
				det = "a path from the ACK construction reaches the return at " + c.P.Pos(core.PosOf(exit)) + " without saveConfig: the acknowledged lease would not survive a restart"
			}
		}
		r.Add(core.Obligation{Rule: "persist", Key: "persist handleRequest saves the acknowledged lease", Func: core.FuncName(fn), Pos: c.P.Pos(fn.Pos()), Status: st,
			Basis: "every path from the ACK construction to a return passes saveConfig", Detail: det})
	}
	// a binding given up by its client (DECLINE, a select for another server) leaves the file too: in the message
	// handlers every assignment of StateFree to a lease that may be an acknowledged one (not under a State == Discover
	// test, not the commit re-check that refuses an offer) is followed by saveConfig on every path to a return. Otherwise
	// a restart brings back a binding the client declined as in conflict. Expiry (freeLeases) is left out: a lease past
	// its expiry is refused by the expiry tests and freed by the first tick after the restart.
	for _, name := range []string{"handleDecline", "handleRequest", "handleRelease"} {
		fn := c.P.Method(rel, "Handler", name)
		if fn == nil {
			continue
		}
		kgf := core.NewKeyGen()
		core.EachInstr(fn, func(i ssa.Instruction) {
			st, ok := i.(*ssa.Store)
			if !ok {
				return
			}
			fa, isFA := st.Addr.(*ssa.FieldAddr)
			if !isFA || fieldOwner(fa) != "dhcp4_spoofer.Lease.State" {
				return
			}
			if k, isC := st.Val.(*ssa.Const); !isC || k.Value == nil || k.Int64() != 0 {
				return
			}
			gs := guardsOf(i)
			if hasGuard(gs, `^\([^!].*\.State==1\)$`) {
				return // an offer, never written to the file
			}
			okAll, exit := mustPass(i, func(j ssa.Instruction) bool {
				cj, isCall := j.(ssa.CallInstruction)
				return isCall && strings.HasSuffix(core.CalleeName(cj), ").saveConfig")
			})
			s2, det := core.Proved, ""
			if !okAll {
				s2 = core.Violated
				det = name + " frees a lease that may be an acknowledged one and reaches the return at " + c.P.Pos(core.PosOf(exit)) + " without saveConfig: the lease file keeps the binding and a restart brings it back although the client gave it up"
			}
			r.Add(core.Obligation{Rule: "persist", Key: strings.TrimSuffix(kgf.Key("persist "+name+" saves after freeing a lease"), "#0"), Func: core.FuncName(fn), Pos: c.P.Pos(core.PosOf(i)), Status: s2,
				Basis: "every path from State = StateFree to a return passes saveConfig", Detail: det})
		})
	}
	// the key a binding is saved under is never empty: the loader refuses a lease without a client identifier, so a
	// binding acknowledged under an empty option 61 (RFC 2132 wants at least two octets) would not come back
	if fn := c.P.Func(rel, "getClientID"); fn != nil {
		nOpt := 0
		core.EachInstr(fn, func(i ssa.Instruction) {
			ret, ok := i.(*ssa.Return)
			if !ok || len(ret.Results) != 1 {
				return
			}
			type edge struct {
				v    ssa.Value
				from *ssa.BasicBlock
				to   *ssa.BasicBlock
			}
			var edges []edge
			if phi, isPhi := ret.Results[0].(*ssa.Phi); isPhi {
				for k, e := range phi.Edges {
					edges = append(edges, edge{e, phi.Block().Preds[k], phi.Block()})
				}
			} else {
				edges = append(edges, edge{ret.Results[0], nil, ret.Block()})
			}
			for _, e := range edges {
				ex, isEx := e.v.(*ssa.Extract)
				if !isEx {
					continue
				}
				if _, isLk := ex.Tuple.(*ssa.Lookup); !isLk {
					continue
				}
				nOpt++
				want := regexp.MustCompile(`^(!\(len\(` + regexp.QuoteMeta(norm(e.v)) + `\)==0\)|\(len\(` + regexp.QuoteMeta(norm(e.v)) + `\)>0\))$`)
				var gs []Guard
				if e.from == nil {
					gs = guardsOf(ret)
				} else {
					last := e.from.Instrs[len(e.from.Instrs)-1]
					gs = guardsOf(last)
					if iff, isIf := last.(*ssa.If); isIf && e.from.Succs[0] != e.from.Succs[1] {
						// the condition of the edge itself
						cond, pol := iff.Cond, e.from.Succs[0] == e.to
						for {
							if u, ok := cond.(*ssa.UnOp); ok && u.Op == token.NOT {
								cond, pol = u.X, !pol
								continue
							}
							break
						}
						txt := norm(cond)
						if bo, ok := cond.(*ssa.BinOp); ok && bo.Op == token.NEQ {
							txt, pol = "("+norm(bo.X)+"=="+norm(bo.Y)+")", !pol
						}
						if !pol {
							txt = "!" + txt
						}
						gs = append(gs, Guard{Cond: cond, Pol: pol, Branch: e.from, Text: txt})
					}
				}
				st := core.Proved
				for _, g := range gs {
					if want.MatchString(g.Text) || (swapEquality(g.Text) != "" && want.MatchString(swapEquality(g.Text))) {
						st = core.Proved
						goto done
					}
				}
				st = core.Violated
			done:
				r.Add(core.Obligation{Rule: "persist", Key: "persist getClientID returns option 61 only when it is not empty", Func: core.FuncName(fn), Pos: c.P.Pos(core.PosOf(ret)), Status: st,
					Basis: "guards: " + guardTexts(gs), Detail: "getClientID returns the value of option 61 without testing that it is not empty (guards: " + guardTexts(gs) + "): a client sending an empty option 61 is acknowledged under the key \"\", and the loader drops a lease without a client identifier: the acknowledged binding does not survive a restart"})
			}
		})
		if nOpt == 0 {
			r.Add(core.Obligation{Rule: "persist", Key: "persist getClientID returns option 61 only when it is not empty", Func: core.FuncName(fn), Status: core.Undecided, Detail: "getClientID no longer returns the looked-up option value in a recognised form"})
		}
	}
	// ---- complete-file ----
	// A YAML file cut short still parses, with the last lease missing or its last value shortened (ip 192.168.0.100 cut to
	// 192.168.0.1): the loader can tell only if the writer puts something last that the loader checks. Writer and reader
	// use the same structure; its last field is a count the writer sets to the number of leases after collecting them and
	// the reader compares with the number of leases read before it returns a table.
	r.Rule("complete-file", "the lease file ends with a lease count that the loader checks", 4)
	{
		load := c.P.Method(rel, "Handler", "loadByteArray")
		save := c.P.Method(rel, "Handler", "saveConfig")
		structOf := func(fn *ssa.Function, callee string) *types.Struct {
			var out *types.Struct
			for _, site := range callsIn(fn, func(n string, _ ssa.CallInstruction) bool { return n == callee }) {
				for _, a := range site.Common().Args {
					v := a
					if mi, ok := v.(*ssa.MakeInterface); ok {
						v = mi.X
					}
					if pt, ok := v.Type().Underlying().(*types.Pointer); ok {
						if st, ok := pt.Elem().Underlying().(*types.Struct); ok {
							out = st
						}
					}
				}
			}
			return out
		}
		var ls, ss *types.Struct
		if load != nil && save != nil {
			ls, ss = structOf(load, "gopkg.in/yaml.v2.Unmarshal"), structOf(save, "gopkg.in/yaml.v2.Marshal")
		}
		if ls == nil || ss == nil {
			r.Add(core.Obligation{Rule: "complete-file", Key: "complete-file structures found", Func: "-", Status: core.Undecided, Detail: "the structure handed to yaml.Marshal in saveConfig or to yaml.Unmarshal in loadByteArray was not found"})
		} else {
			st := core.Proved
			if !types.Identical(ls, ss) {
				st = core.Violated
			}
			r.Add(core.Obligation{Rule: "complete-file", Key: "complete-file writer and reader use the same structure", Func: core.FuncName(save), Status: st,
				Basis: "types.Identical on the structures of yaml.Marshal and yaml.Unmarshal", Detail: "saveConfig writes " + ss.String() + " and loadByteArray reads " + ls.String()})
			last := ss.Field(ss.NumFields() - 1)
			isInt := false
			if b, ok := last.Type().Underlying().(*types.Basic); ok && b.Info()&types.IsInteger != 0 {
				isInt = true
			}
			st = core.Proved
			if !isInt {
				st = core.Violated
			}
			r.Add(core.Obligation{Rule: "complete-file", Key: "complete-file the structure ends with a count", Func: core.FuncName(save), Status: st,
				Basis: "last field " + last.Name() + " " + last.Type().String(), Detail: "the last field written to the lease file is " + last.Name() + " " + last.Type().String() + ", not a count: a file cut short parses as a shorter table or with a shortened last value (192.168.0.100 read as 192.168.0.1) and the loader cannot tell"})
			if isInt {
				re := `^\(local\(\w+\)\.` + last.Name() + `==len\(local\(\w+\)\.Leases\)\)$`
				// reader: every successful return and every insertion under the count test
				okR, nR := true, 0
				where := ""
				core.EachInstr(load, func(i ssa.Instruction) {
					switch t := i.(type) {
					case *ssa.Return:
						if k, isC := t.Results[len(t.Results)-1].(*ssa.Const); !isC || !k.IsNil() {
							return
						}
					case *ssa.MapUpdate:
					default:
						return
					}
					nR++
					if !hasGuard(guardsOf(i), re) {
						okR = false
						where = c.P.Pos(core.PosOf(i))
					}
				})
				st = core.Proved
				if !okR || nR == 0 {
					st = core.Violated
				}
				r.Add(core.Obligation{Rule: "complete-file", Key: "complete-file the loader returns a table only when the count matches", Func: core.FuncName(load), Status: st,
					Basis: fmt.Sprintf("%d successful returns and insertions under %s == len(Leases)", nR, last.Name()), Detail: "loadByteArray reaches " + where + " without having compared the saved count with the number of leases read"})
				// writer: the count is the number of leases, set after the last change to the list
				okW := false
				core.EachInstr(save, func(i ssa.Instruction) {
					s, ok := i.(*ssa.Store)
					if !ok || !regexp.MustCompile(`^local\(\w+\)\.`+last.Name()+`$`).MatchString(norm(s.Addr)) {
						return
					}
					if !regexp.MustCompile(`^len\(local\(\w+\)\.Leases\)$`).MatchString(norm(s.Val)) {
						return
					}
					later := false
					core.EachInstr(save, func(j ssa.Instruction) {
						if s2, ok := j.(*ssa.Store); ok && strings.HasSuffix(norm(s2.Addr), ".Leases") && reachesWithout(i, j, func(ssa.Instruction) bool { return false }) {
							later = true
						}
					})
					dom := false
					for _, m := range callsIn(save, func(n string, _ ssa.CallInstruction) bool { return n == "gopkg.in/yaml.v2.Marshal" }) {
						mi := m.(ssa.Instruction)
						if i.Block() == mi.Block() && core.InstrIndex(i) < core.InstrIndex(mi) || i.Block() != mi.Block() && i.Block().Dominates(mi.Block()) {
							dom = true
						}
					}
					if !later && dom {
						okW = true
					}
				})
				st = core.Proved
				if !okW {
					st = core.Violated
				}
				r.Add(core.Obligation{Rule: "complete-file", Key: "complete-file the writer sets the count to the number of leases", Func: core.FuncName(save), Status: st,
					Basis: last.Name() + " = len(Leases) dominates yaml.Marshal, no later change of the list", Detail: "saveConfig does not set " + last.Name() + " to len(Leases) after the list is complete and before yaml.Marshal: every file it writes is rejected, or a stale count is accepted"})
			}
		}
	}
	// the loader sees the whole file: what loadConfig hands to loadByteArray is the result of a whole-file read. A read
	// capped at some size turns every intact file larger than the cap into a "damaged" one (each lease takes about 330
	// bytes of YAML, so a busy /24 passes any small cap) and the table is reset.
	if lc := c.P.Method(rel, "Handler", "loadConfig"); lc != nil {
		st, det := core.Undecided, "the call of loadByteArray in loadConfig, or the read that feeds it, was not recognised"
		for _, site := range callsIn(lc, nameIs("loadByteArray")) {
			args := site.Common().Args
			if len(args) < 2 {
				continue
			}
			whole, limited := false, ""
			for v := range dataSlice(lc, args[1]) {
				cl, isCall := v.(*ssa.Call)
				if !isCall || cl.Common().StaticCallee() == nil {
					continue
				}
				switch n := core.FuncName(cl.Common().StaticCallee()); n {
				case "io/ioutil.ReadFile", "os.ReadFile", "io/ioutil.ReadAll", "io.ReadAll":
					whole = true
				case "io.LimitReader", "io.NewSectionReader", "io.ReadFull", "io.ReadAtLeast":
					limited = n
				}
				if cl.Common().StaticCallee().Name() == "Read" {
					limited = core.FuncName(cl.Common().StaticCallee())
				}
			}
			switch {
			case limited != "":
				st, det = core.Violated, "loadConfig reads the lease file through "+limited+": an intact file larger than the limit is cut short, fails its checksum and the table is reset - every acknowledged binding is lost at restart once the table has grown"
			case whole:
				st, det = core.Proved, ""
			}
		}
		r.Add(core.Obligation{Rule: "persist", Key: "persist loadConfig reads the whole file", Func: core.FuncName(lc), Pos: c.P.Pos(lc.Pos()), Status: st,
			Basis: "loadByteArray is fed by ReadFile / ReadAll without a limiting reader", Detail: det})
	}
	// ---- bounds ----
	// loadByteArray handles the bytes of a file nobody vouches for: every index and slice expression it evaluates (in
	// itself and in the module functions it calls) is proved in bounds for an arbitrary byte string, with the same
	// interpreter that decides C01 and C08. Library calls (yaml, strconv, bytes) are opaque results.
	r.Rule("bounds", "every index and slice expression of the loader is in bounds for an arbitrary file", 1)
	if lb := c.P.Method(rel, "Handler", "loadByteArray"); lb != nil {
		sink := newBoundsSink(c)
		sink.filter = func(f absint.Finding) bool { return kindRule(f.Kind) == "bounds" }
		cfg := absint.Config{DecodeLenCap: false, CapRule: false, Opaque: handlerOpaque, Budget: 600000, MaxStates: 32, MaxOutcomes: 8}
		in := absint.New(c.P, cfg, sink.sink)
		sink.root = "loadByteArray arbitrary file"
		in.Exec(lb, []absint.Value{nil, in.InputSlice("F", true)}, nil, absint.NewHeap())
	}
	// ---- checksum ----
	// Damage other than truncation - a digit changed inside an address, a line lost from a client id - still parses and
	// keeps the count. The file carries a checksum of its own bytes: the writer appends one computed over what it
	// marshalled, the loader hands yaml.Unmarshal exactly the bytes it has verified, and returns a table only when the
	// checksum matched.
	r.Rule("checksum", "the lease file carries a checksum of its bytes that the loader verifies before parsing", 3)
	{
		load := c.P.Method(rel, "Handler", "loadByteArray")
		save := c.P.Method(rel, "Handler", "saveConfig")
		isSum := func(n string) bool {
			return strings.HasPrefix(n, "hash/crc32.Checksum") || strings.HasPrefix(n, "hash/crc32.Update") || strings.HasPrefix(n, "crypto/sha256.Sum") || strings.HasPrefix(n, "hash/adler32.Checksum") || strings.HasPrefix(n, "crypto/sha1.Sum") || strings.HasPrefix(n, "crypto/md5.Sum")
		}
		if load == nil || save == nil {
			r.Fatal("loadByteArray or saveConfig not found")
		} else {
			// loader: what is parsed is what was verified
			var parsed ssa.Value
			var um ssa.Instruction
			for _, site := range callsIn(load, func(n string, _ ssa.CallInstruction) bool { return n == "gopkg.in/yaml.v2.Unmarshal" }) {
				parsed = site.Common().Args[0]
				um = site.(ssa.Instruction)
			}
			var verified ssa.Value
			var sumCall ssa.Value
			for _, site := range callsIn(load, func(n string, _ ssa.CallInstruction) bool { return isSum(n) }) {
				for _, a := range site.Common().Args {
					if sl, isSl := a.Type().Underlying().(*types.Slice); isSl {
						if b, isB := sl.Elem().Underlying().(*types.Basic); isB && b.Kind() == types.Uint8 {
							verified = a
							sumCall = site.Value()
						}
					}
				}
			}
			st, det := core.Proved, ""
			switch {
			case um == nil:
				st, det = core.Undecided, "yaml.Unmarshal not found in loadByteArray"
			case sumCall == nil:
				st, det = core.Violated, "loadByteArray computes no checksum over the bytes of the file: a file damaged otherwise than by truncation (192.168.0.1 changed to 192.168.0.7, a line lost from a clientid list) parses, keeps its count and yields a binding the original file does not hold"
			case norm(parsed) != norm(verified):
				st, det = core.Violated, "loadByteArray parses "+norm(parsed)+" but verifies the checksum of "+norm(verified)+": bytes that are parsed are not covered by the checksum"
			}
			r.Add(core.Obligation{Rule: "checksum", Key: "checksum the loader parses the bytes it verified", Func: core.FuncName(load), Pos: c.P.Pos(load.Pos()), Status: st,
				Basis: "yaml.Unmarshal and the checksum are applied to the same bytes", Detail: det})
			if sumCall != nil {
				okR, nR, where := true, 0, ""
				core.EachInstr(load, func(i ssa.Instruction) {
					switch t := i.(type) {
					case *ssa.Return:
						if k, isC := t.Results[len(t.Results)-1].(*ssa.Const); !isC || !k.IsNil() {
							return
						}
					case *ssa.MapUpdate:
					default:
						return
					}
					nR++
					match := false
					for _, g := range guardsOf(i) {
						bo, isB := g.Cond.(*ssa.BinOp)
						if !isB || !g.Pol {
							continue
						}
						if bo.X == sumCall || bo.Y == sumCall || stripConv(bo.X) == sumCall || stripConv(bo.Y) == sumCall {
							match = true
						}
					}
					if !match {
						okR, where = false, c.P.Pos(core.PosOf(i))
					}
				})
				st = core.Proved
				if !okR || nR == 0 {
					st = core.Violated
				}
				r.Add(core.Obligation{Rule: "checksum", Key: "checksum the loader returns a table only when the checksum matches", Func: core.FuncName(load), Status: st,
					Basis: fmt.Sprintf("%d successful returns and insertions under checksum == stored value", nR), Detail: "loadByteArray reaches " + where + " without having compared the checksum of the file with the one stored in it"})
			}
			// writer: what is written depends on a checksum of what was marshalled
			stW, detW := core.Violated, "saveConfig writes the marshalled table without a checksum of it"
			for _, site := range callsIn(save, func(n string, _ ssa.CallInstruction) bool { return n == "io/ioutil.WriteFile" || n == "os.WriteFile" }) {
				if len(site.Common().Args) < 2 {
					continue
				}
				var marshalled ssa.Value
				hasSum := false
				sl := dataSlice(save, site.Common().Args[1])
				for v := range sl {
					if cl, isCall := v.(*ssa.Call); isCall && cl.Common().StaticCallee() != nil {
						n := core.FuncName(cl.Common().StaticCallee())
						if n == "gopkg.in/yaml.v2.Marshal" {
							marshalled = v
						}
					}
				}
				for v := range sl {
					if cl, isCall := v.(*ssa.Call); isCall && cl.Common().StaticCallee() != nil && isSum(core.FuncName(cl.Common().StaticCallee())) {
						for _, a := range cl.Common().Args {
							if ex, isEx := a.(*ssa.Extract); isEx && ex.Tuple == marshalled {
								hasSum = true
							}
						}
					}
				}
				if marshalled != nil && hasSum {
					stW, detW = core.Proved, ""
				}
			}
			r.Add(core.Obligation{Rule: "checksum", Key: "checksum the writer appends a checksum of what it marshalled", Func: core.FuncName(save), Pos: c.P.Pos(save.Pos()), Status: stW,
				Basis: "the bytes handed to WriteFile depend on a checksum of the yaml.Marshal result", Detail: detW})
		}
	}
	// a restored binding is what the file says: loadByteArray assigns nothing to a loaded lease except the subnet it
	// attaches it to (a substituted client identifier yields a binding that is absent from the file)
	if fn := c.P.Method(rel, "Handler", "loadByteArray"); fn != nil {
		kgl := core.NewKeyGen()
		nStores := 0
		core.EachInstr(fn, func(i ssa.Instruction) {
			st, ok := i.(*ssa.Store)
			if !ok {
				return
			}
			fa, isFA := st.Addr.(*ssa.FieldAddr)
			if !isFA || !strings.HasPrefix(fieldOwner(fa), "dhcp4_spoofer.Lease.") {
				return
			}
			if al, isAl := fa.X.(*ssa.Alloc); !isAl || al.Comment == "complit" {
				return
			}
			nStores++
			f := strings.TrimPrefix(fieldOwner(fa), "dhcp4_spoofer.Lease.")
			s2 := core.Proved
			if f != "subnet" {
				s2 = core.Violated
			}
			key := strings.TrimSuffix(kgl.Key("insert-guards loadByteArray assigns only the subnet of a loaded lease: "+f), "#0")
			r.Add(core.Obligation{Rule: "insert-guards", Key: key, Func: core.FuncName(fn), Pos: c.P.Pos(core.PosOf(i)), Status: s2,
				Basis: "field assigned: " + f, Detail: "loadByteArray assigns " + f + " of a lease read from the file (" + norm(st.Val) + "): the binding restored is not the one the file holds"})
		})
	}
	// netip.Addr.As4 panics on anything but an IPv4 address: in the package that builds its subnets from the lease file,
	// every As4 call is under an Is4 test of the address it converts (a damaged file can name an IPv6 prefix)
	r.Rule("as4-guarded", "As4 is called only on addresses tested with Is4", 1)
	for _, fn := range c.P.LibFunctions() {
		if fn.Pkg == nil || fn.Pkg.Pkg.Name() != "dhcp4_spoofer" {
			continue
		}
		kga := core.NewKeyGen()
		for _, site := range callsIn(fn, nameIs("As4")) {
			if core.CalleeName(site) != "(net/netip.Addr).As4" || len(site.Common().Args) != 1 {
				continue
			}
			ins := site.(ssa.Instruction)
			arg := norm(site.Common().Args[0])
			// the operand, or the prefix it was taken from, was tested
			root := arg
			if i := strings.Index(root, "(net/netip.Prefix).Addr("); i >= 0 {
				root = strings.TrimSuffix(root[i+len("(net/netip.Prefix).Addr("):], ")")
			}
			ok := false
			for _, g := range guardsOf(ins) {
				if g.Pol && strings.HasPrefix(g.Text, "(net/netip.Addr).Is4(") && (strings.Contains(g.Text, arg) || strings.Contains(g.Text, root)) {
					ok = true
				}
			}
			st := core.Proved
			if !ok {
				st = core.Violated
			}
			key := strings.TrimSuffix(kga.Key("as4-guarded "+core.FuncName(fn)), "#0")
			r.Add(core.Obligation{Rule: "as4-guarded", Key: key, Func: core.FuncName(fn), Pos: c.P.Pos(core.PosOf(ins)), Status: st,
				Basis: "dominated by Is4() of the converted address", Detail: "As4() of " + arg + " is not under an Is4 test: a lease file whose subnet is an IPv6 prefix (lan: fe80::/64) makes the handler panic at start-up"})
		}
	}
	// every key of a lease table gets its own Lease object: a pointer stored into the table inside a loop comes from an
	// allocation that is executed again before the next store (the module's language version gives loop variables one
	// instance per loop, so `tt[k] = &v` with a range variable makes every key share the last lease)
	r.Rule("distinct-leases", "a lease pointer stored into a table in a loop is allocated once per iteration", 1)
	for _, fn := range c.P.LibFunctions() {
		if fn.Pkg == nil || fn.Pkg.Pkg.Name() != "dhcp4_spoofer" {
			continue
		}
		n := 0
		core.EachInstr(fn, func(i ssa.Instruction) {
			mu, ok := i.(*ssa.MapUpdate)
			if !ok {
				return
			}
			pt, isPtr := mu.Value.Type().Underlying().(*types.Pointer)
			if !isPtr {
				return
			}
			if nt, isNamed := pt.Elem().(*types.Named); !isNamed || nt.Obj().Name() != "Lease" {
				return
			}
			al, isAlloc := mu.Value.(*ssa.Alloc)
			if !isAlloc {
				return
			}
			if !reachesWithout(i, i, func(ssa.Instruction) bool { return false }) {
				return // not in a loop
			}
			n++
			st := core.Proved
			if reachesWithout(i, i, func(x ssa.Instruction) bool { return x == ssa.Instruction(al) }) {
				st = core.Violated
			}
			r.Add(core.Obligation{Rule: "distinct-leases", Key: fmt.Sprintf("distinct-leases %s store %d", core.FuncName(fn), n), Func: core.FuncName(fn), Pos: c.P.Pos(core.PosOf(i)), Status: st,
				Basis: "the allocation of the stored Lease lies on every path from one store to the next", Detail: "the Lease stored into the table is allocated outside the loop (" + al.Comment + " at " + c.P.Pos(al.Pos()) + "): every key inserted by the loop points at the same object, which ends up holding the last entry of the file"})
		})
	}
	runC18ConfigFixpoint(c)
	// ... and nothing else keeps a lease of the file out of the table: the conditions on the lease element under which the
	// loader inserts it are the listed ones (allocated, a client identifier, a valid address inside the subnet chosen for
	// it). A further test on the element - of its hardware address, say - silently drops bindings that were acknowledged.
	r.Rule("insert-only", "a lease of the file is kept out of the table only for the listed reasons", 1)
	if lb := c.P.Method(dhcpRel, "Handler", "loadByteArray"); lb != nil {
		allowed := []*regexp.Regexp{
			regexp.MustCompile(`^!?\(len\(local\(\w+\)\.ClientID\)==0\)$`), regexp.MustCompile(`^!?\(local\(\w+\)\.ClientID==nil\)$`),
			regexp.MustCompile(`^!?\(local\(\w+\)\.State==2\)$`), regexp.MustCompile(`^!?\(local\(\w+\)\.State!=2\)$`),
			regexp.MustCompile(`^!?\(net/netip\.Addr\)\.IsValid\(local\(\w+\)\.Addr\.IP\)$`),
			regexp.MustCompile(`^!?\(net/netip\.Addr\)\.Is4\(local\(\w+\)\.Addr\.IP\)$`),
			regexp.MustCompile(`^!?\(net/netip\.Prefix\)\.Contains\(.*\.SubnetConfig\.LAN,local\(\w+\)\.Addr\.IP\)$`),
			regexp.MustCompile(`^!?\(len\(local\(\w+\)\.ClientID\)>0\)$`),
		}
		n := 0
		core.EachInstr(lb, func(i ssa.Instruction) {
			mu, ok := i.(*ssa.MapUpdate)
			if !ok || !regexp.MustCompile(`^local\(\w+\)\.ClientID$`).MatchString(norm(mu.Key)) {
				return
			}
			n++
			elem := norm(mu.Key)[:strings.Index(norm(mu.Key), ".")]
			var extra []string
			for _, g := range guardsOf(i) {
				if !strings.Contains(g.Text, elem+".") {
					continue
				}
				okG := false
				for _, re := range allowed {
					if re.MatchString(g.Text) || (swapEquality(g.Text) != "" && re.MatchString(swapEquality(g.Text))) {
						okG = true
					}
				}
				if !okG {
					extra = append(extra, g.Text)
				}
			}
			st, det := core.Proved, ""
			if len(extra) > 0 {
				st = core.Violated
				det = "loadByteArray inserts a lease of the file only if also " + strings.Join(extra, " && ") + ": acknowledged bindings for which this is false are silently missing from the new handler (their renewals are refused, their addresses count as free)"
			}
			r.Add(core.Obligation{Rule: "insert-only", Key: "insert-only loadByteArray", Func: core.FuncName(lb), Pos: c.P.Pos(core.PosOf(i)), Status: st,
				Basis: "conditions on the lease element at the insertion: allocated, client identifier, valid IPv4 address inside the subnet", Detail: det})
		})
		if n == 0 {
			r.Add(core.Obligation{Rule: "insert-only", Key: "insert-only loadByteArray", Func: core.FuncName(lb), Status: core.Undecided, Detail: "the insertion of loaded leases was not found"})
		}
	}
}

// runC18ConfigFixpoint: New keeps the loaded tables only if configChanged(configured, loaded) is false, and what is loaded
// is what newSubnet stored from the configured values at the previous start. So every comparison of configChanged must
// be false for (config, newSubnet(config).SubnetConfig): substituting, on the loaded side, each field by the expression
// newSubnet stores into it gives the configured side again (modulo Masked∘Masked = Masked, Bits∘Masked = Bits). A field
// that newSubnet normalises (masks, unmaps) and configChanged compares raw differs at every restart for a configuration
// that is not already normalised, and the leases are dropped each time.
func runC18ConfigFixpoint(c *Ctx) {
	r := c.R
	r.Rule("config-fixpoint", "configChanged is false between a configuration and what newSubnet stored from it", 4)
	cc := c.P.Func(dhcpRel, "configChanged")
	ns := c.P.Func(dhcpRel, "newSubnet")
	if cc == nil || ns == nil {
		r.Add(core.Obligation{Rule: "config-fixpoint", Key: "config-fixpoint functions", Status: core.Undecided, Detail: "configChanged or newSubnet not found"})
		return
	}
	toArg0 := func(t string) string { return strings.ReplaceAll(t, "local(config)", "arg0") }
	stored := map[string][]string{} // field -> stored expressions over arg0
	reassigned := map[string]bool{} // config.F assigned inside newSubnet (defaults)
	core.EachInstr(ns, func(i ssa.Instruction) {
		st, ok := i.(*ssa.Store)
		if !ok {
			return
		}
		a := norm(st.Addr)
		if f := strings.TrimPrefix(a, "local(subnet).SubnetConfig."); f != a {
			stored[f] = append(stored[f], toArg0(norm(st.Val)))
		}
		if f := strings.TrimPrefix(a, "local(config)."); f != a {
			reassigned[f] = true
		}
	})
	simplify := func(t string) string {
		for {
			u := regexp.MustCompile(`\(net/netip\.Prefix\)\.Masked\(\(net/netip\.Prefix\)\.Masked\(([^()]*)\)\)`).ReplaceAllString(t, "(net/netip.Prefix).Masked($1)")
			u = regexp.MustCompile(`\(net/netip\.Prefix\)\.Bits\(\(net/netip\.Prefix\)\.Masked\(([^()]*)\)\)`).ReplaceAllString(u, "(net/netip.Prefix).Bits($1)")
			if u == t {
				return t
			}
			t = u
		}
	}
	fieldRe := regexp.MustCompile(`arg1\.([A-Za-z0-9_]+)`)
	n := 0
	core.EachInstr(cc, func(i ssa.Instruction) {
		bo, ok := i.(*ssa.BinOp)
		if !ok || bo.Op != token.NEQ {
			return
		}
		tx := strings.ReplaceAll(strings.ReplaceAll(norm(bo.X), "local(config)", "arg0"), "local(current)", "arg1")
		ty := strings.ReplaceAll(strings.ReplaceAll(norm(bo.Y), "local(config)", "arg0"), "local(current)", "arg1")
		if strings.Contains(tx, "arg1") && strings.Contains(ty, "arg0") {
			tx, ty = ty, tx
		}
		if !strings.Contains(tx, "arg0") || !strings.Contains(ty, "arg1") || strings.Contains(tx, "arg1") || strings.Contains(ty, "arg0") {
			return
		}
		fields := fieldRe.FindAllStringSubmatch(ty, -1)
		if len(fields) == 0 {
			return
		}
		st, det := core.Proved, ""
		sub := ty
		for _, m := range fields {
			f := m[1]
			switch {
			case len(stored[f]) != 1 || reassigned[f]:
				// a field with a default: decidable only when the comparison is itself conditional on the configured value
				cond := false
				for _, g := range guardsOf(i) {
					t := strings.ReplaceAll(g.Text, "local(config)", "arg0")
					if strings.Contains(t, "arg0."+f) {
						cond = true
					}
				}
				if cond {
					return // compared only when configured: the default is not a change (not decided further)
				}
				st, det = core.Violated, "newSubnet stores "+f+" in "+fmt.Sprint(len(stored[f]))+" places (a default) and configChanged compares it unconditionally"
			default:
				sub = strings.ReplaceAll(sub, "arg1."+f, stored[f][0])
			}
		}
		if st == core.Proved && simplify(sub) != simplify(tx) {
			st = core.Violated
			det = "configChanged compares " + tx + " with " + ty + ", and newSubnet stores " + strings.Join(func() []string {
				var o []string
				for _, m := range fields {
					o = append(o, m[1]+" = "+strings.Join(stored[m[1]], " | "))
				}
				return o
			}(), ", ") + ": for a configuration on which the two differ (a prefix given as host address and length, an IPv4-mapped address) the loaded configuration never equals the configured one, and New drops the lease table at every restart"
		}
		n++
		r.Add(core.Obligation{Rule: "config-fixpoint", Key: "config-fixpoint " + ty, Func: core.FuncName(cc), Pos: c.P.Pos(core.PosOf(i)), Status: st,
			Basis: "loaded side with newSubnet's stored expressions substituted = configured side: " + simplify(sub), Detail: det})
	})
	if n == 0 {
		r.Add(core.Obligation{Rule: "config-fixpoint", Key: "config-fixpoint comparisons", Func: core.FuncName(cc), Status: core.Undecided, Detail: "no comparison between the two configurations was recognised in configChanged"})
	}
}

func sortedKeys(m map[string]bool) []string {
	var out []string
	for k := range m {
		out = append(out, k)
	}
	sort.Strings(out)
	return out
}

// subnetOfPrefix: v is X.SubnetConfig.LAN (loaded); returns X.
func subnetOfPrefix(v ssa.Value) ssa.Value {
	ld, ok := v.(*ssa.UnOp)
	if !ok {
		return nil
	}
	fa, ok := ld.X.(*ssa.FieldAddr)
	if !ok || !strings.HasSuffix(fieldOwner(fa), ".LAN") {
		return nil
	}
	if inner, ok := fa.X.(*ssa.FieldAddr); ok {
		return inner.X
	}
	return fa.X
}

// leaseLocalField: text is local(<any name>).<field> - the rules about the lease being restored do not depend on
// what the loop variable is called.
func leaseLocalField(text, field string) bool {
	return regexp.MustCompile(`^local\(\w+\)\.` + regexp.QuoteMeta(field) + `$`).MatchString(text)
}

// stripConv removes value-preserving conversions.
func stripConv(v ssa.Value) ssa.Value {
	for {
		switch t := v.(type) {
		case *ssa.Convert:
			v = t.X
		case *ssa.ChangeType:
			v = t.X
		default:
			return v
		}
	}
}
