package props

import (
	"fmt"
	"go/token"
	"go/types"
	"sort"
	"strings"

	"golang.org/x/tools/go/ssa"

	"pv/core"
)

// ndp-siblings (C14 router learning): each NDP option type has a marshal and an unmarshal method; the two are
// sibling implementations of one wire layout and must agree on where the fixed-width integers live. marshal builds
// the option body in RawOption.Value (the option without its 2-byte type/length header), unmarshal reads either the
// whole option b or value := b[2:]. The rule collects the constant windows handed to binary.BigEndian.Put/Uint16/32/64
// on both sides, normalises them to offsets from the start of the option and requires the two sets to be equal.

type beWindow struct {
	lo, hi int64
}

// windowOf: v is s[lo:hi] with constant bounds; returns the window relative to the start of the NDP option.
func ndpWindow(v ssa.Value, fn *ssa.Function) (beWindow, bool) {
	sl, ok := v.(*ssa.Slice)
	if !ok || sl.Low == nil || sl.High == nil {
		return beWindow{}, false
	}
	lo, ok1 := sl.Low.(*ssa.Const)
	hi, ok2 := sl.High.(*ssa.Const)
	if !ok1 || !ok2 || lo.Value == nil || hi.Value == nil {
		return beWindow{}, false
	}
	shift, ok := ndpBaseShift(sl.X, fn, 0)
	if !ok {
		return beWindow{}, false
	}
	return beWindow{lo.Int64() + shift, hi.Int64() + shift}, true
}

// ndpBaseShift: offset of the start of base within the whole option.
func ndpBaseShift(base ssa.Value, fn *ssa.Function, depth int) (int64, bool) {
	if depth > 6 {
		return 0, false
	}
	switch t := base.(type) {
	case *ssa.Parameter:
		return 0, true // the whole option as handed to unmarshal
	case *ssa.Slice:
		inner, ok := ndpBaseShift(t.X, fn, depth+1)
		if !ok {
			return 0, false
		}
		if t.Low == nil {
			return inner, true
		}
		k, isC := t.Low.(*ssa.Const)
		if !isC || k.Value == nil {
			return 0, false
		}
		return inner + k.Int64(), true
	case *ssa.UnOp:
		if t.Op != token.MUL {
			return 0, false
		}
		if fa, ok := t.X.(*ssa.FieldAddr); ok && strings.HasSuffix(fieldOwner(fa), "RawOption.Value") {
			return 2, true // the body follows type and length
		}
		return 0, false
	case *ssa.MakeSlice:
		// a body buffer that is later wrapped in a RawOption
		return 2, true
	case *ssa.Alloc:
		// make([]byte, constant) is compiled to new [N]byte: the same body buffer
		if t.Comment == "makeslice" {
			return 2, true
		}
		return 0, false
	case *ssa.Phi:
		var first int64
		for i, e := range t.Edges {
			s, ok := ndpBaseShift(e, fn, depth+1)
			if !ok || (i > 0 && s != first) {
				return 0, false
			}
			first = s
		}
		return first, len(t.Edges) > 0
	}
	return 0, false
}

func runNDPSiblings(c *Ctx) {
	r := c.R
	r.Rule("ndp-siblings", "marshal and unmarshal of each NDP option agree on the position of its fixed-width integers", 4)
	type sides struct {
		m, u   map[beWindow]bool
		mf, uf *ssa.Function
	}
	byType := map[string]*sides{}
	for _, fn := range c.P.LibFunctions() {
		if !strings.HasPrefix(c.P.Pos(fn.Pos()), "layer_icmp6_options.go:") || fn.Signature.Recv() == nil {
			continue
		}
		if fn.Name() != "marshal" && fn.Name() != "unmarshal" {
			continue
		}
		tn := fn.Signature.Recv().Type().String()
		tn = tn[strings.LastIndex(tn, ".")+1:]
		sd := byType[tn]
		if sd == nil {
			sd = &sides{m: map[beWindow]bool{}, u: map[beWindow]bool{}}
			byType[tn] = sd
		}
		core.EachInstr(fn, func(i ssa.Instruction) {
			call, ok := i.(*ssa.Call)
			if !ok {
				return
			}
			n := core.CalleeName(call)
			if !strings.HasPrefix(n, "(encoding/binary.bigEndian).") {
				return
			}
			args := call.Call.Args
			if len(args) < 2 {
				return
			}
			w, ok := ndpWindow(args[1], fn)
			if !ok {
				return
			}
			if strings.Contains(n, ".Put") {
				sd.m[w] = true
			} else {
				sd.u[w] = true
			}
		})
		if fn.Name() == "marshal" {
			sd.mf = fn
		} else {
			sd.uf = fn
		}
	}
	var names []string
	for n := range byType {
		names = append(names, n)
	}
	sort.Strings(names)
	render := func(m map[beWindow]bool) string {
		var ws []string
		for w := range m {
			ws = append(ws, fmt.Sprintf("[%d:%d]", w.lo, w.hi))
		}
		sort.Strings(ws)
		return strings.Join(ws, " ")
	}
	for _, n := range names {
		sd := byType[n]
		if sd.mf == nil || sd.uf == nil || (len(sd.m) == 0 && len(sd.u) == 0) {
			continue
		}
		st := core.Proved
		if render(sd.m) != render(sd.u) {
			st = core.Violated
		}
		r.Add(core.Obligation{Rule: "ndp-siblings", Key: "ndp-siblings " + n, Func: core.FuncName(sd.uf), Pos: c.P.Pos(sd.uf.Pos()), Status: st,
			Basis:  "big-endian integer windows (offsets from the start of the option): " + render(sd.m),
			Detail: fmt.Sprintf("%s.marshal writes its integers at %s of the option, %s.unmarshal reads them at %s: what the library reads from a received option is not the field the sender (and RFC 4861/4191/8106) put there", n, render(sd.m), n, render(sd.u))})
	}
}

// runNDPWideArith: lengths in NDP options are counted in units of 8 bytes in a one-byte field; multiplying that
// byte by 8 in uint8 arithmetic wraps from length 32 (256 bytes) on. Every multiplication / left shift of a
// non-constant one-byte value by a constant in the option code must be done after widening.
func runNDPWideArith(c *Ctx) {
	r := c.R
	r.Rule("wide-arith", "one-byte length fields are widened before they are multiplied", 0)
	for _, fn := range c.P.LibFunctions() {
		if !strings.HasPrefix(c.P.Pos(fn.Pos()), "layer_icmp6_options.go:") {
			continue
		}
		kg := core.NewKeyGen()
		core.EachInstr(fn, func(i ssa.Instruction) {
			bo, ok := i.(*ssa.BinOp)
			if !ok || bo.Op != token.MUL { // shifts pack flag bits into a byte; only products are lengths
				return
			}
			bt, isB := bo.Type().Underlying().(*types.Basic)
			if !isB || (bt.Kind() != types.Uint8 && bt.Kind() != types.Int8) {
				return
			}
			k, isC := bo.Y.(*ssa.Const)
			if _, xc := bo.X.(*ssa.Const); xc || !isC || k.Value == nil {
				return
			}
			if k.Int64() < 2 {
				return
			}
			key := strings.TrimSuffix(kg.Key("wide-arith "+core.FuncName(fn)+" "+norm(bo)), "#0")
			r.Add(core.Obligation{Rule: "wide-arith", Key: key, Func: core.FuncName(fn), Pos: c.P.Pos(core.PosOf(i)), Status: core.Violated,
				Detail: norm(bo) + " is computed in 8-bit arithmetic: for a length field of 32 or more (an option of 256 bytes or more) the product wraps, so a long well-formed option is rejected or a wrong length is accepted"})
		})
	}
}
