package props

import (
	"go/ast"
	"go/parser"
	"go/token"
	"go/types"
	"strings"

	"golang.org/x/tools/go/ssa"
	"golang.org/x/tools/go/ssa/ssautil"

	"pv/core"
)

// loopVarAliases: the module's language version (go.mod below 1.22) gives a loop one instance of each iteration
// variable. Taking the variable's address and keeping it - in an interface value, a slice, a map, a field - makes every
// kept pointer name the same variable, which ends up holding the last element. Reported: an allocation made outside a
// loop, assigned inside it (the per-iteration copy), whose address is kept inside the same loop.
func loopVarAliases(c *Ctx, fn *ssa.Function) []ssa.Instruction {
	var out []ssa.Instruction
	cfg := core.CFG(fn)
	for _, l := range cfg.Loops() {
		core.EachInstr(fn, func(i ssa.Instruction) {
			al, ok := i.(*ssa.Alloc)
			if !ok || !al.Heap || l.Blocks[al.Block()] || al.Referrers() == nil {
				return
			}
			assignedInLoop := false
			var kept ssa.Instruction
			for _, rf := range *al.Referrers() {
				if !l.Blocks[rf.Block()] {
					continue
				}
				switch t := rf.(type) {
				case *ssa.Store:
					if t.Addr == ssa.Value(al) {
						assignedInLoop = true
					} else if t.Val == ssa.Value(al) {
						kept = rf
					}
				case *ssa.MakeInterface:
					// the interface value is kept when it is appended, stored or sent
					if t.Referrers() != nil {
						for _, r2 := range *t.Referrers() {
							switch u := r2.(type) {
							case *ssa.Store:
								kept = r2
							case *ssa.MapUpdate, *ssa.Send:
								kept = r2
							case *ssa.Call:
								if b, isB := u.Call.Value.(*ssa.Builtin); isB && b.Name() == "append" {
									kept = r2
								}
							}
						}
					}
				case *ssa.MapUpdate:
					if t.Value == ssa.Value(al) {
						kept = rf
					}
				case *ssa.Call:
					if b, isB := t.Call.Value.(*ssa.Builtin); isB && b.Name() == "append" {
						kept = rf
					}
				}
			}
			if assignedInLoop && kept != nil && !strings.HasPrefix(al.Comment, "complit") {
				out = append(out, kept)
			}
		})
	}
	return out
}

// loopVarSelfTest builds a five-line positive example (language version 1.18, as in the module analysed) and requires
// the rule to match it: a rule whose expected count on the repository is zero must still be seen to fire on every run.
func loopVarSelfTest(c *Ctx) bool {
	const src = `package p
type T struct{ N int }
func F(in []T) []interface{} {
	var out []interface{}
	for _, v := range in {
		out = append(out, &v)
	}
	return out
}`
	fset := token.NewFileSet()
	f, err := parser.ParseFile(fset, "p.go", src, 0)
	if err != nil {
		return false
	}
	pkg := types.NewPackage("p", "p")
	sp, _, err := ssautil.BuildPackage(&types.Config{GoVersion: "go1.18"}, fset, pkg, []*ast.File{f}, ssa.SanityCheckFunctions)
	if err != nil || sp == nil {
		return false
	}
	fn := sp.Func("F")
	return fn != nil && len(loopVarAliases(c, fn)) == 1
}

// rangeStringByteIndex: `for i := range s` over a string steps rune by rune; a body that reads s[i] meant byte by byte and
// skips the continuation bytes of every multi-byte character. Returns the s[i] sites.
func rangeStringByteIndex(fn *ssa.Function) []ssa.Instruction {
	var out []ssa.Instruction
	core.EachInstr(fn, func(i ssa.Instruction) {
		var x, idx ssa.Value
		switch t := i.(type) {
		case *ssa.Lookup:
			x, idx = t.X, t.Index
		case *ssa.Index:
			x, idx = t.X, t.Index
		default:
			return
		}
		if b, isB := x.Type().Underlying().(*types.Basic); !isB || b.Info()&types.IsString == 0 {
			return
		}
		for {
			if cv, isC := idx.(*ssa.Convert); isC {
				idx = cv.X
				continue
			}
			break
		}
		ex, ok := idx.(*ssa.Extract)
		if !ok || ex.Index != 1 {
			return
		}
		nx, ok := ex.Tuple.(*ssa.Next)
		if !ok || !nx.IsString {
			return
		}
		if rg, ok := nx.Iter.(*ssa.Range); ok && rg.X == x {
			out = append(out, i)
		}
	})
	return out
}

// byteLoopSelfTest builds a four-line positive example for rangeStringByteIndex and requires it to be reported.
func byteLoopSelfTest() bool {
	const src = `package p
func F(s string) []byte {
	var out []byte
	for i := range s {
		out = append(out, s[i])
	}
	return out
}`
	fset := token.NewFileSet()
	f, err := parser.ParseFile(fset, "p.go", src, 0)
	if err != nil {
		return false
	}
	pkg := types.NewPackage("p", "p")
	sp, _, err := ssautil.BuildPackage(&types.Config{GoVersion: "go1.18"}, fset, pkg, []*ast.File{f}, ssa.SanityCheckFunctions)
	if err != nil || sp == nil {
		return false
	}
	fn := sp.Func("F")
	return fn != nil && len(rangeStringByteIndex(fn)) == 1
}
