package props

import (
	"fmt"
	"go/token"
	"strings"

	"golang.org/x/tools/go/ssa"

	"pv/core"
)

// checkHolderLookup decides the shape of Handler.findByIP, the look-up every uniqueness test of the DHCP server goes
// through: it ranges over the lease table and must hand back a lease that holds ip and is not free whenever there is
// one; a freed lease that still records ip is only a fallback. Path by path through the loop body:
//   - (not passed over) an iteration whose element records ip and that neither returns the element nor remembers it is
//     one where the element is free, or where the remembered candidate is already a lease that is not free;
//   - (not displaced) an iteration that remembers an element which may be free does so only while the remembered
//     candidate is nil or free - or the candidate can never be anything else, because every assignment to it is made
//     under "the element is free".
func checkHolderLookup(c *Ctx, rule string) {
	fn := c.P.Method(dhcpRel, "Handler", "findByIP")
	if fn == nil || len(fn.Params) != 2 {
		c.R.Add(core.Obligation{Rule: rule, Key: rule + " findByIP prefers the holder", Status: core.Undecided, Detail: "Handler.findByIP not found"})
		return
	}
	ip := ssa.Value(fn.Params[1])
	// the loop: header block with the Next instruction; the element
	var header *ssa.BasicBlock
	var elem ssa.Value
	core.EachInstr(fn, func(i ssa.Instruction) {
		if ex, ok := i.(*ssa.Extract); ok && ex.Index == 2 {
			if nx, isN := ex.Tuple.(*ssa.Next); isN {
				header, elem = nx.Block(), ex
			}
		}
	})
	add := func(key string, st core.Status, basis, det string) {
		c.R.Add(core.Obligation{Rule: rule, Key: rule + " " + key, Func: core.FuncName(fn), Pos: c.P.Pos(fn.Pos()), Status: st, Basis: basis, Detail: det})
	}
	if header == nil {
		add("findByIP prefers the holder", core.Undecided, "", "the range loop of findByIP was not recognised")
		return
	}
	var cands []*ssa.Phi
	for _, ins := range header.Instrs {
		if ph, ok := ins.(*ssa.Phi); ok && ph.Type().String() == elem.Type().String() {
			cands = append(cands, ph)
		}
	}
	// classification of a condition
	stateOf := func(v ssa.Value) ssa.Value { // v = *(&base.State) -> base
		ld, ok := v.(*ssa.UnOp)
		if !ok || ld.Op != token.MUL {
			return nil
		}
		fa, ok := ld.X.(*ssa.FieldAddr)
		if !ok || !strings.HasSuffix(fieldOwner(fa), "Lease.State") {
			return nil
		}
		return fa.X
	}
	isZero := func(v ssa.Value) bool {
		k, ok := v.(*ssa.Const)
		return ok && k.Value != nil && k.Value.String() == "0"
	}
	isNil := func(v ssa.Value) bool { k, ok := v.(*ssa.Const); return ok && k.IsNil() }
	type fact struct {
		kind string    // "match", "free", "nil"
		of   ssa.Value // elem or a candidate φ
		pol  bool
	}
	classify := func(cond ssa.Value, pol bool) *fact {
		bo, ok := cond.(*ssa.BinOp)
		if !ok || (bo.Op != token.EQL && bo.Op != token.NEQ) {
			return nil
		}
		if bo.Op == token.NEQ {
			pol = !pol
		}
		x, y := bo.X, bo.Y
		if isZero(x) || isNil(x) || x == ip {
			x, y = y, x
		}
		switch {
		case y == ip && strings.HasSuffix(norm(x), ".Addr.IP") && strings.HasPrefix(norm(x), norm(elem)):
			return &fact{"match", elem, pol}
		case isZero(y) && stateOf(x) != nil:
			return &fact{"free", stateOf(x), pol}
		case isNil(y):
			return &fact{"nil", x, pol}
		}
		return nil
	}
	// acyclic paths through the body: from the header's body successor to a return or back to the header
	type path struct {
		facts    []fact
		unknown  []string
		ret      ssa.Value // returned value, if the path returns
		backPred *ssa.BasicBlock
	}
	var paths []path
	var walk func(b *ssa.BasicBlock, cur path, seen map[*ssa.BasicBlock]bool)
	walk = func(b *ssa.BasicBlock, cur path, seen map[*ssa.BasicBlock]bool) {
		if len(paths) > 512 || seen[b] {
			return
		}
		seen[b] = true
		defer delete(seen, b)
		last := b.Instrs[len(b.Instrs)-1]
		switch t := last.(type) {
		case *ssa.Return:
			if len(t.Results) == 1 {
				cur.ret = t.Results[0]
			}
			paths = append(paths, cur)
		case *ssa.If:
			for k, s := range b.Succs {
				nx := cur
				nx.facts = append([]fact{}, cur.facts...)
				nx.unknown = append([]string{}, cur.unknown...)
				if f := classify(t.Cond, k == 0); f != nil {
					nx.facts = append(nx.facts, *f)
				} else {
					nx.unknown = append(nx.unknown, norm(t.Cond))
				}
				if s == header {
					nx.backPred = b
					paths = append(paths, nx)
				} else {
					walk(s, nx, seen)
				}
			}
		default:
			for _, s := range b.Succs {
				if s == header {
					nx := cur
					nx.backPred = b
					paths = append(paths, nx)
				} else {
					walk(s, cur, seen)
				}
			}
		}
	}
	// the body is the successor of the header taken when the iterator has an element
	if iff, ok := header.Instrs[len(header.Instrs)-1].(*ssa.If); ok {
		walk(header.Succs[0], path{}, map[*ssa.BasicBlock]bool{header: true})
		_ = iff
	}
	if len(paths) == 0 || len(paths) > 512 {
		add("findByIP prefers the holder", core.Undecided, "", fmt.Sprintf("%d paths through the loop body", len(paths)))
		return
	}
	has := func(p path, kind string, of ssa.Value, pol bool) bool {
		for _, f := range p.facts {
			if f.kind == kind && f.of == of && f.pol == pol {
				return true
			}
		}
		return false
	}
	edgeVal := func(ph *ssa.Phi, pred *ssa.BasicBlock) ssa.Value {
		for k, p := range header.Preds {
			if p == pred {
				return ph.Edges[k]
			}
		}
		return nil
	}
	// (d) every assignment of the element to a candidate is made under "the element is free"
	neverLive := map[*ssa.Phi]bool{}
	for _, ph := range cands {
		neverLive[ph] = true
		for _, p := range paths {
			if p.backPred != nil && edgeVal(ph, p.backPred) == elem && !has(p, "free", elem, true) {
				neverLive[ph] = false
			}
		}
	}
	var passed, displaced []string
	describe := func(p path) string {
		var o []string
		for _, f := range p.facts {
			who := "candidate"
			if f.of == elem {
				who = "element"
			}
			t := who + " " + f.kind
			if !f.pol {
				t = "not(" + t + ")"
			}
			o = append(o, t)
		}
		o = append(o, p.unknown...)
		return strings.Join(o, " && ")
	}
	for _, p := range paths {
		if !has(p, "match", elem, true) {
			continue
		}
		if p.ret != nil {
			continue // returns: a returned element under "match" is what is wanted; a returned candidate ends the search
		}
		remembered := false
		for _, ph := range cands {
			if edgeVal(ph, p.backPred) == elem {
				remembered = true
				if !has(p, "free", elem, false) && !neverLive[ph] && !has(p, "nil", ph, true) && !has(p, "free", ph, true) {
					displaced = append(displaced, describe(p))
				}
			}
		}
		if !remembered && !has(p, "free", elem, true) {
			live := false
			for _, ph := range cands {
				if has(p, "nil", ph, false) && has(p, "free", ph, false) {
					live = true
				}
			}
			if !live {
				passed = append(passed, describe(p))
			}
		}
	}
	st, det := core.Proved, ""
	if len(passed) > 0 {
		st = core.Violated
		det = "findByIP goes on to the next lease without returning or remembering an element that records the address and may be the lease that holds it (not free): " + strings.Join(passed, "  |  ") + ". The freed lease is returned although another client holds the address, and every uniqueness test that goes through findByIP takes the address for available"
	}
	add("findByIP does not pass over the lease that holds the address", st, fmt.Sprintf("%d paths through the loop body, %d candidate variables", len(paths), len(cands)), det)
	st, det = core.Proved, ""
	if len(displaced) > 0 {
		st = core.Violated
		det = "findByIP replaces its remembered candidate by an element that may be free while the candidate may be the lease that holds the address: " + strings.Join(displaced, "  |  ")
	}
	add("findByIP does not displace the lease that holds the address by a freed one", st, "a remembered element may be free only while the candidate is nil or free (or the candidate is only ever assigned free elements)", det)
}
