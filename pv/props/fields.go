package props

import (
	"fmt"
	"go/types"
	"sort"
	"strings"

	"golang.org/x/tools/go/ssa"

	"pv/bitprov"
	"pv/core"
)

// viewTypes returns the named types of package packet whose underlying type is []byte, with their
// methods that take only the receiver (value receiver) — the field getters of the views.
type getter struct {
	Type string
	Name string
	Fn   *ssa.Function
}

func viewGetters(p *core.Program) []getter {
	var out []getter
	pk := p.Pkg("")
	for _, m := range pk.Members {
		t, ok := m.(*ssa.Type)
		if !ok {
			continue
		}
		nt, ok := t.Type().(*types.Named)
		if !ok {
			continue
		}
		sl, ok := nt.Underlying().(*types.Slice)
		if !ok {
			continue
		}
		if b, ok := sl.Elem().Underlying().(*types.Basic); !ok || b.Kind() != types.Uint8 {
			continue
		}
		ms := p.Prog.MethodSets.MethodSet(nt)
		for i := 0; i < ms.Len(); i++ {
			fn := p.Prog.MethodValue(ms.At(i))
			if fn == nil || fn.Blocks == nil || len(fn.Params) != 1 || fn.Signature.Results().Len() == 0 {
				continue
			}
			out = append(out, getter{Type: nt.Obj().Name(), Name: fn.Name(), Fn: fn})
		}
	}
	sort.Slice(out, func(i, j int) bool {
		if out[i].Type != out[j].Type {
			return out[i].Type < out[j].Type
		}
		return out[i].Name < out[j].Name
	})
	return out
}

func recvSlice() bitprov.Slice {
	return bitprov.Slice{Src: "", Lo: bitprov.ConstInt(0), HiLen: true}
}

// getterValue evaluates a getter and returns its distinct non-panicking results (canonical strings).
func getterValue(g getter) []string {
	ev := &bitprov.Eval{Extern: func(e *bitprov.Eval, callee *ssa.Function, args []bitprov.Val) (bitprov.Val, bool) {
		// the NDP option parser: the result is "the options found in this byte range"
		if callee.Name() == "newParseOptions" && len(args) == 1 {
			if sl, ok := args[0].(bitprov.Slice); ok {
				return bitprov.Tuple{F: []bitprov.Val{bitprov.Opaque{Why: "options" + strings.TrimPrefix(bitprov.Str(sl), "p")}, bitprov.Opaque{Why: "err"}}}, true
			}
		}
		return nil, false
	}}
	rets := ev.Run(g.Fn, []bitprov.Val{recvSlice()})
	seen := map[string]bool{}
	var out []string
	for _, r := range rets {
		if r.Panic {
			continue
		}
		s := bitprov.RetString(r)
		if !seen[s] {
			seen[s] = true
			out = append(out, s)
		}
	}
	sort.Strings(out)
	return out
}

// DebugFields prints the computed provenance of every getter.
func DebugFields(p *core.Program, filter string) {
	for _, g := range viewGetters(p) {
		if filter != "" && !strings.Contains(g.Type+"."+g.Name, filter) {
			continue
		}
		fmt.Printf("%s.%s = %s\n", g.Type, g.Name, strings.Join(getterValue(g), "  ||  "))
	}
}

// DebugWrites prints the write log of each path of a function evaluated with opaque arguments.
func DebugWrites(p *core.Program, name string) {
	fn := p.Func("", name)
	if i := strings.Index(name, "."); i > 0 {
		fn = p.Method("", name[:i], name[i+1:])
	}
	if fn == nil {
		fmt.Println("not found")
		return
	}
	args := []bitprov.Val{recvSlice()}
	for i := 1; i < len(fn.Params); i++ {
		args = append(args, bitprov.Opaque{Why: "param " + fn.Params[i].Name()})
	}
	ev := &bitprov.Eval{MaxPaths: 8, Inline: func(f *ssa.Function) bool { return f.Name() != "AppendOptions" }}
	for i, rt := range ev.Run(fn, args) {
		fmt.Printf("path %d: ret=%s panic=%v cond=%s\n", i, bitprov.RetString(rt), rt.Panic, rt.Path)
		for _, w := range rt.Writes {
			fmt.Printf("    %s[%s:%s] <- %s (%s)\n", w.Dst.Src, w.Dst.Lo.String(), w.Dst.Hi.String(), w.Val, w.Kind)
		}
	}
}
