package props

import (
	"fmt"
	"go/token"
	"strings"

	"golang.org/x/tools/go/ssa"

	"pv/core"
	"pv/locks"
)

func init() { register("C19", "other", runC19) }

func isBuiltinCall(i ssa.Instruction, name string) (*ssa.Call, bool) {
	c, ok := i.(*ssa.Call)
	if !ok {
		return nil, false
	}
	b, ok := c.Call.Value.(*ssa.Builtin)
	if !ok || b.Name() != name {
		return nil, false
	}
	return c, true
}

func runC19(c *Ctx) {
	r := c.R
	r.Explanation = "Structural conditions for 'Ping completes exactly on its own echo reply and leaves no waiter behind': (waiter-pairing) from the registration icmpTable.table[id] = &msg every path to a return passes " +
		"delete(icmpTable.table, id); (single-wakeup) close(entry.wakeup) occurs only in echoNotify, under the table lock, and is followed by the delete of that entry before the unlock (so a channel is closed at most once); " +
		"(reply-only) both echoNotify calls in Parse are control dependent on the echo-reply type constant of the matching IP protocol (0 under protocol 1, 129 under protocol 58) and on a nil ICMPEcho.IsValid, with the argument " +
		"EchoID() of that echo; (id-critical-section) the read and increment of the id counter and the registration happen with the table lock held; (result) a nil return is control dependent on msg.msgRecv, which is only " +
		"set by echoNotify. Not decided: timing, wrap-around of the 16-bit id, IPv4/IPv6 id-space sharing."
	r.Rule("waiter-pairing", "registered waiter is removed on every exit; registration precedes the send", 4)
	r.Rule("single-wakeup", "wakeup channel closed once, under the lock, entry deleted before unlock", 2)
	r.Rule("reply-only", "echoNotify only for valid echo replies of the matching protocol, with that reply's id", 2)
	r.Rule("id-critical-section", "id allocation and registration in one critical section", 4)
	r.Rule("result", "nil result iff the reply was received", 3)
	// identifiers of pings in flight stay distinct: the counter only moves forward (handing an identifier back after a
	// failed send re-issues the identifier of a ping that registered in between)
	r.Rule("id-monotone", "the echo identifier counter is only ever incremented", 2)
	for _, fn := range c.P.LibFunctions() {
		if fn.Name() == "init" {
			continue // the initial value of the counter
		}
		kgm := core.NewKeyGen()
		core.EachInstr(fn, func(i ssa.Instruction) {
			st, ok := i.(*ssa.Store)
			if !ok || !strings.HasSuffix(norm(st.Addr), "icmpTable.id") {
				return
			}
			good := false
			if bo, isB := st.Val.(*ssa.BinOp); isB && bo.Op == token.ADD {
				if k, isC := bo.Y.(*ssa.Const); isC && k.Value != nil && k.Int64() > 0 && strings.HasSuffix(norm(bo.X), "icmpTable.id") {
					good = true
				}
			}
			s2 := core.Proved
			if !good {
				s2 = core.Violated
			}
			key := strings.TrimSuffix(kgm.Key("id-monotone "+core.FuncName(fn)), "#0")
			r.Add(core.Obligation{Rule: "id-monotone", Key: key, Func: core.FuncName(fn), Pos: c.P.Pos(core.PosOf(i)), Status: s2,
				Basis: "icmpTable.id = icmpTable.id + positive constant", Detail: "the identifier counter is assigned " + norm(st.Val) + ": an identifier that a pending ping holds can be issued again (its waiter is overwritten, its reply completes the other ping)"})
		})
	}

	fns := c.P.LibFunctions()
	an := locks.Analyse(c.P, fns, isConstructor)
	pingFns := []*ssa.Function{c.A.Method("", "Session", "Ping6"), c.A.Method("", "Session", "ping")}
	isTableDelete := func(i ssa.Instruction) bool {
		call, ok := isBuiltinCall(i, "delete")
		return ok && strings.Contains(norm(call.Call.Args[0]), "icmpTable.table")
	}
	// who may remove a waiter: the reply handler (its own id) and the ping that registered it (its own id). Any other
	// removal - a sweep over the table, a different key - takes away a waiter whose reply may still arrive: that ping
	// then reports a timeout although its reply is parsed in time.
	// the time a ping waits is the effective timeout: every duration or deadline that decides when the wait ends is
	// computed from the timeout after it was normalised (a zero, negative or over-long argument becomes the default), not
	// from the raw argument. A deadline taken from the raw argument expires at once for timeout <= 0: the ping reports a
	// timeout and removes its waiter before the reply, parsed well inside the effective window, arrives.
	r.Rule("wait-effective", "the wait of a ping ends after the normalised timeout, not the raw argument", 2)
	for _, pn := range []struct{ typ, name string }{{"Session", "ping"}, {"Session", "Ping6"}} {
		fn := c.P.Method("", pn.typ, pn.name)
		if fn == nil {
			continue
		}
		var tparam *ssa.Parameter
		for _, p := range fn.Params {
			if p.Type().String() == "time.Duration" {
				tparam = p
			}
		}
		var normalised *ssa.Phi
		core.EachInstr(fn, func(i ssa.Instruction) {
			if ph, ok := i.(*ssa.Phi); ok && tparam != nil {
				hasP, hasC := false, false
				for _, e := range ph.Edges {
					if e == ssa.Value(tparam) {
						hasP = true
					}
					if _, isC := e.(*ssa.Const); isC {
						hasC = true
					}
				}
				if hasP && hasC {
					normalised = ph
				}
			}
		})
		st, det := core.Undecided, "the timeout parameter or its normalisation (a φ of the argument and the default) was not found"
		if tparam != nil {
			st, det = core.Proved, ""
			if normalised == nil {
				st, det = core.Violated, "the timeout argument is not normalised before it decides the wait (no default for a zero, negative or over-long value is merged into it)"
			}
			// wait-ending values: channels received from in a select, and arguments of time.After / NewTimer / Until / Add
			core.EachInstr(fn, func(i ssa.Instruction) {
				var vals []ssa.Value
				switch t := i.(type) {
				case *ssa.Select:
					for _, stt := range t.States {
						vals = append(vals, stt.Chan)
					}
				default:
					return
				}
				for _, v := range vals {
					var stop ssa.Value
					if normalised != nil {
						stop = normalised
					}
					sl := dataSliceStop(fn, v, stop)
					if sl[tparam] {
						st = core.Violated
						det = "the wait at " + c.P.Pos(core.PosOf(i)) + " ends at a time computed from the raw timeout argument (" + norm(v) + "), bypassing its normalisation: with timeout <= 0 it ends at once and a reply parsed inside the effective window finds no waiter"
					}
				}
			})
		}
		r.Add(core.Obligation{Rule: "wait-effective", Key: "wait-effective " + core.FuncName(fn), Func: core.FuncName(fn), Pos: c.P.Pos(fn.Pos()), Status: st,
			Basis: "the select's timer depends on the timeout argument only through its normalisation", Detail: det})
	}
	r.Rule("who-removes", "a waiter entry is removed only by echoNotify(id) and by the ping that registered that id", 3)
	for _, fn := range fns {
		core.EachInstr(fn, func(i ssa.Instruction) {
			if !isTableDelete(i) {
				return
			}
			call, _ := isBuiltinCall(i, "delete")
			key := call.Call.Args[1]
			st := core.Violated
			why := "removal of waiter entries in " + core.FuncName(fn) + " with key " + norm(key)
			switch {
			case fn.Name() == "echoNotify" && len(fn.Params) == 1 && key == ssa.Value(fn.Params[0]):
				st = core.Proved
			case fn.Name() == "ping" || fn.Name() == "Ping6":
				// the key is the id this call registered: the same value used in its MapUpdate
				core.EachInstr(fn, func(j ssa.Instruction) {
					if mu, ok := j.(*ssa.MapUpdate); ok && strings.Contains(norm(mu.Map), "icmpTable.table") && mu.Key == key {
						st = core.Proved
					}
				})
			}
			// a removal inside a loop over the table is a sweep
			if st == core.Proved {
				for _, l := range core.CFG(fn).Loops() {
					if l.Blocks[i.Block()] {
						st = core.Violated
						why = "waiter entries are removed in a loop in " + core.FuncName(fn)
					}
				}
			}
			r.Add(core.Obligation{Rule: "who-removes", Key: "who-removes " + core.FuncName(fn) + " delete(icmpTable.table, " + norm(key) + ")", Func: core.FuncName(fn), Pos: c.P.Pos(core.PosOf(i)), Status: st,
				Basis: "the key is the id of this reply / of this ping's own registration", Detail: why + ": a pending ping can lose its waiter before its reply arrives and report a timeout for a reply that was received"})
		})
	}
	for _, fn := range pingFns {
		if fn == nil {
			continue
		}
		name := core.FuncName(fn)
		fi := an.Info[fn]
		n := 0
		core.EachInstr(fn, func(i ssa.Instruction) {
			switch t := i.(type) {
			case *ssa.MapUpdate:
				if !strings.Contains(norm(t.Map), "icmpTable.table") {
					return
				}
				n++
				ok, exit := mustPass(t, isTableDelete)
				st := core.Proved
				det := ""
				if !ok {
					st = core.Violated
					det = fmt.Sprintf("a path from the registration reaches the return at %s without delete(icmpTable.table, id): the waiter entry stays in the table (leak; a later reply with that id closes a channel nobody waits on)", c.P.Pos(core.PosOf(exit)))
				}
				r.Add(core.Obligation{Rule: "waiter-pairing", Key: "waiter-pairing " + name, Func: name, Pos: c.P.Pos(core.PosOf(t)), Status: st, Detail: det,
					Basis: "every path from the registration to a return passes delete(icmpTable.table, id)", Hint: "delete the entry before returning the send error"})
				held := fi.MustIn[t][locks.Held{Class: "icmpTable.Mutex", Mode: "W"}]
				st2 := core.Proved
				if !held {
					st2 = core.Violated
				}
				r.Add(core.Obligation{Rule: "id-critical-section", Key: "id-critical-section " + name + " registration", Func: name, Pos: c.P.Pos(core.PosOf(t)), Status: st2,
					Basis: "registration with icmpTable lock held", Detail: "waiter registered without the table lock"})
			case *ssa.Store:
				if strings.HasSuffix(norm(t.Addr), "icmpTable.id") {
					held := fi.MustIn[t][locks.Held{Class: "icmpTable.Mutex", Mode: "W"}]
					st := core.Proved
					if !held {
						st = core.Violated
					}
					// the value stored must be the id read in the same critical section + 1
					r.Add(core.Obligation{Rule: "id-critical-section", Key: "id-critical-section " + name + " increment", Func: name, Pos: c.P.Pos(core.PosOf(t)), Status: st,
						Basis: "id incremented with the lock held: " + norm(t.Val), Detail: "id counter written without the table lock"})
				}
			case *ssa.Return:
				if len(t.Results) != 1 {
					return
				}
				if cst, ok := t.Results[0].(*ssa.Const); ok && cst.Value == nil {
					gs := guardsOf(t)
					st := core.Proved
					if !hasGuard(gs, `^[^!].*msgRecv`) {
						st = core.Violated
					}
					r.Add(core.Obligation{Rule: "result", Key: "result " + name + " nil return", Func: name, Pos: c.P.Pos(core.PosOf(t)), Status: st,
						Basis: "nil return control dependent on: " + guardTexts(gs), Detail: "a nil (success) return is not control dependent on msg.msgRecv: " + guardTexts(gs)})
				}
			}
		})
		// the waiter is registered before the request can be answered: the registration dominates the send
		core.EachInstr(fn, func(i ssa.Instruction) {
			mu, ok := i.(*ssa.MapUpdate)
			if !ok || !strings.Contains(norm(mu.Map), "icmpTable.table") {
				return
			}
			for _, s := range callsIn(fn, nameIs("ICMP4SendEchoRequest", "ICMP6SendEchoRequest")) {
				st := core.Proved
				if !core.InstrDominates(i, s.(ssa.Instruction)) {
					st = core.Violated
				}
				r.Add(core.Obligation{Rule: "waiter-pairing", Key: "waiter-pairing " + name + " registers before sending", Func: name, Pos: c.P.Pos(core.PosOf(s.(ssa.Instruction))), Status: st,
					Basis: "table[id] = &msg dominates the echo request", Detail: "the echo request is sent before the waiter is registered: a reply parsed in between finds no waiter and the ping times out although its reply arrived"})
			}
		})
		if n == 0 {
			r.Fatal("%s: waiter registration not found", name)
		}
	}
	// msgRecv is set only in echoNotify; wakeup closed only in echoNotify
	echo := c.A.Func("", "echoNotify")
	for _, fn := range fns {
		core.EachInstr(fn, func(i ssa.Instruction) {
			if st, ok := i.(*ssa.Store); ok && strings.HasSuffix(norm(st.Addr), ".msgRecv") {
				status := core.Proved
				if fn != echo {
					status = core.Violated
				}
				r.Add(core.Obligation{Rule: "result", Key: "result msgRecv set in " + core.FuncName(fn), Func: core.FuncName(fn), Pos: c.P.Pos(core.PosOf(i)), Status: status,
					Basis: "msgRecv is set by echoNotify", Detail: "msgRecv is set outside echoNotify"})
			}
			if call, ok := isBuiltinCall(i, "close"); ok && strings.HasSuffix(norm(call.Call.Args[0]), ".wakeup") {
				status := core.Proved
				det := ""
				if fn != echo {
					status = core.Violated
					det = "the waiter channel is closed outside echoNotify"
				} else {
					fi := an.Info[fn]
					if !fi.MustIn[i][locks.Held{Class: "icmpTable.Mutex", Mode: "W"}] {
						status = core.Violated
						det = "close(entry.wakeup) without the table lock"
					}
					// no path from the close to an unlock/return without the delete
					unl := func(j ssa.Instruction) bool {
						cj, ok := j.(ssa.CallInstruction)
						return ok && strings.HasSuffix(core.CalleeName(cj), ").Unlock")
					}
					var bad bool
					core.EachInstr(fn, func(j ssa.Instruction) {
						if unl(j) && reachesWithout(i, j, isTableDelete) {
							bad = true
						}
					})
					if bad {
						status = core.Violated
						det = "a path from close(entry.wakeup) reaches the unlock without deleting the entry: a second reply with the same id would close the channel again (panic)"
					}
				}
				r.Add(core.Obligation{Rule: "single-wakeup", Key: "single-wakeup close in " + core.FuncName(fn), Func: core.FuncName(fn), Pos: c.P.Pos(core.PosOf(i)), Status: status, Detail: det,
					Basis: "closed under the lock and the entry is deleted before the unlock"})
			}
		})
	}
	if echo != nil {
		r.Add(core.Obligation{Rule: "single-wakeup", Key: "single-wakeup echoNotify analysed", Func: "packet.echoNotify", Status: core.Proved, Basis: "echoNotify found"})
	}
	// reply-only: echoNotify call sites
	parse := c.A.Method("", "Session", "Parse")
	nSites := 0
	for _, fn := range fns {
		for _, site := range callsIn(fn, nameIs("echoNotify")) {
			nSites++
			ins := site.(ssa.Instruction)
			name := core.FuncName(fn)
			if fn != parse {
				r.Add(core.Obligation{Rule: "reply-only", Key: "reply-only echoNotify called from " + name, Func: name, Pos: c.P.Pos(core.PosOf(ins)), Status: core.Violated,
					Detail: "echoNotify is called outside Session.Parse"})
				continue
			}
			gs := guardsOf(ins)
			txt := guardTexts(gs)
			var typ, proto string
			switch {
			case hasGuard(gs, `^\(\(packet\.ICMP\)\.Type\(.*\)==0\)$`):
				typ, proto = "0", "1"
			case hasGuard(gs, `^\(\(packet\.ICMP\)\.Type\(.*\)==129\)$`):
				typ, proto = "129", "58"
			}
			key := fmt.Sprintf("reply-only echoNotify site type=%s", typ)
			st := core.Proved
			var why []string
			if typ == "" {
				st = core.Violated
				why = append(why, "not control dependent on ICMP.Type() == echo-reply constant (0 for ICMPv4, 129 for ICMPv6)")
			} else if !hasGuard(gs, `^\(φ==`+proto+`\)$`) {
				st = core.Violated
				why = append(why, "the echo-reply type "+typ+" is not tested under IP protocol "+proto)
			}
			if !hasGuard(gs, `^\(\(packet\.ICMPEcho\)\.IsValid\(.*\)==nil\)$`) {
				st = core.Violated
				why = append(why, "not control dependent on ICMPEcho.IsValid() == nil")
			}
			args := site.Common().Args
			if len(args) != 1 || !strings.HasPrefix(norm(args[0]), "(packet.ICMPEcho).EchoID(") {
				st = core.Violated
				why = append(why, "argument is not EchoID() of the validated echo: "+norm(args[0]))
			}
			r.Add(core.Obligation{Rule: "reply-only", Key: key, Func: name, Pos: c.P.Pos(core.PosOf(ins)), Status: st, Basis: "guards: " + txt,
				Detail: strings.Join(why, "; ") + " | guards: " + txt})
		}
	}
	_ = token.ADD
	r.Extra["echoNotify_call_sites"] = nSites
}
