package props

import (
	"fmt"
	"go/types"
	"strings"

	"golang.org/x/tools/go/ssa"

	"pv/absint"
	"pv/core"
)

func init() { register("C01", "other", runC01) }

// parseOpaque: callees of Parse whose bodies do not index the packet (host table, logging).
func parseOpaque(fn *ssa.Function) bool {
	if opaqueFastlog(fn) {
		return true
	}
	switch core.FuncName(fn) {
	case "(*packet.Session).findOrCreateHostWithLock", "(*packet.Session).onlineTransition", "packet.echoNotify":
		return true
	}
	return false
}

func runC01(c *Ctx) {
	r := c.R
	r.Explanation = "Static panic-freedom of the decode path. An abstract interpreter over go/ssa (affine forms over byte/length atoms, path-sensitive, " +
		"Fourier-Motzkin entailment) discharges every index/slice/array-conversion/explicit-panic obligation (1) in every view type's IsValid for an arbitrary receiver, " +
		"(2) in every zero-argument getter of every view type under the facts established by a successful IsValid, (3) in Session.Parse for an arbitrary buffer, and " +
		"(4) in every Frame accessor under each nil-error return state of Parse. Slices of the input may not extend past len (views stay inside the frame) and cap() of " +
		"input-derived slices is reported as capacity dependence. Totality: no channel operation, sleep or wait is reachable from Parse and every loop on the path is classified terminating. " +
		"Not decided: the values returned (C02), nil-ness of session state, panics inside external packages."
	r.Assume("the packet buffer is not mutated concurrently during a decode call",
		"len < 2^62 and no modelled affine term overflows int64",
		"go/ssa is faithful to the compiler",
		"external callees not in the modelled table do not panic (each one encountered is listed under interpreter_notes)",
		"Session/handler state pointers are non-nil")
	r.Rule("bounds", "every index/slice/array-conversion/binary.BigEndian access is within bounds on every path (Go run-time panic conditions)", 300)
	r.Rule("capacity", "no cap(), 3-index slice or slice past len on an input-derived slice in decode code", 0)
	r.Rule("panic", "no explicit panic reachable", 0)
	r.Rule("views", "the 24 view types with IsValid are all analysed", 24)
	r.Rule("parse-outcomes", "Parse has nil-error return states that were each used as accessor precondition", 20)
	r.Rule("totality", "no blocking operation reachable from Parse; loops on the Parse path terminate", 1)

	sink := newBoundsSink(c)
	cfg := absint.Config{CapRule: true, DecodeLenCap: true, Opaque: parseOpaque, MaxStates: 1024}
	in := absint.New(c.P, cfg, sink.sink)
	root := c.P.Pkg("")

	// ---- (1)+(2) getter contracts ----
	views := viewTypes(c.P, root)
	getters := 0
	for _, nt := range views {
		name := nt.Obj().Name()
		r.Add(core.Obligation{Rule: "views", Key: "views type " + name, Func: name, Pos: c.P.Pos(nt.Obj().Pos()), Status: core.Proved, Basis: "view type with IsValid analysed"})
		isValid := c.P.Method("", name, "IsValid")
		if isValid == nil {
			c.A.Missing = append(c.A.Missing, name+".IsValid")
			continue
		}
		recv := in.InputSlice("P", true)
		sink.root = "(" + name + ").IsValid"
		outs := in.Exec(isValid, []absint.Value{recv}, nil, absint.NewHeap())
		succ, unknown := successOutcomes(outs)
		if unknown > 0 {
			r.Add(core.Obligation{Rule: "analysis", Key: "analysis IsValid outcome of " + name + " not decidable", Func: name, Status: core.Undecided,
				Detail: fmt.Sprintf("%d outcomes of IsValid return a value whose success the domain cannot decide; getters were still checked under them", unknown)})
		}
		if len(succ) == 0 {
			r.Add(core.Obligation{Rule: "analysis", Key: "analysis IsValid of " + name + " has no success outcome", Func: name, Status: core.Undecided, Detail: "no path returns nil/true"})
		}
		for _, m := range valueMethods(c.P, nt) {
			if m.Name() == "IsValid" || m.Name() == "String" || m.Signature.Params().Len() != 0 {
				continue
			}
			getters++
			sink.root = "(" + name + ")." + m.Name() + " after IsValid"
			for _, o := range succ {
				in.Exec(m, []absint.Value{recv}, nil, o.H.Clone())
			}
		}
	}
	r.Extra["view_types"] = len(views)
	r.Extra["getters_checked"] = getters

	// ---- (3)+(4) Parse and Frame accessors ----
	parse := c.A.Method("", "Session", "Parse")
	if parse != nil {
		p := in.InputSlice("P", true)
		sink.root = "Session.Parse"
		outs := in.Exec(parse, []absint.Value{absint.PtrV{Nil: 2}, p}, nil, absint.NewHeap())
		var okOuts []absint.Outcome
		for _, o := range outs {
			if o.Panicked {
				continue
			}
			tv, ok := o.Ret.(absint.TupleV)
			if !ok || len(tv.F) != 2 {
				r.Fatal("Parse outcome is not a (Frame, error) tuple")
				continue
			}
			if absint.Nilness(tv.F[1]) == 2 {
				continue // error return
			}
			okOuts = append(okOuts, o)
		}
		r.Extra["parse_return_states"] = len(outs)
		r.Extra["parse_nil_error_states"] = len(okOuts)
		frameT := root.Type("Frame")
		var accessors []*ssa.Function
		if frameT != nil {
			for _, m := range valueMethods(c.P, frameT.Type().(*types.Named)) {
				if m.Signature.Params().Len() == 0 && ast_exported(m.Name()) {
					accessors = append(accessors, m)
				}
			}
		}
		r.Extra["frame_accessors"] = len(accessors)
		if len(accessors) < 7 {
			r.Fatal("expected at least 7 exported zero-argument Frame accessors, found %d", len(accessors))
		}
		for i, o := range okOuts {
			tv := o.Ret.(absint.TupleV)
			fr := tv.F[0]
			pid := "?"
			if sv, ok := fr.(absint.StructV); ok && len(sv.F) > 6 {
				if iv, ok := sv.F[6].(absint.IntV); ok {
					pid = iv.L.String()
				}
			}
			r.Add(core.Obligation{Rule: "parse-outcomes", Key: fmt.Sprintf("parse-outcomes state %03d", i), Func: "(*packet.Session).Parse", Status: core.Proved,
				Basis: "nil-error return state; PayloadID=" + pid + "; path: " + strings.Join(lastN(o.Trail, 6), " ; ")})
			for _, m := range accessors {
				sink.root = "Frame." + m.Name() + " after Parse"
				in.Exec(m, []absint.Value{fr}, nil, o.H.Clone())
			}
		}
	}
	noteExternals(c, in)

	// ---- (5) totality: blocking operations and loops reachable from Parse ----
	if parse != nil {
		loopFactsFrom = []*absint.Interp{in}
		checkTotality(c, parse)
	}
}

// reachableRefined is call-graph reachability through module code in which the dynamic call
// inside fastlog.(*Line).Struct is resolved per call site (the FastLog method of the value
// actually passed) instead of by the call graph's global answer for that one invoke site.
func reachableRefined(p *core.Program, roots []*ssa.Function) map[*ssa.Function]bool {
	seen := map[*ssa.Function]bool{}
	var work []*ssa.Function
	push := func(f *ssa.Function) {
		if f != nil && !seen[f] {
			seen[f] = true
			work = append(work, f)
		}
	}
	for _, r := range roots {
		push(r)
	}
	structFn := p.Method("fastlog", "Line", "Struct")
	for len(work) > 0 {
		f := work[len(work)-1]
		work = work[:len(work)-1]
		if !core.InModule(f) || f.Blocks == nil {
			continue
		}
		for _, an := range f.AnonFuncs {
			push(an)
		}
		core.EachInstr(f, func(i ssa.Instruction) {
			site, ok := i.(ssa.CallInstruction)
			if !ok {
				return
			}
			if f == structFn && site.Common().IsInvoke() && site.Common().Method.Name() == "FastLog" {
				return // resolved at the callers of Struct
			}
			if callee := site.Common().StaticCallee(); callee != nil && callee == structFn && len(site.Common().Args) == 2 {
				push(callee)
				if mi, ok := site.Common().Args[1].(*ssa.MakeInterface); ok {
					if m := p.Prog.LookupMethod(mi.X.Type(), nil, "FastLog"); m != nil {
						push(m)
						return
					}
				}
				// value of unknown dynamic type: fall back to the call graph's answer
				for _, cal := range p.Callees(site) {
					push(cal)
				}
				for _, n := range []*ssa.Function{structFn} {
					core.EachInstr(n, func(j ssa.Instruction) {
						if s2, ok := j.(ssa.CallInstruction); ok && s2.Common().IsInvoke() {
							for _, cal := range p.Callees(s2) {
								push(cal)
							}
						}
					})
				}
				return
			}
			for _, cal := range p.Callees(site) {
				push(cal)
			}
		})
	}
	return seen
}

func lastN(s []string, n int) []string {
	if len(s) > n {
		return s[len(s)-n:]
	}
	return s
}

func ast_exported(name string) bool { return name != "" && name[0] >= 'A' && name[0] <= 'Z' }

// checkTotality: no Send/Recv/Select/Sleep/Wait reachable from root through module code
// (logger writes excepted), and every loop in reachable module functions is classified terminating.
func checkTotality(c *Ctx, root *ssa.Function) {
	reach := reachableRefined(c.P, []*ssa.Function{root})
	n := 0
	for fn := range reach {
		if !core.InModule(fn) || fn.Blocks == nil {
			continue
		}
		n++
		core.EachInstr(fn, func(i ssa.Instruction) {
			bad := ""
			switch t := i.(type) {
			case *ssa.Send:
				bad = "channel send"
			case *ssa.Select:
				if t.Blocking {
					bad = "blocking select"
				}
			case *ssa.UnOp:
				if t.Op.String() == "<-" {
					bad = "channel receive"
				}
			case ssa.CallInstruction:
				switch core.CalleeName(t) {
				case "time.Sleep", "(*sync.WaitGroup).Wait", "(*sync.Cond).Wait":
					bad = core.CalleeName(t)
				}
			}
			if bad != "" {
				c.R.Add(core.Obligation{Rule: "totality", Key: "totality blocking " + core.FuncName(fn) + " " + bad, Func: core.FuncName(fn), Pos: c.P.Pos(core.PosOf(i)), Status: core.Violated,
					Detail: bad + " reachable from Session.Parse: Parse may block"})
			}
		})
		for _, l := range core.CFG(fn).Loops() {
			cls, why := classifyLoop(c.P, fn, l)
			st := core.Proved
			if cls == "" {
				st = core.Violated
			}
			c.R.Add(core.Obligation{Rule: "totality", Key: fmt.Sprintf("totality loop %s head=%s", core.FuncName(fn), loopDesc(l)), Func: core.FuncName(fn), Pos: c.P.Pos(core.PosOf(l.Head.Instrs[0])),
				Status: st, Basis: cls + ": " + why, Detail: "loop reachable from Parse not classified terminating: " + why})
		}
	}
	c.R.Add(core.Obligation{Rule: "totality", Key: "totality reachable functions scanned", Func: "-", Status: core.Proved, Basis: fmt.Sprintf("%d module functions reachable from Parse scanned for blocking operations and loops", n)})
}
