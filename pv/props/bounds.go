package props

import (
	"fmt"
	"go/types"
	"sort"
	"strings"

	"golang.org/x/tools/go/ssa"

	"pv/absint"
	"pv/core"
)

// boundsSink converts interpreter findings into report obligations with stable keys.
type boundsSink struct {
	c       *Ctx
	root    string // current root description, part of the key
	ordinal map[ssa.Instruction]int
	normal  map[ssa.Instruction]string
	ruleOf  func(kind string) string
	Count   map[string]int
	filter  func(f absint.Finding) bool // return false to drop a finding (out-of-scope site)
}

func newBoundsSink(c *Ctx) *boundsSink {
	return &boundsSink{c: c, ordinal: map[ssa.Instruction]int{}, normal: map[ssa.Instruction]string{}, Count: map[string]int{}}
}

func kindRule(kind string) string {
	switch kind {
	case "slice-lo", "slice-hi", "slice-lohi", "slice-max", "index", "toarray", "extern-len", "makeslice":
		return "bounds"
	case "div":
		return "div"
	case "typeassert":
		return "typeassert"
	case "panic":
		return "panic"
	case "nil":
		return "nil"
	case "cap":
		return "capacity"
	}
	return "analysis"
}

// siteNormal computes normal forms and ordinals for all instructions of fn (cached).
func (b *boundsSink) siteNormal(site ssa.Instruction) (string, int) {
	if n, ok := b.normal[site]; ok {
		return n, b.ordinal[site]
	}
	fn := site.Parent()
	byForm := map[string][]ssa.Instruction{}
	core.EachInstr(fn, func(i ssa.Instruction) {
		switch i.(type) {
		case *ssa.Slice, *ssa.IndexAddr, *ssa.Index, *ssa.Lookup, *ssa.SliceToArrayPointer, *ssa.Call, *ssa.Panic, *ssa.BinOp,
			*ssa.TypeAssert, *ssa.MakeSlice, *ssa.FieldAddr, *ssa.UnOp, *ssa.Store, *ssa.Go, *ssa.Defer, *ssa.MapUpdate, *ssa.Send:
			f := absint.SiteString(i)
			byForm[f] = append(byForm[f], i)
		}
	})
	for f, list := range byForm {
		sort.SliceStable(list, func(i, j int) bool { return core.PosOf(list[i]) < core.PosOf(list[j]) })
		for k, i := range list {
			b.normal[i] = f
			b.ordinal[i] = k
		}
	}
	if _, ok := b.normal[site]; !ok {
		b.normal[site] = absint.SiteString(site)
	}
	return b.normal[site], b.ordinal[site]
}

func (b *boundsSink) sink(f absint.Finding) {
	if b.filter != nil && !b.filter(f) {
		return
	}
	rule := kindRule(f.Kind)
	fn := f.Site.Parent()
	form, ord := b.siteNormal(f.Site)
	key := fmt.Sprintf("%s root=%s :: %s %s", rule, b.root, core.FuncName(fn), form)
	if rule == "capacity" {
		// the capacity dependence of a getter itself is one construct whatever IsValid state it was analysed under;
		// the same getter reached from another root (Parse, a handler) is a different construct: a new dependence
		own := fn.Signature.Recv() != nil && strings.HasSuffix(b.root, ")."+fn.Name()+" after IsValid") &&
			strings.Contains(core.FuncName(fn), "."+strings.TrimSuffix(strings.TrimPrefix(b.root, "("), ")."+fn.Name()+" after IsValid")+")")
		if own {
			key = fmt.Sprintf("%s %s %s", rule, core.FuncName(fn), form)
		}
	}
	if ord > 0 {
		key += fmt.Sprintf(" #%d", ord)
	}
	if rule == "bounds" {
		key += " [" + f.Kind + "]"
	}
	st := core.Proved
	if f.Undecid {
		st = core.Undecided
	} else if !f.OK {
		st = core.Violated
	}
	det := f.Detail
	if st != core.Proved {
		var stk []string
		for _, s := range f.Stack {
			stk = append(stk, core.FuncName(s))
		}
		det += " | call path: " + strings.Join(stk, " -> ")
		if len(f.Trail) > 0 {
			tr := f.Trail
			if len(tr) > 10 {
				tr = tr[len(tr)-10:]
			}
			det += " | branch trail: " + strings.Join(tr, " ; ")
		}
	}
	b.Count[rule]++
	b.c.R.Add(core.Obligation{Rule: rule, Key: key, Func: core.FuncName(fn), Pos: b.c.P.Pos(core.PosOf(f.Site)), Status: st, Detail: det, Basis: f.Basis})
}

// viewTypes returns the named []byte types of pkg that have an IsValid method, sorted by name.
func viewTypes(p *core.Program, pkg *ssa.Package) []*types.Named {
	var out []*types.Named
	for _, m := range pkg.Members {
		tn, ok := m.(*ssa.Type)
		if !ok {
			continue
		}
		nt, ok := tn.Type().(*types.Named)
		if !ok {
			continue
		}
		sl, ok := nt.Underlying().(*types.Slice)
		if !ok {
			continue
		}
		if b, ok := sl.Elem().Underlying().(*types.Basic); !ok || b.Kind() != types.Uint8 {
			continue
		}
		ms := p.Prog.MethodSets.MethodSet(nt)
		for i := 0; i < ms.Len(); i++ {
			if ms.At(i).Obj().Name() == "IsValid" {
				out = append(out, nt)
				break
			}
		}
	}
	sort.Slice(out, func(i, j int) bool { return out[i].Obj().Name() < out[j].Obj().Name() })
	return out
}

// valueMethods returns the declared methods of named type nt (value receiver method set), sorted.
func valueMethods(p *core.Program, nt *types.Named) []*ssa.Function {
	var out []*ssa.Function
	ms := p.Prog.MethodSets.MethodSet(nt)
	for i := 0; i < ms.Len(); i++ {
		fn := p.Prog.MethodValue(ms.At(i))
		if fn != nil && fn.Blocks != nil && fn.Synthetic == "" {
			out = append(out, fn)
		}
	}
	sort.Slice(out, func(i, j int) bool { return out[i].Name() < out[j].Name() })
	return out
}

// successOutcomes filters IsValid outcomes: error result nil, or bool result true.
func successOutcomes(outs []absint.Outcome) (succ []absint.Outcome, unknown int) {
	for _, o := range outs {
		if o.Panicked {
			continue
		}
		switch r := o.Ret.(type) {
		case absint.IfaceV:
			switch r.Nil {
			case 1:
				succ = append(succ, o)
			case 0:
				unknown++
				succ = append(succ, o)
			}
		case absint.BoolV:
			if r.Kind == absint.BConst {
				if r.Const {
					succ = append(succ, o)
				}
			} else {
				unknown++
				succ = append(succ, o)
			}
		default:
			unknown++
			succ = append(succ, o)
		}
	}
	return
}

// opaqueFastlog treats package fastlog as opaque (its own safety is C20's subject).
func opaqueFastlog(fn *ssa.Function) bool {
	for f := fn; f != nil; f = f.Parent() {
		if f.Pkg != nil {
			return f.Pkg.Pkg.Path() == core.ModPath+"/fastlog"
		}
	}
	return false
}

func noteExternals(c *Ctx, in *absint.Interp) {
	var ext []string
	for k, n := range in.Notes {
		ext = append(ext, fmt.Sprintf("%s (x%d)", k, n))
	}
	sort.Strings(ext)
	prev, _ := c.R.Extra["interpreter_notes"].([]string)
	c.R.Extra["interpreter_notes"] = append(prev, ext...)
}
