package props

import (
	"go/types"

	"golang.org/x/tools/go/ssa"
)

// loopFlag is a boolean that a loop carries from one iteration to the next: a φ at a loop header with a value coming
// round a back edge.
type loopFlag struct {
	Phi      *ssa.Phi
	Monotone bool   // once true it stays true for the rest of the loop
	Why      string // the assignment that can take it back, when not monotone
}

// loopFlags lists the loop-carried booleans of fn and decides for each whether it is monotone: the value coming round
// every back edge is the flag itself, the constant true, a φ of such values, or anything at all on an edge that is
// taken only when the flag is false (the right-hand side of `flag || x`).
func loopFlags(fn *ssa.Function) []loopFlag {
	var out []loopFlag
	for _, b := range fn.Blocks {
		for _, ins := range b.Instrs {
			u, ok := ins.(*ssa.Phi)
			if !ok {
				break
			}
			if bt, ok := u.Type().Underlying().(*types.Basic); !ok || bt.Kind() != types.Bool {
				continue
			}
			carried := false
			lf := loopFlag{Phi: u, Monotone: true}
			for k, p := range b.Preds {
				if !b.Dominates(p) {
					continue
				}
				carried = true
				seen := map[ssa.Value]bool{}
				var mono func(v ssa.Value, from *ssa.BasicBlock) bool
				mono = func(v ssa.Value, from *ssa.BasicBlock) bool {
					if v == u {
						return true
					}
					if cv, isC := constBool(v); isC && cv {
						return true
					}
					// an edge taken only while the flag is false may carry anything
					if len(from.Instrs) > 0 {
						for _, g := range guardsOf(from.Instrs[len(from.Instrs)-1]) {
							if g.Cond == u && !g.Pol {
								return true
							}
						}
					}
					if ph, isP := v.(*ssa.Phi); isP {
						if seen[ph] {
							return true
						}
						seen[ph] = true
						for j, e := range ph.Edges {
							if !mono(e, ph.Block().Preds[j]) {
								return false
							}
						}
						return true
					}
					if lf.Why == "" {
						lf.Why = norm(v)
					}
					return false
				}
				if !mono(u.Edges[k], p) {
					lf.Monotone = false
				}
			}
			if carried {
				out = append(out, lf)
			}
		}
	}
	return out
}
