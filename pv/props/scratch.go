package props

import (
	"fmt"
	"go/types"
	"sort"

	"golang.org/x/tools/go/ssa"

	"pv/core"
)

// Scratch-buffer liveness (C17 decode clause). decodeName writes the decoded name into a caller-supplied
// scratch buffer and returns a slice of it; the next decode into the same scratch overwrites it. A decoded
// name must therefore be consumed (converted to a string, compared, copied) before the scratch is handed to
// another decode. The rule:
//
//   summaries (fixpoint over the module):  a function "views" scratch parameter k when a value derived from a
//   viewing call's result can be returned by it, and "clobbers" parameter k when it passes it (or a local
//   initialised from it) as the scratch of a clobbering call. Base: decodeName views and clobbers *arg2.
//
//   check (every function): for a viewing call c1 and a different clobbering call c2 whose scratch may share
//   the backing array with c1's, no instruction that uses a value derived from c1's result is reachable from
//   c2 on a path that does not pass c1 again.

type scratchSummary struct {
	views    map[int]bool // parameter indexes (including the receiver) whose backing array the result may alias
	clobbers map[int]bool
}

type scratchAnalysis struct {
	c   *Ctx
	sum map[*ssa.Function]*scratchSummary
}

func newScratchAnalysis(c *Ctx) *scratchAnalysis {
	a := &scratchAnalysis{c: c, sum: map[*ssa.Function]*scratchSummary{}}
	if dn := c.P.Func("", "decodeName"); dn != nil && len(dn.Params) >= 3 {
		a.sum[dn] = &scratchSummary{views: map[int]bool{2: true}, clobbers: map[int]bool{2: true}}
	}
	for changed := true; changed; {
		changed = false
		for _, fn := range c.P.LibFunctions() {
			if fn.Name() == "decodeName" && fn.Pkg != nil && fn.Pkg.Pkg.Name() == "packet" {
				continue
			}
			s := a.summarise(fn)
			old := a.sum[fn]
			if s == nil {
				continue
			}
			if old == nil || len(old.views) != len(s.views) || len(old.clobbers) != len(s.clobbers) {
				a.sum[fn] = s
				changed = true
			}
		}
	}
	return a
}

// bases: the underlying storage of a scratch argument. For a pointer to a local slice variable: the values
// stored into it; re-slices, φ and conversions are looked through.
func scratchBases(v ssa.Value, fn *ssa.Function, depth int, out map[ssa.Value]bool) {
	if depth > 8 {
		out[v] = true
		return
	}
	switch t := v.(type) {
	case *ssa.Slice:
		scratchBases(t.X, fn, depth+1, out)
	case *ssa.ChangeType:
		scratchBases(t.X, fn, depth+1, out)
	case *ssa.Convert:
		scratchBases(t.X, fn, depth+1, out)
	case *ssa.Phi:
		for _, e := range t.Edges {
			scratchBases(e, fn, depth+1, out)
		}
	case *ssa.UnOp:
		if al, ok := t.X.(*ssa.Alloc); ok {
			scratchBases(al, fn, depth+1, out)
			return
		}
		out[v] = true
	case *ssa.Alloc:
		if _, isSlice := t.Type().Underlying().(*types.Pointer).Elem().Underlying().(*types.Slice); !isSlice {
			out[v] = true
			return
		}
		n := 0
		core.EachInstr(fn, func(i ssa.Instruction) {
			if st, ok := i.(*ssa.Store); ok && st.Addr == t {
				n++
				scratchBases(st.Val, fn, depth+1, out)
			}
		})
		if n == 0 {
			out[v] = true
		}
	default:
		out[v] = true
	}
}

type scratchCall struct {
	call     ssa.CallInstruction
	views    map[ssa.Value]bool // bases viewed by the result
	clobbers map[ssa.Value]bool
}

func (a *scratchAnalysis) callsOf(fn *ssa.Function) []scratchCall {
	var out []scratchCall
	core.EachInstr(fn, func(i ssa.Instruction) {
		call, ok := i.(ssa.CallInstruction)
		if !ok {
			return
		}
		callee := call.Common().StaticCallee()
		s := a.sum[callee]
		if callee == nil || s == nil {
			return
		}
		sc := scratchCall{call: call, views: map[ssa.Value]bool{}, clobbers: map[ssa.Value]bool{}}
		for k := range s.views {
			if k < len(call.Common().Args) {
				scratchBases(call.Common().Args[k], fn, 0, sc.views)
			}
		}
		for k := range s.clobbers {
			if k < len(call.Common().Args) {
				scratchBases(call.Common().Args[k], fn, 0, sc.clobbers)
			}
		}
		out = append(out, sc)
	})
	return out
}

// derived: values that may alias the result of call (through tuple extraction, fields, re-slices, φ, byte-slice
// conversions, and local variables they are stored into).
func derivedFrom(call ssa.CallInstruction, fn *ssa.Function) map[ssa.Value]bool {
	out := map[ssa.Value]bool{}
	v := call.Value()
	if v == nil {
		return out
	}
	work := []ssa.Value{v}
	out[v] = true
	holders := map[*ssa.Alloc]bool{}
	add := func(x ssa.Value) {
		if !out[x] {
			out[x] = true
			work = append(work, x)
		}
	}
	pointerish := func(t types.Type) bool {
		switch u := t.Underlying().(type) {
		case *types.Slice, *types.Struct, *types.Tuple, *types.Pointer:
			return true
		case *types.Basic:
			return false
		default:
			_ = u
			return false
		}
	}
	for len(work) > 0 {
		x := work[len(work)-1]
		work = work[:len(work)-1]
		refs := x.Referrers()
		if refs == nil {
			continue
		}
		for _, r := range *refs {
			switch t := r.(type) {
			case *ssa.Extract:
				if pointerish(t.Type()) {
					add(t)
				}
			case *ssa.Field:
				if pointerish(t.Type()) {
					add(t)
				}
			case *ssa.Slice:
				add(t)
			case *ssa.ChangeType:
				add(t)
			case *ssa.Phi:
				add(t)
			case *ssa.Convert:
				if _, isSl := t.Type().Underlying().(*types.Slice); isSl {
					add(t)
				}
			case *ssa.Store:
				if t.Val != x {
					continue
				}
				var al *ssa.Alloc
				switch ad := t.Addr.(type) {
				case *ssa.Alloc:
					al = ad
				case *ssa.FieldAddr:
					al, _ = ad.X.(*ssa.Alloc)
				}
				if al != nil && !holders[al] {
					holders[al] = true
					// every load of the holder (whole or a field) after that is derived
					core.EachInstr(fn, func(i ssa.Instruction) {
						u, ok := i.(*ssa.UnOp)
						if !ok {
							return
						}
						switch ad := u.X.(type) {
						case *ssa.Alloc:
							if ad == al && pointerish(u.Type()) {
								add(u)
							}
						case *ssa.FieldAddr:
							if ad.X == al && pointerish(u.Type()) {
								add(u)
							}
						}
					})
				}
			}
		}
	}
	return out
}

func scratchParamIndex(fn *ssa.Function, v ssa.Value) int {
	for i, p := range fn.Params {
		if p == v {
			return i
		}
	}
	return -1
}

func (a *scratchAnalysis) summarise(fn *ssa.Function) *scratchSummary {
	calls := a.callsOf(fn)
	if len(calls) == 0 {
		return nil
	}
	s := &scratchSummary{views: map[int]bool{}, clobbers: map[int]bool{}}
	for _, sc := range calls {
		for b := range sc.clobbers {
			if k := scratchParamIndex(fn, b); k >= 0 {
				s.clobbers[k] = true
			}
		}
		var viewParams []int
		for b := range sc.views {
			if k := scratchParamIndex(fn, b); k >= 0 {
				viewParams = append(viewParams, k)
			}
		}
		if len(viewParams) == 0 {
			continue
		}
		der := derivedFrom(sc.call, fn)
		returned := false
		core.EachInstr(fn, func(i ssa.Instruction) {
			if r, ok := i.(*ssa.Return); ok {
				for _, res := range r.Results {
					if der[res] {
						returned = true
					}
				}
			}
		})
		if returned {
			for _, k := range viewParams {
				s.views[k] = true
			}
		}
	}
	if len(s.views) == 0 && len(s.clobbers) == 0 {
		return nil
	}
	return s
}

type scratchFinding struct {
	Fn       *ssa.Function
	View     ssa.CallInstruction
	Clobber  ssa.CallInstruction
	Use      ssa.Instruction // nil when the pair is clean
	UseCount int
}

// check returns one record per (viewing call, clobbering call) pair that may share a scratch buffer.
func (a *scratchAnalysis) check() []scratchFinding {
	var out []scratchFinding
	for _, fn := range a.c.P.LibFunctions() {
		calls := a.callsOf(fn)
		for _, c1 := range calls {
			if len(c1.views) == 0 {
				continue
			}
			der := derivedFrom(c1.call, fn)
			for _, c2 := range calls {
				if c2.call == c1.call || len(c2.clobbers) == 0 {
					continue
				}
				share := false
				for b := range c1.views {
					if c2.clobbers[b] {
						share = true
					}
				}
				if !share {
					continue
				}
				i1, i2 := c1.call.(ssa.Instruction), c2.call.(ssa.Instruction)
				// c2 must be reachable from c1 (without re-executing c1)
				if !reachesWithout(i1, i2, func(x ssa.Instruction) bool { return x == i1 }) {
					continue
				}
				f := scratchFinding{Fn: fn, View: c1.call, Clobber: c2.call}
				var uses []ssa.Instruction
				for v := range der {
					refs := v.Referrers()
					if refs == nil {
						continue
					}
					for _, u := range *refs {
						if u == i1 || u == i2 {
							continue
						}
						if _, isDbg := u.(*ssa.DebugRef); isDbg {
							continue
						}
						if uv, isV := u.(ssa.Value); isV && der[uv] {
							// pure propagation (extract/field/φ/slice) is not a use by itself
							switch u.(type) {
							case *ssa.Extract, *ssa.Field, *ssa.Phi, *ssa.ChangeType:
								continue
							}
						}
						if reachesWithout(i2, u, func(x ssa.Instruction) bool { return x == i1 }) {
							uses = append(uses, u)
						}
					}
				}
				sort.Slice(uses, func(i, j int) bool { return core.PosOf(uses[i]) < core.PosOf(uses[j]) })
				if len(uses) > 0 {
					f.Use = uses[0]
					f.UseCount = len(uses)
				}
				out = append(out, f)
			}
		}
	}
	return out
}

func (a *scratchAnalysis) describe() []string {
	var out []string
	for fn, s := range a.sum {
		var v, cl []int
		for k := range s.views {
			v = append(v, k)
		}
		for k := range s.clobbers {
			cl = append(cl, k)
		}
		sort.Ints(v)
		sort.Ints(cl)
		out = append(out, fmt.Sprintf("%s views=%v clobbers=%v", core.FuncName(fn), v, cl))
	}
	sort.Strings(out)
	return out
}
