package props

import (
	"fmt"
	"go/token"
	"go/types"
	"sort"
	"strings"

	"golang.org/x/tools/go/ssa"

	"pv/absint"
	"pv/core"
)

func init() { register("C16", "other", runC16) }

// ---------- must-alias: a value is a view (re-slice) of a given root value ----------

type viewChecker struct {
	p *core.Program
	// retView[fn] = parameter index the function's slice result is always a view of (or -1)
	retView    map[*ssa.Function]int
	busy       map[*ssa.Function]bool
	inProgress map[string]bool
}

// viewOf reports whether v is root, nil, or obtained from root only by re-slicing / slice conversions.
func (vc *viewChecker) viewOf(v, root ssa.Value, depth int) (bool, string) {
	if depth > 12 {
		return false, "provenance chain too deep"
	}
	if v == root {
		return true, ""
	}
	switch t := v.(type) {
	case *ssa.Const:
		if t.Value == nil {
			return true, "" // nil
		}
		return false, "constant"
	case *ssa.Slice:
		return vc.viewOf(t.X, root, depth+1)
	case *ssa.ChangeType:
		return vc.viewOf(t.X, root, depth+1)
	case *ssa.Convert:
		if _, ok := t.Type().Underlying().(*types.Slice); ok {
			if _, ok := t.X.Type().Underlying().(*types.Slice); ok {
				return vc.viewOf(t.X, root, depth+1)
			}
		}
		return false, "conversion that copies (" + t.X.Type().String() + " -> " + t.Type().String() + ")"
	case *ssa.Phi:
		for _, e := range t.Edges {
			if ok, why := vc.viewOf(e, root, depth+1); !ok {
				return false, why
			}
		}
		return true, ""
	case *ssa.Call:
		callee := t.Call.StaticCallee()
		if callee == nil || !core.InModule(callee) {
			return false, "result of " + core.CalleeName(t) + " (not a re-slice)"
		}
		idx := vc.returnsViewOfParam(callee)
		if idx < 0 || idx >= len(t.Call.Args) {
			return false, "result of " + core.FuncName(callee) + ", which does not always return a view of one of its arguments"
		}
		return vc.viewOf(t.Call.Args[idx], root, depth+1)
	case *ssa.UnOp:
		if t.Op == token.MUL {
			// load of a local struct field: all stores to that field must be views of root
			if fa, ok := t.X.(*ssa.FieldAddr); ok {
				if al, ok := fa.X.(*ssa.Alloc); ok {
					return vc.fieldStoresAreViews(al, []int{fa.Field}, root, depth+1)
				}
			}
		}
		return false, "loaded from memory"
	case *ssa.Field:
		// field of a struct value loaded from a local alloc
		if ld, ok := t.X.(*ssa.UnOp); ok && ld.Op == token.MUL {
			if al, ok := ld.X.(*ssa.Alloc); ok {
				return vc.fieldStoresAreViews(al, []int{t.Field}, root, depth+1)
			}
		}
		return false, "field of a value of unknown provenance"
	}
	return false, fmt.Sprintf("%T is not a re-slice", v)
}

// fieldStoresAreViews: every store to alloc.field[path] stores a view of root (or the zero value).
func (vc *viewChecker) fieldStoresAreViews(al *ssa.Alloc, path []int, root ssa.Value, depth int) (bool, string) {
	// a field that is re-sliced from itself (frame.ether = frame.ether[:n]) refers back to its own stores: assume the
	// field is a view while its stores are being checked (the claim is inductive over the stores)
	key := fmt.Sprintf("%p%v", al, path)
	if vc.inProgress == nil {
		vc.inProgress = map[string]bool{}
	}
	if vc.inProgress[key] {
		return true, ""
	}
	vc.inProgress[key] = true
	defer delete(vc.inProgress, key)
	n := 0
	var bad string
	var visit func(addr ssa.Value, rest []int)
	visit = func(addr ssa.Value, rest []int) {
		refs := addr.Referrers()
		if refs == nil {
			return
		}
		for _, r := range *refs {
			switch t := r.(type) {
			case *ssa.FieldAddr:
				if len(rest) > 0 && t.Field == rest[0] {
					visit(t, rest[1:])
				}
			case *ssa.Store:
				if t.Addr == addr && len(rest) == 0 {
					n++
					if ok, why := vc.viewOf(t.Val, root, depth+1); !ok {
						bad = why
					}
				}
				if t.Addr == addr && len(rest) > 0 {
					// whole-struct store: accept only the zero value
					selfCopy := false
					if ld, ok := t.Val.(*ssa.UnOp); ok && ld.Op == token.MUL && ld.X == ssa.Value(al) {
						selfCopy = true // `return frame, nil` with a named result copies the variable onto itself
					}
					if !selfCopy && !isZeroStruct(t.Val) {
						bad = "whole-struct store over the field"
					}
				}
			}
		}
	}
	visit(al, path)
	if bad != "" {
		return false, bad
	}
	if n == 0 {
		return false, "no store to the field found"
	}
	return true, ""
}

// isZeroStruct: a nil constant, or a load of a composite-literal temporary that is never written (Frame{}).
func isZeroStruct(v ssa.Value) bool {
	if c, ok := v.(*ssa.Const); ok {
		return c.Value == nil
	}
	if ld, ok := v.(*ssa.UnOp); ok && ld.Op == token.MUL {
		if al, ok := ld.X.(*ssa.Alloc); ok {
			if al.Referrers() == nil {
				return true
			}
			for _, r := range *al.Referrers() {
				switch r.(type) {
				case *ssa.UnOp, *ssa.DebugRef:
				default:
					return false
				}
			}
			return true
		}
	}
	return false
}

// returnsViewOfParam: index of the parameter that every slice-typed return value of fn is a view of (-1 if none).
func (vc *viewChecker) returnsViewOfParam(fn *ssa.Function) int {
	if v, ok := vc.retView[fn]; ok {
		return v
	}
	if vc.busy[fn] || fn.Blocks == nil {
		return -1
	}
	vc.busy[fn] = true
	defer delete(vc.busy, fn)
	res := -1
	for pi, p := range fn.Params {
		if _, ok := p.Type().Underlying().(*types.Slice); !ok {
			continue
		}
		all := true
		any := false
		core.EachInstr(fn, func(i ssa.Instruction) {
			if r, ok := i.(*ssa.Return); ok && len(r.Results) >= 1 {
				any = true
				if ok, _ := vc.viewOf(r.Results[0], p, 0); !ok {
					all = false
				}
			}
		})
		if all && any {
			res = pi
			break
		}
	}
	vc.retView[fn] = res
	return res
}

// ---------- potential allocation sites ----------

var nonAllocating = map[string]string{
	"time.Now":                                         "returns a value",
	"bytes.Equal":                                      "compares",
	"sync/atomic.StoreUint32":                          "atomic",
	"sync/atomic.LoadUint32":                           "atomic",
	"(*sync.RWMutex).RLock":                            "lock",
	"(*sync.RWMutex).RUnlock":                          "lock",
	"(*sync.RWMutex).Lock":                             "lock",
	"(*sync.RWMutex).Unlock":                           "lock",
	"(*sync.Mutex).Lock":                               "lock",
	"(*sync.Mutex).Unlock":                             "lock",
	"net/netip.AddrFrom4":                              "value type",
	"net/netip.AddrFrom16":                             "value type (unique handle of the zone-less detail is preallocated)",
	"(net/netip.Prefix).Contains":                      "value method",
	"(net/netip.Addr).IsLinkLocalUnicast":              "value method",
	"(net/netip.Addr).IsGlobalUnicast":                 "value method",
	"(net/netip.Addr).Is4":                             "value method",
	"(net/netip.Addr).Is6":                             "value method",
	"(net/netip.Addr).IsValid":                         "value method",
	"(encoding/binary.bigEndian).Uint16":               "reads",
	"(encoding/binary.bigEndian).Uint32":               "reads",
	"(*github.com/irai/packet/fastlog.Logger).IsInfo":  "atomic load",
	"(*github.com/irai/packet/fastlog.Logger).IsDebug": "atomic load",
}

type allocScan struct {
	c       *Ctx
	visited map[*ssa.Function]bool
	sites   int
}

// errorRegion: blocks from which every path ends in a return whose last result is a non-nil error.
func errorRegion(fn *ssa.Function) map[*ssa.BasicBlock]bool {
	res := map[*ssa.BasicBlock]bool{}
	sig := fn.Signature
	if sig.Results().Len() == 0 {
		return res
	}
	last := sig.Results().Len() - 1
	if !types.Identical(sig.Results().At(last).Type(), types.Universe.Lookup("error").Type()) {
		return res
	}
	isErrRet := func(b *ssa.BasicBlock) bool {
		r, ok := b.Instrs[len(b.Instrs)-1].(*ssa.Return)
		if !ok {
			return false
		}
		v := r.Results[last]
		if c, ok := v.(*ssa.Const); ok && c.Value == nil {
			return false
		}
		// a φ or variable may be nil: only accept values that are provably non-nil: calls to fmt.Errorf/errors.New, loads of sentinel globals, MakeInterface
		switch t := v.(type) {
		case *ssa.Call:
			n := core.CalleeName(t)
			return n == "fmt.Errorf" || n == "errors.New"
		case *ssa.UnOp:
			_, isGlobal := t.X.(*ssa.Global)
			return isGlobal
		case *ssa.MakeInterface:
			return true
		case *ssa.Extract, *ssa.Phi, *ssa.Parameter:
			// `return frame, err` inside `if err := x.IsValid(); err != nil`: the value was tested non-nil by the dominating branch
			return dominatedByNonNilTest(b, v)
		}
		return false
	}
	// backward closure: a block is in the region if it is an error return or all its successors are in the region
	changed := true
	for _, b := range fn.Blocks {
		if isErrRet(b) {
			res[b] = true
		}
	}
	for changed {
		changed = false
		for _, b := range fn.Blocks {
			if res[b] || len(b.Succs) == 0 {
				continue
			}
			all := true
			for _, s := range b.Succs {
				if !res[s] {
					all = false
				}
			}
			if all {
				res[b] = true
				changed = true
			}
		}
	}
	return res
}

func dominatedByNonNilTest(b *ssa.BasicBlock, v ssa.Value) bool {
	for d := b; d != nil; d = d.Idom() {
		id := d.Idom()
		if id == nil {
			break
		}
		if iff, ok := id.Instrs[len(id.Instrs)-1].(*ssa.If); ok {
			if cmp, ok := iff.Cond.(*ssa.BinOp); ok && cmp.Op == token.NEQ && cmp.X == v {
				if c, ok := cmp.Y.(*ssa.Const); ok && c.Value == nil && id.Succs[0] == d {
					return true
				}
			}
		}
	}
	return false
}

// scan reports potential allocation instructions in fn outside the excluded blocks, following static module callees.
func (a *allocScan) scan(fn *ssa.Function, excluded map[*ssa.BasicBlock]bool, ctx string, depth int) {
	if fn == nil || fn.Blocks == nil || depth > 6 {
		return
	}
	key := fn
	if a.visited[key] && excluded == nil {
		return
	}
	if excluded == nil {
		a.visited[key] = true
	}
	errReg := errorRegion(fn)
	report := func(i ssa.Instruction, what string) {
		a.c.R.Add(core.Obligation{Rule: "alloc-free", Key: fmt.Sprintf("alloc-free %s %s %s", core.FuncName(fn), what, absint.SiteString(i)), Func: core.FuncName(fn),
			Pos: a.c.P.Pos(core.PosOf(i)), Status: core.Violated,
			Detail: fmt.Sprintf("potential heap allocation (%s) on the steady-state path of Parse (reached via %s)", what, ctx)})
	}
	for _, b := range fn.Blocks {
		if errReg[b] || (excluded != nil && excluded[b]) || loggingGuarded(b) {
			continue
		}
		for _, ins := range b.Instrs {
			a.sites++
			switch t := ins.(type) {
			case *ssa.Alloc:
				if t.Heap {
					report(t, "escaping variable / new")
				}
			case *ssa.MakeSlice:
				report(t, "make slice")
			case *ssa.MakeMap:
				report(t, "make map")
			case *ssa.MakeChan:
				report(t, "make chan")
			case *ssa.MapUpdate:
				// the first insert allocates the bucket array (a map made with no size hint has none), a later one may grow it
				report(t, "map insert may allocate or grow buckets")
			case *ssa.MakeClosure:
				if len(t.Bindings) > 0 {
					report(t, "closure")
				}
			case *ssa.MakeInterface:
				if _, isConst := t.X.(*ssa.Const); isConst {
					continue
				}
				switch t.X.Type().Underlying().(type) {
				case *types.Pointer, *types.Map, *types.Chan, *types.Signature:
					continue // pointer-shaped: no boxing allocation
				}
				report(t, "boxing a non-pointer value into an interface")
			case *ssa.Convert:
				st, dt := t.X.Type(), t.Type()
				if (isStr(st) && isByteSl(dt)) || (isByteSl(st) && isStr(dt)) {
					report(t, "string/[]byte conversion")
				}
			case *ssa.BinOp:
				if t.Op == token.ADD && isStr(t.Type()) {
					report(t, "string concatenation")
				}
			case *ssa.Go:
				report(t, "goroutine")
			case *ssa.Defer:
				// open-coded defers do not allocate; deferred closures capturing variables might
				if _, ok := t.Call.Value.(*ssa.MakeClosure); ok {
					report(t, "deferred closure")
				}
			case *ssa.Call:
				if bi, ok := t.Call.Value.(*ssa.Builtin); ok {
					if bi.Name() == "append" {
						report(t, "append may grow")
					}
					continue
				}
				callee := t.Call.StaticCallee()
				if callee == nil {
					report(t, "dynamic call (callee unknown)")
					continue
				}
				name := core.CalleeName(t)
				if _, ok := nonAllocating[name]; ok {
					continue
				}
				if core.InModule(callee) && callee.Blocks != nil {
					excl := fastPathExclusions(a.c, callee)
					a.scan(callee, excl, ctx+" -> "+core.FuncName(callee), depth+1)
					continue
				}
				report(t, "call to "+name+" (not on the non-allocating table)")
			}
		}
	}
}

func isStr(t types.Type) bool {
	b, ok := t.Underlying().(*types.Basic)
	return ok && b.Info()&types.IsString != 0
}
func isByteSl(t types.Type) bool {
	s, ok := t.Underlying().(*types.Slice)
	if !ok {
		return false
	}
	b, ok := s.Elem().Underlying().(*types.Basic)
	return ok && b.Kind() == types.Uint8
}

// loggingGuarded: block is control dependent on Logger.IsInfo()/IsDebug() being true.
func loggingGuarded(b *ssa.BasicBlock) bool {
	cfg := core.CFG(b.Parent())
	for _, d := range cfg.TransitiveControlDeps(b) {
		iff, ok := d.Branch.Instrs[len(d.Branch.Instrs)-1].(*ssa.If)
		if !ok || d.Succ != 0 {
			continue
		}
		if call, ok := iff.Cond.(*ssa.Call); ok {
			n := core.CalleeName(call)
			// debug logging is off unless asked for; Info is the library's default level, so a line logged under
			// IsInfo() on the tracked-host path runs (and allocates) in steady state
			if strings.HasSuffix(n, "fastlog.Logger).IsDebug") {
				return true
			}
		}
	}
	return false
}

// fastPathExclusions: for the host-table callees of Parse, the blocks that are not on the
// tracked-host path. findOrCreateHostWithLock: everything not on a path to the `return host, true`
// of the read-locked lookup; onlineTransition: everything (it runs only for hosts that are not online yet).
func fastPathExclusions(c *Ctx, fn *ssa.Function) map[*ssa.BasicBlock]bool {
	switch core.FuncName(fn) {
	case "(*packet.Session).onlineTransition":
		// body after the `if host.Online { return }` early exit is the transition itself
		excl := map[*ssa.BasicBlock]bool{}
		for _, b := range fn.Blocks {
			if b.Index != 0 {
				// keep only the early return block
				if _, isRet := b.Instrs[len(b.Instrs)-1].(*ssa.Return); isRet && len(b.Instrs) <= 2 && b.Preds != nil && len(b.Preds) == 1 && b.Preds[0].Index == 0 {
					continue
				}
				excl[b] = true
			}
		}
		return excl
	case "(*packet.Session).findOrCreateHostWithLock":
		// slow path = everything from the acquisition of the session *write* lock onwards
		// (the read-locked lookup that precedes it is the tracked-host fast path)
		var lockBlocks []*ssa.BasicBlock
		for _, b := range fn.Blocks {
			for _, ins := range b.Instrs {
				if call, ok := ins.(*ssa.Call); ok && core.CalleeName(call) == "(*sync.RWMutex).Lock" && len(call.Call.Args) == 1 {
					// the session's own lock (Session.mutex), not the row lock taken on the fast path
					if fa, isFA := call.Call.Args[0].(*ssa.FieldAddr); isFA && fa.X == fn.Params[0] {
						lockBlocks = append(lockBlocks, b)
					}
				}
			}
		}
		excl := map[*ssa.BasicBlock]bool{}
		for _, b := range fn.Blocks {
			for _, lb := range lockBlocks {
				if b == lb || lb.Dominates(b) {
					excl[b] = true
				}
			}
		}
		if len(lockBlocks) == 0 {
			c.R.Fatal("findOrCreateHostWithLock: write-lock acquisition not found; cannot separate the fast path")
		}
		// the fast path that remains must contain the tracked-host return
		fast := false
		for _, b := range fn.Blocks {
			if excl[b] {
				continue
			}
			if _, ok := b.Instrs[len(b.Instrs)-1].(*ssa.Return); ok && b != fn.Recover {
				fast = true
			}
		}
		if !fast {
			c.R.Fatal("findOrCreateHostWithLock: no return outside the slow path; the fast path was not identified")
		}
		return excl
	}
	return nil
}

func runC16(c *Ctx) {
	r := c.R
	r.Explanation = "Two structural clauses of C16. (1) Must-alias: Frame.ether is assigned only the Parse parameter itself; every Frame accessor returns nil or a re-slice of Frame.ether; " +
		"SrcAddr.MAC/DstAddr.MAC are re-slices of the parameter (backward provenance through Slice/ChangeType/slice conversions, φ with all arms views, and module callees that always return a view of a parameter). " +
		"Together with C01's bounds proofs (no view extends past len) every view aliases the caller's buffer at the decoded offsets. " +
		"(2) Allocation sites: no potential heap-allocation instruction (escaping variable, make, closure, boxing, string conversion/concatenation, growing append, go, non-whitelisted callee) lies on the paths of Parse " +
		"outside error-return regions, logging-guarded regions and the host-table slow path (blocks of findOrCreateHostWithLock that cannot reach its `return host, true`, and onlineTransition beyond its early return). " +
		"Not decided: the compiler's actual escape decisions (testing.AllocsPerRun)."
	r.Assume("the compiler does not introduce allocations for non-escaping locals and open-coded defers", "callees on the non-allocating table do not allocate (table in the evidence)")
	r.Rule("must-alias", "views returned by Parse and the Frame accessors are re-slices of the input buffer", 9)
	r.Rule("alloc-free", "no potential allocation site on the tracked-host success path of Parse", 1)

	parse := c.A.Method("", "Session", "Parse")
	if parse == nil || len(parse.Params) != 2 {
		return
	}
	p := parse.Params[1]
	vc := &viewChecker{p: c.P, retView: map[*ssa.Function]int{}, busy: map[*ssa.Function]bool{}}
	// the named result `frame` is a local alloc
	var frameAlloc *ssa.Alloc
	core.EachInstr(parse, func(i ssa.Instruction) {
		if al, ok := i.(*ssa.Alloc); ok && al.Comment == "frame" {
			frameAlloc = al
		}
	})
	if frameAlloc == nil {
		r.Fatal("Parse: local `frame` not found")
		return
	}
	frameT := frameAlloc.Type().Underlying().(*types.Pointer).Elem().Underlying().(*types.Struct)
	fieldIdx := func(st *types.Struct, name string) int {
		for i := 0; i < st.NumFields(); i++ {
			if st.Field(i).Name() == name {
				return i
			}
		}
		return -1
	}
	check := func(desc string, path []int) {
		ok, why := vc.fieldStoresAreViews(frameAlloc, path, p, 0)
		st := core.Proved
		if !ok {
			st = core.Violated
		}
		r.Add(core.Obligation{Rule: "must-alias", Key: "must-alias Parse " + desc, Func: "(*packet.Session).Parse", Pos: c.P.Pos(parse.Pos()), Status: st,
			Basis: "every store to " + desc + " is the parameter or a re-slice of it", Detail: desc + " is not always a re-slice of the input buffer: " + why})
	}
	ei := fieldIdx(frameT, "ether")
	check("frame.ether", []int{ei})
	for _, an := range []string{"SrcAddr", "DstAddr"} {
		ai := fieldIdx(frameT, an)
		if ai < 0 {
			r.Fatal("Frame.%s not found", an)
			continue
		}
		at := frameT.Field(ai).Type().Underlying().(*types.Struct)
		mi := fieldIdx(at, "MAC")
		// the MAC is stored as a view of frame.ether (itself the parameter): accept views of the loaded ether
		ok, why := vc.fieldStoresAreViewsOfEther(frameAlloc, []int{ai, mi}, ei, p)
		st := core.Proved
		if !ok {
			st = core.Violated
		}
		r.Add(core.Obligation{Rule: "must-alias", Key: "must-alias Parse frame." + an + ".MAC", Func: "(*packet.Session).Parse", Pos: c.P.Pos(parse.Pos()), Status: st,
			Basis: "every store is a re-slice of frame.ether", Detail: "frame." + an + ".MAC is not always a re-slice of the input buffer: " + why})
	}
	// accessors
	ft := c.P.Pkg("").Type("Frame")
	if ft != nil {
		for _, m := range valueMethods(c.P, ft.Type().(*types.Named)) {
			if m.Signature.Params().Len() != 0 || m.Signature.Results().Len() != 1 {
				continue
			}
			if _, ok := m.Signature.Results().At(0).Type().Underlying().(*types.Slice); !ok {
				continue
			}
			recv := m.Params[0]
			all := true
			why := ""
			core.EachInstr(m, func(i ssa.Instruction) {
				if ret, ok := i.(*ssa.Return); ok {
					if ok2, w := vc.viewOfField(ret.Results[0], recv, ei); !ok2 {
						all = false
						why = w
					}
				}
			})
			st := core.Proved
			if !all {
				st = core.Violated
			}
			r.Add(core.Obligation{Rule: "must-alias", Key: "must-alias accessor (Frame)." + m.Name(), Func: core.FuncName(m), Pos: c.P.Pos(m.Pos()), Status: st,
				Basis: "returns nil or a re-slice of f.ether", Detail: "accessor result is not always a re-slice of f.ether: " + why})
		}
	}

	// allocation sites
	as := &allocScan{c: c, visited: map[*ssa.Function]bool{}}
	as.scan(parse, nil, "Parse", 0)
	r.Add(core.Obligation{Rule: "alloc-free", Key: "alloc-free instructions scanned", Func: "(*packet.Session).Parse", Status: core.Proved,
		Basis: fmt.Sprintf("%d instructions on the steady-state paths of Parse and its module callees scanned for potential allocation", as.sites)})
	var tab []string
	for k, v := range nonAllocating {
		tab = append(tab, k+": "+v)
	}
	sort.Strings(tab)
	r.Extra["non_allocating_table"] = tab
}

// fieldStoresAreViewsOfEther: stores to frame.<path> are re-slices of a load of frame.ether (or of the parameter).
func (vc *viewChecker) fieldStoresAreViewsOfEther(al *ssa.Alloc, path []int, etherField int, param ssa.Value) (bool, string) {
	n := 0
	bad := ""
	var visit func(addr ssa.Value, rest []int)
	visit = func(addr ssa.Value, rest []int) {
		if addr.Referrers() == nil {
			return
		}
		for _, r := range *addr.Referrers() {
			switch t := r.(type) {
			case *ssa.FieldAddr:
				if len(rest) > 0 && t.Field == rest[0] {
					visit(t, rest[1:])
				}
			case *ssa.Store:
				if t.Addr == addr && len(rest) == 0 {
					n++
					if ok, why := vc.viewOfEtherLoad(t.Val, al, etherField, param, 0); !ok {
						bad = why
					}
				}
			}
		}
	}
	visit(al, path)
	if bad != "" {
		return false, bad
	}
	if n == 0 {
		return false, "no store found"
	}
	return true, ""
}

func (vc *viewChecker) viewOfEtherLoad(v ssa.Value, al *ssa.Alloc, etherField int, param ssa.Value, depth int) (bool, string) {
	if depth > 10 {
		return false, "too deep"
	}
	if v == param {
		return true, ""
	}
	switch t := v.(type) {
	case *ssa.UnOp:
		if fa, ok := t.X.(*ssa.FieldAddr); ok && fa.X == ssa.Value(al) && fa.Field == etherField {
			return true, ""
		}
	case *ssa.Slice:
		return vc.viewOfEtherLoad(t.X, al, etherField, param, depth+1)
	case *ssa.ChangeType:
		return vc.viewOfEtherLoad(t.X, al, etherField, param, depth+1)
	case *ssa.Convert:
		if _, ok := t.Type().Underlying().(*types.Slice); ok {
			return vc.viewOfEtherLoad(t.X, al, etherField, param, depth+1)
		}
	case *ssa.Call:
		callee := t.Call.StaticCallee()
		if callee != nil && core.InModule(callee) {
			if idx := vc.returnsViewOfParam(callee); idx >= 0 && idx < len(t.Call.Args) {
				return vc.viewOfEtherLoad(t.Call.Args[idx], al, etherField, param, depth+1)
			}
			return false, "result of " + core.FuncName(callee) + ", which does not always return a view of an argument"
		}
	}
	return false, fmt.Sprintf("%T is not a re-slice of frame.ether", v)
}

// viewOfField: v is nil or a re-slice of recv.<field etherField> (recv is a struct value parameter).
func (vc *viewChecker) viewOfField(v ssa.Value, recv *ssa.Parameter, etherField int) (bool, string) {
	switch t := v.(type) {
	case *ssa.Const:
		if t.Value == nil {
			return true, ""
		}
	case *ssa.Slice:
		return vc.viewOfField(t.X, recv, etherField)
	case *ssa.ChangeType:
		return vc.viewOfField(t.X, recv, etherField)
	case *ssa.Convert:
		if _, ok := t.Type().Underlying().(*types.Slice); ok {
			return vc.viewOfField(t.X, recv, etherField)
		}
	case *ssa.Phi:
		for _, e := range t.Edges {
			if ok, why := vc.viewOfField(e, recv, etherField); !ok {
				return false, why
			}
		}
		return true, ""
	case *ssa.Field:
		if t.X == ssa.Value(recv) && t.Field == etherField {
			return true, ""
		}
	case *ssa.UnOp:
		// value receivers are spilled to a local: *(&f.ether)
		if fa, ok := t.X.(*ssa.FieldAddr); ok && fa.Field == etherField {
			if al, ok := fa.X.(*ssa.Alloc); ok {
				// the alloc must be initialised from the receiver parameter only
				okInit := true
				if al.Referrers() != nil {
					for _, r := range *al.Referrers() {
						if st, ok := r.(*ssa.Store); ok && st.Addr == ssa.Value(al) && st.Val != ssa.Value(recv) {
							okInit = false
						}
					}
				}
				if okInit {
					return true, ""
				}
			}
		}
	}
	return false, fmt.Sprintf("%T is not a re-slice of f.ether", v)
}
