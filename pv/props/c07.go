package props

import (
	"fmt"
	"go/constant"
	"go/token"
	"go/types"
	"net/netip"
	"regexp"
	"sort"
	"strings"

	"golang.org/x/tools/go/ssa"

	"pv/absint"
	"pv/core"
)

func init() { register("C07", "other", runC07) }

// ---------- constant evaluation of package-level byte literals ----------

type constEval struct {
	p *core.Program
}

func (ce *constEval) arrayBytes(al *ssa.Alloc) ([]byte, bool) {
	at, ok := al.Type().Underlying().(*types.Pointer).Elem().Underlying().(*types.Array)
	if !ok {
		return nil, false
	}
	out := make([]byte, at.Len())
	if al.Referrers() == nil {
		return out, true
	}
	for _, r := range *al.Referrers() {
		ia, ok := r.(*ssa.IndexAddr)
		if !ok {
			continue
		}
		idx, ok := ia.Index.(*ssa.Const)
		if !ok || ia.Referrers() == nil {
			return nil, false
		}
		i, _ := constant.Int64Val(idx.Value)
		for _, rr := range *ia.Referrers() {
			if st, ok := rr.(*ssa.Store); ok && st.Addr == ssa.Value(ia) {
				c, ok := st.Val.(*ssa.Const)
				if !ok || c.Value == nil {
					return nil, false
				}
				v, _ := constant.Int64Val(c.Value)
				if i >= 0 && i < int64(len(out)) {
					out[i] = byte(v)
				}
			}
		}
	}
	return out, true
}

func (ce *constEval) bytesOf(v ssa.Value, depth int) ([]byte, bool) {
	if depth > 8 {
		return nil, false
	}
	switch t := v.(type) {
	case *ssa.ChangeType:
		return ce.bytesOf(t.X, depth+1)
	case *ssa.Convert:
		return ce.bytesOf(t.X, depth+1)
	case *ssa.Slice:
		if al, ok := t.X.(*ssa.Alloc); ok && t.Low == nil {
			return ce.arrayBytes(al)
		}
	case *ssa.UnOp:
		if t.Op != token.MUL {
			return nil, false
		}
		switch x := t.X.(type) {
		case *ssa.Alloc:
			return ce.arrayBytes(x)
		case *ssa.Global:
			return ce.globalBytes(x, "", depth+1)
		case *ssa.FieldAddr:
			if g, ok := x.X.(*ssa.Global); ok {
				return ce.globalBytes(g, fieldNameOfFA(x), depth+1)
			}
		}
	case *ssa.Call:
		switch core.CalleeName(t) {
		case "net/netip.AddrFrom16", "net/netip.AddrFrom4":
			return ce.bytesOf(t.Call.Args[0], depth+1)
		case "net/netip.MustParseAddr":
			if c, ok := t.Call.Args[0].(*ssa.Const); ok && c.Value != nil {
				if a, err := netip.ParseAddr(constant.StringVal(c.Value)); err == nil {
					return a.AsSlice(), true
				}
			}
		}
	}
	return nil, false
}

// globalBytes evaluates the bytes stored (in the package initialiser) into global g, or into its field.
func (ce *constEval) globalBytes(g *ssa.Global, field string, depth int) ([]byte, bool) {
	if g.Pkg == nil {
		return nil, false
	}
	initFn := g.Pkg.Func("init")
	if initFn == nil {
		return nil, false
	}
	var res []byte
	found, ok := 0, true
	core.EachInstr(initFn, func(i ssa.Instruction) {
		st, isSt := i.(*ssa.Store)
		if !isSt {
			return
		}
		match := false
		if field == "" {
			match = st.Addr == ssa.Value(g)
		} else if fa, isFA := st.Addr.(*ssa.FieldAddr); isFA && fa.X == ssa.Value(g) && fieldNameOfFA(fa) == field {
			match = true
		}
		if !match {
			return
		}
		found++
		b, good := ce.bytesOf(st.Val, depth+1)
		if !good {
			ok = false
		}
		res = b
	})
	return res, ok && found == 1
}

// ---------- the check ----------

func isSessionWriteTo(site ssa.CallInstruction) bool {
	cc := site.Common()
	if !cc.IsInvoke() || cc.Method.Name() != "WriteTo" {
		return false
	}
	n := norm(cc.Value)
	return strings.HasSuffix(n, ".Conn") || n == "arg0" // conn parameter of sendDHCP4Packet
}

func runC07(c *Ctx) {
	r := c.R
	r.Explanation = "Structural well-formedness of every frame handed to the session connection. For each of the send functions (those containing a WriteTo on the session connection) the abstract interpreter of C01 " +
		"is run with arbitrary arguments and the buffer passed to WriteTo is inspected in every reaching state: the EtherType bytes are a known constant that agrees with the layers built (0x0800 -> IPv4 version/IHL 0x45 and a known protocol, " +
		"0x86dd -> version 6 and a known next header, 0x0806 -> Ethernet/IPv4 ARP header 0001 0800 06 04 and operation 1|2 at the ARP offsets); the IPv4 total length, IPv6 payload length and UDP length fields are proved equal (by entailment) to the lengths implied by " +
		"the slice actually written. Provenance rules on the CFG: the source MAC operand of every EncodeEther on a send path originates from NICInfo.HostAddr4.MAC (following parameters to all module call sites); the IPv4 header checksum is stored after the last " +
		"header write in SetPayload/AppendPayload; ICMP checksums are computed over the final bytes; the IPv6 hop limit is 255 on the link-local edge. Package-level destination constants: an IPv6 multicast IP is paired with the 33:33 MAC of its last four bytes " +
		"(also in IPv6SolicitedNode). Not decided: reference decoding of every emitted frame for all argument values; handler histories."
	r.Assume("NICInfo.HostAddr4.MAC / RouterAddr4.MAC have length 6", "the interpreter's assumptions of C01")
	r.Rule("send-sites", "WriteTo call sites on the session connection", 11)
	r.Rule("layout", "constant header bytes and length fields of the buffer at WriteTo", 60)
	r.Rule("icmp-message", "ICMP type/code and fixed NDP option header of every message handed to icmp4SendPacket/icmp6SendPacket", 10)
	r.Rule("dst-mac", "Ethernet destination of every emitted frame is the MAC the caller passed", 11)
	r.Rule("options-sent", "a DHCP option map the library fills is the one it sends", 2)
	r.Rule("dhcp-inplace", "EncodeDHCP4 does not write the options area before the option values have been read", 2)
	r.Rule("arp-addr", "sender/target addresses the library itself builds for an ARP frame name both MAC and IP", 10)
	r.Rule("src-mac", "Ethernet source of every emitted frame is NICInfo.HostAddr4.MAC", 11)
	r.Rule("checksum-order", "checksums are computed after the last write they cover", 4)
	r.Rule("hop-limit", "hop limit 255 for link-local destinations and for neighbour discovery messages", 2)
	// the options, records and addresses a sender collects in a loop are distinct objects: no address of an iteration
	// variable is kept across iterations (with this module's language version every kept pointer would name the one
	// variable, and every prefix option of a router advertisement would carry the last prefix)
	r.Rule("loop-var", "no address of a loop iteration variable is kept across iterations", 1)
	{
		kglv := core.NewKeyGen()
		n := 0
		for _, fn := range c.P.LibFunctions() {
			for _, ins := range loopVarAliases(c, fn) {
				n++
				r.Add(core.Obligation{Rule: "loop-var", Key: strings.TrimSuffix(kglv.Key("loop-var "+core.FuncName(fn)), "#0"), Func: core.FuncName(fn), Pos: c.P.Pos(core.PosOf(ins)), Status: core.Violated,
					Detail: "the address of a loop iteration variable is kept (appended, stored or wrapped in an interface value) inside the loop: all kept pointers name the same variable, which holds the last element when the loop is over"})
			}
		}
		r.Extra["loop_variable_addresses_kept"] = n
		stSelf := core.Proved
		if !loopVarSelfTest(c) {
			stSelf = core.Violated
		}
		r.Add(core.Obligation{Rule: "loop-var", Key: "loop-var the rule fires on its built-in positive example", Func: "-", Status: stSelf,
			Basis: "a five-line example (append(out, &v) in a range loop, language version 1.18) is built and must be reported", Detail: "the loop-variable rule no longer matches its own positive example: its silence on the repository means nothing"})
	}
	// an encoder that walks a string byte by byte does not do it with `for i := range s`: that steps rune by rune, and
	// s[i] then skips the continuation bytes of every multi-byte character (a NetBIOS name with a non-ASCII letter goes
	// out with fewer than 32 half-octets under a length octet that says 32)
	r.Rule("byte-loop", "no loop ranges over a string and indexes it with the range key", 1)
	{
		kgb := core.NewKeyGen()
		n := 0
		for _, fn := range c.P.LibFunctions() {
			for _, ins := range rangeStringByteIndex(fn) {
				n++
				r.Add(core.Obligation{Rule: "byte-loop", Key: strings.TrimSuffix(kgb.Key("byte-loop "+core.FuncName(fn)), "#0"), Func: core.FuncName(fn), Pos: c.P.Pos(core.PosOf(ins)), Status: core.Violated,
					Detail: core.FuncName(fn) + " ranges over a string and reads it at the range key: the loop visits one index per character, not per byte, so the bytes after the first of every multi-byte character are never encoded and the output is shorter than its length field says"})
			}
		}
		r.Extra["string_range_byte_index_sites"] = n
		stSelf := core.Proved
		if !byteLoopSelfTest() {
			stSelf = core.Violated
		}
		r.Add(core.Obligation{Rule: "byte-loop", Key: "byte-loop the rule fires on its built-in positive example", Func: "-", Status: stSelf,
			Basis: "a four-line example (for i := range s { out = append(out, s[i]) }) is built and must be reported", Detail: "the byte-loop rule no longer matches its own positive example: its silence on the repository means nothing"})
	}
	// a NetBIOS name goes out as exactly 16 characters (32 half-octets under a length octet that says 32): padding to 16
	// is the last thing that changes the length of the name - nothing shortens it afterwards
	r.Rule("nbns-name", "the NBNS name is padded to 16 characters after any truncation, not before", 1)
	if fn := c.P.Func("handlers/dns_naming", "encodeNBNSName"); fn != nil {
		var pads, cuts []ssa.Instruction
		isStr := func(t types.Type) bool {
			b, ok := t.Underlying().(*types.Basic)
			return ok && b.Info()&types.IsString != 0
		}
		core.EachInstr(fn, func(i ssa.Instruction) {
			switch t := i.(type) {
			case *ssa.BinOp:
				if t.Op == token.ADD && isStr(t.Type()) {
					pads = append(pads, i)
				}
			case *ssa.Slice:
				if isStr(t.X.Type()) {
					cuts = append(cuts, i)
				}
			}
		})
		st, det := core.Proved, ""
		if len(pads) == 0 {
			st, det = core.Undecided, "no padding (string concatenation) found in encodeNBNSName"
		}
		for _, p := range pads {
			for _, cu := range cuts {
				if reachesWithout(p, cu, func(ssa.Instruction) bool { return false }) {
					st = core.Violated
					det = "the name is shortened at " + c.P.Pos(core.PosOf(cu)) + " after it was padded at " + c.P.Pos(core.PosOf(p)) + ": a name longer than 16 characters is cut and never padded again, so fewer than 32 half-octets follow a length octet of 32 and the question swallows its own terminator"
				}
			}
		}
		r.Add(core.Obligation{Rule: "nbns-name", Key: "nbns-name encodeNBNSName", Func: core.FuncName(fn), Pos: c.P.Pos(fn.Pos()), Status: st,
			Basis: fmt.Sprintf("%d padding and %d truncation sites: no truncation reachable from a padding", len(pads), len(cuts)), Detail: det})
	} else {
		r.Fatal("encodeNBNSName not found")
	}
	// the SSDP search is an HTTP request over UDP: request line first, every line ended by CR LF, an empty line last.
	// The payload is a package-level constant; its bytes are computed from the initialiser.
	r.Rule("ssdp-text", "the SSDP M-SEARCH payload is a well-formed HTTP request", 1)
	{
		var content []byte
		known := false
		where := ""
		var constBytes func(v ssa.Value, depth int) ([]byte, bool)
		constBytes = func(v ssa.Value, depth int) ([]byte, bool) {
			if depth > 6 {
				return nil, false
			}
			switch t := v.(type) {
			case *ssa.Convert:
				if k, ok := t.X.(*ssa.Const); ok && k.Value != nil && k.Value.Kind() == constant.String {
					return []byte(constant.StringVal(k.Value)), true
				}
			case *ssa.Slice:
				// a slice literal: new [n]byte with constant element stores
				if al, ok := t.X.(*ssa.Alloc); ok && t.Low == nil && t.High == nil {
					arr, isArr := al.Type().Underlying().(*types.Pointer).Elem().Underlying().(*types.Array)
					if !isArr {
						return nil, false
					}
					out := make([]byte, arr.Len())
					set := 0
					for _, rf := range *al.Referrers() {
						ia, isIA := rf.(*ssa.IndexAddr)
						if !isIA {
							continue
						}
						ik, isK := ia.Index.(*ssa.Const)
						if !isK {
							return nil, false
						}
						for _, r2 := range *ia.Referrers() {
							if st, isSt := r2.(*ssa.Store); isSt {
								vk, isVK := st.Val.(*ssa.Const)
								if !isVK {
									return nil, false
								}
								out[ik.Int64()] = byte(vk.Int64())
								set++
							}
						}
					}
					return out, set == len(out)
				}
			case *ssa.Call:
				if b, ok := t.Call.Value.(*ssa.Builtin); ok && b.Name() == "append" && len(t.Call.Args) == 2 {
					a, ok1 := constBytes(t.Call.Args[0], depth+1)
					c2, ok2 := constBytes(t.Call.Args[1], depth+1)
					if ok1 && ok2 {
						return append(append([]byte{}, a...), c2...), true
					}
				}
			}
			return nil, false
		}
		if pk := c.P.Pkg("handlers/dns_naming"); pk != nil {
			if ini := pk.Func("init"); ini != nil {
				core.EachInstr(ini, func(i ssa.Instruction) {
					st, ok := i.(*ssa.Store)
					if !ok {
						return
					}
					if g, isG := st.Addr.(*ssa.Global); !isG || g.Name() != "mSearchString" {
						return
					}
					where = c.P.Pos(core.PosOf(i))
					content, known = constBytes(st.Val, 0)
				})
			}
		}
		st, det := core.Undecided, "the initialiser of mSearchString was not found or is not a constant byte string"
		if known {
			txt := string(content)
			var why []string
			if !strings.HasPrefix(txt, "M-SEARCH * HTTP/1.1\r\n") {
				why = append(why, fmt.Sprintf("it starts with %q, not with the request line M-SEARCH * HTTP/1.1 CR LF", txt[:min(len(txt), 24)]))
			}
			for k := 0; k < len(txt); k++ {
				if txt[k] == '\n' && (k == 0 || txt[k-1] != '\r') {
					why = append(why, fmt.Sprintf("the line feed at offset %d is not preceded by a carriage return", k))
					break
				}
			}
			if !strings.HasSuffix(txt, "\r\n\r\n") {
				why = append(why, "it does not end with an empty line (CR LF CR LF)")
			}
			for _, h := range []string{"\r\nHOST: 239.255.255.250:1900\r\n", "\r\nMAN: \"ssdp:discover\"\r\n", "\r\nST: "} {
				if !strings.Contains(txt, h) {
					why = append(why, fmt.Sprintf("the header %q is missing", strings.TrimSpace(h)))
				}
			}
			st, det = core.Proved, ""
			if len(why) > 0 {
				st, det = core.Violated, "the SSDP search payload is not an HTTP request a reference parser accepts: "+strings.Join(why, "; ")
			}
		}
		r.Add(core.Obligation{Rule: "ssdp-text", Key: "ssdp-text mSearchString", Func: "dns_naming.init", Pos: where, Status: st,
			Basis: fmt.Sprintf("%d constant bytes: request line, CR LF line ends, HOST/MAN/ST headers, empty line last", len(content)), Detail: det})
	}
	r.Rule("multicast-const", "IPv6 multicast IP constants carry the matching 33:33 MAC; service groups have their RFC values", 10)

	libFns := c.P.LibFunctions()
	// ---- send sites ----
	type sendSite struct {
		fn   *ssa.Function
		site ssa.CallInstruction
	}
	var sites []sendSite
	roots := map[*ssa.Function]bool{}
	for _, fn := range libFns {
		if fn.Pkg != nil && (strings.HasSuffix(fn.Name(), "Conn") || strings.Contains(fn.String(), "bufferedPacketConn") || strings.Contains(fn.String(), "packetConn")) {
			continue
		}
		for _, s := range callsIn(fn, func(string, ssa.CallInstruction) bool { return true }) {
			if isSessionWriteTo(s) {
				sites = append(sites, sendSite{fn, s})
				roots[fn] = true
			}
		}
	}
	kg := core.NewKeyGen()
	for _, s := range sites {
		k := strings.TrimSuffix(kg.Key("send-sites "+core.FuncName(s.fn)), "#0")
		r.Add(core.Obligation{Rule: "send-sites", Key: k, Func: core.FuncName(s.fn), Pos: c.P.Pos(core.PosOf(s.site.(ssa.Instruction))), Status: core.Proved, Basis: "WriteTo on the session connection"})
	}

	// ---- layout: interpret each send function and inspect the buffer at WriteTo ----
	type finding struct {
		key, detail, basis string
		ok                 bool
		pos                string
		fn                 string
	}
	results := map[string]*finding{}
	record := func(fn *ssa.Function, site ssa.Instruction, what string, ok bool, basis, detail string) {
		key := fmt.Sprintf("layout %s %s", core.FuncName(fn), what)
		f := results[key]
		if f == nil {
			f = &finding{key: key, ok: true, pos: c.P.Pos(core.PosOf(site)), fn: core.FuncName(fn)}
			results[key] = f
		}
		if ok {
			if f.basis == "" {
				f.basis = basis
			}
		} else {
			f.ok = false
			f.detail = detail
		}
	}
	var curRoot *ssa.Function
	hook := func(site ssa.Instruction, name string, args []absint.Value, h *absint.Heap) {
		ci, ok := site.(ssa.CallInstruction)
		if !ok || !isSessionWriteTo(ci) || len(args) < 1 {
			return
		}
		sv, ok := args[0].(absint.SliceV)
		if !ok || sv.Reg == nil {
			record(curRoot, site, "buffer", false, "", "the buffer passed to WriteTo is not representable")
			return
		}
		kb := h.KnownElems(sv)
		cst := func(i int64) (int64, bool) {
			l, ok := kb[i]
			if !ok {
				return 0, false
			}
			return l.ConstVal()
		}
		be16 := func(i int64) (absint.Lin, bool) {
			a, ok1 := kb[i]
			b, ok2 := kb[i+1]
			if !ok1 || !ok2 {
				return absint.Lin{}, false
			}
			return a.Scale(256).Add(b), true
		}
		e0, ok0 := cst(12)
		e1, ok1 := cst(13)
		if !ok0 || !ok1 {
			record(curRoot, site, "ethertype", false, "", "EtherType bytes 12-13 of the emitted frame are not a known constant")
			return
		}
		et := e0<<8 | e1
		record(curRoot, site, "ethertype", et == 0x0800 || et == 0x86dd || et == 0x0806, fmt.Sprintf("EtherType 0x%04x", et), fmt.Sprintf("unexpected EtherType 0x%04x", et))
		need := func(what string, off int64, want ...int64) {
			v, ok := cst(off)
			good := false
			for _, w := range want {
				if ok && v == w {
					good = true
				}
			}
			got := "unknown"
			if ok {
				got = fmt.Sprintf("0x%02x", v)
			}
			record(curRoot, site, what, good, fmt.Sprintf("byte %d = %s", off, got), fmt.Sprintf("%s: byte %d of the emitted frame is %s, expected one of %v", what, off, got, want))
		}
		lenEq := func(what string, off int64, expect absint.Lin) {
			v, ok := be16(off)
			good := ok && h.EntailsEq(v.Sub(expect))
			record(curRoot, site, what, good, fmt.Sprintf("be16 at %d == %s", off, expect.String()), fmt.Sprintf("%s: the 16-bit field at offset %d is not provably equal to %s (field value: %v)", what, off, expect.String(), v.String()))
		}
		switch et {
		case 0x0806:
			need("arp htype hi", 14, 0)
			need("arp htype lo", 15, 1)
			need("arp ptype hi", 16, 8)
			need("arp ptype lo", 17, 0)
			need("arp hlen", 18, 6)
			need("arp plen", 19, 4)
			need("arp op hi", 20, 0)
			need("arp op lo", 21, 1, 2)
			l, isC := sv.Len.ConstVal()
			record(curRoot, site, "arp frame length", isC && l == 42, "42 bytes", fmt.Sprintf("ARP frame length is %s, expected 42", sv.Len.String()))
		case 0x0800:
			need("ip4 version/ihl", 14, 0x45)
			need("ip4 protocol", 23, 1, 17)
			// the datagram is whole: more-fragments clear and fragment offset 0 (DF may be set), written by this send path,
			// not inherited from the pooled buffer's previous frame
			need("ip4 flags/fragment hi", 20, 0x00, 0x40)
			need("ip4 fragment lo", 21, 0x00)
			lenEq("ip4 total length", 16, sv.Len.AddC(-14))
			if p, ok := cst(23); ok && p == 17 {
				lenEq("udp length", 38, sv.Len.AddC(-34))
			}
		case 0x86dd:
			need("ip6 version", 14, 0x60)
			need("ip6 next header", 20, 58, 17)
			lenEq("ip6 payload length", 18, sv.Len.AddC(-54))
			need("ip6 hop limit", 21, 255, 64)
			if p, ok := cst(20); ok && p == 17 {
				lenEq("udp length", 58, sv.Len.AddC(-54))
			}
		}
	}
	// ICMP messages handed to icmp4SendPacket / icmp6SendPacket: type byte, code, and the fixed NDP option header
	icmpWant := map[string]int64{ // sender function -> ICMP type it must emit
		"ICMP6SendRouterAdvertisement": 134, "ICMP6SendRouterSolicitation": 133, "ICMP6SendNeighborAdvertisement": 136,
		"ICMP6SendNeighbourSolicitation": 135, "Ping6": 128, "ping": 8,
	}
	icmpSeen := map[string]*finding{}
	onCall := func(site ssa.Instruction, callee *ssa.Function, args []absint.Value, h *absint.Heap) {
		nm := callee.Name()
		if (nm != "icmp6SendPacket" && nm != "icmp4SendPacket") || len(args) != 4 || !core.InLib(callee) {
			return
		}
		caller := site.Parent()
		rec := func(what string, ok bool, basis, detail string) {
			key := fmt.Sprintf("icmp-message %s %s", core.FuncName(caller), what)
			f := icmpSeen[key]
			if f == nil {
				f = &finding{key: key, ok: true, pos: c.P.Pos(core.PosOf(site)), fn: core.FuncName(caller)}
				icmpSeen[key] = f
			}
			if ok {
				f.basis = basis
			} else {
				f.ok, f.detail = false, detail
			}
		}
		sv, ok := args[3].(absint.SliceV)
		if !ok || sv.Reg == nil {
			rec("type", false, "", "the ICMP message passed to "+nm+" is not representable")
			return
		}
		kb := h.KnownElems(sv)
		cst := func(i int64) (int64, bool) {
			l, ok := kb[i]
			if !ok {
				return 0, false
			}
			return l.ConstVal()
		}
		t, okT := cst(0)
		want, hasWant := icmpWant[caller.Name()]
		good := okT && ((nm == "icmp6SendPacket" && (t == 128 || t == 129 || (t >= 133 && t <= 137))) || (nm == "icmp4SendPacket" && (t == 8 || t == 0)))
		if hasWant && (!okT || t != want) {
			good = false
		}
		got := "not a known constant"
		if okT {
			got = fmt.Sprint(t)
		}
		rec("type", good, "ICMP type byte = "+got, fmt.Sprintf("byte 0 (ICMP type) of the message passed to %s is %s; %s must emit type %d with the 4-byte ICMP header (type, code, checksum) in front of the body", nm, got, caller.Name(), want))
		if cd, ok := cst(1); okT && good {
			rec("code", ok && cd == 0, "ICMP code byte = 0", "byte 1 (ICMP code) of the message is not the constant 0")
		}
		if !okT || !good {
			return
		}
		needOpt := func(off, typ int64, what string) {
			a, ok1 := cst(off)
			b, ok2 := cst(off + 1)
			rec(what, ok1 && ok2 && a == typ && b == 1, fmt.Sprintf("option header at %d = %d,%d", off, a, b),
				fmt.Sprintf("%s: bytes %d,%d of the message are %d,%d (known: %v,%v), expected option type %d length 1 (RFC 4861)", what, off, off+1, a, b, ok1, ok2, typ))
		}
		switch t {
		case 135:
			needOpt(24, 1, "source link-layer address option")
		case 136:
			needOpt(24, 2, "target link-layer address option")
		}
	}
	cfg := absint.Config{Opaque: handlerOpaque, MaxStates: 48, MaxOutcomes: 8, OnExternalCall: hook, OnCall: onCall, ZeroInit: 64}
	in := absint.New(c.P, cfg, func(absint.Finding) {})
	for _, fn := range libFns {
		if len(callsIn(fn, nameIs("icmp6SendPacket", "icmp4SendPacket"))) > 0 {
			roots[fn] = true
		}
	}
	var rootList []*ssa.Function
	for fn := range roots {
		rootList = append(rootList, fn)
	}
	sort.Slice(rootList, func(i, j int) bool { return rootList[i].String() < rootList[j].String() })
	for _, fn := range rootList {
		curRoot = fn
		args := make([]absint.Value, len(fn.Params))
		if fn.Signature.Recv() != nil {
			args[0] = absint.PtrV{Nil: 2}
		}
		in.Exec(fn, args, nil, absint.NewHeap())
	}
	var keys []string
	for k := range results {
		keys = append(keys, k)
	}
	sort.Strings(keys)
	for _, k := range keys {
		f := results[k]
		st := core.Proved
		if !f.ok {
			st = core.Violated
		}
		r.Add(core.Obligation{Rule: "layout", Key: f.key, Func: f.fn, Pos: f.pos, Status: st, Basis: f.basis, Detail: f.detail})
	}

	keys = keys[:0]
	for k := range icmpSeen {
		keys = append(keys, k)
	}
	sort.Strings(keys)
	for _, k := range keys {
		f := icmpSeen[k]
		st := core.Proved
		if !f.ok {
			st = core.Violated
		}
		r.Add(core.Obligation{Rule: "icmp-message", Key: f.key, Func: f.fn, Pos: f.pos, Status: st, Basis: f.basis, Detail: f.detail})
	}

	// ---- source MAC provenance ----
	checkSrcMAC(c, libFns)
	checkARPAddrComplete(c, libFns)
	checkDHCPInPlace(c)
	checkDHCPNak(c)
	checkMulticastPair(c)
	checkPrefixCopy(c)
	checkMarshalVerbatim(c)
	checkOptionsSent(c)

	// ---- checksum order ----
	for _, m := range []string{"SetPayload", "AppendPayload"} {
		fn := c.A.Method("", "IP4", m)
		if fn == nil {
			continue
		}
		var csum ssa.Instruction
		for _, s := range callsIn(fn, nameIs("CalculateChecksum")) {
			csum = s.(ssa.Instruction)
		}
		st := core.Proved
		det := ""
		if csum == nil {
			st, det = core.Violated, "IP4."+m+" does not compute the header checksum"
		} else {
			// no header write (other than the checksum bytes 10,11) may be reachable after the computation
			core.EachInstr(fn, func(i ssa.Instruction) {
				if !core.InstrReaches(csum, i) {
					return
				}
				switch t := i.(type) {
				case *ssa.Store:
					if ia, ok := t.Addr.(*ssa.IndexAddr); ok {
						if k, ok := ia.Index.(*ssa.Const); ok {
							if v, _ := constant.Int64Val(k.Value); v != 10 && v != 11 && v < 20 {
								st, det = core.Violated, fmt.Sprintf("header byte %d is written after the checksum was computed", v)
							}
						}
					}
				case ssa.CallInstruction:
					if strings.Contains(core.CalleeName(t), "PutUint16") || (func() bool { _, ok := isBuiltinCall(i, "copy"); return ok })() {
						st, det = core.Violated, "the header is written after the checksum was computed ("+shortCallee(t)+")"
					}
				}
			})
			// the computed value must be what is stored in bytes 10 and 11
			stored := 0
			core.EachInstr(fn, func(i ssa.Instruction) {
				if t, ok := i.(*ssa.Store); ok {
					if ia, ok := t.Addr.(*ssa.IndexAddr); ok {
						if k, ok := ia.Index.(*ssa.Const); ok {
							if v, _ := constant.Int64Val(k.Value); (v == 10 || v == 11) && strings.Contains(norm(t.Val), "CalculateChecksum") {
								stored++
							}
						}
					}
				}
			})
			if stored != 2 && st == core.Proved {
				st, det = core.Violated, "the computed checksum is not stored into header bytes 10 and 11"
			}
		}
		r.Add(core.Obligation{Rule: "checksum-order", Key: "checksum-order (IP4)." + m, Func: "(packet.IP4)." + m, Status: st,
			Basis: "CalculateChecksum after the last header write; result stored in bytes 10-11", Detail: det})
	}
	// ICMPv4: SetChecksum(Checksum(p)) must precede the copy of p into the frame; ICMPv6: SetChecksum on the frame after the payload copy
	if fn := c.A.Method("", "Session", "icmp4SendPacket"); fn != nil {
		var set, app ssa.Instruction
		for _, s := range callsIn(fn, nameIs("SetChecksum")) {
			set = s.(ssa.Instruction)
		}
		for _, s := range callsIn(fn, nameIs("AppendPayload")) {
			app = s.(ssa.Instruction)
		}
		st := core.Proved
		det := ""
		if set == nil || app == nil || !core.InstrDominates(set, app) {
			st, det = core.Violated, "the ICMP checksum is not set on the message before it is copied into the IPv4 packet"
		} else if sc, ok := set.(*ssa.Call); ok && !strings.Contains(norm(sc.Call.Args[1]), "packet.Checksum(arg2)") {
			st, det = core.Violated, "the ICMP checksum is not computed over the whole message: "+norm(sc.Call.Args[1])
		}
		r.Add(core.Obligation{Rule: "checksum-order", Key: "checksum-order icmp4SendPacket", Func: core.FuncName(fn), Status: st, Basis: "SetChecksum(Checksum(p)) dominates AppendPayload(p)", Detail: det})
	}
	if fn := c.A.Method("", "Session", "icmp6SendPacket"); fn != nil {
		var set, app, wr ssa.Instruction
		for _, s := range callsIn(fn, nameIs("SetChecksum")) {
			set = s.(ssa.Instruction)
		}
		for _, s := range callsIn(fn, nameIs("AppendPayload")) {
			app = s.(ssa.Instruction)
		}
		for _, s := range callsIn(fn, func(string, ssa.CallInstruction) bool { return true }) {
			if isSessionWriteTo(s) {
				wr = s.(ssa.Instruction)
			}
		}
		st := core.Proved
		det := ""
		switch {
		case set == nil || app == nil || wr == nil:
			st, det = core.Violated, "checksum / payload / write call not found"
		case !core.InstrDominates(app, set) || !core.InstrDominates(set, wr):
			st, det = core.Violated, "the ICMPv6 checksum is not set between copying the payload into the frame and writing the frame"
		default:
			sc := set.(*ssa.Call)
			if !strings.Contains(norm(sc.Call.Args[0]), "(packet.IP6).Payload(") {
				st, det = core.Violated, "the checksum is not stored into the ICMPv6 message inside the frame: "+norm(sc.Call.Args[0])
			}
		}
		// pseudo header: psh[39] = 58 and length at 32..36
		ph := 0
		core.EachInstr(fn, func(i ssa.Instruction) {
			if t, ok := i.(*ssa.Store); ok {
				if ia, ok := t.Addr.(*ssa.IndexAddr); ok {
					if k, ok := ia.Index.(*ssa.Const); ok {
						if v, _ := constant.Int64Val(k.Value); v == 39 {
							if cv, ok := t.Val.(*ssa.Const); ok && cv.Int64() == 58 {
								ph++
							}
						}
					}
				}
			}
		})
		if ph != 1 && st == core.Proved {
			st, det = core.Violated, "pseudo-header next-header byte (offset 39) is not the constant 58"
		}
		r.Add(core.Obligation{Rule: "checksum-order", Key: "checksum-order icmp6SendPacket", Func: core.FuncName(fn), Status: st, Basis: "payload copied, then checksum over pseudo-header+message stored into the frame, then written", Detail: det})

		// hop limit
		for _, s := range callsIn(fn, nameIs("EncodeIP6")) {
			args := s.Common().Args
			st := core.Violated
			det := "the hop limit passed to EncodeIP6 is not 255 on the link-local edge"
			if phi, ok := args[1].(*ssa.Phi); ok {
				for i, e := range phi.Edges {
					if cv, ok := e.(*ssa.Const); ok && cv.Int64() == 255 {
						pred := phi.Block().Preds[i]
						gs := guardsOf(pred.Instrs[len(pred.Instrs)-1])
						if hasGuard(gs, `^[^!].*IsLinkLocal(Multicast|Unicast)\(`) || linkLocalEdge(pred) || linkLocalLeadsTo(fn, pred) {
							st, det = core.Proved, ""
						}
					}
				}
			}
			// and the other way round: every path that keeps a smaller hop limit has tested the destination as not link-local
			if phi, ok := args[1].(*ssa.Phi); ok && st == core.Proved {
				for i, e := range phi.Edges {
					cv, isC := e.(*ssa.Const)
					if !isC || cv.Int64() == 255 {
						continue
					}
					pred := phi.Block().Preds[i]
					// the conditions that hold whenever this edge is taken: the dominating guards of the predecessor
					// (joined with the path conditions of its single-entry region) and the condition of the edge itself
					dom := guardTexts(guardsOf(pred.Instrs[len(pred.Instrs)-1]))
					conj := pathDNF(pred)
					if len(conj) == 0 {
						conj = []string{""}
					}
					for k := range conj {
						conj[k] = dom + " && " + conj[k]
					}
					edge := ""
					if iff, isIf := pred.Instrs[len(pred.Instrs)-1].(*ssa.If); isIf {
						if pred.Succs[1] == phi.Block() {
							edge = "!" + norm(iff.Cond)
						} else {
							edge = norm(iff.Cond)
						}
					}
					for _, cj := range conj {
						full := cj + " && " + edge
						if !strings.Contains(full, "!(net/netip.Addr).IsLinkLocalUnicast(local(dstAddr).IP)") || !strings.Contains(full, "!(net/netip.Addr).IsLinkLocalMulticast(local(dstAddr).IP)") {
							st = core.Violated
							det = fmt.Sprintf("hop limit %d is kept on a path that has not established that the destination is neither link-local unicast nor link-local multicast: %s", cv.Int64(), strings.Trim(full, " &"))
						}
					}
				}
			}
			r.Add(core.Obligation{Rule: "hop-limit", Key: "hop-limit icmp6SendPacket", Func: core.FuncName(fn), Pos: c.P.Pos(core.PosOf(s.(ssa.Instruction))), Status: st,
				Basis: "hop limit is 255 on the edge taken for link-local unicast/multicast destinations", Detail: det})
			// neighbour discovery messages (types 133-137) carry 255 whatever their destination (RFC 4861: receivers discard
			// any other value; a unicast solicitation to a global address is still neighbour discovery): every path that
			// keeps a smaller hop limit has looked at the message type and found it outside that range
			st2, det2 := core.Violated, "the hop limit passed to EncodeIP6 does not depend on the ICMPv6 message type"
			if phi, ok := args[1].(*ssa.Phi); ok {
				st2, det2 = core.Proved, ""
				for i, e := range phi.Edges {
					cv, isC := e.(*ssa.Const)
					if !isC || cv.Int64() == 255 {
						continue
					}
					pred := phi.Block().Preds[i]
					// the conditions that hold whenever this edge is taken: the dominating guards of the predecessor
					// (joined with the path conditions of its single-entry region) and the condition of the edge itself
					dom := guardTexts(guardsOf(pred.Instrs[len(pred.Instrs)-1]))
					conj := pathDNF(pred)
					if len(conj) == 0 {
						conj = []string{""}
					}
					for k := range conj {
						conj[k] = dom + " && " + conj[k]
					}
					edge := ""
					if iff, isIf := pred.Instrs[len(pred.Instrs)-1].(*ssa.If); isIf {
						if pred.Succs[1] == phi.Block() {
							edge = "!" + norm(iff.Cond)
						} else {
							edge = norm(iff.Cond)
						}
					}
					// the type byte was consulted on the way: one of the conditions that hold on this edge is computed from b[0]
					// (or says the message is empty)
					consulted := false
					var conds []ssa.Value
					for _, g := range guardsOf(pred.Instrs[len(pred.Instrs)-1]) {
						conds = append(conds, g.Cond)
					}
					if iff, isIf := pred.Instrs[len(pred.Instrs)-1].(*ssa.If); isIf {
						conds = append(conds, iff.Cond)
					}
					for _, cv2 := range conds {
						for v := range dataSlice(fn, cv2) {
							if ia, isIA := v.(*ssa.IndexAddr); isIA {
								if k, isK := ia.Index.(*ssa.Const); isK && k.Int64() == 0 && strings.HasPrefix(norm(ia), "arg2[") {
									consulted = true
								}
							}
						}
					}
					for _, cj := range conj {
						full := cj + " && " + edge
						if !consulted && !regexp.MustCompile(`!\(arg2\[0\][<>]=?1\d\d\)|!\(len\(arg2\)>0\)|\(len\(arg2\)==0\)`).MatchString(full) {
							st2 = core.Violated
							det2 = fmt.Sprintf("hop limit %d is kept on a path that has not established that the message is not neighbour discovery (types 133-137): %s - a solicitation unicast to a global address goes out with that hop limit and is discarded by its receiver", cv.Int64(), strings.Trim(full, " &"))
						}
					}
				}
			}
			r.Add(core.Obligation{Rule: "hop-limit", Key: "hop-limit icmp6SendPacket neighbour discovery", Func: core.FuncName(fn), Pos: c.P.Pos(core.PosOf(s.(ssa.Instruction))), Status: st2,
				Basis: "every path keeping a smaller hop limit has tested the message type as outside 133-137", Detail: det2})
		}
	}

	// the checksum routine shared by the IPv4 header and both ICMP senders folds its carries before truncating
	// (the same rule as C15's; a lost carry makes emitted checksums fail to verify for some field values)
	if cs := c.A.Func("", "Checksum"); cs != nil {
		runC15Fold(c, cs)
	}

	// ---- multicast constants ----
	ce := &constEval{c.P}
	nConst := 0
	for _, pk := range c.P.SSAPkgs {
		if !core.IsLibPath(pk.Pkg.Path()) {
			continue
		}
		for _, m := range pk.Members {
			g, ok := m.(*ssa.Global)
			if !ok {
				continue
			}
			nt, ok := g.Type().Underlying().(*types.Pointer).Elem().(*types.Named)
			if !ok || nt.Obj().Name() != "Addr" || nt.Obj().Pkg().Path() != core.ModPath {
				continue
			}
			ip, ok1 := ce.globalBytes(g, "IP", 0)
			mac, ok2 := ce.globalBytes(g, "MAC", 0)
			if !ok1 || !ok2 || len(ip) != 16 || ip[0] != 0xff {
				continue
			}
			if !usedAsDestination(c, g) {
				continue
			}
			nConst++
			want := []byte{0x33, 0x33, ip[12], ip[13], ip[14], ip[15]}
			st := core.Proved
			if len(mac) != 6 || string(mac) != string(want) {
				st = core.Violated
			}
			r.Add(core.Obligation{Rule: "multicast-const", Key: "multicast-const " + g.Name(), Func: "init", Pos: c.P.Pos(g.Pos()), Status: st,
				Basis: fmt.Sprintf("IP %x MAC %x", ip, mac), Detail: fmt.Sprintf("IPv6 multicast destination %s: IP % x is paired with MAC % x, expected % x (RFC 2464: 33:33 + last four address bytes)", g.Name(), ip, mac, want)})
		}
	}
	// well-known values: all-nodes ff02::1, all-routers ff02::2
	for name, last := range map[string]byte{"IP6AllNodesMulticast": 1, "IP6AllRoutersMulticast": 2} {
		if g, ok := c.P.Pkg("").Members[name].(*ssa.Global); ok {
			b, ok := ce.globalBytes(g, "", 0)
			st := core.Proved
			if !ok || len(b) != 16 || b[0] != 0xff || b[1] != 0x02 || b[15] != last {
				st = core.Violated
			}
			nConst++
			r.Add(core.Obligation{Rule: "multicast-const", Key: "multicast-const " + name + " value", Func: "init", Pos: c.P.Pos(g.Pos()), Status: st,
				Basis: fmt.Sprintf("% x", b), Detail: fmt.Sprintf("%s is % x, expected ff02::%d (RFC 4291)", name, b, last)})
		}
	}
	// well-known service groups: queries of a protocol go to that protocol's group (RFC 6762 mDNS, RFC 4795 LLMNR, UPnP SSDP)
	for name, want := range map[string][]byte{
		"mdnsIPv4Addr":  {224, 0, 0, 251},
		"mdnsIPv6Addr":  {0xff, 0x02, 0, 0, 0, 0, 0, 0, 0, 0, 0, 0, 0, 0, 0, 0xfb},
		"llmnrIPv4Addr": {224, 0, 0, 252},
		"llmnrIPv6Addr": {0xff, 0x02, 0, 0, 0, 0, 0, 0, 0, 0, 0, 0, 0, 1, 0, 3},
		"ssdpIPv4Addr":  {239, 255, 255, 250},
	} {
		pk := c.P.Pkg("handlers/dns_naming")
		if pk == nil {
			continue
		}
		g, ok := pk.Members[name].(*ssa.Global)
		if !ok {
			continue
		}
		ip, okIP := ce.globalBytes(g, "IP", 0)
		st := core.Proved
		if !okIP || string(ip) != string(want) {
			st = core.Violated
		}
		nConst++
		r.Add(core.Obligation{Rule: "multicast-const", Key: "multicast-const " + name + " group", Func: "init", Pos: c.P.Pos(g.Pos()), Status: st,
			Basis: fmt.Sprintf("% x", ip), Detail: fmt.Sprintf("%s is % x (constant evaluation ok=%v), the protocol's group is % x: queries sent there do not reach the responders of the intended protocol", name, ip, okIP, want)})
	}
	// IPv6SolicitedNode: MAC = 33:33:ff + l[13..15], IP = ff02::1:ff + l[13..15]
	if fn := c.A.Func("", "IPv6SolicitedNode"); fn != nil {
		ok := solicitedNodeShape(fn)
		st := core.Proved
		if !ok {
			st = core.Violated
		}
		r.Add(core.Obligation{Rule: "multicast-const", Key: "multicast-const IPv6SolicitedNode", Func: core.FuncName(fn), Pos: c.P.Pos(fn.Pos()), Status: st,
			Basis: "IP ff02::1:ffXX:XXXX and MAC 33:33:ff:XX:XX:XX built from the same three address bytes", Detail: "IPv6SolicitedNode does not pair ff02::1:ff + last 3 bytes with 33:33:ff + the same 3 bytes"})
	}
	r.Extra["multicast_constants_checked"] = nConst
}

// linkLocalEdge: block b is reached through the true edge of a test calling IsLinkLocalUnicast or IsLinkLocalMulticast
// (the short-circuit || puts the assignment in a block with two predecessors).
func linkLocalEdge(b *ssa.BasicBlock) bool {
	if len(b.Preds) == 0 {
		return false
	}
	for _, p := range b.Preds {
		iff, ok := p.Instrs[len(p.Instrs)-1].(*ssa.If)
		if !ok || p.Succs[0] != b {
			return false
		}
		n := norm(iff.Cond)
		if !strings.Contains(n, "IsLinkLocalUnicast(") && !strings.Contains(n, "IsLinkLocalMulticast(") {
			return false
		}
	}
	return true
}

// linkLocalLeadsTo: both link-local tests of the destination exist in fn and their true edge goes to b.
func linkLocalLeadsTo(fn *ssa.Function, b *ssa.BasicBlock) bool {
	uni, multi := false, false
	okAll := true
	core.EachInstr(fn, func(i ssa.Instruction) {
		iff, ok := i.(*ssa.If)
		if !ok {
			return
		}
		n := norm(iff.Cond)
		isU, isM := strings.Contains(n, "IsLinkLocalUnicast(local(dstAddr).IP)"), strings.Contains(n, "IsLinkLocalMulticast(local(dstAddr).IP)")
		if !isU && !isM {
			return
		}
		if iff.Block().Succs[0] != b {
			okAll = false
		}
		uni, multi = uni || isU, multi || isM
	})
	return okAll && uni && multi
}

// usedAsDestination: the global Addr (whole value, its address, or its MAC) is read outside constructors.
func usedAsDestination(c *Ctx, g *ssa.Global) bool {
	used := false
	for _, fn := range c.P.LibFunctions() {
		if isConstructor(fn) {
			continue
		}
		core.EachInstr(fn, func(i ssa.Instruction) {
			for _, op := range i.Operands(nil) {
				if *op == ssa.Value(g) {
					if fa, ok := i.(*ssa.FieldAddr); ok && fieldNameOfFA(fa) != "MAC" {
						continue
					}
					used = true
				}
			}
		})
	}
	return used
}

// solicitedNodeShape checks the two composite literals of IPv6SolicitedNode structurally.
func solicitedNodeShape(fn *ssa.Function) bool {
	var arrays [][]string
	core.EachInstr(fn, func(i ssa.Instruction) {
		al, ok := i.(*ssa.Alloc)
		if !ok {
			return
		}
		at, ok := al.Type().Underlying().(*types.Pointer).Elem().Underlying().(*types.Array)
		if !ok || (at.Len() != 16 && at.Len() != 6) || al.Referrers() == nil {
			return
		}
		vals := make([]string, at.Len())
		for k := range vals {
			vals[k] = "0"
		}
		for _, r := range *al.Referrers() {
			if ia, ok := r.(*ssa.IndexAddr); ok && ia.Referrers() != nil {
				idx, ok := ia.Index.(*ssa.Const)
				if !ok {
					continue
				}
				k, _ := constant.Int64Val(idx.Value)
				for _, rr := range *ia.Referrers() {
					if st, ok := rr.(*ssa.Store); ok && st.Addr == ssa.Value(ia) && k < int64(len(vals)) {
						vals[k] = norm(st.Val)
					}
				}
			}
		}
		arrays = append(arrays, vals)
	})
	var ip, mac []string
	for _, a := range arrays {
		if len(a) == 16 && a[0] == "255" {
			ip = a
		}
		if len(a) == 6 && a[0] == "51" {
			mac = a
		}
	}
	if ip == nil || mac == nil {
		return false
	}
	okIP := ip[0] == "255" && ip[1] == "2" && ip[11] == "1" && ip[12] == "255"
	for k := 2; k <= 10; k++ {
		if ip[k] != "0" {
			okIP = false
		}
	}
	okMAC := mac[0] == "51" && mac[1] == "51" && mac[2] == "255"
	same := ip[13] == mac[3] && ip[14] == mac[4] && ip[15] == mac[5] && strings.Contains(ip[13], "[13]") && strings.Contains(ip[14], "[14]") && strings.Contains(ip[15], "[15]")
	return okIP && okMAC && same
}

// checkSrcMAC: the srcMAC operand of every EncodeEther reachable on a send path originates from NICInfo.HostAddr4.MAC.
func checkSrcMAC(c *Ctx, fns []*ssa.Function) {
	kg := core.NewKeyGen()
	for _, fn := range fns {
		if fn.Pkg != nil && fn.Pkg.Pkg.Path() == core.ModPath && fn.Name() == "EncodeEther" {
			continue
		}
		for _, site := range callsIn(fn, nameIs("EncodeEther")) {
			callee := site.Common().StaticCallee()
			if callee == nil || callee.Pkg == nil || callee.Pkg.Pkg.Path() != core.ModPath {
				continue
			}
			args := site.Common().Args
			if len(args) != 4 {
				continue
			}
			ok, why := originatesHostMAC(c, args[2], fn, 0, map[*ssa.Function]bool{})
			st := core.Proved
			if !ok {
				st = core.Violated
			}
			// destination: the MAC the caller asked for (a parameter, a field of an Addr parameter/variable, or a
			// package-level address constant) — never recomputed inside the sender
			dn := norm(args[3])
			dOK := regexp.MustCompile(`^(arg\d+|arg\d+\.MAC|local\(\w+\)\.MAC|[A-Za-z0-9_]+\.MAC|EthBroadcast|EthernetBroadcast)$`).MatchString(dn)
			dst := core.Proved
			if !dOK {
				dst = core.Violated
			}
			dkey := strings.TrimSuffix(kg.Key("dst-mac "+core.FuncName(fn)), "#0")
			c.R.Add(core.Obligation{Rule: "dst-mac", Key: dkey, Func: core.FuncName(fn), Pos: c.P.Pos(core.PosOf(site.(ssa.Instruction))), Status: dst,
				Basis: "Ethernet destination: " + dn, Detail: "the Ethernet destination of the emitted frame is not the address the caller passed: " + dn + " (a frame meant for one station can reach others)"})
			key := strings.TrimSuffix(kg.Key("src-mac "+core.FuncName(fn)), "#0")
			c.R.Add(core.Obligation{Rule: "src-mac", Key: key, Func: core.FuncName(fn), Pos: c.P.Pos(core.PosOf(site.(ssa.Instruction))), Status: st,
				Basis: "Ethernet source: " + why, Detail: "the Ethernet source address of the emitted frame does not always originate from NICInfo.HostAddr4.MAC: " + why,
				Hint: "use h.session.NICInfo.HostAddr4.MAC as the Ethernet source"})
		}
	}
}

// originatesHostMAC follows v backwards: field loads ending in NICInfo.HostAddr4.MAC are accepted;
// a parameter (or a field of a parameter) is followed to every module call site; an exported entry
// point's parameter is a finding.
func originatesHostMAC(c *Ctx, v ssa.Value, fn *ssa.Function, depth int, seen map[*ssa.Function]bool) (bool, string) {
	n := norm(v)
	if strings.HasSuffix(n, "NICInfo.HostAddr4.MAC") {
		return true, n
	}
	if depth > 5 {
		return false, "provenance too deep: " + n
	}
	// local composite / variable: resolve the MAC field
	if strings.HasPrefix(n, "local(") && strings.HasSuffix(n, ".MAC") {
		if ld, ok := v.(*ssa.UnOp); ok {
			if fa, ok := ld.X.(*ssa.FieldAddr); ok {
				if al, ok := fa.X.(*ssa.Alloc); ok {
					// parameter spilled to a local (address taken): all stores of the whole value
					okAll, any := true, false
					var why string
					if al.Referrers() != nil {
						for _, r := range *al.Referrers() {
							if st, ok := r.(*ssa.Store); ok && st.Addr == ssa.Value(al) {
								any = true
								if p, ok := st.Val.(*ssa.Parameter); ok {
									if good, w := paramMACFromCallers(c, fn, p, depth, seen); !good {
										okAll, why = false, w
									} else {
										why = w
									}
								} else {
									okAll, why = false, "stored from "+norm(st.Val)
								}
							}
						}
					}
					if cf := complitFields(al); cf["MAC"] != "" {
						if strings.HasSuffix(cf["MAC"], "NICInfo.HostAddr4.MAC") {
							return true, cf["MAC"]
						}
						return false, "composite literal MAC = " + cf["MAC"]
					}
					if any {
						return okAll, why
					}
				}
			}
		}
	}
	if strings.HasPrefix(n, "arg") && strings.HasSuffix(n, ".MAC") {
		// field of a by-value struct parameter
		if f, ok := v.(*ssa.Field); ok {
			if p, ok := f.X.(*ssa.Parameter); ok {
				return paramMACFromCallers(c, fn, p, depth, seen)
			}
		}
	}
	if p, ok := v.(*ssa.Parameter); ok {
		return paramFromCallers(c, fn, p, depth, seen)
	}
	return false, "originates from " + n
}

func paramIndex(fn *ssa.Function, p *ssa.Parameter) int {
	for i, q := range fn.Params {
		if q == p {
			return i
		}
	}
	return -1
}

// paramMACFromCallers: parameter p is an Addr; at every module call site its MAC field must originate from the host MAC.
func paramMACFromCallers(c *Ctx, fn *ssa.Function, p *ssa.Parameter, depth int, seen map[*ssa.Function]bool) (bool, string) {
	if seen[fn] {
		return true, "recursive"
	}
	seen[fn] = true
	defer delete(seen, fn)
	idx := paramIndex(fn, p)
	node := c.P.CallGraph().Nodes[fn]
	if fn.Object() != nil && fn.Object().Exported() {
		return false, fmt.Sprintf("parameter %s of exported %s supplies the Ethernet source", p.Name(), core.FuncName(fn))
	}
	if node == nil || len(node.In) == 0 {
		return false, "no module caller of " + core.FuncName(fn)
	}
	why := ""
	for _, e := range node.In {
		if !core.InLib(e.Caller.Func) {
			continue
		}
		args := e.Site.Common().Args
		if idx >= len(args) {
			return false, "argument not found at a call site"
		}
		a := args[idx]
		an := norm(a)
		switch {
		case strings.HasSuffix(an, "NICInfo.HostAddr4"):
			why = an
		default:
			cf := complitFields(a)
			if strings.HasSuffix(cf["MAC"], "NICInfo.HostAddr4.MAC") {
				why = cf["MAC"]
				continue
			}
			if q, ok := a.(*ssa.Parameter); ok {
				if good, w := paramMACFromCallers(c, e.Caller.Func, q, depth+1, seen); good {
					why = w
					continue
				} else {
					return false, w
				}
			}
			if ld, ok := a.(*ssa.UnOp); ok {
				if al, ok := ld.X.(*ssa.Alloc); ok && al.Referrers() != nil {
					good := false
					for _, r := range *al.Referrers() {
						if st, ok := r.(*ssa.Store); ok && st.Addr == ssa.Value(al) {
							if q, ok := st.Val.(*ssa.Parameter); ok {
								g2, w := paramMACFromCallers(c, e.Caller.Func, q, depth+1, seen)
								if !g2 {
									return false, w
								}
								good, why = true, w
							}
						}
					}
					if good {
						continue
					}
				}
			}
			return false, fmt.Sprintf("%s passes %s (MAC %s) at %s", core.FuncName(e.Caller.Func), an, cf["MAC"], c.P.Pos(core.PosOf(e.Site)))
		}
	}
	return true, why
}

func paramFromCallers(c *Ctx, fn *ssa.Function, p *ssa.Parameter, depth int, seen map[*ssa.Function]bool) (bool, string) {
	idx := paramIndex(fn, p)
	if fn.Object() != nil && fn.Object().Exported() {
		return false, fmt.Sprintf("parameter %s of exported %s supplies the Ethernet source", p.Name(), core.FuncName(fn))
	}
	node := c.P.CallGraph().Nodes[fn]
	if node == nil || len(node.In) == 0 {
		return false, "no module caller"
	}
	why := ""
	for _, e := range node.In {
		if !core.InLib(e.Caller.Func) {
			continue
		}
		args := e.Site.Common().Args
		if idx >= len(args) {
			return false, "argument not found"
		}
		good, w := originatesHostMAC(c, args[idx], e.Caller.Func, depth+1, seen)
		if !good {
			return false, w
		}
		why = w
	}
	return true, why
}

// checkARPAddrComplete: EncodeARP copies srcAddr.IP.AsSlice() / dstAddr.IP.AsSlice() into the 4-byte address
// fields; the zero netip.Addr has an empty slice, so nothing is written and the field keeps whatever the pooled
// buffer held before. Every packet.Addr that the library builds itself (composite literal) and that flows into an
// EncodeARP address parameter - directly or through the parameters of the wrappers (RequestRaw, Reply, ...) -
// must therefore set IP (0.0.0.0 is written as packet.IPv4zero) and MAC.
func checkARPAddrComplete(c *Ctx, fns []*ssa.Function) {
	type slot struct {
		fn  *ssa.Function
		idx int
	}
	sinks := map[slot]bool{}
	if enc := c.P.Func("", "EncodeARP"); enc != nil {
		for i, p := range enc.Params {
			if strings.HasSuffix(p.Type().String(), "packet.Addr") {
				sinks[slot{enc, i}] = true
			}
		}
	}
	if len(sinks) == 0 {
		c.R.Fatal("EncodeARP address parameters not found")
		return
	}
	// parameter of fn (possibly spilled to a local because a field address is taken)
	paramOf := func(fn *ssa.Function, v ssa.Value) int {
		if p, ok := v.(*ssa.Parameter); ok {
			return paramIndex(fn, p)
		}
		if ld, ok := v.(*ssa.UnOp); ok && ld.Op == token.MUL {
			if al, ok := ld.X.(*ssa.Alloc); ok && al.Referrers() != nil {
				for _, r := range *al.Referrers() {
					if st, ok := r.(*ssa.Store); ok && st.Addr == ssa.Value(al) {
						if p, ok := st.Val.(*ssa.Parameter); ok {
							return paramIndex(fn, p)
						}
					}
				}
			}
		}
		return -1
	}
	type site struct {
		fn   *ssa.Function
		call ssa.CallInstruction
		arg  ssa.Value
		into string
	}
	var lits []site
	seenSite := map[ssa.Value]bool{}
	for changed := true; changed; {
		changed = false
		for _, fn := range fns {
			core.EachInstr(fn, func(i ssa.Instruction) {
				call, ok := i.(ssa.CallInstruction)
				if !ok {
					return
				}
				callee := call.Common().StaticCallee()
				if callee == nil {
					return
				}
				args := call.Common().Args
				for k, a := range args {
					if !sinks[slot{callee, k}] {
						continue
					}
					if pi := paramOf(fn, a); pi >= 0 {
						if !sinks[slot{fn, pi}] {
							sinks[slot{fn, pi}] = true
							changed = true
						}
						continue
					}
					if ld, ok := a.(*ssa.UnOp); ok && ld.Op == token.MUL {
						if al, ok := ld.X.(*ssa.Alloc); ok && !wholeStored(al) && !seenSite[a] {
							// a composite literal (anonymous or built in place in a named local): set field by field
							seenSite[a] = true
							lits = append(lits, site{fn, call, a, core.FuncName(callee) + " " + callee.Params[k].Name()})
						}
					}
				}
			})
		}
	}
	kg := core.NewKeyGen()
	for _, s := range lits {
		cf := complitFields(s.arg)
		st := core.Proved
		var missing []string
		for _, f := range []string{"MAC", "IP"} {
			if cf[f] == "" {
				st = core.Violated
				missing = append(missing, f)
			}
		}
		key := strings.TrimSuffix(kg.Key("arp-addr "+core.FuncName(s.fn)+" -> "+s.into), "#0")
		c.R.Add(core.Obligation{Rule: "arp-addr", Key: key, Func: core.FuncName(s.fn), Pos: c.P.Pos(core.PosOf(s.call.(ssa.Instruction))), Status: st,
			Basis:  fmt.Sprintf("Addr{MAC: %s, IP: %s}", cf["MAC"], cf["IP"]),
			Detail: "the address built here for " + s.into + " leaves " + strings.Join(missing, ", ") + " at its zero value: EncodeARP copies an empty slice for it, so the ARP field keeps the previous contents of the pooled buffer instead of the value meant (0.0.0.0 must be written as packet.IPv4zero)"})
	}
}

// wholeStored: some instruction stores a whole value into the local (as opposed to field-wise initialisation).
func wholeStored(al *ssa.Alloc) bool {
	if al.Referrers() == nil {
		return false
	}
	for _, r := range *al.Referrers() {
		if st, ok := r.(*ssa.Store); ok && st.Addr == ssa.Value(al) {
			return true
		}
	}
	return false
}

// checkMarshalVerbatim: the fixed-width integers an NDP option encoder writes are the receiver's fields as they are: the
// value handed to PutUint32 / PutUint16 in a marshal method of layer_icmp6_options.go is computed without a choice
// between alternatives (no φ in its data slice) - a lifetime of zero is a request of its own (RFC 8106: stop using these
// servers), not "unset".
func checkMarshalVerbatim(c *Ctx) {
	c.R.Rule("marshal-verbatim", "the integers an NDP option encoder writes are the receiver's fields, with no substituted default", 3)
	kg := core.NewKeyGen()
	for _, fn := range c.P.LibFunctions() {
		if fn.Name() != "marshal" || fn.Pkg == nil || fn.Pkg.Pkg.Name() != "packet" || !strings.Contains(c.P.Pos(fn.Pos()), "layer_icmp6_options.go") {
			continue
		}
		for _, site := range callsIn(fn, nameIs("PutUint32", "PutUint16")) {
			a := site.Common().Args
			v := a[len(a)-1]
			fromRecv, phi := false, ""
			for w := range dataSlice(fn, v) {
				if ph, ok := w.(*ssa.Phi); ok {
					phi = norm(ph)
					_ = ph
				}
				if fa, ok := w.(*ssa.FieldAddr); ok && len(fn.Params) > 0 && fa.X == ssa.Value(fn.Params[0]) {
					fromRecv = true
				}
			}
			if !fromRecv {
				continue // a constant or a length, not a field of the option
			}
			st, det := core.Proved, ""
			if phi != "" {
				st = core.Violated
				det = core.FuncName(fn) + " writes " + norm(v) + ": the value is chosen between the receiver's field and something else, so for some value of the field the option does not carry what the caller set (an RDNSS lifetime of 0 - withdraw these servers - goes out as a default lifetime)"
			}
			c.R.Add(core.Obligation{Rule: "marshal-verbatim", Key: strings.TrimSuffix(kg.Key("marshal-verbatim "+core.FuncName(fn)), "#0"), Func: core.FuncName(fn), Pos: c.P.Pos(core.PosOf(site.(ssa.Instruction))), Status: st,
				Basis: "no φ in the data slice of the written value", Detail: det})
		}
	}
}

// checkPrefixCopy: the prefix option of a router advertisement carries the prefix the caller gave: PrefixInformation.marshal
// copies the whole 16-byte field (raw.Value[14:30] = pi.Prefix), with bounds that do not depend on the prefix length
// (copying PrefixLength/8 bytes drops the last, partly used byte of a /60).
func checkPrefixCopy(c *Ctx) {
	c.R.Rule("prefix-copy", "PrefixInformation.marshal copies the whole prefix field", 1)
	fn := c.P.Method("", "PrefixInformation", "marshal")
	if fn == nil {
		c.R.Add(core.Obligation{Rule: "prefix-copy", Key: "prefix-copy PrefixInformation.marshal", Status: core.Undecided, Detail: "function not found"})
		return
	}
	n := 0
	core.EachInstr(fn, func(i ssa.Instruction) {
		call, ok := isBuiltinCall(i, "copy")
		if !ok || !strings.HasSuffix(norm(call.Call.Args[1]), "recv.Prefix") {
			return
		}
		n++
		st, det := core.Violated, "the prefix is copied into "+norm(call.Call.Args[0])+": the destination does not span the whole 16-byte prefix field, so part of the caller's prefix is not sent"
		if sl, isS := call.Call.Args[0].(*ssa.Slice); isS && sl.Low != nil && sl.High != nil && norm(sl.Low) == "14" && norm(sl.High) == "30" {
			st, det = core.Proved, ""
		}
		c.R.Add(core.Obligation{Rule: "prefix-copy", Key: "prefix-copy PrefixInformation.marshal", Func: core.FuncName(fn), Pos: c.P.Pos(core.PosOf(i)), Status: st,
			Basis: "copy(raw.Value[14:30], pi.Prefix)", Detail: det})
	})
	if n == 0 {
		c.R.Add(core.Obligation{Rule: "prefix-copy", Key: "prefix-copy PrefixInformation.marshal", Func: core.FuncName(fn), Status: core.Violated, Detail: "no copy of pi.Prefix found in marshal"})
	}
}

// checkMulticastPair: the library's multicast destinations come as ready-made pairs of group address and 33:33 MAC
// (IPv6SolicitedNode(ip), IP6AllNodesAddr, IP6AllRoutersAddr). A pair that is copied into a local keeps its MAC: no
// store into the MAC field of that local (a probe "delivered to the station only" would carry a multicast IPv6
// destination under a unicast Ethernet destination).
func checkMulticastPair(c *Ctx) {
	c.R.Rule("multicast-pair", "a multicast destination pair (group address, 33:33 MAC) is not given another MAC", 1)
	isPair := func(v ssa.Value) (string, bool) {
		switch t := v.(type) {
		case *ssa.Call:
			if cal := t.Call.StaticCallee(); cal != nil && cal.Name() == "IPv6SolicitedNode" {
				return "IPv6SolicitedNode()", true
			}
		case *ssa.UnOp:
			if g, ok := t.X.(*ssa.Global); ok && t.Op == token.MUL {
				switch g.Name() {
				case "IP6AllNodesAddr", "IP6AllRoutersAddr":
					return g.Name(), true
				}
			}
		}
		return "", false
	}
	n := 0
	kg := core.NewKeyGen()
	for _, fn := range c.P.ModuleFunctions() {
		core.EachInstr(fn, func(i ssa.Instruction) {
			v, ok := i.(ssa.Value)
			if !ok {
				return
			}
			name, ok := isPair(v)
			if !ok {
				return
			}
			n++
			st, det := core.Proved, ""
			for _, ref := range *v.Referrers() {
				sto, isS := ref.(*ssa.Store)
				if !isS || sto.Val != v {
					continue
				}
				al, isAl := sto.Addr.(*ssa.Alloc)
				if !isAl {
					continue
				}
				core.EachInstr(fn, func(j ssa.Instruction) {
					s2, ok := j.(*ssa.Store)
					if !ok {
						return
					}
					if fa, ok := s2.Addr.(*ssa.FieldAddr); ok && fa.X == ssa.Value(al) && fieldOwner(fa) == "packet.Addr.MAC" {
						st = core.Violated
						det = core.FuncName(fn) + " copies " + name + " into " + norm(al) + " and then stores " + norm(s2.Val) + " into its MAC at " + c.P.Pos(core.PosOf(j)) + ": the frame sent to it has a multicast IPv6 destination under that Ethernet destination instead of the matching 33:33 MAC"
					}
				})
			}
			key := strings.TrimSuffix(kg.Key("multicast-pair "+core.FuncName(fn)+" "+name), "#0")
			c.R.Add(core.Obligation{Rule: "multicast-pair", Key: key, Func: core.FuncName(fn), Pos: c.P.Pos(core.PosOf(i)), Status: st,
				Basis: "used whole, or copied into a local whose MAC field is not written", Detail: det})
		})
	}
	if n == 0 {
		c.R.Add(core.Obligation{Rule: "multicast-pair", Key: "multicast-pair sites", Status: core.Violated, Detail: "no use of IPv6SolicitedNode / IP6AllNodesAddr / IP6AllRoutersAddr found"})
	}
}

// checkDHCPNak: a DHCPNAK is encoded over the request, whose ciaddr and yiaddr bytes are still in the buffer.
// EncodeDHCP4 leaves an address field alone when it is passed an address that is not IPv4 (the zero netip.Addr), so
// the NAK has ciaddr = yiaddr = 0 (RFC 2131 table 3) only if both arguments are the constant IPv4zero; the hardware
// address and the transaction id are the request's (nil arguments), the opcode is BOOTREPLY.
func checkDHCPNak(c *Ctx) {
	c.R.Rule("dhcp-nak", "every DHCPNAK is a BOOTREPLY with ciaddr and yiaddr explicitly zero, chaddr and xid of the request", 1)
	n := 0
	kg := core.NewKeyGen()
	for _, fn := range c.P.ModuleFunctions() {
		for _, s := range callsIn(fn, nameIs("EncodeDHCP4")) {
			a := s.Common().Args
			if len(a) != 10 || norm(a[2]) != "6" {
				continue
			}
			n++
			var bad []string
			if norm(a[1]) != "2" {
				bad = append(bad, "opcode "+norm(a[1]))
			}
			for k, name := range map[int]string{4: "ciaddr", 5: "yiaddr"} {
				g, isG := a[k].(*ssa.UnOp)
				if !isG || norm(a[k]) != "IPv4zero" {
					bad = append(bad, name+" = "+norm(a[k])+" (an argument that is not IPv4 keeps the request's "+name+" bytes)")
				} else if gl, ok := g.X.(*ssa.Global); !ok || gl.Pkg.Pkg.Path() != core.ModPath {
					bad = append(bad, name+" is not packet.IPv4zero")
				}
			}
			if norm(a[3]) != "nil" || norm(a[6]) != "nil" {
				bad = append(bad, "chaddr "+norm(a[3])+" xid "+norm(a[6]))
			}
			st, det := core.Proved, ""
			if len(bad) > 0 {
				sort.Strings(bad)
				st = core.Violated
				det = "the DHCPNAK built here carries " + strings.Join(bad, "; ")
			}
			key := strings.TrimSuffix(kg.Key("dhcp-nak "+core.FuncName(fn)), "#0")
			c.R.Add(core.Obligation{Rule: "dhcp-nak", Key: key, Func: core.FuncName(fn), Pos: c.P.Pos(core.PosOf(s.(ssa.Instruction))), Status: st,
				Basis: "EncodeDHCP4(req, BootReply, NAK, nil, IPv4zero, IPv4zero, nil, ...)", Detail: det})
		}
	}
	if n == 0 {
		c.R.Add(core.Obligation{Rule: "dhcp-nak", Key: "dhcp-nak sites", Status: core.Violated, Detail: "no EncodeDHCP4 call with message type NAK found"})
	}
}

// checkDHCPInPlace: the DHCP server encodes its reply over the request, and the option values it echoes (client
// identifier, parameter list) are slices of the request's own options area p[240:]. AppendOptions copies them
// through a temporary buffer first, so EncodeDHCP4 is safe as long as it does not touch the options area before
// that call: every write into p at an offset of 240 or more (or at an offset that is not a constant) is dominated
// by the call to AppendOptions.
func checkDHCPInPlace(c *Ctx) {
	fn := c.P.Func("", "EncodeDHCP4")
	if fn == nil || len(fn.Params) == 0 {
		c.R.Fatal("EncodeDHCP4 not found")
		return
	}
	var appendCall ssa.Instruction
	for _, s := range callsIn(fn, nameIs("AppendOptions")) {
		appendCall = s.(ssa.Instruction)
	}
	if appendCall == nil {
		c.R.Fatal("EncodeDHCP4: call to AppendOptions not found")
		return
	}
	buf := ssa.Value(fn.Params[0])
	// offset of a slice / element expression relative to the buffer parameter: (offset, constant?, derived?)
	var offOf func(v ssa.Value, depth int) (int64, bool, bool)
	offOf = func(v ssa.Value, depth int) (int64, bool, bool) {
		if depth > 8 {
			return 0, false, false
		}
		if v == buf {
			return 0, true, true
		}
		switch t := v.(type) {
		case *ssa.ChangeType:
			return offOf(t.X, depth+1)
		case *ssa.Convert:
			return offOf(t.X, depth+1)
		case *ssa.Slice:
			o, isC, der := offOf(t.X, depth+1)
			if !der {
				return 0, false, false
			}
			if t.Low == nil {
				return o, isC, true
			}
			if k, ok := t.Low.(*ssa.Const); ok && k.Value != nil {
				return o + k.Int64(), isC, true
			}
			return o, false, true
		case *ssa.IndexAddr:
			o, isC, der := offOf(t.X, depth+1)
			if !der {
				return 0, false, false
			}
			if k, ok := t.Index.(*ssa.Const); ok && k.Value != nil {
				return o + k.Int64(), isC, true
			}
			return o, false, true
		case *ssa.Phi:
			for _, e := range t.Edges {
				if o, isC, der := offOf(e, depth+1); der {
					return o, isC && len(t.Edges) == 1, true
				}
			}
		}
		return 0, false, false
	}
	bw := newBufWrites(c)
	kg := core.NewKeyGen()
	n := 0
	core.EachInstr(fn, func(i ssa.Instruction) {
		var target ssa.Value
		what := ""
		switch t := i.(type) {
		case *ssa.Store:
			if ia, ok := t.Addr.(*ssa.IndexAddr); ok {
				target, what = ia, "store"
			}
		case ssa.CallInstruction:
			com := t.Common()
			if b, ok := com.Value.(*ssa.Builtin); ok && b.Name() == "copy" && len(com.Args) == 2 {
				target, what = com.Args[0], "copy into"
			} else if callee := com.StaticCallee(); callee != nil && i != appendCall {
				for j, a := range com.Args {
					if bw.sum[callee][j] {
						if _, _, der := offOf(a, 0); der {
							target, what = a, "write by "+shortCallee(t)+" into"
						}
					}
				}
			}
		}
		if target == nil {
			return
		}
		off, isC, der := offOf(target, 0)
		if !der || (isC && off < 240) {
			return // the fixed BOOTP header
		}
		n++
		st := core.Proved
		if !(appendCall.Block().Dominates(i.Block()) && (appendCall.Block() != i.Block() || core.InstrIndex(appendCall) < core.InstrIndex(i))) {
			st = core.Violated
		}
		key := strings.TrimSuffix(kg.Key("dhcp-inplace EncodeDHCP4 "+what+" "+norm(target)), "#0")
		c.R.Add(core.Obligation{Rule: "dhcp-inplace", Key: key, Func: core.FuncName(fn), Pos: c.P.Pos(core.PosOf(i)), Status: st,
			Basis:  "after AppendOptions has read the option values",
			Detail: "EncodeDHCP4 writes the options area (" + norm(target) + ") before AppendOptions has read the option values: a reply encoded in place over the request wipes the values it is about to echo (client identifier, parameter list)"})
	})
	if n == 0 {
		c.R.Add(core.Obligation{Rule: "dhcp-inplace", Key: "dhcp-inplace EncodeDHCP4 writes", Func: core.FuncName(fn), Status: core.Undecided, Detail: "no write into the options area of EncodeDHCP4 was recognised"})
	}
}

// checkOptionsSent: a packet.DHCP4Options map that a function of the DHCP handler creates and fills must reach a call
// (the encoder or a sender); a map that is only ever assigned into was meant to be sent and is not (the message
// leaves without its server identifier / client identifier).
func checkOptionsSent(c *Ctx) {
	kg := core.NewKeyGen()
	for _, fn := range c.P.LibFunctions() {
		if fn.Pkg == nil || fn.Pkg.Pkg.Name() != "dhcp4_spoofer" {
			continue
		}
		core.EachInstr(fn, func(i ssa.Instruction) {
			mk, ok := i.(*ssa.MakeMap)
			if !ok || !strings.HasSuffix(mk.Type().String(), "packet.DHCP4Options") || mk.Referrers() == nil {
				return
			}
			filled, used := 0, false
			var visit func(v ssa.Value, depth int)
			visit = func(v ssa.Value, depth int) {
				if depth > 4 || v.Referrers() == nil {
					return
				}
				for _, r := range *v.Referrers() {
					switch t := r.(type) {
					case *ssa.MapUpdate:
						if t.Map == v {
							filled++
						} else {
							used = true
						}
					case *ssa.DebugRef:
					case *ssa.Phi:
						visit(t, depth+1)
					case *ssa.Store:
						// kept in a variable (captured by a closure, returned later): follow loads of that variable
						if al, ok := t.Addr.(*ssa.Alloc); ok && al.Referrers() != nil {
							for _, rr := range *al.Referrers() {
								if ld, ok := rr.(*ssa.UnOp); ok {
									visit(ld, depth+1)
								}
								if _, ok := rr.(*ssa.MakeClosure); ok {
									used = true
								}
							}
						} else {
							used = true
						}
					default:
						used = true
					}
				}
			}
			visit(mk, 0)
			if filled == 0 {
				return
			}
			st := core.Proved
			if !used {
				st = core.Violated
			}
			key := strings.TrimSuffix(kg.Key("options-sent "+core.FuncName(fn)), "#0")
			c.R.Add(core.Obligation{Rule: "options-sent", Key: key, Func: core.FuncName(fn), Pos: c.P.Pos(mk.Pos()), Status: st,
				Basis:  fmt.Sprintf("%d options assigned; the map reaches a call", filled),
				Detail: fmt.Sprintf("%s fills a DHCP option map with %d options and never passes it on: the message is sent without them", core.FuncName(fn), filled)})
		})
	}
}
