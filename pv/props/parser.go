package props

import (
	"fmt"
	"go/constant"
	"go/token"
	"sort"
	"strings"

	"golang.org/x/tools/go/ssa"

	"pv/core"
)

// Typestate rule for golang.org/x/net/dns/dnsmessage.Parser (semantics read from the pinned
// x/net v0.34.0, message.go: resourceHeader / checkAdvance / skipResource):
//
//   * <S>Header() re-reads the *same* header until a consuming call succeeds;
//   * a typed <T>Resource()/UnknownResource() consumes only when it returns a nil error;
//   * Skip<S'>() consumes only when S' is the section of the pending header and the
//     resource fits the message; Skip<S'> with S' != S returns an error without advancing.
//
// Hence a loop iteration that reaches the back edge with a header read and nothing
// successfully consumed (or with the error of the consuming call ignored) does not advance:
// the next iteration sees the same header — the loop can spin forever on a crafted packet.
//
// The walk is path-sensitive on equalities between a string location (φ value, local
// variable, or a variable captured by a closure) and string constants, and follows calls to
// module functions/closures that themselves call parser methods.

const dnsPkg = "golang.org/x/net/dns/dnsmessage"

func parserMethod(site ssa.CallInstruction) (recv ssa.Value, name string) {
	callee := site.Common().StaticCallee()
	if callee == nil || callee.Object() == nil || callee.Object().Pkg() == nil || callee.Object().Pkg().Path() != dnsPkg {
		return nil, ""
	}
	if callee.Signature.Recv() == nil || !strings.HasSuffix(callee.Signature.Recv().Type().String(), "dnsmessage.Parser") {
		return nil, ""
	}
	if len(site.Common().Args) == 0 {
		return nil, ""
	}
	return site.Common().Args[0], callee.Name()
}

func headerSection(name string) string {
	switch name {
	case "AnswerHeader":
		return "Answer"
	case "AuthorityHeader":
		return "Authority"
	case "AdditionalHeader":
		return "Additional"
	}
	return ""
}

// consumingSection: "" = not consuming; "*" = consumes in any section; "Answer" etc = only in that section.
func consumingSection(name string) string {
	switch name {
	case "SkipAnswer":
		return "Answer"
	case "SkipAuthority":
		return "Authority"
	case "SkipAdditional":
		return "Additional"
	case "UnknownResource":
		return "*"
	}
	if strings.HasSuffix(name, "Resource") {
		return "*"
	}
	return ""
}

// usesParser: fn (a module function or closure) calls a parser method (directly).
func usesParser(fn *ssa.Function) bool {
	if fn == nil || fn.Blocks == nil {
		return false
	}
	found := false
	core.EachInstr(fn, func(i ssa.Instruction) {
		if site, ok := i.(ssa.CallInstruction); ok {
			if _, name := parserMethod(site); name != "" {
				found = true
			}
		}
	})
	return found
}

type tsFrame struct {
	fn    *ssa.Function
	block *ssa.BasicBlock
	idx   int       // next instruction index
	call  *ssa.Call // call instruction in the caller that created this frame (nil for the root)
	bind  map[*ssa.FreeVar]ssa.Value
}

type tsState struct {
	hdr     string
	hdrErr  ssa.Value
	pend    ssa.Value // error value of a consuming call whose outcome is not yet tested
	pendSec string
}

type tsItem struct {
	frames []tsFrame
	st     tsState
	eq     map[ssa.Value]string          // location -> known constant
	neq    map[ssa.Value]map[string]bool // location -> excluded constants
}

func (it *tsItem) clone() tsItem {
	n := tsItem{frames: append([]tsFrame(nil), it.frames...), st: it.st, eq: map[ssa.Value]string{}, neq: map[ssa.Value]map[string]bool{}}
	for k, v := range it.eq {
		n.eq[k] = v
	}
	for k, m := range it.neq {
		n.neq[k] = map[string]bool{}
		for s := range m {
			n.neq[k][s] = true
		}
	}
	return n
}

func (it *tsItem) key() string {
	var parts []string
	for _, f := range it.frames {
		parts = append(parts, fmt.Sprintf("%p:%d:%d", f.fn, f.block.Index, f.idx))
	}
	var ks []string
	for v, s := range it.eq {
		ks = append(ks, fmt.Sprintf("%p=%s", v, s))
	}
	for v, m := range it.neq {
		var xs []string
		for k := range m {
			xs = append(xs, k)
		}
		sort.Strings(xs)
		ks = append(ks, fmt.Sprintf("%p!=%s", v, strings.Join(xs, ",")))
	}
	sort.Strings(ks)
	return strings.Join(parts, ">") + "|" + fmt.Sprintf("%s|%p|%p|%s", it.st.hdr, it.st.hdrErr, it.st.pend, it.st.pendSec) + "|" + strings.Join(ks, ";")
}

// location resolves a string-typed value to the location whose content it denotes:
// a load of a local or captured variable -> that variable; otherwise the value itself.
func location(v ssa.Value, fr *tsFrame) ssa.Value {
	if u, ok := v.(*ssa.UnOp); ok && u.Op == token.MUL {
		switch x := u.X.(type) {
		case *ssa.Alloc:
			return x
		case *ssa.FreeVar:
			if b, ok := fr.bind[x]; ok {
				return b
			}
			return x
		}
	}
	return v
}

// parserTypestate checks every loop (in fns) that calls a header method. It returns, per loop
// head, whether all iterations consume.
func parserTypestate(c *Ctx, fns []*ssa.Function) map[*ssa.BasicBlock]bool {
	res := map[*ssa.BasicBlock]bool{}
	for _, fn := range fns {
		for _, l := range core.CFG(fn).Loops() {
			hasHeader := false
			for b := range l.Blocks {
				for _, ins := range b.Instrs {
					if site, ok := ins.(ssa.CallInstruction); ok {
						if _, name := parserMethod(site); headerSection(name) != "" {
							hasHeader = true
						}
					}
				}
			}
			if !hasHeader {
				continue
			}
			res[l.Head] = walkParserLoop(c, fn, l)
		}
	}
	return res
}

func derivesErr(x ssa.Value, err ssa.Value) bool {
	if err == nil {
		return false
	}
	if x == err {
		return true
	}
	if phi, ok := x.(*ssa.Phi); ok {
		for _, e := range phi.Edges {
			if e == err {
				return true
			}
			if p2, ok := e.(*ssa.Phi); ok {
				for _, e2 := range p2.Edges {
					if e2 == err {
						return true
					}
				}
			}
		}
	}
	return false
}

// errValueOf returns the SSA value carrying the error result of call (nil when it is never extracted).
func errValueOf(call *ssa.Call) ssa.Value {
	sig := call.Call.Signature()
	if sig.Results().Len() == 0 {
		return nil
	}
	if sig.Results().Len() == 1 {
		return call
	}
	if call.Referrers() == nil {
		return nil
	}
	last := sig.Results().Len() - 1
	for _, r := range *call.Referrers() {
		if ex, ok := r.(*ssa.Extract); ok && ex.Index == last {
			return ex
		}
	}
	return nil
}

func unused(v ssa.Value) bool {
	if v == nil || v.Referrers() == nil {
		return true
	}
	for _, r := range *v.Referrers() {
		if _, dbg := r.(*ssa.DebugRef); !dbg {
			return false
		}
	}
	return true
}

func walkParserLoop(c *Ctx, fn *ssa.Function, l *core.Loop) bool {
	allOK := true
	seen := map[string]bool{}
	report := func(pos token.Pos, key, detail string) {
		allOK = false
		c.R.Add(core.Obligation{Rule: "parser-typestate", Key: "parser-typestate " + core.FuncName(fn) + " " + key, Func: core.FuncName(fn), Pos: c.P.Pos(pos), Status: core.Violated,
			Detail: detail, Hint: "consume the resource whose header was read (typed Resource call checked for error, or Skip of the same section checked for error), or return"})
	}
	root := tsItem{frames: []tsFrame{{fn: fn, block: l.Head, idx: 0}}, eq: map[ssa.Value]string{}, neq: map[ssa.Value]map[string]bool{}}
	work := []tsItem{root}
	steps := 0
	for len(work) > 0 {
		it := work[len(work)-1]
		work = work[:len(work)-1]
		k := it.key()
		if seen[k] {
			continue
		}
		seen[k] = true
		steps++
		if steps > 300000 {
			c.R.Fatal("parser typestate walk exceeded its budget in %s", core.FuncName(fn))
			return false
		}
		top := &it.frames[len(it.frames)-1]
		b := top.block
		descended := false
		for i := top.idx; i < len(b.Instrs) && !descended; i++ {
			ins := b.Instrs[i]
			switch t := ins.(type) {
			case *ssa.Store:
				// assignments of string constants to tracked locations
				var loc ssa.Value
				switch a := t.Addr.(type) {
				case *ssa.Alloc:
					loc = a
				case *ssa.FreeVar:
					if bnd, ok := top.bind[a]; ok {
						loc = bnd
					} else {
						loc = a
					}
				}
				if loc != nil {
					delete(it.eq, loc)
					delete(it.neq, loc)
					if cst, ok := t.Val.(*ssa.Const); ok && cst.Value != nil && cst.Value.Kind() == constant.String {
						it.eq[loc] = constant.StringVal(cst.Value)
					}
				}
			case *ssa.Call:
				_, name := parserMethod(t)
				if name == "" {
					// a module function/closure that uses the parser: walk into it
					var callee *ssa.Function
					bind := map[*ssa.FreeVar]ssa.Value{}
					if f := t.Call.StaticCallee(); f != nil {
						callee = f
					}
					if mc, ok := t.Call.Value.(*ssa.MakeClosure); ok {
						callee = mc.Fn.(*ssa.Function)
						for bi, fv := range callee.FreeVars {
							if bi < len(mc.Bindings) {
								bv := mc.Bindings[bi]
								if pfv, ok := bv.(*ssa.FreeVar); ok {
									if outer, ok := top.bind[pfv]; ok {
										bv = outer
									}
								}
								bind[fv] = bv
							}
						}
					}
					if callee != nil && core.InModule(callee) && usesParser(callee) && len(it.frames) < 4 {
						onStack := false
						for _, f := range it.frames {
							if f.fn == callee {
								onStack = true
							}
						}
						if !onStack {
							top.idx = i + 1
							ni := it.clone()
							ni.frames = append(ni.frames, tsFrame{fn: callee, block: callee.Blocks[0], idx: 0, call: t, bind: bind})
							work = append(work, ni)
							descended = true
						}
					}
					continue
				}
				if sec := headerSection(name); sec != "" {
					it.st.hdr = sec
					it.st.hdrErr = errValueOf(t)
					it.st.pend = nil
					it.st.pendSec = ""
					continue
				}
				if cs := consumingSection(name); cs != "" {
					if it.st.hdr == "" {
						continue
					}
					if cs != "*" && cs != it.st.hdr {
						report(core.PosOf(t), fmt.Sprintf("%s in section %s", name, it.st.hdr),
							fmt.Sprintf("%s is called while the pending header was read with %sHeader: skipResource returns an error without advancing, the header stays pending", name, it.st.hdr))
						continue
					}
					ev := errValueOf(t)
					if ev == nil || unused(ev) {
						it.st.pend = t
						it.st.pendSec = "ignored:" + name
						continue
					}
					it.st.pend = ev
					it.st.pendSec = name
				}
			}
		}
		if descended {
			continue
		}
		last := b.Instrs[len(b.Instrs)-1]
		push := func(to *ssa.BasicBlock, ni tsItem) {
			f := &ni.frames[len(ni.frames)-1]
			if len(ni.frames) == 1 {
				if to == l.Head {
					ns := ni.st
					switch {
					case strings.HasPrefix(ns.pendSec, "ignored:") && ns.pend != nil:
						report(core.PosOf(ns.pend.(ssa.Instruction)), "ignored error of "+strings.TrimPrefix(ns.pendSec, "ignored:"),
							fmt.Sprintf("the error of %s is ignored and the loop continues: when the resource does not fit the message nothing is consumed and the same header is read again forever", strings.TrimPrefix(ns.pendSec, "ignored:")))
					case ns.pend != nil:
						report(core.PosOf(ns.pend.(ssa.Instruction)), "untested error of "+ns.pendSec,
							fmt.Sprintf("the result of %s reaches the next iteration without being tested", ns.pendSec))
					case ns.hdr != "":
						report(core.PosOf(last), fmt.Sprintf("iteration without consuming (%s section) via block %s", ns.hdr, b.Comment),
							fmt.Sprintf("a path through the loop body reads a %s-section header and reaches the next iteration without consuming the resource: the parser re-reads the same header forever", ns.hdr))
					}
					return
				}
				if !l.Blocks[to] {
					return // leaves the loop
				}
			}
			f.block, f.idx = to, 0
			work = append(work, ni)
		}
		switch t := last.(type) {
		case *ssa.Return:
			if len(it.frames) == 1 {
				continue // returns from the function: leaves the loop
			}
			// return into the caller: re-bind a pending error that is returned to the caller's call value
			ni := it.clone()
			fr := ni.frames[len(ni.frames)-1]
			ni.frames = ni.frames[:len(ni.frames)-1]
			callErr := errValueOf(fr.call)
			if ni.st.pend != nil {
				returned := false
				for _, rv := range t.Results {
					if derivesErr(rv, ni.st.pend) || rv == ni.st.pend {
						returned = true
					}
				}
				if strings.HasPrefix(ni.st.pendSec, "ignored:") {
					// stays ignored
				} else if returned {
					if callErr == nil || unused(callErr) {
						ni.st.pend = fr.call
						ni.st.pendSec = "ignored:" + ni.st.pendSec + " (via " + fr.fn.Name() + ")"
					} else {
						ni.st.pend = callErr
					}
				}
			}
			work = append(work, ni)
		case *ssa.If:
			tI, fI := it.clone(), it.clone()
			tOK, fOK := true, true
			if cmp, ok := t.Cond.(*ssa.BinOp); ok && (cmp.Op == token.EQL || cmp.Op == token.NEQ) {
				eqI, neI := &tI, &fI // item on the edge where X == Y / X != Y
				eqOK, neOK := &tOK, &fOK
				if cmp.Op == token.NEQ {
					eqI, neI = &fI, &tI
					eqOK, neOK = &fOK, &tOK
				}
				if cst, ok := cmp.Y.(*ssa.Const); ok && cst.Value != nil && cst.Value.Kind() == constant.String {
					val := constant.StringVal(cst.Value)
					loc := location(cmp.X, top)
					if cur, ok := it.eq[loc]; ok {
						if cur == val {
							*neOK = false
						} else {
							*eqOK = false
						}
					} else if it.neq[loc][val] {
						*eqOK = false
					} else {
						eqI.eq[loc] = val
						if neI.neq[loc] == nil {
							neI.neq[loc] = map[string]bool{}
						}
						neI.neq[loc][val] = true
					}
				}
				isSectionDone := func(v ssa.Value) bool {
					if u, ok := v.(*ssa.UnOp); ok && u.Op == token.MUL {
						if g, ok := u.X.(*ssa.Global); ok && g.Name() == "ErrSectionDone" {
							return true
						}
					}
					return false
				}
				if isSectionDone(cmp.Y) && derivesErr(cmp.X, it.st.hdrErr) {
					eqI.st.hdr, eqI.st.hdrErr = "", nil
				}
				if cst, ok := cmp.Y.(*ssa.Const); ok && cst.Value == nil {
					if it.st.pend != nil && !strings.HasPrefix(it.st.pendSec, "ignored:") && derivesErr(cmp.X, it.st.pend) {
						neI.st.pend, neI.st.pendSec = nil, "" // err != nil: nothing consumed, header still pending
						eqI.st.pend, eqI.st.pendSec = nil, "" // err == nil: consumed
						eqI.st.hdr, eqI.st.hdrErr = "", nil
					} else if derivesErr(cmp.X, it.st.hdrErr) {
						neI.st.hdr, neI.st.hdrErr = "", nil // header call failed: no header pending
					}
				}
			}
			if tOK {
				push(b.Succs[0], tI)
			}
			if fOK {
				push(b.Succs[1], fI)
			}
		default:
			for _, s := range b.Succs {
				push(s, it.clone())
			}
		}
	}
	if allOK {
		c.R.Add(core.Obligation{Rule: "parser-typestate", Key: "parser-typestate " + core.FuncName(fn) + " " + loopDesc(l), Func: core.FuncName(fn), Pos: c.P.Pos(core.PosOf(l.Head.Instrs[0])),
			Status: core.Proved, Basis: fmt.Sprintf("every path through the loop body (%d block-states explored, calls into parser-using helpers followed) consumes the resource whose header it read, or leaves the loop", steps)})
	}
	return allOK
}
