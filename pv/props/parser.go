package props

import (
	"fmt"
	"go/constant"
	"go/token"
	"sort"
	"strings"

	"golang.org/x/tools/go/ssa"

	"pv/core"
)

// Typestate rule for golang.org/x/net/dns/dnsmessage.Parser (semantics read from the pinned
// x/net v0.34.0, message.go: resourceHeader / checkAdvance / skipResource):
//
//   * <S>Header() re-reads the *same* header until a consuming call succeeds;
//   * a typed <T>Resource()/UnknownResource() consumes only when it returns a nil error;
//   * Skip<S'>() consumes only when S' is the section of the pending header and the
//     resource fits the message; Skip<S'> with S' != S returns an error without advancing.
//
// Hence a loop iteration that reaches the back edge with a header read and nothing
// successfully consumed (or with the error of the consuming call ignored) does not advance:
// the next iteration sees the same header — the loop can spin forever on a crafted packet.

const dnsPkg = "golang.org/x/net/dns/dnsmessage"

func parserMethod(site ssa.CallInstruction) (recv ssa.Value, name string) {
	callee := site.Common().StaticCallee()
	if callee == nil || callee.Object() == nil || callee.Object().Pkg() == nil || callee.Object().Pkg().Path() != dnsPkg {
		return nil, ""
	}
	if callee.Signature.Recv() == nil || !strings.HasSuffix(callee.Signature.Recv().Type().String(), "dnsmessage.Parser") {
		return nil, ""
	}
	if len(site.Common().Args) == 0 {
		return nil, ""
	}
	return site.Common().Args[0], callee.Name()
}

func headerSection(name string) string {
	switch name {
	case "AnswerHeader":
		return "Answer"
	case "AuthorityHeader":
		return "Authority"
	case "AdditionalHeader":
		return "Additional"
	}
	return ""
}

// consuming: "" = not consuming; "*" = consumes in any section; "Answer" etc = consumes only in that section.
func consumingSection(name string) string {
	switch name {
	case "SkipAnswer":
		return "Answer"
	case "SkipAuthority":
		return "Authority"
	case "SkipAdditional":
		return "Additional"
	case "UnknownResource":
		return "*"
	}
	if strings.HasSuffix(name, "Resource") && name != "UnknownResource" {
		return "*"
	}
	return ""
}

type tsState struct {
	hdr     string    // section of the pending (read, unconsumed) header
	hdrErr  ssa.Value // error value of the header call (nil-ness not yet tested)
	pend    ssa.Value // error value of a consuming call whose outcome is not yet tested
	pendSec string
	known   string // serialised string-equality knowledge
}

func (s tsState) key() string {
	return fmt.Sprintf("%s|%p|%p|%s|%s", s.hdr, s.hdrErr, s.pend, s.pendSec, s.known)
}

// parserTypestate checks every loop (in fns) that calls a header method. It returns, per loop
// head, whether all iterations consume.
func parserTypestate(c *Ctx, fns []*ssa.Function) map[*ssa.BasicBlock]bool {
	res := map[*ssa.BasicBlock]bool{}
	for _, fn := range fns {
		for _, l := range core.CFG(fn).Loops() {
			hasHeader := false
			for b := range l.Blocks {
				for _, ins := range b.Instrs {
					if site, ok := ins.(ssa.CallInstruction); ok {
						if _, name := parserMethod(site); headerSection(name) != "" {
							hasHeader = true
						}
					}
				}
			}
			if !hasHeader {
				continue
			}
			ok := walkParserLoop(c, fn, l)
			res[l.Head] = ok
		}
	}
	return res
}

func derivesErr(x ssa.Value, err ssa.Value) bool {
	if err == nil {
		return false
	}
	if x == err {
		return true
	}
	if phi, ok := x.(*ssa.Phi); ok {
		for _, e := range phi.Edges {
			if e == err {
				return true
			}
			if p2, ok := e.(*ssa.Phi); ok {
				for _, e2 := range p2.Edges {
					if e2 == err {
						return true
					}
				}
			}
		}
	}
	return false
}

func errValueOf(call *ssa.Call) ssa.Value {
	// (T, error) tuple -> Extract #last ; error alone -> the call
	if call.Referrers() == nil {
		return call
	}
	sig := call.Call.Signature()
	if sig.Results().Len() == 1 {
		return call
	}
	last := sig.Results().Len() - 1
	for _, r := range *call.Referrers() {
		if ex, ok := r.(*ssa.Extract); ok && ex.Index == last {
			return ex
		}
	}
	return nil // error result never extracted: ignored
}

func walkParserLoop(c *Ctx, fn *ssa.Function, l *core.Loop) bool {
	type item struct {
		b  *ssa.BasicBlock
		st tsState
		// string knowledge
		eq  map[ssa.Value]string
		neq map[ssa.Value]map[string]bool
	}
	allOK := true
	seen := map[string]bool{}
	report := func(pos token.Pos, key, detail string) {
		allOK = false
		c.R.Add(core.Obligation{Rule: "parser-typestate", Key: "parser-typestate " + core.FuncName(fn) + " " + key, Func: core.FuncName(fn), Pos: c.P.Pos(pos), Status: core.Violated,
			Detail: detail, Hint: "consume the resource whose header was read (typed Resource call checked for error, or Skip of the same section checked for error), or return"})
	}
	ser := func(eq map[ssa.Value]string, neq map[ssa.Value]map[string]bool) string {
		var parts []string
		for v, s := range eq {
			parts = append(parts, fmt.Sprintf("%p=%s", v, s))
		}
		for v, m := range neq {
			var ks []string
			for k := range m {
				ks = append(ks, k)
			}
			sort.Strings(ks)
			parts = append(parts, fmt.Sprintf("%p!=%s", v, strings.Join(ks, ",")))
		}
		sort.Strings(parts)
		return strings.Join(parts, ";")
	}
	work := []item{{b: l.Head, eq: map[ssa.Value]string{}, neq: map[ssa.Value]map[string]bool{}}}
	steps := 0
	for len(work) > 0 {
		it := work[len(work)-1]
		work = work[:len(work)-1]
		it.st.known = ser(it.eq, it.neq)
		k := fmt.Sprintf("%d|%s", it.b.Index, it.st.key())
		if seen[k] {
			continue
		}
		seen[k] = true
		steps++
		if steps > 200000 {
			c.R.Fatal("parser typestate walk exceeded its budget in %s", core.FuncName(fn))
			return false
		}
		st := it.st
		for _, ins := range it.b.Instrs {
			call, ok := ins.(*ssa.Call)
			if !ok {
				continue
			}
			_, name := parserMethod(call)
			if name == "" {
				continue
			}
			if sec := headerSection(name); sec != "" {
				if st.hdr != "" && st.pend == nil {
					// header read again with the previous one unconsumed inside one iteration: no progress by itself, checked at the back edge
				}
				st.hdr = sec
				st.hdrErr = errValueOf(call)
				st.pend = nil
				continue
			}
			if cs := consumingSection(name); cs != "" {
				if st.pend != nil {
					// previous consuming call's error never tested; it may have failed
				}
				if st.hdr == "" {
					continue
				}
				if cs != "*" && cs != st.hdr {
					report(core.PosOf(call), fmt.Sprintf("%s in section %s", name, st.hdr),
						fmt.Sprintf("%s is called while the pending header was read with %sHeader: skipResource returns an error without advancing, the header stays pending", name, st.hdr))
					continue
				}
				ev := errValueOf(call)
				if ev == nil || ev.Referrers() == nil || len(*ev.Referrers()) == 0 {
					// error ignored: on failure nothing is consumed
					st.pend = call
					st.pendSec = "ignored:" + name
					continue
				}
				st.pend = ev
				st.pendSec = name
				continue
			}
		}
		// terminator
		last := it.b.Instrs[len(it.b.Instrs)-1]
		succs := it.b.Succs
		push := func(to *ssa.BasicBlock, ns tsState, eq map[ssa.Value]string, neq map[ssa.Value]map[string]bool) {
			if to == l.Head {
				// back edge
				if strings.HasPrefix(ns.pendSec, "ignored:") && ns.pend != nil {
					report(core.PosOf(ns.pend.(ssa.Instruction)), "ignored error of "+strings.TrimPrefix(ns.pendSec, "ignored:"),
						fmt.Sprintf("the error of %s is ignored and the loop continues: when the resource does not fit the message nothing is consumed and the same header is read again forever", strings.TrimPrefix(ns.pendSec, "ignored:")))
					return
				}
				if ns.pend != nil {
					// untested error of a consuming call reaching the back edge
					report(core.PosOf(ns.pend.(ssa.Instruction)), "untested error of "+ns.pendSec,
						fmt.Sprintf("the result of %s reaches the next iteration without being tested", ns.pendSec))
					return
				}
				if ns.hdr != "" {
					report(core.PosOf(it.b.Instrs[len(it.b.Instrs)-1]), fmt.Sprintf("iteration without consuming (%s section) via block %s", ns.hdr, it.b.Comment),
						fmt.Sprintf("a path through the loop body reads a %s-section header and reaches the next iteration without consuming the resource: the parser re-reads the same header forever", ns.hdr))
				}
				return
			}
			if !l.Blocks[to] {
				return // leaves the loop
			}
			work = append(work, item{b: to, st: ns, eq: eq, neq: neq})
		}
		cloneEq := func() (map[ssa.Value]string, map[ssa.Value]map[string]bool) {
			e := map[ssa.Value]string{}
			for k, v := range it.eq {
				e[k] = v
			}
			n := map[ssa.Value]map[string]bool{}
			for k, m := range it.neq {
				n[k] = map[string]bool{}
				for s := range m {
					n[k][s] = true
				}
			}
			return e, n
		}
		iff, isIf := last.(*ssa.If)
		if !isIf {
			for _, s := range succs {
				e, n := cloneEq()
				push(s, st, e, n)
			}
			continue
		}
		tS, fS := st, st
		tFeasible, fFeasible := true, true
		te, tn := cloneEq()
		fe, fnq := cloneEq()
		if cmp, ok := iff.Cond.(*ssa.BinOp); ok && (cmp.Op == token.EQL || cmp.Op == token.NEQ) {
			eqEdge := func(eq bool) (*tsState, *map[ssa.Value]string, *map[ssa.Value]map[string]bool, *bool) {
				if (cmp.Op == token.EQL) == eq {
					return &tS, &te, &tn, &tFeasible
				}
				return &fS, &fe, &fnq, &fFeasible
			}
			// string constant comparison
			if cst, ok := cmp.Y.(*ssa.Const); ok && cst.Value != nil && cst.Value.Kind() == constant.String {
				val := constant.StringVal(cst.Value)
				v := cmp.X
				// equal edge
				_, e, _, feas := eqEdge(true)
				if cur, ok := it.eq[v]; ok && cur != val {
					*feas = false
				} else if it.neq[v][val] {
					*feas = false
				} else {
					(*e)[v] = val
				}
				_, _, n2, feas2 := eqEdge(false)
				if cur, ok := it.eq[v]; ok && cur == val {
					*feas2 = false
				} else {
					if (*n2)[v] == nil {
						(*n2)[v] = map[string]bool{}
					}
					(*n2)[v][val] = true
				}
			}
			// err == ErrSectionDone
			isSectionDone := func(v ssa.Value) bool {
				if u, ok := v.(*ssa.UnOp); ok && u.Op == token.MUL {
					if g, ok := u.X.(*ssa.Global); ok && g.Name() == "ErrSectionDone" {
						return true
					}
				}
				return false
			}
			if isSectionDone(cmp.Y) && derivesErr(cmp.X, st.hdrErr) {
				s, _, _, _ := eqEdge(true)
				s.hdr, s.hdrErr = "", nil
			}
			// err != nil / err == nil
			if cst, ok := cmp.Y.(*ssa.Const); ok && cst.Value == nil {
				if st.pend != nil && derivesErr(cmp.X, st.pend) {
					nonnil, _, _, _ := eqEdge(false) // edge where err != nil
					nonnil.pend, nonnil.pendSec = nil, ""
					isnil, _, _, _ := eqEdge(true)
					isnil.pend, isnil.pendSec = nil, ""
					isnil.hdr, isnil.hdrErr = "", nil
				} else if derivesErr(cmp.X, st.hdrErr) {
					nonnil, _, _, _ := eqEdge(false)
					nonnil.hdr, nonnil.hdrErr = "", nil
				}
			}
		}
		if tFeasible {
			push(succs[0], tS, te, tn)
		}
		if fFeasible {
			push(succs[1], fS, fe, fnq)
		}
	}
	if allOK {
		c.R.Add(core.Obligation{Rule: "parser-typestate", Key: "parser-typestate " + core.FuncName(fn) + " " + loopDesc(l), Func: core.FuncName(fn), Pos: c.P.Pos(core.PosOf(l.Head.Instrs[0])),
			Status: core.Proved, Basis: fmt.Sprintf("every path through the loop body (%d block-states explored) consumes the resource whose header it read, or leaves the loop", steps)})
	}
	return allOK
}
