package props

import (
	"fmt"
	"go/token"
	"go/types"
	"regexp"
	"sort"
	"strings"

	"golang.org/x/tools/go/ssa"

	"pv/absint"
	"pv/core"
)

// Engine F helpers: guard dominance via control dependence, must-pass-through, normal-form
// rendering of conditions and values.

// norm renders a value in normal form with loads and parentheses removed, so that
// `*(*recv.session).NICInfo` and `recv.session.NICInfo` read the same: "recv.session.NICInfo".
func norm(v ssa.Value) string {
	s := absint.ExprString(v, 10)
	s = strings.ReplaceAll(s, "*", "")
	return s
}

// Guard: the instruction executes only if Cond evaluated to Pol at branch block Branch.
type Guard struct {
	Cond   ssa.Value
	Pol    bool
	Branch *ssa.BasicBlock
	Text   string // normal form of the condition with polarity folded in ("!" prefix when false)
}

// guardsOf returns the dominating conditions of instr: for every dominator D of instr's block
// (including the block itself) that has a single predecessor P ending in an If, the condition
// of P with the polarity of the edge P->D. Whenever control reaches instr, the most recent
// evaluation of each such condition had that polarity. (Blocks reached from both arms of a
// short-circuit || contribute no guard, as they should.) Negations are folded into the polarity.
func guardsOf(instr ssa.Instruction) []Guard {
	var out []Guard
	for d := instr.Block(); d != nil; d = d.Idom() {
		if len(d.Preds) != 1 {
			continue
		}
		p := d.Preds[0]
		iff, ok := p.Instrs[len(p.Instrs)-1].(*ssa.If)
		if !ok {
			continue
		}
		if p.Succs[0] == p.Succs[1] {
			continue
		}
		cond := iff.Cond
		pol := p.Succs[0] == d
		for {
			if u, ok := cond.(*ssa.UnOp); ok && u.Op == token.NOT {
				cond = u.X
				pol = !pol
				continue
			}
			break
		}
		txt := norm(cond)
		if bo, ok := cond.(*ssa.BinOp); ok && bo.Op == token.NEQ {
			txt = "(" + norm(bo.X) + "==" + norm(bo.Y) + ")"
			pol = !pol
		}
		g := Guard{Cond: cond, Pol: pol, Branch: p, Text: txt}
		if !pol {
			g.Text = "!" + txt
		}
		out = append(out, g)
	}
	sort.Slice(out, func(i, j int) bool { return out[i].Text < out[j].Text })
	return out
}

// guardTexts renders the guards (for evidence and diagnostics).
func guardTexts(gs []Guard) string {
	var ts []string
	seen := map[string]bool{}
	for _, g := range gs {
		if !seen[g.Text] {
			seen[g.Text] = true
			ts = append(ts, g.Text)
		}
	}
	return strings.Join(ts, " && ")
}

// hasGuard: some guard's text matches the regular expression (polarity is part of the text: leading "!").
func hasGuard(gs []Guard, re string) bool {
	r := regexp.MustCompile(re)
	for _, g := range gs {
		if r.MatchString(g.Text) {
			return true
		}
		// a == b and b == a are one condition: the pattern may have been written for either order
		if alt := swapEquality(g.Text); alt != "" && r.MatchString(alt) {
			return true
		}
	}
	return false
}

// swapEquality rewrites "(A==B)" / "!(A==B)" / "(A!=B)" as the same condition with the operands exchanged; "" when the
// text is not a single top-level equality.
func swapEquality(t string) string {
	neg := ""
	if strings.HasPrefix(t, "!") {
		neg, t = "!", t[1:]
	}
	if len(t) < 5 || t[0] != '(' || t[len(t)-1] != ')' {
		return ""
	}
	body := t[1 : len(t)-1]
	depth := 0
	for i := 0; i+1 < len(body); i++ {
		switch body[i] {
		case '(', '[':
			depth++
		case ')', ']':
			depth--
			if depth < 0 {
				return "" // the outer parentheses do not enclose the whole text
			}
		}
		if depth == 0 && (body[i] == '=' || body[i] == '!') && body[i+1] == '=' && i > 0 && body[i-1] != '<' && body[i-1] != '>' && body[i-1] != '=' {
			op := body[i : i+2]
			a, b := body[:i], body[i+2:]
			if a == "" || b == "" || strings.HasPrefix(b, "=") {
				return ""
			}
			return neg + "(" + b + op + a + ")"
		}
	}
	return ""
}

// requireGuards records one obligation per required guard pattern for site.
type guardReq struct {
	name string // what the guard means
	re   string // regular expression over the normal-form guard text
}

func requireGuards(c *Ctx, rule, siteKey string, site ssa.Instruction, reqs []guardReq) {
	gs := guardsOf(site)
	for _, rq := range reqs {
		st := core.Proved
		if !hasGuard(gs, rq.re) {
			st = core.Violated
		}
		c.R.Add(core.Obligation{Rule: rule, Key: fmt.Sprintf("%s %s requires %s", rule, siteKey, rq.name), Func: core.FuncName(site.Parent()), Pos: c.P.Pos(core.PosOf(site)),
			Status: st, Basis: "control dependent on: " + guardTexts(gs),
			Detail: fmt.Sprintf("the site is not control dependent on the required condition %q (pattern %s); conditions it depends on: %s", rq.name, rq.re, guardTexts(gs))})
	}
}

// callsIn returns the call instructions in fn whose callee name matches (exact full name or suffix after the last '.').
func callsIn(fn *ssa.Function, match func(name string, call ssa.CallInstruction) bool) []ssa.CallInstruction {
	var out []ssa.CallInstruction
	if fn == nil {
		return nil
	}
	core.EachInstr(fn, func(i ssa.Instruction) {
		if c, ok := i.(ssa.CallInstruction); ok {
			if match(core.CalleeName(c), c) {
				out = append(out, c)
			}
		}
	})
	return out
}

func nameIs(names ...string) func(string, ssa.CallInstruction) bool {
	return func(n string, _ ssa.CallInstruction) bool {
		for _, w := range names {
			if n == w || strings.HasSuffix(n, "."+w) || strings.HasSuffix(n, ")."+w) {
				return true
			}
		}
		return false
	}
}

// shortCallee renders "(pkg.T).M" / "pkg.F" with the module path shortened.
func shortCallee(c ssa.CallInstruction) string {
	n := core.CalleeName(c)
	n = strings.ReplaceAll(n, core.ModPath+"/handlers/", "")
	n = strings.ReplaceAll(n, core.ModPath+"/", "")
	n = strings.ReplaceAll(n, core.ModPath, "packet")
	return n
}

// mustPass: every path from `from` (exclusive) to a function exit passes an instruction
// satisfying pred. Returns the offending exit when one is reachable without it.
func mustPass(from ssa.Instruction, pred func(ssa.Instruction) bool) (ok bool, exit ssa.Instruction) {
	type pos struct {
		b *ssa.BasicBlock
		i int
	}
	start := pos{from.Block(), core.InstrIndex(from) + 1}
	seen := map[*ssa.BasicBlock]bool{}
	var walk func(p pos) (bool, ssa.Instruction)
	walk = func(p pos) (bool, ssa.Instruction) {
		for i := p.i; i < len(p.b.Instrs); i++ {
			ins := p.b.Instrs[i]
			if pred(ins) {
				return true, nil
			}
			switch t := ins.(type) {
			case *ssa.Return:
				return false, ins
			case *ssa.Panic:
				// the unreachable default of a blocking select is not an exit of the function
				if c, ok := t.X.(*ssa.MakeInterface); ok {
					if k, ok := c.X.(*ssa.Const); ok && k.Value != nil && strings.Contains(k.Value.ExactString(), "blocking select matched no case") {
						return true, nil
					}
				}
				return false, ins
			}
		}
		for _, s := range p.b.Succs {
			if seen[s] {
				continue
			}
			seen[s] = true
			if ok, ex := walk(pos{s, 0}); !ok {
				return false, ex
			}
		}
		return true, nil
	}
	return walk(start)
}

// reachesWithout: some path from `from` reaches `to` without passing an instruction satisfying pred.
func reachesWithout(from, to ssa.Instruction, pred func(ssa.Instruction) bool) bool {
	type pos struct {
		b *ssa.BasicBlock
		i int
	}
	seen := map[*ssa.BasicBlock]bool{}
	var walk func(p pos) bool
	walk = func(p pos) bool {
		for i := p.i; i < len(p.b.Instrs); i++ {
			ins := p.b.Instrs[i]
			if ins == to {
				return true
			}
			if pred(ins) {
				return false
			}
		}
		for _, s := range p.b.Succs {
			if seen[s] {
				continue
			}
			seen[s] = true
			if walk(pos{s, 0}) {
				return true
			}
		}
		return false
	}
	return walk(pos{from.Block(), core.InstrIndex(from) + 1})
}

// storesToField returns the Store instructions in fns whose address is field `field` of named type `typ` (package short name pkg).
func storesToField(fns []*ssa.Function, pkg, typ, field string) []*ssa.Store {
	var out []*ssa.Store
	for _, fn := range fns {
		core.EachInstr(fn, func(i ssa.Instruction) {
			st, ok := i.(*ssa.Store)
			if !ok {
				return
			}
			fa, ok := st.Addr.(*ssa.FieldAddr)
			if !ok {
				return
			}
			if isField(fa, pkg, typ, field) {
				out = append(out, st)
			}
		})
	}
	return out
}

func isField(fa *ssa.FieldAddr, pkg, typ, field string) bool {
	n := fieldOwner(fa)
	return n == pkg+"."+typ+"."+field
}

// fieldOwner renders "pkgname.Type.field" for a field address ("" for anonymous structs).
func fieldOwner(fa *ssa.FieldAddr) string {
	pt, ok := fa.X.Type().Underlying().(*types.Pointer)
	if !ok {
		return ""
	}
	nt, ok := pt.Elem().(*types.Named)
	if !ok {
		return ""
	}
	st, ok := nt.Underlying().(*types.Struct)
	if !ok || fa.Field >= st.NumFields() {
		return ""
	}
	return pkgShort(nt.Obj().Pkg()) + "." + nt.Obj().Name() + "." + st.Field(fa.Field).Name()
}

// ---- finite abstraction of netip.Addr arguments: address classes ----

// addrClass is one equivalence class of netip.Addr values under the predicates the code tests.
type addrClass struct {
	Name                                   string
	Valid, Is4, Is6, LinkLocalUnicast, GUA bool
}

var addrClasses = []addrClass{
	{Name: "no address (zero netip.Addr)"},
	{Name: "IPv4", Valid: true, Is4: true},
	{Name: "IPv4 link-local (169.254/16)", Valid: true, Is4: true, LinkLocalUnicast: true},
	{Name: "IPv6 link-local unicast", Valid: true, Is6: true, LinkLocalUnicast: true},
	{Name: "IPv6 global unicast", Valid: true, Is6: true, GUA: true},
	{Name: "IPv6 other (multicast/unspecified)", Valid: true, Is6: true},
}

// evalAddrCond evaluates a condition that is a netip.Addr predicate of an expression whose normal form
// has suffix ipExpr (e.g. "arg0.IP"), for one class. ok=false: not such a predicate.
func evalAddrCond(v ssa.Value, ipExpr string, cl addrClass) (val, ok bool) {
	switch t := v.(type) {
	case *ssa.UnOp:
		if t.Op == token.NOT {
			b, ok := evalAddrCond(t.X, ipExpr, cl)
			return !b, ok
		}
	case *ssa.Call:
		callee := t.Call.StaticCallee()
		if callee == nil || len(t.Call.Args) != 1 || !strings.HasSuffix(norm(t.Call.Args[0]), ipExpr) {
			return false, false
		}
		switch callee.String() {
		case "(net/netip.Addr).IsValid":
			return cl.Valid, true
		case "(net/netip.Addr).Is4":
			return cl.Is4, true
		case "(net/netip.Addr).Is6":
			return cl.Is6, true
		case "(net/netip.Addr).IsLinkLocalUnicast":
			return cl.LinkLocalUnicast, true
		case "(net/netip.Addr).IsGlobalUnicast":
			return cl.GUA, true
		}
	}
	return false, false
}

// classReach simulates fn for one address class: branches on address predicates follow the class, every other
// branch is explored both ways. It reports whether some path reaches an instruction satisfying pred, and whether
// every path to a return passes one.
func classReach(fn *ssa.Function, ipExpr string, cl addrClass, pred func(ssa.Instruction) bool) (some, all bool) {
	all = true
	type item struct {
		b    *ssa.BasicBlock
		pass bool
	}
	seen := map[item]bool{}
	var walk func(it item)
	walk = func(it item) {
		if seen[it] {
			return
		}
		seen[it] = true
		pass := it.pass
		for _, ins := range it.b.Instrs {
			if pred(ins) {
				pass, some = true, true
			}
			switch t := ins.(type) {
			case *ssa.Return:
				if !pass {
					all = false
				}
				return
			case *ssa.Panic:
				return
			case *ssa.If:
				if v, ok := evalAddrCond(t.Cond, ipExpr, cl); ok {
					if v {
						walk(item{it.b.Succs[0], pass})
					} else {
						walk(item{it.b.Succs[1], pass})
					}
					return
				}
			}
		}
		for _, s := range it.b.Succs {
			walk(item{s, pass})
		}
	}
	if len(fn.Blocks) > 0 {
		walk(item{fn.Blocks[0], false})
	}
	return some, all
}

// pathInfo: one acyclic path with its branch decisions and the blocks it runs through.
type pathInfo struct {
	Conds  []string
	Blocks []*ssa.BasicBlock
}

// pathsTo enumerates the acyclic paths from the nearest single-entry dominator of b down to b
// (the same region as pathDNF), keeping the blocks of each path so that a rule can ask what
// was executed on it.
func pathsTo(b *ssa.BasicBlock, limit int) (out []pathInfo, complete bool) {
	start := b.Idom()
	for start != nil && len(start.Preds) > 1 {
		start = start.Idom()
	}
	if start == nil {
		return nil, false
	}
	complete = true
	var walk func(cur *ssa.BasicBlock, conds []string, blocks []*ssa.BasicBlock, seen map[*ssa.BasicBlock]bool)
	walk = func(cur *ssa.BasicBlock, conds []string, blocks []*ssa.BasicBlock, seen map[*ssa.BasicBlock]bool) {
		if len(out) >= limit {
			complete = false
			return
		}
		if cur == b {
			out = append(out, pathInfo{Conds: append([]string(nil), conds...), Blocks: append(append([]*ssa.BasicBlock(nil), blocks...), cur)})
			return
		}
		if seen[cur] {
			return
		}
		seen[cur] = true
		defer delete(seen, cur)
		blocks = append(blocks, cur)
		if iff, ok := cur.Instrs[len(cur.Instrs)-1].(*ssa.If); ok {
			txt := norm(iff.Cond)
			walk(cur.Succs[0], append(conds[:len(conds):len(conds)], txt), blocks, seen)
			walk(cur.Succs[1], append(conds[:len(conds):len(conds)], "!"+txt), blocks, seen)
			return
		}
		for _, s := range cur.Succs {
			walk(s, conds, blocks, seen)
		}
	}
	walk(start, nil, nil, map[*ssa.BasicBlock]bool{})
	return out, complete
}

// pathDNFDeep is pathDNF for a block that sits below a chain of single-predecessor blocks (conditions joined with &&
// after a disjunction): the disjunction is enumerated at the nearest ancestor that has several predecessors, and the
// conditions of the chain below it - which all dominate b - are appended to every disjunct.
func pathDNFDeep(b *ssa.BasicBlock) []string {
	d := b
	for d != nil && len(d.Preds) <= 1 {
		d = d.Idom()
	}
	if d == nil || d == b {
		return pathDNF(b)
	}
	upper := pathDNF(d)
	if len(upper) == 0 || len(b.Instrs) == 0 {
		return pathDNF(b)
	}
	chain := guardTexts(guardsOf(b.Instrs[0]))
	out := make([]string, 0, len(upper))
	for _, u := range upper {
		out = append(out, u+" && "+chain)
	}
	return out
}
