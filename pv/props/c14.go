package props

import (
	"fmt"
	"go/constant"
	"go/token"
	"go/types"
	"regexp"
	"sort"
	"strings"

	"golang.org/x/tools/go/ssa"

	"pv/core"
	"pv/locks"
)

func init() { register("C14", "other", runC14) }

// resolveFields follows one level of local composite literals: field values that are themselves
// fields of another local literal are replaced by that literal's stored value.
func resolveFields(v ssa.Value) map[string]string {
	out := complitFields(v)
	var al *ssa.Alloc
	switch t := v.(type) {
	case *ssa.Alloc:
		al = t
	case *ssa.UnOp:
		al, _ = t.X.(*ssa.Alloc)
	}
	if al == nil {
		return out
	}
	fn := al.Parent()
	for k, val := range out {
		// "local(name).Field"
		if strings.HasPrefix(val, "local(") {
			end := strings.Index(val, ").")
			if end < 0 {
				continue
			}
			lname, field := val[len("local("):end], val[end+2:]
			core.EachInstr(fn, func(i ssa.Instruction) {
				if a2, ok := i.(*ssa.Alloc); ok && a2.Comment == lname {
					if inner, ok := complitFields(a2)[field]; ok {
						out[k] = inner
					}
				}
			})
		}
	}
	return out
}

func constBool(v ssa.Value) (bool, bool) {
	c, ok := v.(*ssa.Const)
	if !ok || c.Value == nil || c.Value.Kind() != constant.Bool {
		return false, false
	}
	return constant.BoolVal(c.Value), true
}

func runC14(c *Ctx) {
	r := c.R
	r.Explanation = "Confinement of forged neighbour advertisements and provenance of the learned router fields, decided on the CFG of the ICMPv6 handler. The NA send in spoofLoop must be dominated, in the same iteration, by " +
		"a positive hunt-list lookup of the destination MAC made with the handler mutex held, by !closed and by Router != nil; its source and target addresses bind our MAC (HostAddr4.MAC) and it is addressed to the loop's own target. " +
		"ICMP6SendNeighborAdvertisement marshals with router=false, solicited=false, override=true. StartHunt returns an error for IPv4 targets, returns without any state change for non-link-local IPv6 targets, and adds to the hunt list and starts " +
		"the loop only when the MAC is not yet listed (add under the mutex); StopHunt deletes under the mutex. In RA processing each Router field is assigned from the like-meaning getter of the advertisement (table below); " +
		"the getters themselves are checked against the RFC 4861 field table by C02. Not decided: equality of parsed option values with an independent decoder (C02/C08 cover decoding), timing."
	r.Rule("na-confined", "forged NA only to hunted MACs, after a router was learned, while not closed", 5)
	r.Rule("na-flags", "override set, router/solicited clear", 3)
	r.Rule("hunt-admin", "StartHunt filters and idempotence; StopHunt; the hunt list removes the entry found; 6-byte MACs only, own copy, one loop per MAC", 10)
	runNDPSiblings(c)
	runNDPWideArith(c)
	r.Rule("router-fields", "each Router field comes from the like-meaning RA getter and is updated by every advertisement", 21)

	rel := "handlers/icmp_spoofer"
	loop := c.A.Method(rel, "Handler6", "spoofLoop")
	start := c.A.Method(rel, "Handler6", "StartHunt")
	stop := c.A.Method(rel, "Handler6", "StopHunt")
	pp := c.A.Method(rel, "Handler6", "ProcessPacket")
	sendNA := c.A.Method("", "Session", "ICMP6SendNeighborAdvertisement")
	if loop == nil || start == nil || stop == nil || pp == nil || sendNA == nil {
		return
	}
	an := locks.Analyse(c.P, c.P.LibFunctions(), isConstructor)

	checkHuntMAC(c, "hunt-admin", start)
	checkOneLoop(c, "hunt-admin", start, loop, "Handler6.Mutex")
	// StopHunt relies on AddrList.Del: it removes the entry found, and only that one
	if del := c.A.Method("", "AddrList", "Del"); del != nil {
		checkSliceRemoval(c, "hunt-admin", "hunt-admin AddrList.Del removes the entry found and no other", del, "recv.list", func(P string, _ []Guard) bool {
			return strings.Contains(P, "(packet.AddrList).index(recv,") && strings.Contains(P, ".MAC)")
		})
	} else {
		r.Fatal("AddrList.Del not found")
	}
	// ---- NA confinement ----
	sites := 0
	for _, fn := range c.P.LibFunctions() {
		if fn.Pkg == nil || !strings.HasSuffix(fn.Pkg.Pkg.Path(), "icmp_spoofer") {
			continue
		}
		for _, site := range callsIn(fn, nameIs("ICMP6SendNeighborAdvertisement")) {
			sites++
			ins := site.(ssa.Instruction)
			if fn != loop {
				r.Add(core.Obligation{Rule: "na-confined", Key: "na-confined NA sent from " + core.FuncName(fn), Func: core.FuncName(fn), Pos: c.P.Pos(core.PosOf(ins)), Status: core.Violated,
					Detail: "a neighbour advertisement is sent outside spoofLoop"})
				continue
			}
			gs := guardsOf(ins)
			txt := guardTexts(gs)
			req := []struct{ name, re string }{
				{"destination MAC is in the hunt list", `^!\(\(packet\.AddrList\)\.Index\(recv\.huntList,local\(dstAddr\)\.MAC\)==-1\)$`},
				{"handler not closed", `^!recv\.closed$`},
				{"a router has been learned", `^!\(recv\.Router==nil\)$`},
			}
			for _, rq := range req {
				st := core.Proved
				if !hasGuard(gs, rq.re) {
					st = core.Violated
				}
				r.Add(core.Obligation{Rule: "na-confined", Key: "na-confined send requires " + rq.name, Func: core.FuncName(fn), Pos: c.P.Pos(core.PosOf(ins)), Status: st,
					Basis: "guards: " + txt, Detail: "the NA send is not dominated by the condition '" + rq.name + "' | guards: " + txt})
			}
			args := site.Common().Args
			st := core.Proved
			var why []string
			if len(args) == 4 {
				src := resolveFields(args[1])
				tgt := resolveFields(args[3])
				if !strings.HasSuffix(src["MAC"], "NICInfo.HostAddr4.MAC") {
					st = core.Violated
					why = append(why, "source MAC is not the host MAC: "+src["MAC"])
				}
				if !strings.HasSuffix(tgt["MAC"], "NICInfo.HostAddr4.MAC") {
					st = core.Violated
					why = append(why, "advertised link-layer address is not the host MAC: "+tgt["MAC"])
				}
				if norm(args[2]) != "local(dstAddr)" {
					st = core.Violated
					why = append(why, "destination is not the loop's own target: "+norm(args[2]))
				}
			} else {
				st = core.Violated
				why = append(why, "unexpected argument list")
			}
			r.Add(core.Obligation{Rule: "na-confined", Key: "na-confined send addresses", Func: core.FuncName(fn), Pos: c.P.Pos(core.PosOf(ins)), Status: st,
				Basis: "source/target MAC = HostAddr4.MAC; destination = the hunted target", Detail: strings.Join(why, "; ")})
			// the membership test: under the mutex, on every iteration
			for _, l := range core.CFG(loop).Loops() {
				if !l.Blocks[ins.Block()] {
					continue
				}
				for _, t := range callsIn(loop, nameIs("Index")) {
					ti := t.(ssa.Instruction)
					if !l.Blocks[ti.Block()] || !strings.Contains(norm(t.Common().Args[0]), "huntList") {
						continue
					}
					st := core.Proved
					var w []string
					if !an.Info[loop].MustIn[ti].HasClass("Handler6.Mutex") {
						st = core.Violated
						w = append(w, "hunt-list lookup without the handler mutex")
					}
					for _, lt := range l.Latch {
						if !(ti.Block() == lt || ti.Block().Dominates(lt)) {
							st = core.Violated
							w = append(w, "an iteration can skip the lookup")
						}
					}
					r.Add(core.Obligation{Rule: "na-confined", Key: "na-confined membership test each iteration under the mutex", Func: core.FuncName(loop), Pos: c.P.Pos(core.PosOf(ti)), Status: st,
						Basis: "lookup dominates every back edge, mutex held", Detail: strings.Join(w, "; ")})
				}
			}
		}
	}
	if sites == 0 {
		r.Fatal("no ICMP6SendNeighborAdvertisement call found in icmp_spoofer")
	}

	// ---- NA flags ----
	for _, site := range callsIn(sendNA, nameIs("ICMP6NeighborAdvertisementMarshal")) {
		args := site.Common().Args
		want := []struct {
			name string
			val  bool
		}{{"router", false}, {"solicited", false}, {"override", true}}
		for i, w := range want {
			st := core.Violated
			if i < len(args) {
				if b, ok := constBool(args[i]); ok && b == w.val {
					st = core.Proved
				}
			}
			r.Add(core.Obligation{Rule: "na-flags", Key: "na-flags " + w.name, Func: core.FuncName(sendNA), Pos: c.P.Pos(core.PosOf(site.(ssa.Instruction))), Status: st,
				Basis: fmt.Sprintf("%s flag constant %v", w.name, w.val), Detail: fmt.Sprintf("the %s flag of the forged advertisement is not the constant %v", w.name, w.val)})
		}
	}

	// ---- StartHunt / StopHunt ----
	fiS := an.Info[start]
	var adds, gos int
	core.EachInstr(start, func(i ssa.Instruction) {
		switch t := i.(type) {
		case *ssa.Return:
			gs := guardsOf(t)
			if hasGuard(gs, `^\(net/netip\.Addr\)\.Is4\(local\(addr\)\.IP\)$`) {
				st := core.Violated
				if len(t.Results) == 2 && strings.HasSuffix(norm(t.Results[1]), "ErrInvalidIP") {
					st = core.Proved
				}
				r.Add(core.Obligation{Rule: "hunt-admin", Key: "hunt-admin StartHunt rejects IPv4", Func: core.FuncName(start), Pos: c.P.Pos(core.PosOf(t)), Status: st,
					Basis: "IPv4 target returns ErrInvalidIP", Detail: "the IPv4 branch of StartHunt does not return ErrInvalidIP"})
			}
			if hasGuard(gs, `^\(net/netip\.Addr\)\.Is6\(local\(addr\)\.IP\)$`) && hasGuard(gs, `^!\(net/netip\.Addr\)\.IsLinkLocalUnicast\(local\(addr\)\.IP\)$`) {
				// no state change before this return
				clean := true
				for _, ins := range t.Block().Instrs {
					if call, ok := ins.(ssa.CallInstruction); ok {
						n := core.CalleeName(call)
						if strings.HasSuffix(n, ".Add") || strings.Contains(n, "spoofLoop") {
							clean = false
						}
					}
				}
				st := core.Proved
				if !clean {
					st = core.Violated
				}
				r.Add(core.Obligation{Rule: "hunt-admin", Key: "hunt-admin StartHunt ignores non-link-local IPv6", Func: core.FuncName(start), Pos: c.P.Pos(core.PosOf(t)), Status: st,
					Basis: "global/other IPv6 target returns before any state change", Detail: "state is changed for a non-link-local IPv6 target"})
			}
		case ssa.CallInstruction:
			n := core.CalleeName(t)
			isAdd := strings.HasSuffix(n, "AddrList).Add")
			_, isGo := i.(*ssa.Go)
			if !isAdd && !isGo {
				return
			}
			gs := guardsOf(i)
			st := core.Proved
			var why []string
			if !hasGuard(gs, `^\(\(packet\.AddrList\)\.Index\(recv\.huntList,local\(addr\)\.MAC\)==-1\)$`) {
				st = core.Violated
				why = append(why, "not dominated by 'MAC not yet in the hunt list'")
			}
			if !hasGuard(gs, `^!\(net/netip\.Addr\)\.Is4\(local\(addr\)\.IP\)$`) {
				st = core.Violated
				why = append(why, "reachable for an IPv4 target")
			}
			if isAdd {
				adds++
				if !fiS.MustIn[i].HasClass("Handler6.Mutex") {
					st = core.Violated
					why = append(why, "hunt list modified without the mutex")
				}
				r.Add(core.Obligation{Rule: "hunt-admin", Key: "hunt-admin StartHunt add", Func: core.FuncName(start), Pos: c.P.Pos(core.PosOf(i)), Status: st, Basis: "guards: " + guardTexts(gs), Detail: strings.Join(why, "; ") + " | guards: " + guardTexts(gs)})
			} else {
				gos++
				r.Add(core.Obligation{Rule: "hunt-admin", Key: "hunt-admin StartHunt starts loop once", Func: core.FuncName(start), Pos: c.P.Pos(core.PosOf(i)), Status: st, Basis: "guards: " + guardTexts(gs), Detail: strings.Join(why, "; ") + " | guards: " + guardTexts(gs)})
			}
		}
	})
	if adds == 0 || gos == 0 {
		r.Add(core.Obligation{Rule: "hunt-admin", Key: "hunt-admin StartHunt add/go present", Func: core.FuncName(start), Status: core.Violated, Detail: fmt.Sprintf("adds=%d go=%d", adds, gos)})
	}
	// the non-link-local filter must exist (the guard combination above must have matched a return)
	fiT := an.Info[stop]
	dels := 0
	for _, site := range callsIn(stop, nameIs("Del")) {
		dels++
		ins := site.(ssa.Instruction)
		st := core.Proved
		if !fiT.MustIn[ins].HasClass("Handler6.Mutex") {
			st = core.Violated
		}
		r.Add(core.Obligation{Rule: "hunt-admin", Key: "hunt-admin StopHunt deletes under the mutex", Func: core.FuncName(stop), Pos: c.P.Pos(core.PosOf(ins)), Status: st,
			Basis: "Del with the mutex held", Detail: "hunt list modified without the mutex"})
	}
	if dels == 0 {
		r.Add(core.Obligation{Rule: "hunt-admin", Key: "hunt-admin StopHunt deletes under the mutex", Func: core.FuncName(stop), Status: core.Violated, Detail: "StopHunt does not remove the MAC from the hunt list"})
	}
	// every class of target that StartHunt admits into the hunt list is removed by StopHunt (finite abstraction of
	// the address argument: the code looks at it only through IsValid/Is4/Is6/IsLinkLocalUnicast)
	if start != nil && stop != nil {
		isAdd := func(i ssa.Instruction) bool {
			ci, ok := i.(ssa.CallInstruction)
			return ok && strings.HasSuffix(core.CalleeName(ci), "AddrList).Add")
		}
		isDel := func(i ssa.Instruction) bool {
			ci, ok := i.(ssa.CallInstruction)
			return ok && strings.HasSuffix(core.CalleeName(ci), "AddrList).Del")
		}
		admitted := 0
		for _, cl := range addrClasses {
			adds, _ := classReach(start, "(addr).IP", cl, isAdd)
			if !adds {
				continue
			}
			admitted++
			_, delAll := classReach(stop, "(addr).IP", cl, isDel)
			st := core.Proved
			det := ""
			if !delAll {
				st = core.Violated
				det = "StartHunt admits a target with " + cl.Name + " into the hunt list, but StopHunt returns without removing it for that class of address: the spoof loop for such a target can never be stopped"
			}
			r.Add(core.Obligation{Rule: "hunt-admin", Key: "hunt-admin StopHunt removes what StartHunt admits: " + cl.Name, Func: core.FuncName(stop), Pos: c.P.Pos(stop.Pos()), Status: st,
				Basis: "address class admitted by StartHunt and removed by StopHunt on every path", Detail: det})
		}
		if admitted == 0 {
			r.Add(core.Obligation{Rule: "hunt-admin", Key: "hunt-admin StartHunt admits some class", Func: core.FuncName(start), Status: core.Violated, Detail: "no address class reaches huntList.Add in StartHunt"})
		}
	}

	// ---- Router field provenance ----
	want := map[string]string{
		"ManagedFlag":     "ManagedConfiguration(",
		"OtherCondigFlag": "OtherConfiguration(",
		"Preference":      ").Preference(",
		"CurHopLimit":     "CurrentHopLimit(",
		"DefaultLifetime": ").Lifetime(",
		"ReacheableTime":  "ReachableTime(",
		"RetransTimer":    "RetransmitTimer(",
		"Options":         ").Options(",
		"Prefixes":        ".Prefixes",
	}
	seen := map[string]bool{}
	core.EachInstr(pp, func(i ssa.Instruction) {
		st, ok := i.(*ssa.Store)
		if !ok {
			return
		}
		fa, ok := st.Addr.(*ssa.FieldAddr)
		if !ok || !strings.HasPrefix(fieldOwner(fa), "icmp_spoofer.Router.") {
			return
		}
		f := strings.TrimPrefix(fieldOwner(fa), "icmp_spoofer.Router.")
		w, known := want[f]
		if !known {
			return
		}
		seen[f] = true
		val := norm(st.Val)
		status := core.Proved
		if f == "Options" || f == "Prefixes" {
			// loaded from the local that holds the result of frame.Options()
			fromOptions := localAlwaysFrom(st.Val, func(v ssa.Value) bool {
				ex, ok := v.(*ssa.Extract)
				if !ok || ex.Index != 0 {
					return false
				}
				call, ok := ex.Tuple.(*ssa.Call)
				return ok && strings.HasSuffix(core.CalleeName(call), "ICMP6RouterAdvertisement).Options")
			})
			if !fromOptions || (f == "Prefixes" && !strings.HasSuffix(val, ".Prefixes")) {
				status = core.Violated
			}
		} else if !strings.Contains(val, w) || !strings.Contains(val, "ICMP6RouterAdvertisement") {
			status = core.Violated
		}
		if f == "DefaultLifetime" && !strings.Contains(val, "1000000000") {
			status = core.Violated
		}
		r.Add(core.Obligation{Rule: "router-fields", Key: "router-fields Router." + f, Func: core.FuncName(pp), Pos: c.P.Pos(core.PosOf(st)), Status: status,
			Basis: "assigned from " + val, Detail: fmt.Sprintf("Router.%s is assigned from %s, expected the advertisement's %s", f, val, strings.Trim(w, ").("))})
		// every advertisement that reaches the table lookup updates the field: the store lies on every path from
		// findOrCreateRouter to a return (an "unchanged, skip" shortcut keeps stale flags and lifetimes)
		for _, lk := range callsIn(pp, nameIs("findOrCreateRouter")) {
			okAll, exit := mustPass(lk.(ssa.Instruction), func(j ssa.Instruction) bool { return j == ssa.Instruction(st) })
			us := core.Proved
			det := ""
			if !okAll {
				us = core.Violated
				det = "a path from the router lookup reaches the return at " + c.P.Pos(core.PosOf(exit)) + " without assigning Router." + f + ": a later advertisement of a known router is not recorded"
			}
			r.Add(core.Obligation{Rule: "router-fields", Key: "router-fields Router." + f + " updated by every advertisement", Func: core.FuncName(pp), Pos: c.P.Pos(core.PosOf(st)), Status: us,
				Basis: "the store lies on every path from findOrCreateRouter to a return", Detail: det})
		}
	})
	// every valid advertisement is recorded: no path from the validity check of the advertisement to a nil-error return
	// avoids the table lookup (a sampling counter, or a "seen recently" shortcut, leaves the table behind what is advertised
	// and a second router whose advertisements fall in the skipped slots is never learned)
	for _, site := range callsIn(pp, func(n string, _ ssa.CallInstruction) bool {
		return strings.HasSuffix(n, "ICMP6RouterAdvertisement).IsValid")
	}) {
		lookup := func(j ssa.Instruction) bool {
			cl, ok := j.(ssa.CallInstruction)
			return ok && cl.Common().StaticCallee() != nil && cl.Common().StaticCallee().Name() == "findOrCreateRouter"
		}
		us, det := core.Proved, ""
		core.EachInstr(pp, func(j ssa.Instruction) {
			ret, ok := j.(*ssa.Return)
			if !ok || len(ret.Results) != 1 {
				return
			}
			if k, isC := ret.Results[0].(*ssa.Const); !isC || !k.IsNil() {
				return
			}
			if reachesWithout(site.(ssa.Instruction), ret, lookup) {
				us = core.Violated
				det = "a valid router advertisement can reach the successful return at " + c.P.Pos(core.PosOf(ret)) + " without the router-table lookup: advertisements are skipped and the table does not record what they advertise"
			}
		})
		r.Add(core.Obligation{Rule: "router-fields", Key: "router-fields every valid advertisement reaches the table", Func: core.FuncName(pp), Pos: c.P.Pos(core.PosOf(site.(ssa.Instruction))), Status: us,
			Basis: "every path from the advertisement's IsValid to a nil return passes findOrCreateRouter", Detail: det})
	}
	// the length classes of the route information option are those of RFC 4191 2.3: prefix length 0, 1..64 (two or three
	// units), 65..128 (three units). Every comparison of the prefix length with a constant in RouteInformation.unmarshal
	// cuts the range at 1, 65 or 129 (a class boundary at 64 refuses the usual encoding of a /64 route, and the router
	// is learned without it)
	if fn := c.P.Method("", "RouteInformation", "unmarshal"); fn != nil {
		cuts := map[int64]bool{}
		core.EachInstr(fn, func(i ssa.Instruction) {
			bo, ok := i.(*ssa.BinOp)
			if !ok {
				return
			}
			x, y, op := bo.X, bo.Y, bo.Op
			if _, isC := x.(*ssa.Const); isC {
				x, y = y, x
				switch op {
				case token.LSS:
					op = token.GTR
				case token.GTR:
					op = token.LSS
				case token.LEQ:
					op = token.GEQ
				case token.GEQ:
					op = token.LEQ
				}
			}
			cst, isC := y.(*ssa.Const)
			if !isC || cst.Value == nil || norm(stripConv(x)) != "arg0[2]" {
				return
			}
			k, exact := constant.Int64Val(cst.Value)
			if !exact {
				return
			}
			switch op {
			case token.LSS, token.GEQ:
				cuts[k] = true
			case token.LEQ, token.GTR:
				cuts[k+1] = true
			case token.EQL, token.NEQ:
				cuts[k+1] = true
			}
		})
		var got []string
		okCuts := len(cuts) > 0
		for k := range cuts {
			got = append(got, fmt.Sprint(k))
			if k != 1 && k != 65 && k != 129 {
				okCuts = false
			}
		}
		sort.Strings(got)
		if !cuts[65] {
			okCuts = false
		}
		st, det := core.Proved, ""
		if !okCuts {
			st = core.Violated
			det = "RouteInformation.unmarshal divides the prefix lengths at " + strings.Join(got, ", ") + " (first value of the upper class), RFC 4191 at 1, 65, 129: an option whose prefix length falls between the two is held to the wrong length rule and refused (a /64 route in two units), so the learned router lacks a route a reference decoder reads"
		}
		r.Add(core.Obligation{Rule: "router-fields", Key: "router-fields RouteInformation length classes are 0, 1..64, 65..128", Func: core.FuncName(fn), Pos: c.P.Pos(fn.Pos()), Status: st,
			Basis: "every comparison of the prefix length with a constant cuts at 1, 65 or 129: " + strings.Join(got, ", "), Detail: det})
	}
	// what an advertisement from address A says is recorded for A: findOrCreateRouter hands back the entry stored under
	// the address it was asked for - the result of LANRouters[ip], or the new entry it stores under ip - never another
	// entry (one found by MAC records router B's advertisement in router A's entry, and B is not in the table)
	r.Rule("router-key", "findOrCreateRouter returns the entry keyed by the address it was given", 2)
	if fn := c.P.Method("handlers/icmp_spoofer", "Handler6", "findOrCreateRouter"); fn != nil && len(fn.Params) == 3 {
		ipParam := ssa.Value(fn.Params[2])
		stored := map[ssa.Value]bool{}
		core.EachInstr(fn, func(i ssa.Instruction) {
			if mu, ok := i.(*ssa.MapUpdate); ok && strings.HasSuffix(norm(mu.Map), ".LANRouters") && mu.Key == ipParam {
				stored[mu.Value] = true
			}
		})
		kgr := core.NewKeyGen()
		core.EachInstr(fn, func(i ssa.Instruction) {
			ret, ok := i.(*ssa.Return)
			if !ok || len(ret.Results) == 0 {
				return
			}
			v := ret.Results[0]
			okv := stored[v]
			if ex, isE := v.(*ssa.Extract); isE && ex.Index == 0 {
				if lk, isL := ex.Tuple.(*ssa.Lookup); isL && strings.HasSuffix(norm(lk.X), ".LANRouters") && lk.Index == ipParam {
					okv = true
				}
			}
			if lk, isL := v.(*ssa.Lookup); isL && strings.HasSuffix(norm(lk.X), ".LANRouters") && lk.Index == ipParam {
				okv = true
			}
			st, det := core.Proved, ""
			if !okv {
				st = core.Violated
				det = "findOrCreateRouter returns " + norm(v) + ", which is neither LANRouters[ip] nor the entry it stores under ip: the advertisement of the router at ip is recorded in another router's entry"
			}
			r.Add(core.Obligation{Rule: "router-key", Key: strings.TrimSuffix(kgr.Key("router-key findOrCreateRouter return"), "#0"), Func: core.FuncName(fn), Pos: c.P.Pos(core.PosOf(i)), Status: st,
				Basis: "returned router = LANRouters[ip] or the value stored under ip", Detail: det})
		})
	}
	// each option goes into its own slot: the receiver of every unmarshal call of the RA option parser is the field that
	// belongs to the option type the call is reached under (source link-layer address 1, target 2, MTU 5, route
	// information 24, RDNSS 25, search list 31; the prefix option 3 is decoded into a local that is appended)
	r.Rule("option-dispatch", "every option type of the RA option parser is decoded into its own field", 6)
	if fn := c.P.Func("", "newParseOptions"); fn != nil {
		slot := map[string]string{"SourceLLA": "1", "TargetLLA": "2", "MTU": "5", "RouteInformation": "24", "RDNSS": "25", "DNSSearchList": "31"}
		kgo := core.NewKeyGen()
		for _, site := range callsIn(fn, nameIs("unmarshal")) {
			ins := site.(ssa.Instruction)
			recv := norm(site.Common().Args[0])
			field := recv[strings.LastIndex(recv, ".")+1:]
			want, known := slot[field]
			if !strings.HasPrefix(recv, "local(options).") {
				continue // a local of its own (the prefix option)
			}
			dnf := pathDNF(ins.Block())
			if len(ins.Block().Preds) <= 1 {
				dnf = []string{guardTexts(guardsOf(ins))}
			}
			var bad []string
			for _, d := range dnf {
				okPath := false
				for _, t := range strings.Split(d, " && ") {
					if known && regexp.MustCompile(`^\(arg0\[φ\]==`+want+`\)$`).MatchString(t) {
						okPath = true
					}
				}
				if !okPath {
					bad = append(bad, d)
				}
			}
			st, det := core.Proved, ""
			if !known || len(bad) > 0 || len(dnf) == 0 {
				st = core.Violated
				det = "options." + field + " is filled by an unmarshal call that is also reached under " + strings.Join(bad, "  |  ") + ": an option of another type overwrites this slot (a target link-layer address option in an RA replaces the recorded source link-layer address, the router's MAC)"
			}
			r.Add(core.Obligation{Rule: "option-dispatch", Key: strings.TrimSuffix(kgo.Key("option-dispatch options."+field), "#0"), Func: core.FuncName(fn), Pos: c.P.Pos(core.PosOf(ins)), Status: st,
				Basis: "reached only under option type == " + want, Detail: det})
		}
	}
	// an option that is refused leaves no trace: in every option decoder (`unmarshal` with a pointer receiver in
	// layer_icmp6_options.go) no store into the receiver can be followed by a return of an error. The caller logs the
	// error and keeps the option struct, so a field written before the refusal is recorded for an option that a
	// reference decoder ignores.
	r.Rule("option-atomic", "an NDP option decoder whose refusal the caller survives writes its receiver only on paths that accept the option", 4)
	for _, fn := range c.P.LibFunctions() {
		if fn.Pkg == nil || fn.Pkg.Pkg.Name() != "packet" || fn.Name() != "unmarshal" || fn.Signature.Recv() == nil || len(fn.Params) == 0 {
			continue
		}
		if !strings.Contains(c.P.Pos(fn.Pos()), "layer_icmp6_options.go") {
			continue
		}
		if _, isPtr := fn.Params[0].Type().Underlying().(*types.Pointer); !isPtr {
			continue
		}
		// only where a caller goes on with the receiver after a refusal: the error branch of the call does not return
		kept := false
		if node := c.P.CallGraph().Nodes[fn]; node != nil {
			for _, in := range node.In {
				call, ok := in.Site.(*ssa.Call)
				if !ok || call.Call.StaticCallee() != fn {
					continue
				}
				for _, ref := range *call.Referrers() {
					bo, ok := ref.(*ssa.BinOp)
					if !ok || bo.Op != token.NEQ {
						continue
					}
					for _, r2 := range *bo.Referrers() {
						iff, ok := r2.(*ssa.If)
						if !ok {
							continue
						}
						onErr := iff.Block().Succs[0]
						if _, isRet := onErr.Instrs[len(onErr.Instrs)-1].(*ssa.Return); !isRet {
							kept = true
						}
					}
				}
			}
		}
		if !kept {
			continue
		}
		var errRets []ssa.Instruction
		core.EachInstr(fn, func(i ssa.Instruction) {
			if ret, ok := i.(*ssa.Return); ok && len(ret.Results) > 0 {
				last := ret.Results[len(ret.Results)-1]
				if cst, isC := last.(*ssa.Const); !isC || !cst.IsNil() {
					errRets = append(errRets, i)
				}
			}
		})
		recvRooted := func(a ssa.Value) bool {
			for {
				switch x := a.(type) {
				case *ssa.FieldAddr:
					a = x.X
				case *ssa.IndexAddr:
					a = x.X
				default:
					return a == ssa.Value(fn.Params[0])
				}
			}
		}
		kga := core.NewKeyGen()
		n := 0
		core.EachInstr(fn, func(i ssa.Instruction) {
			st, ok := i.(*ssa.Store)
			if !ok || !recvRooted(st.Addr) {
				return
			}
			n++
			status, det := core.Proved, ""
			for _, ret := range errRets {
				if reachesWithout(i, ret, func(ssa.Instruction) bool { return false }) {
					status = core.Violated
					det = core.FuncName(fn) + " writes " + norm(st.Addr) + " at " + c.P.Pos(core.PosOf(i)) + " and can still refuse the option at " + c.P.Pos(core.PosOf(ret)) + ": the RA option parser logs the refusal and keeps the struct, so the router table records a field of an option that a reference decoder ignores"
					break
				}
			}
			r.Add(core.Obligation{Rule: "option-atomic", Key: strings.TrimSuffix(kga.Key("option-atomic "+core.FuncName(fn)+" "+norm(st.Addr)), "#0"), Func: core.FuncName(fn), Pos: c.P.Pos(core.PosOf(i)), Status: status,
				Basis: "no error return is reachable from the store", Detail: det})
		})
	}
	// a parity test decides something: its operand is not a multiple of an even constant (x*8 % 2 is always 0, the test is
	// dead and an RDNSS option with an even Length - one server and eight stray octets - is recorded where a reference
	// decoder refuses it)
	for _, fn := range c.P.LibFunctions() {
		if fn.Pkg == nil || fn.Pkg.Pkg.Name() != "packet" || !strings.HasSuffix(c.P.Pos(fn.Pos()), "") {
			continue
		}
		if !strings.Contains(c.P.Pos(fn.Pos()), "layer_icmp6_options.go") {
			continue
		}
		kgp := core.NewKeyGen()
		core.EachInstr(fn, func(i ssa.Instruction) {
			bo, ok := i.(*ssa.BinOp)
			if !ok || bo.Op != token.REM {
				return
			}
			k, isK := bo.Y.(*ssa.Const)
			if !isK || k.Value == nil || k.Int64() != 2 {
				return
			}
			st := core.Proved
			if mul, isMul := bo.X.(*ssa.BinOp); isMul && mul.Op == token.MUL {
				for _, op := range []ssa.Value{mul.X, mul.Y} {
					if kc, isC := op.(*ssa.Const); isC && kc.Value != nil && kc.Int64()%2 == 0 {
						st = core.Violated
					}
				}
			}
			if shl, isShl := bo.X.(*ssa.BinOp); isShl && shl.Op == token.SHL {
				if kc, isC := shl.Y.(*ssa.Const); isC && kc.Value != nil && kc.Int64() >= 1 {
					st = core.Violated
				}
			}
			r.Add(core.Obligation{Rule: "ndp-siblings", Key: strings.TrimSuffix(kgp.Key("ndp-siblings parity test is live in "+core.FuncName(fn)), "#0"), Func: core.FuncName(fn), Pos: c.P.Pos(core.PosOf(i)), Status: st,
				Basis: "the operand of %2 is not a multiple of an even constant", Detail: "the parity test " + norm(bo) + " can never fail (its operand is a multiple of an even constant): the option length it was meant to validate is accepted whatever its parity"})
		})
	}
	// the search list option is padded to a multiple of eight with zero octets, anything from none to seven of them. After
	// a name, the decoder asks whether what is left is a single octet before it treats "fewer than two octets left" as a
	// malformed label: otherwise a list whose names leave exactly one octet of padding is refused and the router is
	// recorded without the search list it advertises
	if fn := c.P.Method("", "DNSSearchList", "unmarshal"); fn != nil {
		var endOfName, refusal ssa.Instruction
		var refusalIf *ssa.If
		core.EachInstr(fn, func(i ssa.Instruction) {
			if cl, ok := i.(*ssa.Call); ok && cl.Common().StaticCallee() != nil && core.FuncName(cl.Common().StaticCallee()) == "strings.Join" {
				endOfName = i
			}
			if iff, ok := i.(*ssa.If); ok && refusalIf == nil && regexp.MustCompile(`^\(len\(.*\)<2\)$`).MatchString(norm(iff.Cond)) {
				// the first "fewer than two left" test: its true edge returns the error
				if len(iff.Block().Succs) == 2 {
					for _, j := range iff.Block().Succs[0].Instrs {
						if rt, isR := j.(*ssa.Return); isR {
							refusalIf, refusal = iff, rt
						}
					}
				}
			}
		})
		st, det := core.Undecided, "the end of a name (strings.Join) or the 'fewer than two octets left' refusal of DNSSearchList.unmarshal was not recognised"
		if endOfName != nil && refusal != nil {
			asksOne := func(j ssa.Instruction) bool {
				iff, ok := j.(*ssa.If)
				return ok && iff != refusalIf && regexp.MustCompile(`len\(.*\)(==1|<=1|<2)\)`).MatchString(norm(iff.Cond))
			}
			st, det = core.Proved, ""
			if reachesWithout(endOfName, refusal, asksOne) {
				st = core.Violated
				det = "after a name DNSSearchList.unmarshal can reach the 'fewer than two octets left' refusal without having asked whether a single (padding) octet is left: names whose label octets total 7 mod 8 leave exactly one octet of padding, the option is refused and the router's search list is recorded empty"
			}
		}
		r.Add(core.Obligation{Rule: "router-fields", Key: "router-fields DNSSearchList accepts one octet of padding", Func: core.FuncName(fn), Pos: c.P.Pos(fn.Pos()), Status: st,
			Basis: "every path from the end of a name to the short-remainder refusal tests for a single remaining octet", Detail: det})
	}
	// the route prefix recorded has every byte that holds a valid bit: ceil(PrefixLength/8) bytes (or the whole field),
	// not floor - a /60 route keeps its eighth byte
	if fn := c.P.Method("", "RouteInformation", "unmarshal"); fn != nil {
		found := false
		core.EachInstr(fn, func(i ssa.Instruction) {
			st, ok := i.(*ssa.Store)
			if !ok || norm(st.Addr) != "recv.Prefix" {
				return
			}
			found = true
			v := norm(st.Val)
			s2 := core.Proved
			if regexp.MustCompile(`\[\d+\]/8\)`).MatchString(v) && !strings.Contains(v, "+7)/8)") {
				s2 = core.Violated
			}
			r.Add(core.Obligation{Rule: "router-fields", Key: "router-fields RouteInformation.Prefix holds every byte with a valid bit", Func: core.FuncName(fn), Pos: c.P.Pos(core.PosOf(i)), Status: s2,
				Basis: "prefix bytes = " + v, Detail: "RouteInformation.unmarshal records " + v + ": PrefixLength/8 rounds down, so the last byte of a prefix whose length is not a multiple of 8 (2001:db8:0:12f0::/60) is dropped and the route recorded differs from the one advertised"})
		})
		if !found {
			r.Add(core.Obligation{Rule: "router-fields", Key: "router-fields RouteInformation.Prefix holds every byte with a valid bit", Func: core.FuncName(fn), Status: core.Undecided, Detail: "no store to RouteInformation.Prefix found in unmarshal"})
		}
	}
	// the on-link prefix is cut at its length bit by bit: the value stored in PrefixInformation.Prefix comes out of a
	// standard masking function applied with the prefix length, or out of a computation with a shift / and / remainder
	// whose operand depends on the prefix length (a cut at byte granularity keeps the host bits of the last byte of a /60)
	if fn := c.P.Method("", "PrefixInformation", "unmarshal"); fn != nil {
		found := false
		core.EachInstr(fn, func(i ssa.Instruction) {
			st, ok := i.(*ssa.Store)
			if !ok || norm(st.Addr) != "recv.Prefix" {
				return
			}
			if cst, isC := st.Val.(*ssa.Const); isC && cst.IsNil() {
				return // "no prefix" (a length the field cannot hold)
			}
			found = true
			var plen ssa.Value
			core.EachInstr(fn, func(j ssa.Instruction) {
				if s2, ok := j.(*ssa.Store); ok && norm(s2.Addr) == "recv.PrefixLength" {
					plen = s2.Val
				}
			})
			dependsOnLen := func(v ssa.Value) bool {
				if v == plen && plen != nil {
					return true
				}
				for w := range dataSlice(fn, v) {
					if (plen != nil && w == plen) || strings.HasSuffix(norm(w), "recv.PrefixLength") {
						return true
					}
				}
				return false
			}
			bitwise := false
			how := ""
			for v := range dataSlice(fn, st.Val) {
				switch t := v.(type) {
				case *ssa.Call:
					if cal := t.Call.StaticCallee(); cal != nil {
						switch cal.String() {
						case "net.CIDRMask", "(net/netip.Addr).Prefix", "net/netip.PrefixFrom":
							for _, a := range t.Call.Args {
								if dependsOnLen(a) {
									bitwise, how = true, cal.String()
								}
							}
						}
					}
				case *ssa.BinOp:
					switch t.Op {
					case token.SHL, token.SHR, token.AND, token.AND_NOT, token.REM:
						if dependsOnLen(t.X) || dependsOnLen(t.Y) {
							bitwise, how = true, "operator "+t.Op.String()
						}
					}
				}
			}
			s2, det := core.Proved, ""
			if !bitwise {
				s2 = core.Violated
				det = "the value PrefixInformation.unmarshal stores in Prefix (" + norm(st.Val) + ") is computed without a bit-granular use of the prefix length (no CIDRMask / netip prefix masking, no shift, and, or remainder on it): the bits of the last byte beyond a length that is not a multiple of 8 are kept (2001:db8:0:12ff::/60 is recorded as 2001:db8:0:12ff:: where a reference decoder reads 2001:db8:0:12f0::)"
			}
			r.Add(core.Obligation{Rule: "router-fields", Key: "router-fields PrefixInformation.Prefix is cut at the prefix length bit by bit", Func: core.FuncName(fn), Pos: c.P.Pos(core.PosOf(i)), Status: s2,
				Basis: "bit-granular use of the prefix length in the data slice of the stored value: " + how, Detail: det})
		})
		if !found {
			r.Add(core.Obligation{Rule: "router-fields", Key: "router-fields PrefixInformation.Prefix is cut at the prefix length bit by bit", Func: core.FuncName(fn), Status: core.Undecided, Detail: "no store to PrefixInformation.Prefix in unmarshal"})
		}
	}
	for f := range want {
		if !seen[f] {
			r.Add(core.Obligation{Rule: "router-fields", Key: "router-fields Router." + f, Func: core.FuncName(pp), Status: core.Violated, Detail: "Router." + f + " is no longer assigned in RA processing"})
		}
	}
	_ = token.ADD
	_ = locks.Held{}
	// the forged advertisement reaches the hunted station only: the sender does not recompute the Ethernet
	// destination (address-less targets are reached through their unicast MAC with a multicast IPv6 destination)
	r.Rule("na-destination", "the Ethernet destination of an emitted ICMPv6 frame is the MAC the caller passed", 1)
	if fn := c.A.Method("", "Session", "icmp6SendPacket"); fn != nil {
		for _, site := range callsIn(fn, nameIs("EncodeEther")) {
			args := site.Common().Args
			if len(args) != 4 {
				continue
			}
			dn := norm(args[3])
			st := core.Proved
			if dn != "local(dstAddr).MAC" && dn != "arg1.MAC" {
				st = core.Violated
			}
			r.Add(core.Obligation{Rule: "na-destination", Key: "na-destination icmp6SendPacket", Func: core.FuncName(fn), Pos: c.P.Pos(core.PosOf(site.(ssa.Instruction))), Status: st,
				Basis: "EncodeEther destination = dstAddr.MAC", Detail: "icmp6SendPacket sends to " + dn + " instead of the dstAddr.MAC it was given: a forged advertisement addressed to one hunted station can reach every node"})
		}
	}
}
