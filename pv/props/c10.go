package props

import (
	"fmt"
	"go/types"
	"sort"
	"strings"

	"golang.org/x/tools/go/ssa"

	"pv/absint"
	"pv/core"
	"pv/taint"
)

func init() { register("C10", "proof", runC10) }

// receiveEntryPoints: functions that are handed a packet buffer (or views of it) by the packet loop.
type entryPoint struct{ rel, typ, name string }

var receiveEntries = []entryPoint{
	{"handlers/arp_spoofer", "Handler", "ProcessPacket"},
	{"handlers/dhcp4_spoofer", "Handler", "ProcessPacket"},
	{"handlers/icmp_spoofer", "Handler4", "ProcessPacket"},
	{"handlers/icmp_spoofer", "Handler6", "ProcessPacket"},
	{"handlers/dns_naming", "DNSHandler", "ProcessDNS"},
	{"handlers/dns_naming", "DNSHandler", "ProcessMDNS"},
	{"handlers/dns_naming", "DNSHandler", "ProcessNBNS"},
	{"handlers/dns_naming", "DNSHandler", "ProcessSSDP"},
	{"", "Session", "Notify"},
}

var rootStateTypes = []struct{ rel, typ string }{
	{"", "Session"}, {"handlers/arp_spoofer", "Handler"}, {"handlers/icmp_spoofer", "Handler4"}, {"handlers/icmp_spoofer", "Handler6"},
	{"handlers/dhcp4_spoofer", "Handler"}, {"handlers/dns_naming", "DNSHandler"}, {"handlers/icmp_spoofer", "RADVS"},
}

func buildTaint(c *Ctx) *taint.Engine {
	e := taint.New(c.P)
	parse := c.A.Method("", "Session", "Parse")
	if parse != nil && len(parse.Params) == 2 {
		e.Seeds[parse.Params[1]] = taint.PathSet{"": true}
		e.ParseFn = parse
	}
	isFrame := func(t types.Type) bool {
		nt, ok := t.(*types.Named)
		return ok && nt.Obj().Name() == "Frame" && nt.Obj().Pkg() != nil && nt.Obj().Pkg().Path() == core.ModPath
	}
	addEntry := func(fn *ssa.Function) {
		if fn == nil {
			return
		}
		for i, p := range fn.Params {
			if i == 0 && fn.Signature.Recv() != nil {
				continue
			}
			switch {
			case isFrame(p.Type()):
				e.FrameLinks = append(e.FrameLinks, p)
			case taint.Taintable(p.Type()):
				if _, isPtr := p.Type().Underlying().(*types.Pointer); isPtr {
					continue // *Host etc: state, not buffer
				}
				e.Seeds[p] = taint.PathSet{"": true}
			}
		}
	}
	for _, ep := range receiveEntries {
		addEntry(c.A.Method(ep.rel, ep.typ, ep.name))
	}
	addEntry(c.A.Func("", "Process8023Frame"))
	// the exported Session setters the handlers call with addresses taken from the frame (round 14: C10-14):
	// their slice arguments may be views of the receive buffer whoever the caller is
	for _, name := range []string{"SetDHCPv4IPOffer", "DHCPv4Update", "Capture", "Release", "IsCaptured", "DHCPv4IPOffer"} {
		if fn := c.A.Method("", "Session", name); fn != nil {
			addEntry(fn)
		}
	}
	for _, rt := range rootStateTypes {
		pk := c.P.Pkg(rt.rel)
		if pk == nil || pk.Type(rt.typ) == nil {
			c.A.Missing = append(c.A.Missing, "type "+rt.rel+"."+rt.typ)
			continue
		}
		e.RootTypes[pk.Pkg.Path()+"."+rt.typ] = true
	}
	e.Run()
	return e
}

func runC10(c *Ctx) {
	r := c.R
	r.Explanation = "Whole-module may-alias analysis (field-sensitive taint with inclusion-based points-to, context-insensitive over the VTA call graph). Seeds: the []byte parameter of Session.Parse and every " +
		"view/byte-slice parameter of the receive entry points and of the exported Session setters (SetDHCPv4IPOffer, DHCPv4Update, Capture, Release, IsCaptured, DHCPv4IPOffer); Frame parameters receive what Parse returns. A value is tainted if it may reference memory of the packet buffer; string(b)/[]byte(s) conversions, " +
		"make+copy, value types (netip.Addr, time.Time, arrays, integers) and the verified fresh-result table are clean. Every retention point - a store/map update/append into an object that outlives the call " +
		"(Session, handlers and everything reachable from them through stored pointers; globals), a channel send, a goroutine start - whose value type could carry a byte slice is one obligation, discharged iff the value is untainted. " +
		"Inductive argument: if no retention point ever receives a tainted value, long-lived state never contains a buffer alias, so loads from it are clean - which is how the analysis treats them. " +
		"Zero violated obligations therefore proves, for every history of packets, that retained state cannot change when the caller reuses the buffer."
	r.Assume("no unsafe/reflect-based aliasing on the analysed paths (socketconn.go uses unsafe only for BPF programs; fastlog uses reflect for a nil test)",
		"external callees follow the default model (result and pointer-reachable receivers may alias any argument) except the fresh-result table printed in the evidence",
		"net.PacketConn implementations do not retain the buffer or address passed to WriteTo (the module's own memconn copies; socketconn passes it to sendto)",
		"strings are immutable copies (no unsafe string<->[]byte conversion in the module)")
	r.Trust("fresh-result table (each entry confirmed by reading the pinned source)")
	r.Rule("retention", "no value that may alias an input packet buffer is stored into long-lived state, sent on a channel or handed to a goroutine", 60)
	r.Rule("seeds", "entry points whose parameters are seeded", 10)
	r.Rule("sanity", "the analysis sees the packet flow: views returned by Parse are tainted; known sanitisers are clean", 5)

	e := buildTaint(c)
	for p := range e.Seeds {
		r.Add(core.Obligation{Rule: "seeds", Key: "seeds " + core.FuncName(p.Parent()) + " param " + p.Name(), Func: core.FuncName(p.Parent()), Pos: c.P.Pos(p.Pos()), Status: core.Proved, Basis: "seeded as buffer alias"})
	}
	for _, p := range e.FrameLinks {
		r.Add(core.Obligation{Rule: "seeds", Key: "seeds " + core.FuncName(p.Parent()) + " frame " + p.Name(), Func: core.FuncName(p.Parent()), Pos: c.P.Pos(p.Pos()), Status: core.Proved, Basis: "Frame parameter linked to Parse's result"})
	}

	// sanity (non-vacuity): Parse's returned Frame must carry tainted ether and MAC views; CopyMAC's result must be clean
	if e.ParseFn != nil {
		rt := strings.Join(e.RetTaint(e.ParseFn), ",")
		for _, want := range []string{"#0.ether", "#0.SrcAddr.MAC", "#0.DstAddr.MAC"} {
			st := core.Proved
			if !strings.Contains(","+rt+",", ","+want+",") {
				st = core.Violated
			}
			r.Add(core.Obligation{Rule: "sanity", Key: "sanity Parse result carries " + want, Func: "(*packet.Session).Parse", Status: st,
				Basis: "analysis derives " + rt, Detail: "the analysis no longer sees the buffer flow into the returned Frame (" + rt + "): the seed or the propagation is broken"})
		}
	}
	if cm := c.A.Func("", "CopyMAC"); cm != nil {
		st := core.Proved
		if len(e.RetTaint(cm)) > 0 {
			st = core.Violated
		}
		r.Add(core.Obligation{Rule: "sanity", Key: "sanity CopyMAC result is fresh", Func: "packet.CopyMAC", Status: st, Basis: "make + copy: result clean (computed)", Detail: "CopyMAC's result may alias its argument: " + strings.Join(e.RetTaint(cm), ",")})
	}

	// CopyIP is on the engine's table of callees whose result never aliases an argument, for a stated reason: "len 4:
	// To16 allocates; otherwise make+copy". The reason is checked on every run: each value CopyIP returns is a fresh
	// make, or net.IP.To16 of the argument under the test len(arg) == 4 (To16 returns its receiver for 16-byte input).
	if cp := c.A.Func("", "CopyIP"); cp != nil {
		st, det := core.Proved, ""
		n := 0
		var check func(v ssa.Value, at ssa.Instruction, depth int)
		check = func(v ssa.Value, at ssa.Instruction, depth int) {
			if depth > 6 {
				st, det = core.Violated, "return value too deep to classify"
				return
			}
			switch t := v.(type) {
			case *ssa.MakeSlice:
				n++
			case *ssa.Phi:
				for _, e := range t.Edges {
					check(e, at, depth+1)
				}
			case *ssa.ChangeType:
				check(t.X, at, depth+1)
			case *ssa.Call:
				cal := t.Common().StaticCallee()
				if cal != nil && core.FuncName(cal) == "(net.IP).To16" && len(t.Common().Args) == 1 && t.Common().Args[0] == ssa.Value(cp.Params[0]) &&
					hasGuard(guardsOf(t), `^\(len\(arg0\)==4\)$`) {
					n++
					return
				}
				st, det = core.Violated, "CopyIP returns "+norm(v)+" (guards: "+guardTexts(guardsOf(t))+"): net.IP.To16 and To4 return their receiver, not a copy, unless the input has 4 bytes, so the result can alias the caller's packet buffer"
			default:
				st, det = core.Violated, "CopyIP returns "+norm(v)+", which is neither a fresh make nor To16 of a 4-byte input: the result can alias the caller's packet buffer"
			}
		}
		core.EachInstr(cp, func(i ssa.Instruction) {
			if rt, ok := i.(*ssa.Return); ok && len(rt.Results) == 1 {
				check(rt.Results[0], i, 0)
			}
		})
		if n == 0 && st == core.Proved {
			st, det = core.Undecided, "no return value of CopyIP recognised"
		}
		r.Add(core.Obligation{Rule: "sanity", Key: "sanity CopyIP result is fresh", Func: "packet.CopyIP", Pos: c.P.Pos(cp.Pos()), Status: st,
			Basis: fmt.Sprintf("%d returned values: fresh make, or To16 of the argument under len == 4", n), Detail: det})
	}

	sink := newBoundsSink(c)
	sinks := e.Sinks()
	for _, s := range sinks {
		form, ord := sink.siteNormal(s.Instr)
		fn := s.Instr.Parent()
		key := fmt.Sprintf("retention %s %s %s", core.FuncName(fn), s.Kind, form)
		if ord > 0 {
			key += fmt.Sprintf(" #%d", ord)
		}
		st := core.Proved
		det := ""
		if s.Tainted {
			st = core.Violated
			det = fmt.Sprintf("value stored into %s may alias the packet buffer (tainted paths: %s). %s", s.Target, strings.Join(s.Paths, ","), strings.Join(s.Why, " <- "))
		}
		r.Add(core.Obligation{Rule: "retention", Key: key, Func: core.FuncName(fn), Pos: c.P.Pos(core.PosOf(s.Instr)), Status: st, Detail: det,
			Basis: fmt.Sprintf("target %s; %s", s.Target, s.Sanit), Hint: "copy the bytes (CopyMAC/CopyBytes/string()) before retaining them"})
	}
	// evidence extras
	var ext []string
	for k, n := range e.Externals {
		ext = append(ext, fmt.Sprintf("%s (x%d)", k, n))
	}
	sort.Strings(ext)
	r.Extra["externals_default_model"] = ext
	var fresh []string
	for k, v := range e.Fresh {
		fresh = append(fresh, k+": "+v)
	}
	sort.Strings(fresh)
	r.Extra["fresh_result_table"] = fresh
	var ll []string
	for b, why := range e.LongLived() {
		ll = append(ll, b+" <= "+why)
	}
	sort.Strings(ll)
	r.Extra["long_lived_objects"] = ll
	_ = absint.SiteString
}
