package props

import (
	"fmt"
	"go/token"
	"go/types"
	"regexp"
	"strings"

	"golang.org/x/tools/go/ssa"

	"pv/core"
	"pv/locks"
)

func init() { register("C13", "other", runC13) }

// complitFields: for a local composite literal (an Alloc initialised field by field), the
// normal form of the value stored in each field.
func complitFields(v ssa.Value) map[string]string {
	out := map[string]string{}
	var al *ssa.Alloc
	switch t := v.(type) {
	case *ssa.Alloc:
		al = t
	case *ssa.UnOp:
		if t.Op == token.MUL {
			al, _ = t.X.(*ssa.Alloc)
		}
	}
	if al == nil || al.Referrers() == nil {
		return out
	}
	for _, r := range *al.Referrers() {
		fa, ok := r.(*ssa.FieldAddr)
		if !ok || fa.Referrers() == nil {
			continue
		}
		name := ""
		if st, ok := al.Type().Underlying().(*types.Pointer).Elem().Underlying().(*types.Struct); ok && fa.Field < st.NumFields() {
			name = st.Field(fa.Field).Name()
		}
		for _, rr := range *fa.Referrers() {
			if st, ok := rr.(*ssa.Store); ok && st.Addr == ssa.Value(fa) {
				out[name] = norm(st.Val)
			}
		}
	}
	return out
}

// localAlwaysFrom: v is a load (possibly of a field) of a local variable all of whose stores satisfy pred.
func localAlwaysFrom(v ssa.Value, pred func(ssa.Value) bool) bool {
	for d := 0; d < 4; d++ {
		switch t := v.(type) {
		case *ssa.UnOp:
			if t.Op != token.MUL {
				return false
			}
			v = t.X
		case *ssa.FieldAddr:
			v = t.X
		case *ssa.Alloc:
			if t.Referrers() == nil {
				return false
			}
			n := 0
			for _, r := range *t.Referrers() {
				if st, ok := r.(*ssa.Store); ok && st.Addr == ssa.Value(t) {
					n++
					if !pred(st.Val) {
						return false
					}
				}
			}
			return n > 0
		default:
			return false
		}
	}
	return false
}

// mustPassBlock: every path from the start of block b to a return passes an instruction satisfying pred.
func mustPassBlock(b *ssa.BasicBlock, pred func(ssa.Instruction) bool) bool {
	if len(b.Instrs) == 0 {
		return false
	}
	if pred(b.Instrs[0]) {
		return true
	}
	ok, _ := mustPass(b.Instrs[0], pred)
	if _, isRet := b.Instrs[0].(*ssa.Return); isRet {
		return false
	}
	return ok
}

func runC13(c *Ctx) {
	r := c.R
	defer checkARPProbeClass(c)
	r.Explanation = "Confinement of forged ARP packets, decided on the CFG of the ARP handler. Every send call inside ProcessPacket and spoofLoop is classified by the provenance of its sender address: " +
		"truthful (router pair restored, host pair) or forged (host MAC with an IP taken from the packet or the router). A forged periodic announcement must be dominated by a positive hunt-list lookup in the same iteration " +
		"(made with arpMutex held) and be addressed to the MAC returned by that lookup; a forged reply must be dominated either by (hunt-list membership of the requester's MAC and target == router IP) with the requester's MAC as destination, " +
		"or by the probe-reject conjunction (outstanding DHCP offer for the prober is IPv4, differs from the probed address, and the probed address is inside the home LAN). spoofLoop re-checks membership on every iteration, " +
		"waits on the close channel or the ticker, and on the not-hunted/not-closed exit every path to the return passes the restoring request (router pair). StartHunt inserts and starts the loop only when the MAC is not yet hunted, " +
		"inside one arpMutex critical section; StopHunt deletes under the mutex. Not decided: real-time bounds, overlap of an old and a new loop after StopHunt/StartHunt."
	r.Rule("send-classified", "every send in ProcessPacket/spoofLoop is truthful or a guarded forgery", 4)
	r.Rule("loop-structure", "spoofLoop: membership test each iteration under the mutex, stoppable wait on its own timer, single exit, restore on exit", 8)
	r.Rule("hunt-admin", "StartHunt idempotent under the mutex; StopHunt deletes under the mutex; 6-byte MACs only, own copy, one loop per MAC", 8)
	r.Rule("api-truthful", "Request/RequestTo/Probe use the host address pair as sender", 3)

	rel := "handlers/arp_spoofer"
	pp := c.A.Method(rel, "Handler", "ProcessPacket")
	loop := c.A.Method(rel, "Handler", "spoofLoop")
	start := c.A.Method(rel, "Handler", "StartHunt")
	stop := c.A.Method(rel, "Handler", "StopHunt")
	if pp == nil || loop == nil || start == nil || stop == nil {
		return
	}
	an := locks.Analyse(c.P, c.P.LibFunctions(), isConstructor)
	sendNames := nameIs("AnnounceTo", "Reply", "reply", "RequestRaw", "Request", "RequestTo", "Probe")
	kg := core.NewKeyGen()
	for _, fn := range []*ssa.Function{pp, loop} {
		fns := append([]*ssa.Function{fn}, fn.AnonFuncs...)
		for _, f := range fns {
			for _, site := range callsIn(f, sendNames) {
				callee := site.Common().StaticCallee()
				if callee == nil || callee.Pkg == nil || !strings.HasSuffix(callee.Pkg.Pkg.Path(), "arp_spoofer") {
					continue
				}
				ins := site.(ssa.Instruction)
				gs := guardsOf(ins)
				args := site.Common().Args
				name := callee.Name()
				key := kg.Key(fmt.Sprintf("send-classified %s calls %s", core.FuncName(fn), name))
				key = strings.TrimSuffix(key, "#0")
				st := core.Violated
				class, why := "unclassified", "send call that is neither recognised as truthful nor as a guarded forgery"
				switch name {
				case "RequestRaw":
					if len(args) == 4 && strings.HasSuffix(norm(args[2]), "NICInfo.RouterAddr4") && strings.HasSuffix(norm(args[3]), "NICInfo.RouterAddr4") {
						st, class, why = core.Proved, "truthful", "restoring request: sender and target are the router's real pair"
					} else if len(args) == 4 && strings.HasSuffix(norm(args[2]), "NICInfo.HostAddr4") {
						st, class, why = core.Proved, "truthful", "sender is the host pair"
					}
				case "AnnounceTo":
					// forged announcement: host MAC with the router IP
					class = "forged"
					// a positive hunt-list lookup: the scan helper or a comma-ok lookup in the list itself
					okGuard := hasGuard(gs, `^\(arp_spoofer\.Handler\)\.findHuntByIP\(.*\)#1$`) || hasGuard(gs, `^recv\.huntList\[.*\]#1$`)
					dstOK := len(args) == 3 && localAlwaysFrom(args[1], func(v ssa.Value) bool {
						ex, ok := v.(*ssa.Extract)
						if !ok || ex.Index != 0 {
							return false
						}
						if lk, ok := ex.Tuple.(*ssa.Lookup); ok {
							return strings.HasSuffix(norm(lk.X), "huntList")
						}
						call, ok := ex.Tuple.(*ssa.Call)
						return ok && strings.HasSuffix(core.CalleeName(call), ".findHuntByIP")
					})
					ipOK := len(args) == 3 && strings.HasSuffix(norm(args[2]), "NICInfo.RouterAddr4.IP")
					switch {
					case !okGuard:
						why = "forged announcement not dominated by a positive hunt-list lookup"
					case !dstOK:
						why = "forged announcement is not addressed to the MAC returned by the hunt-list lookup: " + norm(args[1])
					case !ipOK:
						why = "announced IP is not the router IP: " + norm(args[2])
					default:
						st, why = core.Proved, "dominated by findHuntByIP()==found; destination is the looked-up entry's MAC"
					}
				case "Reply", "reply":
					class = "forged"
					if len(args) != 4 {
						break
					}
					sender := complitFields(args[2])
					dst := norm(args[1])
					hostMAC := strings.HasSuffix(sender["MAC"], "NICInfo.HostAddr4.MAC")
					srcMACDst := strings.HasPrefix(dst, "(packet.ARP).SrcMAC(")
					router := hasGuard(gs, `^\(\(packet\.ARP\)\.DstIP\(.*\)==.*NICInfo\.RouterAddr4\.IP\)$`) &&
						hasGuard(gs, `^recv\.huntList\[\(packet\.ARP\)\.SrcMAC\(.*\)\]#1$`)
					probe := hasGuard(gs, `^\(net/netip\.Addr\)\.Is4\(\(packet\.Session\)\.DHCPv4IPOffer\(.*SrcMAC\(.*\)\)\)$`) &&
						hasGuard(gs, `^!\(\(packet\.Session\)\.DHCPv4IPOffer\(.*\)==\(packet\.ARP\)\.DstIP\(.*\)\)$`) &&
						hasGuard(gs, `^\(net/netip\.Prefix\)\.Contains\(.*NICInfo\.HomeLAN4,\(packet\.ARP\)\.DstIP\(.*\)\)$`)
					switch {
					case !hostMAC:
						why = "sender MAC of the reply is not the host MAC: " + sender["MAC"]
					case !srcMACDst:
						why = "reply is not addressed to the requester's MAC: " + dst
					case router:
						st, why = core.Proved, "router-request spoof: requester is in the hunt list and asks for the router IP"
					case probe:
						st, why = core.Proved, "probe reject: outstanding IPv4 offer differs from the probed address, which is inside the home LAN"
					default:
						why = "forged reply is dominated neither by (hunted && target==router) nor by the probe-reject conjunction"
					}
				case "Request", "RequestTo", "Probe":
					st, class, why = core.Proved, "truthful", "API wrapper that uses the host pair (checked under api-truthful)"
				}
				r.Add(core.Obligation{Rule: "send-classified", Key: key, Func: core.FuncName(f), Pos: c.P.Pos(core.PosOf(ins)), Status: st,
					Basis: class + ": " + why + " | guards: " + guardTexts(gs), Detail: class + ": " + why + " | guards: " + guardTexts(gs)})
			}
		}
	}

	// API wrappers use the host pair
	for _, w := range []string{"Request", "RequestTo", "Probe"} {
		fn := c.A.Method(rel, "Handler", w)
		if fn == nil {
			continue
		}
		for _, site := range callsIn(fn, nameIs("RequestRaw")) {
			args := site.Common().Args
			ok := false
			if len(args) == 4 {
				s := norm(args[2])
				cf := complitFields(args[2])
				ok = strings.HasSuffix(s, "NICInfo.HostAddr4") || strings.HasSuffix(cf["MAC"], "NICInfo.HostAddr4.MAC")
			}
			st := core.Proved
			if !ok {
				st = core.Violated
			}
			r.Add(core.Obligation{Rule: "api-truthful", Key: "api-truthful " + w, Func: core.FuncName(fn), Pos: c.P.Pos(core.PosOf(site.(ssa.Instruction))), Status: st,
				Basis: "sender is the host pair", Detail: "sender of " + w + " is not the host address pair"})
		}
	}

	// spoofLoop structure
	fi := an.Info[loop]
	loops := core.CFG(loop).Loops()
	if len(loops) == 0 {
		r.Fatal("spoofLoop has no loop")
	} else {
		l := loops[0]
		// (a) membership test inside the loop under the mutex
		found := false
		// the membership test: a lookup in the hunt list by its own key, or (older form) a scan helper
		var tests []ssa.Instruction
		for _, site := range callsIn(loop, nameIs("findHuntByIP")) {
			tests = append(tests, site.(ssa.Instruction))
		}
		core.EachInstr(loop, func(i ssa.Instruction) {
			if lk, ok := i.(*ssa.Lookup); ok && strings.HasSuffix(norm(lk.X), "huntList") {
				tests = append(tests, i)
			}
		})
		// the key the list is maintained under (StartHunt's insertion)
		insKey := ""
		if start := c.P.Method("handlers/arp_spoofer", "Handler", "StartHunt"); start != nil {
			core.EachInstr(start, func(i ssa.Instruction) {
				if mu, ok := i.(*ssa.MapUpdate); ok && strings.HasSuffix(norm(mu.Map), "huntList") {
					insKey = norm(mu.Key)
				}
			})
		}
		for _, ins := range tests {
			if l.Blocks[ins.Block()] {
				// liveness is decided under the key StartHunt/StopHunt use: a scan by another attribute (the IP) finds a
				// different target's entry when two MACs share that attribute, and the loop of a stopped target lives on
				kst := core.Violated
				kdet := "spoofLoop decides whether its target is still hunted with " + norm(ins.(ssa.Value)) + ", not with a lookup under the hunt list's key " + insKey + ": after StopHunt(mac) the loop keeps running while another entry has the same IP, and the stopped target never gets the restoring packet"
				if lk, ok := ins.(*ssa.Lookup); ok && insKey != "" && norm(lk.Index) == insKey {
					kst, kdet = core.Proved, ""
				}
				r.Add(core.Obligation{Rule: "loop-structure", Key: "loop-structure membership test uses the hunt list's key", Func: core.FuncName(loop), Pos: c.P.Pos(core.PosOf(ins)), Status: kst,
					Basis: "lookup huntList[" + insKey + "]", Detail: kdet})
				found = true
				st := core.Proved
				if !fi.MustIn[ins].HasClass("Handler.arpMutex") {
					st = core.Violated
				}
				r.Add(core.Obligation{Rule: "loop-structure", Key: "loop-structure membership test under arpMutex", Func: core.FuncName(loop), Pos: c.P.Pos(core.PosOf(ins)), Status: st,
					Basis: "findHuntByIP inside the loop with arpMutex held", Detail: "hunt-list lookup in spoofLoop without arpMutex"})
				// it must run on every iteration: its block dominates every latch
				dom := true
				for _, lt := range l.Latch {
					if !(ins.Block() == lt || ins.Block().Dominates(lt)) {
						dom = false
					}
				}
				st2 := core.Proved
				if !dom {
					st2 = core.Violated
				}
				r.Add(core.Obligation{Rule: "loop-structure", Key: "loop-structure membership test every iteration", Func: core.FuncName(loop), Pos: c.P.Pos(core.PosOf(ins)), Status: st2,
					Basis: "lookup block dominates every back edge", Detail: "an iteration of spoofLoop can skip the hunt-list lookup"})
			}
		}
		if !found {
			r.Add(core.Obligation{Rule: "loop-structure", Key: "loop-structure membership test under arpMutex", Func: core.FuncName(loop), Status: core.Violated, Detail: "no hunt-list lookup inside the loop"})
		}
		// (b) stoppable wait
		sel := false
		core.EachInstr(loop, func(i ssa.Instruction) {
			if s, ok := i.(*ssa.Select); ok && l.Blocks[s.Block()] && s.Blocking {
				for _, st := range s.States {
					if st.Dir == types.RecvOnly && strings.HasSuffix(norm(st.Chan), ".closeChan") {
						sel = true
					}
				}
			}
		})
		st := core.Proved
		if !sel {
			st = core.Violated
		}
		r.Add(core.Obligation{Rule: "loop-structure", Key: "loop-structure wait selects on closeChan", Func: core.FuncName(loop), Status: st,
			Basis: "blocking select with a receive on closeChan inside the loop", Detail: "the loop's wait does not select on the handler's close channel"})
		// (b') the wait's other channels are the loop's own: a timer made in this function. A channel held by the handler is
		// shared by the loops of all targets and each tick wakes only one of them
		core.EachInstr(loop, func(i ssa.Instruction) {
			s, ok := i.(*ssa.Select)
			if !ok || !l.Blocks[s.Block()] {
				return
			}
			for _, stt := range s.States {
				if stt.Dir != types.RecvOnly || strings.HasSuffix(norm(stt.Chan), ".closeChan") {
					continue
				}
				own := false
				for v := range dataSlice(loop, stt.Chan) {
					if call, isCall := v.(*ssa.Call); isCall {
						if cal := call.Common().StaticCallee(); cal != nil {
							switch core.FuncName(cal) {
							case "time.NewTicker", "time.NewTimer", "time.After", "time.Tick":
								own = true
							}
						}
					}
				}
				s2 := core.Proved
				if !own {
					s2 = core.Violated
				}
				r.Add(core.Obligation{Rule: "loop-structure", Key: "loop-structure wait timer is the loop's own", Func: core.FuncName(loop), Pos: c.P.Pos(core.PosOf(i)), Status: s2,
					Basis: "the timer channel of the wait comes from a time.NewTicker/NewTimer/After call in spoofLoop", Detail: "spoofLoop waits on " + norm(stt.Chan) + ", a channel not made by a timer of this loop: shared between the loops of all hunted targets, each tick wakes only one of them and the others stop re-poisoning"})
			}
		})
		// (b'') the loop has one way out: once a forged packet has been sent, a return is reachable only through the
		// membership test (a return on a send error leaves the target in the hunt list with no loop: StartHunt is then a
		// no-op and StopHunt restores nothing). The ICMPv6 sibling logs a send error and carries on.
		for _, site := range callsIn(loop, nameIs("AnnounceTo")) {
			s2, det := core.Proved, ""
			core.EachInstr(loop, func(j ssa.Instruction) {
				ret, ok := j.(*ssa.Return)
				if !ok {
					return
				}
				isLookup := func(k ssa.Instruction) bool {
					lk, ok := k.(*ssa.Lookup)
					return ok && strings.HasSuffix(norm(lk.X), ".huntList")
				}
				if reachesWithout(site.(ssa.Instruction), ret, isLookup) {
					s2 = core.Violated
					det = "after the forged announcement spoofLoop can reach the return at " + c.P.Pos(core.PosOf(ret)) + " without testing the hunt list again: the target stays in the hunt list with no loop, StartHunt for it is a no-op and StopHunt sends no restoring packet"
				}
			})
			r.Add(core.Obligation{Rule: "loop-structure", Key: "loop-structure the only exit is the membership test", Func: core.FuncName(loop), Pos: c.P.Pos(core.PosOf(site.(ssa.Instruction))), Status: s2,
				Basis: "no return reachable from the forged send without passing the hunt-list lookup", Detail: det})
		}
		// (c) restore on the exit path with closed == false
		restored := false
		for _, site := range callsIn(loop, nameIs("RequestRaw")) {
			ins := site.(ssa.Instruction)
			args := site.Common().Args
			if len(args) != 4 || !strings.HasSuffix(norm(args[2]), "NICInfo.RouterAddr4") {
				continue
			}
			for _, g := range guardsOf(ins) {
				if strings.HasSuffix(g.Text, ".closed") && !g.Pol {
					// g.Branch tests closed; the false edge must pass the restore on every path to a return
					succ := g.Branch.Succs[1]
					if g.Branch.Succs[0] == ins.Block() || g.Branch.Succs[0].Dominates(ins.Block()) {
						succ = g.Branch.Succs[0]
					}
					isRestore := func(j ssa.Instruction) bool { return j == ins }
					if mustPassBlock(succ, isRestore) {
						// the branch on closed must itself be reached only when not hunting or closed
						restored = true
					}
				}
			}
			// destination: the MAC the loop was started for
			if !strings.HasSuffix(norm(args[1]), ".MAC") {
				restored = false
			}
		}
		// a released target is restored whatever else happened: the restore is decided by "not hunted" - a test of the
		// closed flag in front of it drops the restore for the history StartHunt, StopHunt, Close within one cycle
		for _, site := range callsIn(loop, nameIs("RequestRaw")) {
			ins := site.(ssa.Instruction)
			args := site.Common().Args
			if len(args) != 4 || !strings.HasSuffix(norm(args[2]), "NICInfo.RouterAddr4") {
				continue
			}
			gs := guardsOf(ins)
			byHunt, byClosed := false, false
			for _, g := range gs {
				if strings.Contains(g.Text, ".huntList[") && strings.HasSuffix(g.Text, "#1") && !g.Pol {
					byHunt = true
				}
				if strings.HasSuffix(g.Text, ".closed") {
					byClosed = true
				}
			}
			s3 := core.Proved
			if !byHunt || byClosed {
				s3 = core.Violated
			}
			r.Add(core.Obligation{Rule: "loop-structure", Key: "loop-structure a released target is restored even when the handler was closed meanwhile", Func: core.FuncName(loop), Pos: c.P.Pos(core.PosOf(ins)), Status: s3,
				Basis: "the restoring request is guarded by 'not hunted', not by the closed flag", Detail: "the restoring request is sent under " + guardTexts(gs) + ": StartHunt(A), StopHunt(A), Close() within one cycle wakes the loop with closed set and A released, and A - poisoned by the first announcement - never gets the router's real MAC back"})
			if byHunt && !byClosed {
				for _, g := range gs {
					if strings.Contains(g.Text, ".huntList[") && !g.Pol {
						succ := g.Branch.Succs[1]
						if g.Branch.Succs[0] == ins.Block() || g.Branch.Succs[0].Dominates(ins.Block()) {
							succ = g.Branch.Succs[0]
						}
						if mustPassBlock(succ, func(j ssa.Instruction) bool { return j == ins }) && strings.HasSuffix(norm(args[1]), ".MAC") {
							restored = true
						}
					}
				}
			}
		}
		st = core.Proved
		if !restored {
			st = core.Violated
		}
		r.Add(core.Obligation{Rule: "loop-structure", Key: "loop-structure restore router MAC on exit", Func: core.FuncName(loop), Status: st,
			Basis: "on the not-closed exit every path to the return passes RequestRaw(target, RouterAddr4, RouterAddr4)", Detail: "spoofLoop can return on the not-hunted/not-closed exit without sending the restoring request with the router's real pair"})
	}

	// StartHunt / StopHunt
	fiS := an.Info[start]
	core.EachInstr(start, func(i ssa.Instruction) {
		switch t := i.(type) {
		case *ssa.MapUpdate:
			if !strings.HasSuffix(norm(t.Map), ".huntList") {
				return
			}
			gs := guardsOf(t)
			st := core.Proved
			var why []string
			if !hasGuard(gs, `^!recv\.huntList\[.*\.MAC\]#1$`) {
				st = core.Violated
				why = append(why, "insert not dominated by 'MAC not in hunt list'")
			}
			if !fiS.MustIn[t][locks.Held{Class: "Handler.arpMutex", Mode: "W"}] {
				st = core.Violated
				why = append(why, "insert without arpMutex")
			}
			r.Add(core.Obligation{Rule: "hunt-admin", Key: "hunt-admin StartHunt insert", Func: core.FuncName(start), Pos: c.P.Pos(core.PosOf(t)), Status: st,
				Basis: "guards: " + guardTexts(gs), Detail: strings.Join(why, "; ") + " | guards: " + guardTexts(gs)})
		case *ssa.Go:
			gs := guardsOf(t)
			st := core.Proved
			var why []string
			if !hasGuard(gs, `^!recv\.huntList\[.*\.MAC\]#1$`) {
				st = core.Violated
				why = append(why, "loop started although the MAC is already hunted (two loops for one target)")
			}
			if !fiS.MustIn[t][locks.Held{Class: "Handler.arpMutex", Mode: "W"}] {
				st = core.Violated
				why = append(why, "loop started outside the arpMutex critical section of the insert")
			}
			r.Add(core.Obligation{Rule: "hunt-admin", Key: "hunt-admin StartHunt starts loop once", Func: core.FuncName(start), Pos: c.P.Pos(core.PosOf(t)), Status: st,
				Basis: "guards: " + guardTexts(gs), Detail: strings.Join(why, "; ") + " | guards: " + guardTexts(gs)})
		}
	})
	fiT := an.Info[stop]
	nDel := 0
	core.EachInstr(stop, func(i ssa.Instruction) {
		if call, ok := isBuiltinCall(i, "delete"); ok && strings.HasSuffix(norm(call.Call.Args[0]), ".huntList") {
			nDel++
			st := core.Proved
			if !fiT.MustIn[i][locks.Held{Class: "Handler.arpMutex", Mode: "W"}] {
				st = core.Violated
			}
			r.Add(core.Obligation{Rule: "hunt-admin", Key: "hunt-admin StopHunt deletes under arpMutex", Func: core.FuncName(stop), Pos: c.P.Pos(core.PosOf(i)), Status: st,
				Basis: "delete with arpMutex held", Detail: "hunt list entry deleted without arpMutex"})
		}
	})
	if nDel == 0 {
		r.Add(core.Obligation{Rule: "hunt-admin", Key: "hunt-admin StopHunt deletes under arpMutex", Func: core.FuncName(stop), Status: core.Violated, Detail: "StopHunt no longer removes the MAC from the hunt list: the spoof loop never stops"})
	}
	// the delete must be unconditional w.r.t. anything but membership: dominated only by the membership test
	if sh := c.A.Method(rel, "Handler", "StartHunt"); sh != nil {
		checkHuntMAC(c, "hunt-admin", sh)
		checkOneLoop(c, "hunt-admin", sh, loop, "Handler.arpMutex")
	}
	r.Add(core.Obligation{Rule: "hunt-admin", Key: "hunt-admin functions analysed", Func: "-", Status: core.Proved, Basis: "StartHunt, StopHunt, spoofLoop, ProcessPacket found"})
	// StopHunt removes the entry under the key StartHunt inserted it with
	{
		start := c.P.Method("handlers/arp_spoofer", "Handler", "StartHunt")
		stop := c.P.Method("handlers/arp_spoofer", "Handler", "StopHunt")
		ins, del := "", ""
		if start != nil {
			core.EachInstr(start, func(i ssa.Instruction) {
				if mu, ok := i.(*ssa.MapUpdate); ok && strings.HasSuffix(norm(mu.Map), "huntList") {
					ins = norm(mu.Key)
				}
			})
		}
		if stop != nil {
			core.EachInstr(stop, func(i ssa.Instruction) {
				if call, ok := isBuiltinCall(i, "delete"); ok && strings.HasSuffix(norm(call.Call.Args[0]), "huntList") {
					del = norm(call.Call.Args[1])
				}
			})
		}
		st := core.Proved
		if ins == "" || del == "" || ins != del {
			st = core.Violated
		}
		r.Add(core.Obligation{Rule: "hunt-admin", Key: "hunt-admin StopHunt deletes the key StartHunt inserted", Func: "(*arp_spoofer.Handler).StopHunt", Status: st,
			Basis: "insert key = delete key = " + ins, Detail: fmt.Sprintf("StartHunt inserts under %q but StopHunt deletes %q: a target whose other attributes changed since StartHunt is never removed and its spoof loop never ends", ins, del)})
	}

}

// checkARPProbeClass: "probe" is what RFC 5227 says it is - a request whose sender address is 0.0.0.0. In the ARP
// handler's ProcessPacket the operation variable takes the value `probe` only on paths where SrcIP() == IPv4zero holds
// (a request with a zeroed target hardware address is an ordinary request: classified as a probe it draws a forged
// probe-reject reply to a station that is not hunted).
func checkARPProbeClass(c *Ctx) {
	c.R.Rule("probe-class", "an ARP frame is classified as a probe only when its sender address is 0.0.0.0", 1)
	fn := c.P.Method("handlers/arp_spoofer", "Handler", "ProcessPacket")
	if fn == nil {
		c.R.Add(core.Obligation{Rule: "probe-class", Key: "probe-class ProcessPacket", Status: core.Undecided, Detail: "function not found"})
		return
	}
	n := 0
	core.EachInstr(fn, func(i ssa.Instruction) {
		ph, ok := i.(*ssa.Phi)
		if !ok || ph.Comment != "operation" {
			return
		}
		for k, e := range ph.Edges {
			cst, isC := e.(*ssa.Const)
			if !isC || cst.Value == nil || cst.Value.String() != "4" { // probe = iota 4
				continue
			}
			n++
			pred := ph.Block().Preds[k]
			dnf := pathDNF(pred)
			if len(pred.Preds) <= 1 && len(pred.Instrs) > 0 {
				dnf = []string{guardTexts(guardsOf(pred.Instrs[len(pred.Instrs)-1]))}
			}
			var bad []string
			for _, d := range dnf {
				okPath := false
				for _, t := range strings.Split(d, " && ") {
					if regexp.MustCompile(`^\(\(packet\.ARP\)\.SrcIP\(.*\)==IPv4zero\)$`).MatchString(t) || regexp.MustCompile(`^\(IPv4zero==\(packet\.ARP\)\.SrcIP\(.*\)\)$`).MatchString(t) {
						okPath = true
					}
				}
				if !okPath {
					bad = append(bad, d)
				}
			}
			st, det := core.Proved, ""
			if len(bad) > 0 || len(dnf) == 0 {
				st = core.Violated
				det = "ProcessPacket also classifies a frame as a probe when " + strings.Join(bad, "  |  ") + ": an ordinary request then takes the probe-reject branch, and a station that is not hunted and was not probing is sent a forged reply"
			}
			c.R.Add(core.Obligation{Rule: "probe-class", Key: "probe-class ProcessPacket", Func: core.FuncName(fn), Pos: c.P.Pos(core.PosOf(pred.Instrs[len(pred.Instrs)-1])), Status: st,
				Basis: "operation = probe only under SrcIP() == IPv4zero", Detail: det})
		}
	})
	if n == 0 {
		c.R.Add(core.Obligation{Rule: "probe-class", Key: "probe-class ProcessPacket", Func: core.FuncName(fn), Status: core.Undecided, Detail: "the assignment operation = probe was not found"})
	}
}
