package props

import (
	"fmt"
	"go/types"
	"regexp"
	"sort"
	"strings"

	"golang.org/x/tools/go/ssa"

	"pv/absint"
	"pv/bitprov"
	"pv/core"
)

func init() { register("C03", "other", runC03) }

// argument kinds of an encoder specification
type encArg struct {
	name string
	kind string // buf, int, bytes, addr, addrstruct, bool, opaque
	w    int
}

type encSpec struct {
	fn     string // function or Type.Method
	view   string // view type whose getters decode the result
	args   []encArg
	expect map[string][]string // getter -> allowed decoded values (first = the value supplied by the caller)
	pre    map[int]uint8       // receiver bytes fixed by the view's own encoder (IP4: version/IHL 0x45)
	flags  map[string]string   // boolean getter -> boolean parameter it must return, decided path by path
}

func pInt(name string, w int) string { return bitprov.ParamInt(name, w).String() }

// composeVal substitutes the bytes of the encoded image into a getter's provenance.
func composeVal(v bitprov.Val, img map[int]bitprov.Int, maxOff int, zeroed bool) string {
	subst := func(a bitprov.Int) bitprov.Int {
		// a big-endian field whose bytes are the consecutive bytes of one symbolic value: that value
		for n := 2; n <= 4; n++ {
			if a.Sym != "" || a.B[0].K != bitprov.In || a.B[0].Src != "" {
				break
			}
			off := int(a.B[(n-1)*8].Off)
			if a.B[(n-1)*8].K != bitprov.In || a.String() != bitprov.BE("", off, n).String() {
				continue
			}
			sym := ""
			ok := true
			for k := 0; k < n; k++ {
				by, has := img[off+k]
				want := fmt.Sprintf("byte%d(", n-1-k)
				if !has || !strings.HasPrefix(by.Sym, want) || !strings.HasSuffix(by.Sym, ")") {
					ok = false
					break
				}
				inner := by.Sym[len(want) : len(by.Sym)-1]
				if sym == "" {
					sym = inner
				} else if sym != inner {
					ok = false
				}
			}
			if ok && sym != "" {
				return bitprov.UnknownInt(sym)
			}
		}
		// a getter that returns one whole byte: the image byte itself (keeps symbolic names)
		if a.Sym == "" && a.B[0].K == bitprov.In && a.B[0].Src == "" && a.String() == bitprov.Byte("", int(a.B[0].Off)).String() {
			if by, ok := img[int(a.B[0].Off)]; ok {
				return by
			}
		}
		var r bitprov.Int
		for i, b := range a.B {
			switch {
			case b.K == bitprov.In && b.Src == "":
				if by, ok := img[int(b.Off)]; ok {
					r.B[i] = by.B[b.Idx]
				} else if zeroed {
					r.B[i] = bitprov.Bit{}
				} else {
					r.B[i] = bitprov.Bit{K: bitprov.Unknown}
				}
			default:
				r.B[i] = b
			}
		}
		r.Sym = a.Sym
		return r
	}
	bytesStr := func(lo, hi int) string {
		var parts []string
		i := lo
		for i < hi {
			by, ok := img[i]
			if !ok && zeroed {
				by, ok = bitprov.ConstInt(0), true
			}
			if !ok {
				parts = append(parts, fmt.Sprintf("unwritten[%d]", i))
				i++
				continue
			}
			// run of consecutive bytes of the same source
			if by.Sym == "" && by.B[0].K == bitprov.In && by.B[0].Idx == 0 && by.String() == bitprov.Byte(by.B[0].Src, int(by.B[0].Off)).String() {
				src, off := by.B[0].Src, int(by.B[0].Off)
				j := i + 1
				for j < hi {
					nb, ok := img[j]
					if !ok || nb.String() != bitprov.Byte(src, off+(j-i)).String() {
						break
					}
					j++
				}
				parts = append(parts, fmt.Sprintf("%s[%d:%d]", src, off, off+(j-i)))
				i = j
				continue
			}
			parts = append(parts, by.String())
			i++
		}
		return strings.Join(parts, ",")
	}
	switch t := v.(type) {
	case bitprov.Int:
		return subst(t).String()
	case bitprov.Bool:
		if t.NZ != nil {
			n := subst(*t.NZ)
			return bitprov.Str(bitprov.Bool{NZ: &n, Neg: t.Neg})
		}
		return bitprov.Str(t)
	case bitprov.Addr:
		return composeVal(t.From, img, maxOff, zeroed)
	case bitprov.Slice:
		if t.Nil {
			return "nil"
		}
		lo, ok := t.Lo.IsConst()
		if !ok {
			return "bytes at " + t.Lo.String()
		}
		hi := uint64(maxOff)
		if !t.HiLen {
			h, ok := t.Hi.IsConst()
			if !ok {
				return "bytes [" + t.Lo.String() + ":" + t.Hi.String() + "]"
			}
			hi = h
		} else {
			// to the end of what was written contiguously
			h := int(lo)
			for {
				if _, ok := img[h]; !ok || h >= maxOff {
					break
				}
				h++
			}
			hi = uint64(h)
		}
		return bytesStr(int(lo), int(hi))
	}
	return bitprov.Str(v)
}

func addrStructOf(p *core.Program) *types.Struct {
	if t, ok := p.Pkg("").Members["Addr"].(*ssa.Type); ok {
		if st, ok := t.Type().Underlying().(*types.Struct); ok {
			return st
		}
	}
	return nil
}

func runC03(c *Ctx) {
	r := c.R
	r.Explanation = "Round trip decided from the code of both sides: every encoder is evaluated symbolically (engine C) into the image of the bytes it writes, each byte a term over the encoder's parameters; " +
		"the provenance of every getter of the matching view (also computed from the code, and separately tied to the RFC table by C02) is then composed with that image, and the result must be the parameter the caller supplied " +
		"(or the documented constant). So encode-then-decode returns the supplied value for all parameter values, and — through C02 — an independent RFC decoder sees the same. " +
		"Also decided: the three AppendPayload functions return ErrPayloadTooBig under their capacity guard and every slice/index operation in them and in SetPayload is within capacity (abstract interpreter, arbitrary arguments); " +
		"the DHCP option order list puts the subnet mask before the router. Not decided: equality of whole DHCP option maps (the emitting loop is decided by options-complete, the decoding walk by options-decoded) and DNS names (loops over caller data), Parse classification of composed frames (C02 decides classification per constant), NDP option bodies."
	r.Assume("MAC parameters have at least 6 bytes, IPv4 address parameters 4 bytes", "copy() copies min(len(dst), len(src)); shorter arguments leave stale bytes")
	r.Rule("roundtrip", "getter(encoder(args)) == the supplied argument / documented constant", 70)
	r.Rule("capacity", "AppendPayload/SetPayload never write past capacity; too-big payloads get ErrPayloadTooBig", 8)
	r.Rule("option-order", "subnet mask is encoded before the router option", 1)

	addrT := addrStructOf(c.P)
	be16 := func(name string) string { return pInt(name, 16) }
	specs := []encSpec{
		{fn: "EncodeEther", view: "Ether", args: []encArg{{"p", "buf", 0}, {"hType", "int", 16}, {"srcMAC", "bytes", 0}, {"dstMAC", "bytes", 0}},
			expect: map[string][]string{"EtherType": {be16("hType")}, "Src": {"srcMAC[0:6]"}, "Dst": {"dstMAC[0:6]"}, "@ret": {"p[0:14]"}}},
		{fn: "EncodeIP4", view: "IP4", args: []encArg{{"p", "buf", 0}, {"ttl", "int", 8}, {"src", "addr", 0}, {"dst", "addr", 0}},
			expect: map[string][]string{"Version": {"4"}, "IHL": {"20"}, "TotalLen": {"20"}, "TTL": {pInt("ttl", 8)}, "Src": {"src[0:4]", "IPv4zero[0:4]"}, "Dst": {"dst[0:4]", "IPv4zero[0:4]"},
				"Fragment": {"0"}, "FlagMoreFragments": {"false"}, "Checksum": {"0"}, "@ret": {"p[0:20]"}}},
		{fn: "IP4.SetPayload", view: "IP4", args: []encArg{{"p", "buf", 0}, {"b", "bytes", 0}, {"protocol", "int", 8}},
			expect: map[string][]string{"Protocol": {pInt("protocol", 8)}, "TotalLen": {"trunc16((20 + len(b)))"}}},
		{fn: "IP4.AppendPayload", view: "IP4", args: []encArg{{"p", "buf", 0}, {"b", "bytes", 0}, {"protocol", "int", 8}}, pre: map[int]uint8{0: 0x45},
			expect: map[string][]string{"Protocol": {pInt("protocol", 8)}, "TotalLen": {"trunc16((20 + len(b)))"}}},
		{fn: "EncodeIP6", view: "IP6", args: []encArg{{"p", "buf", 0}, {"hopLimit", "int", 8}, {"srcIP", "addr", 0}, {"dstIP", "addr", 0}},
			expect: map[string][]string{"Version": {"6"}, "TrafficClass": {"0"}, "FlowLabel": {"0"}, "PayloadLen": {"0"}, "HopLimit": {pInt("hopLimit", 8)}, "Src": {"srcIP[0:16]"}, "Dst": {"dstIP[0:16]"}}},
		{fn: "IP6.SetPayload", view: "IP6", args: []encArg{{"p", "buf", 0}, {"b", "bytes", 0}, {"nextHeader", "int", 8}},
			expect: map[string][]string{"NextHeader": {pInt("nextHeader", 8)}, "PayloadLen": {"trunc16(len(b))"}}},
		{fn: "IP6.AppendPayload", view: "IP6", args: []encArg{{"p", "buf", 0}, {"b", "bytes", 0}, {"nextHeader", "int", 8}},
			expect: map[string][]string{"NextHeader": {pInt("nextHeader", 8)}, "PayloadLen": {"trunc16(len(b))"}, "Payload": {"b[0:560]"}}},
		{fn: "UDP.SetPayload", view: "UDP", args: []encArg{{"p", "buf", 0}, {"b", "bytes", 0}},
			expect: map[string][]string{"Len": {"(8 + trunc16(len(b)))"}, "Checksum": {"0"}}},
		{fn: "UDP.AppendPayload", view: "UDP", args: []encArg{{"p", "buf", 0}, {"b", "bytes", 0}},
			expect: map[string][]string{"Len": {"(8 + trunc16(len(b)))"}, "Checksum": {"0"}, "Payload": {"b[0:592]"}}},
		{fn: "EncodeUDP", view: "UDP", args: []encArg{{"p", "buf", 0}, {"srcPort", "int", 16}, {"dstPort", "int", 16}},
			expect: map[string][]string{"SrcPort": {be16("srcPort")}, "DstPort": {be16("dstPort")}, "Checksum": {"0"}, "@ret": {"p[0:8]"}}},
		{fn: "EncodeARP", view: "ARP", args: []encArg{{"p", "buf", 0}, {"operation", "int", 16}, {"srcAddr", "addrstruct", 0}, {"dstAddr", "addrstruct", 0}},
			expect: map[string][]string{"HType": {"1"}, "Proto": {"2048"}, "HLen": {"6"}, "PLen": {"4"}, "Operation": {be16("operation")},
				"SrcMAC": {"srcAddr.MAC[0:6]"}, "SrcIP": {"srcAddr.IP[0:4]"}, "DstMAC": {"dstAddr.MAC[0:6]"}, "DstIP": {"dstAddr.IP[0:4]"}, "@ret": {"p[0:28]"}}},
		{fn: "EncodeICMPEcho", view: "ICMPEcho", args: []encArg{{"p", "buf", 0}, {"t", "int", 8}, {"code", "int", 8}, {"id", "int", 16}, {"seq", "int", 16}, {"data", "bytes", 0}},
			expect: map[string][]string{"Type": {pInt("t", 8)}, "Code": {pInt("code", 8)}, "Checksum": {"0"}, "EchoID": {be16("id")}, "EchoSeq": {be16("seq")}}},
		{fn: "ICMP6NeighborAdvertisementMarshal", view: "ICMP6NeighborAdvertisement", args: []encArg{{"router", "bool", 0}, {"solicited", "bool", 0}, {"override", "bool", 0}, {"targetAddr", "addrstruct", 0}},
			expect: map[string][]string{"Type": {"136"}, "Code": {"0"}, "TargetAddress": {"targetAddr.IP[0:16]"}, "TargetLLA": {"targetAddr.MAC[0:6]"}},
			flags:  map[string]string{"Router": "router", "Solicited": "solicited", "Override": "override"}},
		{fn: "ICMP6NeighborSolicitationMarshal", view: "ICMP6NeighborSolicitation", args: []encArg{{"targetAddr", "addr", 0}, {"sourceLLA", "bytes", 0}},
			expect: map[string][]string{"Type": {"135"}, "Code": {"0"}, "TargetAddress": {"targetAddr[0:16]"}, "SourceLLA": {"sourceLLA[0:6]"}}},
		{fn: "EncodeDNSQuery", view: "DNS", args: []encArg{{"tranID", "int", 16}, {"flags", "int", 16}, {"encodedName", "bytes", 0}, {"questionType", "int", 16}},
			expect: map[string][]string{"TransactionID": {be16("tranID")}, "QDCount": {"1"}, "ANCount": {"0"}, "NSCount": {"0"}, "ARCount": {"0"},
				"QR": {"nonzero{flags.b-1.15}"}, "OpCode": {bitprov.ParamInt("flags", 16).Shr(11).And(bitprov.ConstInt(0xf)).String()}, "ResponseCode": {bitprov.ParamInt("flags", 16).And(bitprov.ConstInt(0xf)).String()}}},
		{fn: "EncodeDHCP4", view: "DHCP4", args: []encArg{{"p", "buf", 0}, {"opcode", "int", 8}, {"mt", "int", 8}, {"chaddr", "bytes", 0}, {"ciaddr", "addr", 0}, {"yiaddr", "addr", 0}, {"xid", "bytes", 0},
			{"broadcast", "bool", 0}, {"options", "opaque", 0}, {"order", "opaque", 0}},
			expect: map[string][]string{"OpCode": {pInt("opcode", 8)}, "HType": {"1"}, "HLen": {"6", "trunc8(trunc8(len(chaddr)))", "trunc8(len(chaddr))"}, "Hops": {"0"}, "Secs": {"0"}, "Cookie": {"99,130,83,99"},
				"CIAddr": {"ciaddr[0:4]", "unwritten"}, "YIAddr": {"yiaddr[0:4]", "unwritten"}, "SIAddr": {"IPv4zero[0:4]"}, "GIAddr": {"IPv4zero[0:4]"}, "CHAddr": {"chaddr[0:6]", "unwritten"}, "XId": {"xid[0:4]", "unwritten"}}},
	}

	getters := map[string]getter{}
	for _, g := range viewGetters(c.P) {
		getters[g.Type+"."+g.Name] = g
	}
	for _, sp := range specs {
		var fn *ssa.Function
		if i := strings.Index(sp.fn, "."); i > 0 {
			fn = c.A.Method("", sp.fn[:i], sp.fn[i+1:])
		} else {
			fn = c.A.Func("", sp.fn)
		}
		if fn == nil || len(fn.Params) != len(sp.args) {
			r.Add(core.Obligation{Rule: "roundtrip", Key: "roundtrip " + sp.fn, Status: core.Violated, Detail: "encoder " + sp.fn + " not found with the expected parameter list"})
			continue
		}
		var args []bitprov.Val
		bufName := ""
		for i, a := range sp.args {
			switch a.kind {
			case "buf":
				args = append(args, recvSlice())
			case "int":
				args = append(args, bitprov.ParamInt(a.name, a.w))
			case "bytes":
				args = append(args, bitprov.Slice{Src: a.name, Lo: bitprov.ConstInt(0), HiLen: true})
			case "addr":
				args = append(args, bitprov.Addr{From: bitprov.Slice{Src: a.name, Lo: bitprov.ConstInt(0), HiLen: true}, Kind: "param"})
			case "addrstruct":
				st := bitprov.Struct{T: addrT, F: map[int]bitprov.Val{}}
				for k := 0; k < addrT.NumFields(); k++ {
					switch addrT.Field(k).Name() {
					case "MAC":
						st.F[k] = bitprov.Slice{Src: a.name + ".MAC", Lo: bitprov.ConstInt(0), HiLen: true}
					case "IP":
						st.F[k] = bitprov.Addr{From: bitprov.Slice{Src: a.name + ".IP", Lo: bitprov.ConstInt(0), HiLen: true}, Kind: "param"}
					case "Port":
						st.F[k] = bitprov.ParamInt(a.name+".Port", 16)
					}
				}
				args = append(args, st)
			case "bool":
				b := bitprov.ParamInt(a.name, 1)
				args = append(args, bitprov.Bool{NZ: &b})
			default:
				args = append(args, bitprov.Opaque{Why: "param " + a.name})
			}
			_ = i
		}
		ev := &bitprov.Eval{MaxPaths: 2048, Inline: func(f *ssa.Function) bool {
			// setters and getters of the views; not the option encoder (loops over a map)
			return f.Name() != "AppendOptions"
		}}
		if sp.pre != nil {
			pre := sp.pre
			ev.ByteValue = func(src string, off int) (bitprov.Int, bool) {
				if b, ok := pre[off]; ok && src == "" {
					return bitprov.ConstInt(uint64(b)), true
				}
				return bitprov.Int{}, false
			}
		}
		rets := ev.Run(fn, args)
		// per getter: the set of decoded values over all successful paths
		decoded := map[string]map[string]bool{}
		flagBad := map[string]string{}
		flagSeen := map[string]int{}
		okPaths := 0
		for _, rt := range rets {
			if rt.Panic || len(rt.Vals) == 0 {
				continue
			}
			rs, isSlice := rt.Vals[0].(bitprov.Slice)
			if isSlice && rs.Nil {
				continue // the documented "buffer too small" / error result
			}
			if !isSlice {
				// loop / path limit: the writes made before it still count for fixed headers
				if _, isOp := rt.Vals[0].(bitprov.Opaque); !isOp {
					continue
				}
				rs = recvSlice()
			}
			if len(rt.Vals) == 2 && bitprov.Str(rt.Vals[1]) != "opaque(nil)" && isSlice {
				continue
			}
			okPaths++
			bufName = rs.Src
			img := bitprov.Image(rt.Writes, bufName, 600)
			maxOff := 0
			for k := range img {
				if k+1 > maxOff {
					maxOff = k + 1
				}
			}
			for gname := range sp.expect {
				var got string
				if gname == "@ret" {
					got = bitprov.Str(rs)
				} else {
					g, ok := getters[sp.view+"."+gname]
					if !ok {
						got = "no such getter"
					} else {
						grets := (&bitprov.Eval{}).Run(g.Fn, []bitprov.Val{recvSlice()})
						var vals []string
						for _, gr := range grets {
							if gr.Panic || len(gr.Vals) == 0 {
								continue
							}
							s := bitprov.RetString(gr)
							if trivialResult(s) {
								continue
							}
							v := gr.Vals[0]
							if tv, ok := v.(bitprov.Tuple); ok && len(tv.F) > 0 {
								v = tv.F[0]
							}
							vals = append(vals, composeVal(v, img, maxOff, rs.Fresh))
						}
						sort.Strings(vals)
						got = strings.Join(dedupStrings(vals), " || ")
					}
				}
				if decoded[gname] == nil {
					decoded[gname] = map[string]bool{}
				}
				decoded[gname][got] = true
			}
			// boolean flags: on this path each flag getter, composed with the image, must be the truth value the path
			// assumed for its parameter
			for gname, param := range sp.flags {
				g, ok := getters[sp.view+"."+gname]
				if !ok {
					flagBad[gname] = "no such getter"
					continue
				}
				want := ""
				for _, lit := range strings.Split(rt.Path, " && ") {
					lit = strings.TrimSpace(lit)
					if strings.Contains(lit, "{"+param+".") || strings.Contains(lit, "param "+param) {
						if strings.HasPrefix(lit, "!") {
							want = "false"
						} else {
							want = "true"
						}
					}
				}
				if want == "" {
					want = "false" // the parameter was not tested on this path: nothing sets the bit
				}
				for _, gr := range (&bitprov.Eval{}).Run(g.Fn, []bitprov.Val{recvSlice()}) {
					if gr.Panic || len(gr.Vals) == 0 {
						continue
					}
					got := composeVal(gr.Vals[0], img, maxOff, rs.Fresh)
					flagSeen[gname]++
					if got != want {
						flagBad[gname] = fmt.Sprintf("on the path %s the getter decodes to %s, the caller passed %s=%s", rt.Path, got, param, want)
					}
				}
			}
		}
		for gname := range sp.flags {
			st := core.Proved
			det := flagBad[gname]
			if det != "" || flagSeen[gname] == 0 {
				st = core.Violated
				if det == "" {
					det = "no path evaluated"
				}
			}
			r.Add(core.Obligation{Rule: "roundtrip", Key: fmt.Sprintf("roundtrip %s -> %s.%s", sp.fn, sp.view, gname), Func: core.FuncName(fn), Pos: c.P.Pos(fn.Pos()), Status: st,
				Basis: fmt.Sprintf("flag equals its parameter on %d path evaluations", flagSeen[gname]), Detail: fmt.Sprintf("%s(...).%s(): %s", sp.fn, gname, det)})
		}
		var gnames []string
		for g := range sp.expect {
			gnames = append(gnames, g)
		}
		sort.Strings(gnames)
		for _, gname := range gnames {
			allowed := sp.expect[gname]
			st := core.Proved
			det := ""
			var gotAll []string
			for g := range decoded[gname] {
				gotAll = append(gotAll, g)
			}
			sort.Strings(gotAll)
			mainSeen := false
			for _, g := range gotAll {
				ok := false
				for _, a := range allowed {
					if g == a || (a == "unwritten" && strings.HasPrefix(g, "unwritten")) {
						ok = true
					}
				}
				if g == allowed[0] {
					mainSeen = true
				}
				if !ok {
					st = core.Violated
					det = fmt.Sprintf("%s(%s).%s() decodes to %s; the caller supplied %s", sp.fn, argNames(sp.args), gname, g, allowed[0])
				}
			}
			if okPaths == 0 {
				st, det = core.Violated, "no successful path through "+sp.fn
			} else if !mainSeen && st == core.Proved {
				st, det = core.Violated, fmt.Sprintf("no path of %s makes %s decode to %s (got %s)", sp.fn, gname, allowed[0], strings.Join(gotAll, " / "))
			}
			r.Add(core.Obligation{Rule: "roundtrip", Key: fmt.Sprintf("roundtrip %s -> %s.%s", sp.fn, sp.view, gname), Func: core.FuncName(fn), Pos: c.P.Pos(fn.Pos()), Status: st,
				Basis: fmt.Sprintf("decodes to %s on %d path(s)", strings.Join(gotAll, " / "), okPaths), Detail: det})
		}
	}

	// ---- capacity: AppendPayload / SetPayload under arbitrary arguments ----
	for _, m := range []struct{ typ, name string }{{"IP4", "AppendPayload"}, {"IP6", "AppendPayload"}, {"UDP", "AppendPayload"}} {
		fn := c.A.Method("", m.typ, m.name)
		if fn == nil {
			r.Add(core.Obligation{Rule: "capacity", Key: "capacity " + m.typ + "." + m.name, Status: core.Violated, Detail: "function not found"})
			continue
		}
		name := m.typ + "." + m.name
		// (1) every error return under the capacity guard returns ErrPayloadTooBig
		nErr := 0
		bad := ""
		core.EachInstr(fn, func(i ssa.Instruction) {
			rt, ok := i.(*ssa.Return)
			if !ok || len(rt.Results) != 2 {
				return
			}
			if k, ok := rt.Results[1].(*ssa.Const); ok && k.Value == nil {
				return
			}
			nErr++
			if n := norm(rt.Results[1]); !strings.HasSuffix(n, "ErrPayloadTooBig") {
				bad = "an error return yields " + n + " instead of ErrPayloadTooBig"
			}
			gs := guardsOf(i)
			if !hasGuard(gs, `cap\(recv\)-len\(recv\)\)?<len\(arg0\)`) && !hasGuard(gs, `<len\(arg0\)`) && bad == "" {
				// the guard may be one arm of a short-circuit ||
				found := false
				for _, p := range rt.Block().Preds {
					if iff, ok := p.Instrs[len(p.Instrs)-1].(*ssa.If); ok && strings.Contains(norm(iff.Cond), "<len(arg0)") {
						found = true
					}
				}
				if !found {
					bad = "the error return is not under the capacity test: " + guardTexts(gs)
				}
			}
		})
		st := core.Proved
		if nErr == 0 {
			bad = "no ErrPayloadTooBig return"
		}
		if bad != "" {
			st = core.Violated
		}
		r.Add(core.Obligation{Rule: "capacity", Key: "capacity " + name + " rejects", Func: core.FuncName(fn), Pos: c.P.Pos(fn.Pos()), Status: st,
			Basis: "returns ErrPayloadTooBig when cap(p)-len(p) < len(b)", Detail: bad})
		// ... and only then: every path to the error return passes the capacity comparison on its true edge (a payload that
		// fits - the empty one included - is encoded, in all three functions alike)
		core.EachInstr(fn, func(i ssa.Instruction) {
			rt, ok := i.(*ssa.Return)
			if !ok || len(rt.Results) != 2 {
				return
			}
			if k, ok := rt.Results[1].(*ssa.Const); ok && k.Value == nil {
				return
			}
			var other []string
			dnf := pathDNF(rt.Block())
			if len(rt.Block().Preds) <= 1 {
				dnf = []string{guardTexts(guardsOf(i))}
			}
			for _, d := range dnf {
				okPath := false
				for _, t := range strings.Split(d, " && ") {
					if strings.Contains(t, "<len(arg0)") && !strings.HasPrefix(t, "!") {
						okPath = true
					}
				}
				if !okPath {
					other = append(other, d)
				}
			}
			s2, d2 := core.Proved, ""
			if len(other) > 0 || len(dnf) == 0 {
				s2 = core.Violated
				d2 = name + " also refuses with " + norm(rt.Results[1]) + " when " + strings.Join(other, "  |  ") + ": a payload that fits the remaining capacity is not encoded"
			}
			r.Add(core.Obligation{Rule: "capacity", Key: "capacity " + name + " rejects only what does not fit", Func: core.FuncName(fn), Pos: c.P.Pos(core.PosOf(i)), Status: s2,
				Basis: "every path to the error return has cap(p)-len(p) < len(b)", Detail: d2})
		})
		// (2) no slice/index obligation fails for arbitrary arguments
		var fails []string
		n := 0
		in := absint.New(c.P, absint.Config{MaxStates: 64, MaxOutcomes: 16}, func(f absint.Finding) {
			n++
			if !f.OK {
				fails = append(fails, fmt.Sprintf("%s %s: %s", f.Kind, absint.SiteString(f.Site), f.Detail))
			}
		})
		hdr := map[string]int64{"IP4": 20, "IP6": 40, "UDP": 8}[m.typ]
		recv := in.InputSlice("P", false)
		recv.MaybeNil = false
		pay := in.InputSlice("B", false)
		h := absint.NewHeap()
		h.AddFact(recv.Len.AddC(-hdr))              // the receiver is an encoded header (EncodeIP4/IP6/UDP return exactly the header)
		h.AddFact(absint.Const(1514).Sub(recv.Cap)) // the property quantifies over buffers of at most EthMaxSize
		if m.typ == "IP4" {
			h.SetKnown(recv, 0, absint.Const(0x45)) // written by EncodeIP4
		}
		in.Exec(fn, []absint.Value{recv, pay, nil}, nil, h)
		st = core.Proved
		if len(fails) > 0 || n == 0 {
			st = core.Violated
		}
		r.Add(core.Obligation{Rule: "capacity", Key: "capacity " + name + " in bounds", Func: core.FuncName(fn), Pos: c.P.Pos(fn.Pos()), Status: st,
			Basis: fmt.Sprintf("%d bounds obligations proved for arbitrary receiver and payload", n), Detail: strings.Join(fails, "; ")})
	}
	// Ether.AppendPayload: the same in-bounds obligation for the link layer (receiver: the 14-byte header EncodeEther
	// returns, in a buffer of at least the minimum frame size and at most EthMaxSize; payload: any slice, any capacity)
	if fn := c.A.Method("", "Ether", "AppendPayload"); fn != nil {
		var fails []string
		n := 0
		in := absint.New(c.P, absint.Config{MaxStates: 64, MaxOutcomes: 16}, func(f absint.Finding) {
			n++
			if !f.OK {
				fails = append(fails, fmt.Sprintf("%s %s: %s", f.Kind, absint.SiteString(f.Site), f.Detail))
			}
		})
		recv := in.InputSlice("P", false)
		recv.MaybeNil = false
		pay := in.InputSlice("B", false)
		h := absint.NewHeap()
		h.AddFact(recv.Len.AddC(-14))
		h.AddFact(absint.Const(14).Sub(recv.Len))
		h.AddFact(absint.Const(1514).Sub(recv.Cap))
		h.AddFact(recv.Cap.AddC(-60))
		h.SetKnown(recv, 12, absint.Const(0x08)) // an untagged EtherType, as EncodeEther writes it
		h.SetKnown(recv, 13, absint.Const(0x00))
		outs := in.Exec(fn, []absint.Value{recv, pay}, nil, h)
		// the frame returned carries the whole payload: on every successful outcome len(result) >= 14 + len(payload)
		whole, nOK := true, 0
		wholeDet := ""
		for _, o := range outs {
			if o.Panicked {
				continue
			}
			tv, ok := o.Ret.(absint.TupleV)
			if !ok || len(tv.F) != 2 {
				continue
			}
			sv, isSlice := tv.F[0].(absint.SliceV)
			if !isSlice || sv.IsNil {
				continue // the error result
			}
			nOK++
			if !o.H.Entails(sv.Len.Sub(pay.Len).AddC(-14)) {
				whole = false
				wholeDet = "on a successful path the frame returned has length " + sv.Len.String() + ", which is not provably at least 14 + len(payload): the end of the payload is cut off"
			}
		}
		wst := core.Proved
		if !whole || nOK == 0 {
			wst = core.Violated
			if nOK == 0 {
				wholeDet = "no successful outcome of Ether.AppendPayload was evaluated"
			}
		}
		r.Add(core.Obligation{Rule: "capacity", Key: "capacity Ether.AppendPayload returns the whole frame", Func: core.FuncName(fn), Pos: c.P.Pos(fn.Pos()), Status: wst,
			Basis: fmt.Sprintf("len(result) >= 14 + len(payload) on %d successful outcomes", nOK), Detail: wholeDet})
		st := core.Proved
		if len(fails) > 0 || n == 0 {
			st = core.Violated
		}
		r.Add(core.Obligation{Rule: "capacity", Key: "capacity Ether.AppendPayload in bounds", Func: core.FuncName(fn), Pos: c.P.Pos(fn.Pos()), Status: st,
			Basis: fmt.Sprintf("%d bounds obligations proved for an encoded header and an arbitrary payload slice", n), Detail: strings.Join(fails, "; ")})
	} else {
		r.Add(core.Obligation{Rule: "capacity", Key: "capacity Ether.AppendPayload in bounds", Status: core.Violated, Detail: "function not found"})
	}

	// ---- DHCP option order ----
	runC03OptionOrder(c)
	runC03OptionsComplete(c)
	runC03OptionsDecoded(c)
}

func argNames(a []encArg) string {
	var n []string
	for _, x := range a {
		n = append(n, x.name)
	}
	return strings.Join(n, ", ")
}

// runC03OptionOrder: RFC 2132 section 3.3 — "If both the subnet mask and the router option are specified in a DHCP
// reply, the subnet mask option MUST be first." In AppendOptions the options are emitted in the order of the
// slice iterated by the first loop; that slice must start with the library's constant list (mask before router),
// whatever order the caller (the client's parameter request list) supplies.
func runC03OptionOrder(c *Ctx) {
	fn := c.A.Method("", "DHCP4", "AppendOptions")
	if fn == nil {
		c.R.Add(core.Obligation{Rule: "option-order", Key: "option-order AppendOptions", Status: core.Violated, Detail: "DHCP4.AppendOptions not found"})
		return
	}
	st, det := optionOrderVerdict(c, fn)
	c.R.Add(core.Obligation{Rule: "option-order", Key: "option-order AppendOptions", Func: core.FuncName(fn), Pos: c.P.Pos(fn.Pos()), Status: st,
		Basis: "the ordered pass iterates append(<constant list: mask .. router>, caller order...)", Detail: det,
		Hint: "emit the constant list first: order = append(optionsReplyParametersList, order...)"})
}

// runC03OptionsComplete: every option of the caller's map is emitted. In AppendOptions the stores that emit an option
// (code, length into the scratch buffer) may be conditional only on presence in the map (comma-ok of the lookup, the
// range iteration) and on remaining capacity (conditions over the scratch buffer, the write position or cap of the
// frame) — never on the option's value or code.
func runC03OptionsComplete(c *Ctx) {
	c.R.Rule("options-complete", "every supplied DHCP option is emitted (emission conditional only on presence and capacity)", 2)
	fn := c.A.Method("", "DHCP4", "AppendOptions")
	if fn == nil {
		return
	}
	kg := core.NewKeyGen()
	n := 0
	core.EachInstr(fn, func(i ssa.Instruction) {
		st, ok := i.(*ssa.Store)
		if !ok {
			return
		}
		ia, ok := st.Addr.(*ssa.IndexAddr)
		if !ok || !(strings.HasPrefix(norm(ia.X), "local(makeslice)") || strings.HasPrefix(norm(ia.X), "make(")) {
			return
		}
		// the option-code store: the value stored is the code (range key / order element), the next store is the length
		if strings.HasPrefix(norm(st.Val), "len(") {
			return
		}
		n++
		var bad []string
		for _, g := range guardsOf(i) {
			t := strings.TrimPrefix(g.Text, "!")
			switch {
			case strings.Contains(t, "cap(recv)"), strings.Contains(t, "local(makeslice)"), strings.Contains(t, "make("):
			case regexp.MustCompile(`^arg0\[.*\]#1$`).MatchString(t): // comma-ok of the map lookup
			case t == "next#0": // range over the map
			case regexp.MustCompile(`^\(\(φ\+1\)<len\(append\(`).MatchString(t): // range over the order list
			default:
				bad = append(bad, g.Text)
			}
		}
		status := core.Proved
		det := ""
		if len(bad) > 0 {
			status = core.Violated
			det = "an option is emitted only if " + strings.Join(bad, " && ") + ": options for which this is false are silently dropped from the encoded packet (for example zero-length options such as Rapid Commit)"
		}
		key := strings.TrimSuffix(kg.Key("options-complete AppendOptions emission"), "#0")
		c.R.Add(core.Obligation{Rule: "options-complete", Key: key, Func: core.FuncName(fn), Pos: c.P.Pos(core.PosOf(i)), Status: status,
			Basis: "emission conditional only on presence in the map and capacity: " + guardTexts(guardsOf(i)), Detail: det})
	})
	if n < 2 {
		c.R.Add(core.Obligation{Rule: "options-complete", Key: "options-complete AppendOptions", Func: core.FuncName(fn), Status: core.Violated, Detail: fmt.Sprintf("expected two emission sites (ordered pass, remaining pass), found %d", n)})
	}
	// the scratch buffer the options are staged in holds the whole map: its size is computed from the lengths of the
	// map's values, not a constant (four 255-byte options need 1028 bytes and fit a 1472-byte frame)
	var scratch *ssa.MakeSlice
	constScratch := ""
	core.EachInstr(fn, func(i ssa.Instruction) {
		if ms, ok := i.(*ssa.MakeSlice); ok && scratch == nil {
			scratch = ms
		}
		if al, ok := i.(*ssa.Alloc); ok && al.Comment == "makeslice" {
			constScratch = al.Type().String() // make with a constant size is an array allocation
		}
	})
	st, det := core.Violated, "no scratch buffer found in AppendOptions"
	if scratch == nil && constScratch != "" {
		det = "AppendOptions stages the options in a buffer of constant size (" + constScratch + "): a map whose encoding is longer (and still fits the frame) is truncated or indexes past the buffer"
	}
	if scratch != nil {
		_, isConst := scratch.Len.(*ssa.Const)
		fromMap := false
		for v := range dataSlice(fn, scratch.Len) {
			if call, ok := v.(*ssa.Call); ok {
				if bi, isB := call.Call.Value.(*ssa.Builtin); isB && bi.Name() == "len" {
					for w := range dataSlice(fn, call.Call.Args[0]) {
						if nx, isN := w.(*ssa.Next); isN {
							if rg, isR := nx.Iter.(*ssa.Range); isR && rg.X == ssa.Value(fn.Params[1]) {
								fromMap = true
							}
						}
					}
				}
			}
		}
		switch {
		case isConst:
			det = "AppendOptions stages the options in a buffer of the constant size " + norm(scratch.Len) + ": a map whose encoding is longer (and still fits the frame) is truncated or indexes past the buffer"
		case !fromMap:
			det = "the size of the scratch buffer (" + norm(scratch.Len) + ") is not computed from the lengths of the map's values"
		default:
			st, det = core.Proved, ""
		}
	}
	c.R.Add(core.Obligation{Rule: "options-complete", Key: "options-complete AppendOptions scratch buffer holds the whole map", Func: core.FuncName(fn), Pos: c.P.Pos(fn.Pos()), Status: st,
		Basis: "make([]byte, sum over the map of 2+len(value))", Detail: det})
}

// runC03OptionsDecoded: the decoding side of the DHCP option map. Every entry DHCP4.ParseOptions puts into the map is
// keyed by the code byte at the cursor and holds exactly the bytes the length byte announces: the value is the slice
// cursor[2 : 2+int(cursor[1])] itself (not a function of it), and the entry is conditional only on the walk's own
// tests (not Pad, not End, enough bytes) - never on which option it is.
func runC03OptionsDecoded(c *Ctx) {
	c.R.Rule("options-decoded", "every option ParseOptions returns is keyed by its code byte and holds exactly the announced bytes", 1)
	fn := c.A.Method("", "DHCP4", "ParseOptions")
	if fn == nil {
		c.R.Add(core.Obligation{Rule: "options-decoded", Key: "options-decoded ParseOptions", Status: core.Violated, Detail: "DHCP4.ParseOptions not found"})
		return
	}
	kg := core.NewKeyGen()
	n := 0
	core.EachInstr(fn, func(i ssa.Instruction) {
		mu, ok := i.(*ssa.MapUpdate)
		if !ok {
			return
		}
		n++
		var bad []string
		val := mu.Value
		for {
			if ct, ok := val.(*ssa.ChangeType); ok {
				val = ct.X
				continue
			}
			break
		}
		sl, ok := val.(*ssa.Slice)
		var cur ssa.Value
		if !ok {
			bad = append(bad, "the stored value is "+norm(mu.Value)+", not a slice of the option area")
		} else {
			cur = sl.X
			if sl.Low == nil || norm(sl.Low) != "2" {
				bad = append(bad, "the value does not start after the two header bytes")
			}
			hi := ""
			if sl.High != nil {
				hi = norm(sl.High)
			}
			want := "(2+" + norm(cur) + "[1])"
			if hi != want {
				bad = append(bad, "the value ends at "+hi+", not at "+want)
			} else if !sameBase(sl.High, cur) {
				bad = append(bad, "the length byte is not read at the cursor the value is sliced from")
			}
		}
		if cur != nil {
			if norm(mu.Key) != norm(cur)+"[0]" || !sameBase(mu.Key, cur) {
				bad = append(bad, "the key is "+norm(mu.Key)+", not the code byte at the cursor")
			}
			for _, g := range guardsOf(i) {
				t := strings.TrimPrefix(g.Text, "!")
				cn := norm(cur)
				switch t {
				case "(" + cn + "[0]==0)", "(" + cn + "[0]==255)", "(len(" + cn + ")>=2)", "(len(" + cn + ")<(2+" + cn + "[1]))":
				default:
					bad = append(bad, "the entry is conditional on "+g.Text)
				}
			}
		}
		status, det := core.Proved, ""
		if len(bad) > 0 {
			status = core.Violated
			det = strings.Join(bad, "; ") + ": an option encoded with these bytes does not decode to the bytes supplied"
		}
		key := strings.TrimSuffix(kg.Key("options-decoded ParseOptions entry"), "#0")
		c.R.Add(core.Obligation{Rule: "options-decoded", Key: key, Func: core.FuncName(fn), Pos: c.P.Pos(core.PosOf(i)), Status: status,
			Basis: "map[cursor[0]] = cursor[2:2+int(cursor[1])] under " + guardTexts(guardsOf(i)), Detail: det})
	})
	if n == 0 {
		c.R.Add(core.Obligation{Rule: "options-decoded", Key: "options-decoded ParseOptions", Func: core.FuncName(fn), Status: core.Violated, Detail: "no map update in ParseOptions"})
	}
	// a pad octet has no length octet: the test "the announced length exceeds what is left" is made only for an octet that
	// is not Pad (evaluated for a pad it reads the next option's code as a length and ends the walk before the options
	// that follow)
	core.EachInstr(fn, func(i ssa.Instruction) {
		iff, ok := i.(*ssa.If)
		if !ok || !regexp.MustCompile(`^\(len\(φ\)<\(2\+φ\[1\]\)\)$`).MatchString(norm(iff.Cond)) {
			return
		}
		st, det := core.Proved, ""
		if !hasGuard(guardsOf(i), `^!\(φ\[0\]==0\)$`) {
			st = core.Violated
			det = "ParseOptions compares the announced length with what is left before it has excluded the pad octet (conditions: " + guardTexts(guardsOf(i)) + "): for a pad the next option's code is read as a length, and a pad in front of one of the last options ends the walk - the options behind it (a server identifier, say) are dropped"
		}
		c.R.Add(core.Obligation{Rule: "options-decoded", Key: "options-decoded ParseOptions truncation test only for an option with a length octet", Func: core.FuncName(fn), Pos: c.P.Pos(core.PosOf(i)), Status: st,
			Basis: "the length test is under !(cursor[0] == Pad)", Detail: det})
	})
}

// sameBase: every index/slice operand reachable in the expression v (through conversions, arithmetic, loads and
// index addresses) that is a φ is the value base - norm() prints different φ alike, so identity is checked here.
func sameBase(v ssa.Value, base ssa.Value) bool {
	ok := true
	seen := map[ssa.Value]bool{}
	var walk func(ssa.Value)
	walk = func(x ssa.Value) {
		if x == nil || seen[x] || x == base {
			return
		}
		seen[x] = true
		switch t := x.(type) {
		case *ssa.Phi:
			ok = false
		case *ssa.Convert:
			walk(t.X)
		case *ssa.ChangeType:
			walk(t.X)
		case *ssa.BinOp:
			walk(t.X)
			walk(t.Y)
		case *ssa.UnOp:
			walk(t.X)
		case *ssa.IndexAddr:
			walk(t.X)
			walk(t.Index)
		case *ssa.Index:
			walk(t.X)
			walk(t.Index)
		}
	}
	walk(v)
	return ok
}

func optionOrderVerdict(c *Ctx, fn *ssa.Function) (core.Status, string) {
	// the constant list: an array literal whose stores are option codes
	var lists []*ssa.Alloc
	core.EachInstr(fn, func(i ssa.Instruction) {
		if al, ok := i.(*ssa.Alloc); ok {
			if at, ok := al.Type().Underlying().(*types.Pointer).Elem().Underlying().(*types.Array); ok && at.Len() <= 16 {
				if b, ok := at.Elem().Underlying().(*types.Basic); ok && b.Kind() == types.Uint8 {
					lists = append(lists, al)
				}
			}
		}
	})
	ce := &constEval{c.P}
	var listAlloc *ssa.Alloc
	for _, al := range lists {
		bs, ok := ce.arrayBytes(al)
		if !ok {
			continue
		}
		mask, router := -1, -1
		for i, b := range bs {
			if b == 1 && mask < 0 {
				mask = i
			}
			if b == 3 && router < 0 {
				router = i
			}
		}
		if mask >= 0 && router >= 0 {
			if mask > router {
				return core.Violated, fmt.Sprintf("the constant option order list % d puts the router (3) before the subnet mask (1)", bs)
			}
			listAlloc = al
		}
	}
	if listAlloc == nil {
		return core.Violated, "no constant order list containing both subnet mask (1) and router (3)"
	}
	// the slice ranged over by the ordered pass: the append call whose result feeds the first range loop
	var verdict core.Status = core.Violated
	det := "the ordered pass does not iterate an append(...) of the constant list"
	core.EachInstr(fn, func(i ssa.Instruction) {
		call, ok := isBuiltinCall(i, "append")
		if !ok || len(call.Call.Args) != 2 {
			return
		}
		first, second := call.Call.Args[0], call.Call.Args[1]
		isList := func(v ssa.Value) bool {
			if sl, ok := v.(*ssa.Slice); ok {
				return sl.X == ssa.Value(listAlloc)
			}
			return false
		}
		switch {
		case isList(first):
			verdict, det = core.Proved, ""
		case isList(second):
			verdict = core.Violated
			det = "the constant list (subnet mask before router) is appended after the caller-supplied order (" + norm(first) + "): a parameter request list naming the router (3) before the mask (1) makes the reply carry the router option first (RFC 2132 section 3.3)"
		}
	})
	return verdict, det
}
