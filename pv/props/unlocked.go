package props

import (
	"fmt"
	"go/types"
	"sort"
	"strings"

	"golang.org/x/tools/go/ssa"

	"pv/core"
	"pv/locks"
)

// lockBearing: named struct types of the module that hold a sync.Mutex / sync.RWMutex (directly or embedded).
func lockBearing(p *core.Program) map[string]bool {
	out := map[string]bool{}
	seen := map[*types.Package]bool{}
	for _, fn := range p.LibFunctions() {
		if fn.Pkg == nil || seen[fn.Pkg.Pkg] {
			continue
		}
		seen[fn.Pkg.Pkg] = true
		sc := fn.Pkg.Pkg.Scope()
		for _, n := range sc.Names() {
			tn, ok := sc.Lookup(n).(*types.TypeName)
			if !ok {
				continue
			}
			st, ok := tn.Type().Underlying().(*types.Struct)
			if !ok {
				continue
			}
			for i := 0; i < st.NumFields(); i++ {
				ft := st.Field(i).Type().String()
				if ft == "sync.Mutex" || ft == "sync.RWMutex" {
					out[pkgShort(fn.Pkg.Pkg)+"."+n] = true
				}
			}
		}
	}
	return out
}

// unlockedWrites lists the writes to fields of lock-bearing structs (and of packet.Host) that happen with no lock held.
func unlockedWrites(c *Ctx, an *locks.Analysis) []string {
	lb := lockBearing(c.P)
	lb["packet.Host"] = true
	bw := newBufWrites(c)
	var out []string
	for _, fn := range c.P.LibFunctions() {
		if isConstructor(fn) {
			continue
		}
		fi := an.Info[fn]
		core.EachInstr(fn, func(i ssa.Instruction) {
			var addr ssa.Value
			via := ""
			switch t := i.(type) {
			case *ssa.Store:
				addr = t.Addr
			case *ssa.MapUpdate:
				addr = t.Map
			case ssa.CallInstruction:
				// a slice of a field handed to a callee that may write through that parameter
				com := t.Common()
				if bi, ok := com.Value.(*ssa.Builtin); ok {
					if (bi.Name() == "copy" || bi.Name() == "append") && len(com.Args) > 0 {
						addr, via = com.Args[0], " through "+bi.Name()
					}
				} else if callee := com.StaticCallee(); callee != nil {
					for j, a := range com.Args {
						if bw.sum[callee][j] {
							addr, via = a, " through "+core.FuncName(callee)
						}
					}
				}
				if addr == nil {
					return
				}
			default:
				return
			}
			// walk to the field of a lock-bearing struct
			a := addr
			for d := 0; d < 8; d++ {
				switch x := a.(type) {
				case *ssa.IndexAddr:
					a = x.X
					continue
				case *ssa.UnOp:
					a = x.X
					continue
				case *ssa.Slice:
					a = x.X
					continue
				case *ssa.ChangeType:
					a = x.X
					continue
				case *ssa.Convert:
					a = x.X
					continue
				case *ssa.Global:
					// package-level state: every goroutine that runs the function shares it
					if strings.HasSuffix(x.Type().String(), "sync.Pool") {
						return
					}
					held := 0
					if fi != nil {
						held = len(fi.MustIn[i])
					}
					held += len(an.Entry[fn])
					if held == 0 {
						out = append(out, fmt.Sprintf("global %s.%s in %s%s at %s", pkgShort(x.Pkg.Pkg), x.Name(), core.FuncName(fn), via, c.P.Pos(core.PosOf(i))))
					}
					return
				case *ssa.FieldAddr:
					owner := fieldOwner(x)
					k := owner
					if j := strings.LastIndex(owner, "."); j > 0 {
						k = owner[:j]
					}
					if lb[k] {
						if freshBase(x.X, 0) {
							return
						}
						held := 0
						if fi != nil {
							held = len(fi.MustIn[i])
						}
						held += len(an.Entry[fn])
						if held == 0 {
							out = append(out, fmt.Sprintf("%s in %s%s at %s", owner, core.FuncName(fn), via, c.P.Pos(core.PosOf(i))))
						}
						return
					}
					a = x.X
					continue
				}
				break
			}
		})
	}
	sort.Strings(out)
	return out
}

func DebugUnlocked(p *core.Program) {
	c := &Ctx{P: p}
	an := locks.Analyse(p, p.LibFunctions(), isConstructor)
	for _, l := range unlockedWrites(c, an) {
		fmt.Println(l)
	}
}
