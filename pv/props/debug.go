package props

import (
	"fmt"
	"sort"
	"strings"

	"golang.org/x/tools/go/ssa"

	"pv/absint"
	"pv/core"
)

// DebugExec interprets one package-level function with unknown arguments and prints statistics.
func DebugExec(p *core.Program, rel, name string) {
	fn := p.Func(rel, name)
	if i := strings.Index(name, "."); i > 0 {
		fn = p.Method(rel, name[:i], name[i+1:])
	}
	if fn == nil {
		fmt.Println("not found")
		return
	}
	n := 0
	bad := 0
	in := absint.New(p, absint.Config{Opaque: handlerOpaque, Heavy: heavySend, JoinAtCall: joinAtCall, MaxStates: 48, MaxOutcomes: 8}, func(f absint.Finding) {
		n++
		if !f.OK {
			bad++
			fmt.Printf("  finding %s %s: %s\n", f.Kind, absint.SiteString(f.Site), f.Detail)
		}
	})
	in.StepsByFn = map[string]int{}
	outs := in.Exec(fn, nil, nil, absint.NewHeap())
	fmt.Printf("outcomes=%d findings=%d bad=%d\n", len(outs), n, bad)
	for i, o := range outs {
		if i < 12 && o.Ret != nil {
			fmt.Printf("  outcome %d: %s\n", i, absint.ValueString(o.Ret))
		}
	}
	type kv struct {
		k string
		v int
	}
	var l []kv
	for k, v := range in.StepsByFn {
		l = append(l, kv{k, v})
	}
	sort.Slice(l, func(i, j int) bool { return l[i].v > l[j].v })
	for i := 0; i < 25 && i < len(l); i++ {
		fmt.Printf("steps %7d %s\n", l[i].v, l[i].k)
	}
	for k, v := range in.Notes {
		fmt.Printf("note x%d %s\n", v, k)
	}
}

// DebugGuards prints, for every call site in the function, the conditions it is control dependent on.
func DebugGuards(p *core.Program, rel, name string) {
	fn := p.Func(rel, name)
	if i := strings.Index(name, "."); i > 0 {
		fn = p.Method(rel, name[:i], name[i+1:])
	}
	if fn == nil {
		fmt.Println("not found")
		return
	}
	fns := []*ssa.Function{fn}
	fns = append(fns, fn.AnonFuncs...)
	for _, f := range fns {
		core.EachInstr(f, func(i ssa.Instruction) {
			switch t := i.(type) {
			case ssa.CallInstruction:
				fmt.Printf("%s %s\n    args: ", p.Pos(core.PosOf(i)), shortCallee(t))
				for _, a := range t.Common().Args {
					fmt.Printf("[%s] ", norm(a))
				}
				fmt.Printf("\n    guards: %s\n", guardTexts(guardsOf(i)))
			case *ssa.Store:
				fmt.Printf("%s store %s = %s\n    guards: %s\n", p.Pos(core.PosOf(i)), norm(t.Addr), norm(t.Val), guardTexts(guardsOf(i)))
			case *ssa.MapUpdate:
				fmt.Printf("%s mapupdate %s[%s] = %s\n    guards: %s\n", p.Pos(core.PosOf(i)), norm(t.Map), norm(t.Key), norm(t.Value), guardTexts(guardsOf(i)))
			case *ssa.Return:
				var rs []string
				for _, r := range t.Results {
					rs = append(rs, norm(r))
				}
				fmt.Printf("%s return %s\n    guards: %s\n", p.Pos(core.PosOf(i)), strings.Join(rs, ", "), guardTexts(guardsOf(i)))
			}
		})
	}
}

// DebugDNF prints the path conditions of the blocks containing calls to the named callee.
func DebugDNF(p *core.Program, rel, name, callee string) {
	fn := p.Func(rel, name)
	if i := strings.Index(name, "."); i > 0 {
		fn = p.Method(rel, name[:i], name[i+1:])
	}
	if fn == nil {
		fmt.Println("not found")
		return
	}
	for _, s := range callsIn(fn, nameIs(callee)) {
		ins := s.(ssa.Instruction)
		fmt.Println(p.Pos(core.PosOf(ins)), shortCallee(s))
		for _, d := range pathDNF(ins.Block()) {
			fmt.Println("   ", d)
		}
	}
}

// DebugAckJoin prints the guards of every entry into the acknowledgement section of handleRequest.
func DebugAckJoin(p *core.Program) {
	hr := p.Method("handlers/dhcp4_spoofer", "Handler", "handleRequest")
	j := ackJoin(hr)
	if j == nil {
		fmt.Println("no join")
		return
	}
	for k, pr := range j.Preds {
		var txt []string
		for _, g := range guardsOf(pr.Instrs[len(pr.Instrs)-1]) {
			txt = append(txt, shortLease(g.Text))
		}
		fmt.Printf("entry %d: %s\n", k+1, strings.Join(txt, " && "))
	}
}

// DebugLoopFlags lists every loop-carried boolean of the module with its monotonicity verdict.
func DebugLoopFlags(p *core.Program) {
	for _, fn := range p.ModuleFunctions() {
		for _, lf := range loopFlags(fn) {
			fmt.Printf("%s %s %q monotone=%v %s\n", p.Pos(lf.Phi.Pos()), core.FuncName(fn), lf.Phi.Comment, lf.Monotone, lf.Why)
		}
	}
}

// DebugRangeString lists loops that range over a string and index that string with the range key.
func DebugRangeString(p *core.Program) {
	for _, fn := range p.ModuleFunctions() {
		for _, site := range rangeStringByteIndex(fn) {
			fmt.Println(p.Pos(core.PosOf(site)), core.FuncName(fn))
		}
	}
}

// DebugDroppedErrors lists module calls whose error never reaches a return, per function of the naming handler.
func DebugDroppedErrors(p *core.Program) {
	for _, fn := range p.ModuleFunctions() {
		if fn.Pkg == nil {
			continue
		}
		for _, c := range droppedErrors(fn, core.InModule) {
			if strings.Contains(shortCallee(c), "fastlog") {
				continue
			}
			fmt.Println(p.Pos(core.PosOf(c.(ssa.Instruction))), core.FuncName(fn), "drops the error of", shortCallee(c))
		}
	}
}
