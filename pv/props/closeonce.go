package props

import (
	"fmt"
	"go/token"
	"go/types"
	"strings"

	"golang.org/x/tools/go/ssa"

	"pv/core"
	"pv/locks"
)

// close-once (C09): closing a channel twice panics, so every close of a channel that lives in a shared struct
// must be executed at most once whatever the interleaving of callers. The repository uses three idioms, all of
// which make "test, then mark, then close" one critical section:
//
//	flag    if h.closed { return }; h.closed = true; ... close(h.closeChan)      test and set under one write lock
//	swap    ch := h.closeChan; h.closeChan = make(chan bool); close(ch)           load and replacement under one write lock
//	delete  entry := table[id]; delete(table, id); close(entry.wakeup)            lookup and removal under one write lock
//
// The rule accepts exactly these, checked on the lockset the lock analysis computes for each instruction: the
// read that decides, and the write that marks, hold the same lock in write mode, and no path from the read to
// the write releases it. A test made through a helper that takes and drops the lock itself (isClosed()) is the
// classic check-then-act and is reported.

func heldW(an *locks.Analysis, fn *ssa.Function, i ssa.Instruction) map[string]bool {
	out := map[string]bool{}
	info := an.Info[fn]
	if info == nil {
		return out
	}
	for h := range info.MustIn[i] {
		if h.Mode == "W" {
			out[h.Class] = true
		}
	}
	// locks every caller holds
	for h := range an.Entry[fn] {
		if h.Mode == "W" {
			out[h.Class] = true
		}
	}
	return out
}

// releasedBetween: some path from a to b passes an unlock of class cl.
func releasedBetween(an *locks.Analysis, fn *ssa.Function, a, b ssa.Instruction, cl string) bool {
	info := an.Info[fn]
	if info == nil {
		return true
	}
	unlocks := map[ssa.Instruction]bool{}
	for _, op := range info.Ops {
		if op.Class == cl && !op.Acquire && !op.Defer {
			unlocks[op.Instr] = true
		}
	}
	if len(unlocks) == 0 {
		return false
	}
	// a path a -> unlock -> b
	for u := range unlocks {
		if (u == a || reachesWithout(a, u, func(ssa.Instruction) bool { return false })) && reachesWithout(u, b, func(ssa.Instruction) bool { return false }) {
			// only if the unlock lies between them on an acyclic path: a reaches u without passing b, u reaches b
			if reachesWithout(a, u, func(x ssa.Instruction) bool { return x == b }) {
				return true
			}
		}
	}
	return false
}

func runCloseOnce(c *Ctx, an *locks.Analysis) {
	r := c.R
	r.Rule("close-once", "a channel held in a shared struct is closed inside the critical section that decided to close it", 7)
	for _, fn := range c.P.LibFunctions() {
		if strings.HasPrefix(c.P.Pos(fn.Pos()), "memconn.go:") {
			continue // in-memory net.PacketConn used by tests; a connection is closed by its single owner
		}
		core.EachInstr(fn, func(i ssa.Instruction) {
			call, ok := i.(*ssa.Call)
			if !ok {
				return
			}
			b, isB := call.Call.Value.(*ssa.Builtin)
			if !isB || b.Name() != "close" || len(call.Call.Args) != 1 {
				return
			}
			ch := call.Call.Args[0]
			ld, isLoad := ch.(*ssa.UnOp)
			if !isLoad || ld.Op != token.MUL {
				return
			}
			fa, isField := ld.X.(*ssa.FieldAddr)
			if !isField {
				return
			}
			key := fmt.Sprintf("close-once %s close(%s)", core.FuncName(fn), norm(ch))
			wAtClose := heldW(an, fn, i)
			st, why, idiom := core.Violated, "", ""
			// ---- flag idiom: a store `X.f = true` dominating the close, itself guarded by !X.f read under the same write lock
			core.EachInstr(fn, func(j ssa.Instruction) {
				if st == core.Proved {
					return
				}
				s, isS := j.(*ssa.Store)
				if !isS {
					return
				}
				k, isC := s.Val.(*ssa.Const)
				sfa, isFA := s.Addr.(*ssa.FieldAddr)
				if !isC || !isFA || k.Value == nil || k.Value.String() != "true" {
					return
				}
				if !(s.Block().Dominates(i.Block()) && (s.Block() != i.Block() || core.InstrIndex(s) < core.InstrIndex(i))) {
					return
				}
				// the guard: a direct read of the same field, false on the way to the store
				for _, g := range guardsOf(j) {
					rd, isRd := g.Cond.(*ssa.UnOp)
					if !isRd || g.Pol {
						continue
					}
					rfa, isRFA := rd.X.(*ssa.FieldAddr)
					if !isRFA || rfa.Field != sfa.Field || norm(rfa.X) != norm(sfa.X) {
						continue
					}
					wr, ws := heldW(an, fn, rd), heldW(an, fn, j)
					for cl := range wr {
						if ws[cl] && !releasedBetween(an, fn, rd, j, cl) {
							st, idiom = core.Proved, "flag "+norm(s.Addr)+" tested and set under "+cl
						}
					}
					if st != core.Proved {
						why = "the flag " + norm(s.Addr) + " is read at " + c.P.Pos(core.PosOf(rd)) + " and set at " + c.P.Pos(core.PosOf(j)) + " without one write lock held across both"
					}
				}
			})
			// ---- swap idiom: the field is replaced by a fresh channel before the close, load and store under one write lock
			if st != core.Proved {
				core.EachInstr(fn, func(j ssa.Instruction) {
					s, isS := j.(*ssa.Store)
					if !isS || st == core.Proved {
						return
					}
					sfa, isFA := s.Addr.(*ssa.FieldAddr)
					if !isFA || sfa.Field != fa.Field || norm(sfa.X) != norm(fa.X) {
						return
					}
					if _, fresh := s.Val.(*ssa.MakeChan); !fresh {
						return
					}
					if !(j.Block() == i.Block() && core.InstrIndex(ld) < core.InstrIndex(j) && core.InstrIndex(j) < core.InstrIndex(i)) {
						return
					}
					wl, ws := heldW(an, fn, ld), heldW(an, fn, j)
					for cl := range wl {
						if ws[cl] && wAtClose[cl] {
							st, idiom = core.Proved, "channel replaced by a fresh one before the close under "+cl
						}
					}
				})
			}
			// ---- delete idiom: the struct holding the channel came out of a map and is deleted from it before the close
			if st != core.Proved {
				if eld, ok := fa.X.(*ssa.UnOp); ok {
					_ = eld
				}
				var lookups []ssa.Instruction
				var src ssa.Value = fa.X
				for d := 0; d < 4; d++ {
					switch t := src.(type) {
					case *ssa.Extract:
						src = t.Tuple
						continue
					case *ssa.UnOp:
						src = t.X
						continue
					case *ssa.Lookup:
						lookups = append(lookups, t)
					}
					break
				}
				for _, lk := range lookups {
					l := lk.(*ssa.Lookup)
					core.EachInstr(fn, func(j ssa.Instruction) {
						dc, isCall := j.(*ssa.Call)
						if !isCall || st == core.Proved {
							return
						}
						db, isB := dc.Call.Value.(*ssa.Builtin)
						if !isB || db.Name() != "delete" || len(dc.Call.Args) != 2 || norm(dc.Call.Args[0]) != norm(l.X) || norm(dc.Call.Args[1]) != norm(l.Index) {
							return
						}
						if !j.Block().Dominates(i.Block()) {
							return
						}
						wl, wd := heldW(an, fn, lk), heldW(an, fn, j)
						for cl := range wl {
							if wd[cl] && !releasedBetween(an, fn, lk, j, cl) {
								st, idiom = core.Proved, "entry removed from "+norm(l.X)+" before the close under "+cl
							}
						}
					})
				}
			}
			if st != core.Proved && why == "" {
				if _, isChan := ch.Type().Underlying().(*types.Chan); isChan {
					why = "no test-and-set flag, channel replacement or table removal makes this close a one-time action inside one critical section (a test made through a helper that locks and unlocks by itself does not count)"
				}
			}
			r.Add(core.Obligation{Rule: "close-once", Key: key, Func: core.FuncName(fn), Pos: c.P.Pos(core.PosOf(i)), Status: st, Basis: idiom,
				Detail: "two concurrent callers can both reach this close: " + why})
		})
	}
}

// send-after-close (C09): a send on a closed channel panics. For every channel field that some function closes,
// each send on that field must sit in a critical section shared with the close: the close holds lock M for
// writing and sets a flag under it; the send holds M (either mode), has tested that flag false under M, and does
// not block while holding M (select with default), otherwise Close could never take the lock.
func runSendAfterClose(c *Ctx, an *locks.Analysis) {
	r := c.R
	r.Rule("send-after-close", "sends on a channel that is closed somewhere share a critical section with the close", 1)
	type closeInfo struct {
		fn    *ssa.Function
		site  ssa.Instruction
		w     map[string]bool
		flags map[string]bool // "Type.field" of bool fields set true under the same write lock before the close
	}
	chanKey := func(v ssa.Value) (string, *ssa.FieldAddr) {
		ld, ok := v.(*ssa.UnOp)
		if !ok || ld.Op != token.MUL {
			return "", nil
		}
		fa, ok := ld.X.(*ssa.FieldAddr)
		if !ok {
			return "", nil
		}
		return fieldOwner(fa), fa
	}
	closes := map[string][]closeInfo{}
	for _, fn := range c.P.LibFunctions() {
		core.EachInstr(fn, func(i ssa.Instruction) {
			call, ok := i.(*ssa.Call)
			if !ok {
				return
			}
			b, isB := call.Call.Value.(*ssa.Builtin)
			if !isB || b.Name() != "close" || len(call.Call.Args) != 1 {
				return
			}
			k, _ := chanKey(call.Call.Args[0])
			if k == "" {
				return
			}
			ci := closeInfo{fn: fn, site: i, w: heldW(an, fn, i), flags: map[string]bool{}}
			core.EachInstr(fn, func(j ssa.Instruction) {
				s, isS := j.(*ssa.Store)
				if !isS {
					return
				}
				kc, isC := s.Val.(*ssa.Const)
				sfa, isFA := s.Addr.(*ssa.FieldAddr)
				if !isC || !isFA || kc.Value == nil || kc.Value.String() != "true" || !s.Block().Dominates(i.Block()) {
					return
				}
				ws := heldW(an, fn, j)
				for cl := range ws {
					if ci.w[cl] && !releasedBetween(an, fn, j, i, cl) {
						ci.flags[fieldOwner(sfa)] = true
					}
				}
			})
			closes[k] = append(closes[k], ci)
		})
	}
	check := func(fn *ssa.Function, at ssa.Instruction, ch ssa.Value, blocking bool) {
		k, _ := chanKey(ch)
		cs := closes[k]
		if k == "" || len(cs) == 0 {
			return
		}
		held := map[string]bool{}
		if info := an.Info[fn]; info != nil {
			for h := range info.MustIn[at] {
				held[h.Class] = true
			}
		}
		for h := range an.Entry[fn] {
			held[h.Class] = true
		}
		st := core.Proved
		var why []string
		for _, ci := range cs {
			shared := ""
			for cl := range held {
				if ci.w[cl] {
					shared = cl
				}
			}
			if shared == "" {
				st = core.Violated
				why = append(why, fmt.Sprintf("the send holds none of the locks under which %s closes the channel at %s (held at the send: %v; write-held at the close: %v)", core.FuncName(ci.fn), c.P.Pos(core.PosOf(ci.site)), sortedKeys(held), sortedKeys(ci.w)))
				continue
			}
			tested := false
			for _, g := range guardsOf(at) {
				rd, isRd := g.Cond.(*ssa.UnOp)
				if !isRd || g.Pol {
					continue
				}
				if rfa, ok := rd.X.(*ssa.FieldAddr); ok && ci.flags[fieldOwner(rfa)] {
					if hr := an.Info[fn]; hr != nil {
						for h := range hr.MustIn[rd] {
							if h.Class == shared && !releasedBetween(an, fn, rd, at, shared) {
								tested = true
							}
						}
					}
				}
			}
			if !tested {
				st = core.Violated
				why = append(why, "the send is not preceded, under "+shared+", by a test of the flag the close sets")
			}
			if blocking {
				st = core.Violated
				why = append(why, "the send can block while holding "+shared+", which the close needs")
			}
		}
		r.Add(core.Obligation{Rule: "send-after-close", Key: fmt.Sprintf("send-after-close %s send on %s", core.FuncName(fn), k), Func: core.FuncName(fn), Pos: c.P.Pos(core.PosOf(at)), Status: st,
			Basis: "send and close share a lock; the closed flag is tested under it; the send does not block", Detail: "a send on " + k + " can run after or during the close of the channel (panic: send on closed channel): " + strings.Join(why, "; ")})
	}
	for _, fn := range c.P.LibFunctions() {
		core.EachInstr(fn, func(i ssa.Instruction) {
			switch t := i.(type) {
			case *ssa.Send:
				check(fn, i, t.Chan, true)
			case *ssa.Select:
				for _, s := range t.States {
					if s.Dir == types.SendOnly {
						check(fn, i, s.Chan, t.Blocking)
					}
				}
			}
		})
	}
}

// nil-map-write (C09): a map field that some method sets to nil (Close releasing its tables) must not be written by
// another method without a nil test: an assignment into a nil map panics, and the packet loop can still be inside -
// or enter - that method when Close runs.
func runNilMapWrite(c *Ctx) {
	r := c.R
	r.Rule("nil-map-write", "map fields that are set to nil are never assigned into without a nil test", 0)
	nilled := map[string]ssa.Instruction{}
	for _, fn := range c.P.LibFunctions() {
		if isConstructor(fn) {
			continue
		}
		core.EachInstr(fn, func(i ssa.Instruction) {
			st, ok := i.(*ssa.Store)
			if !ok {
				return
			}
			fa, isFA := st.Addr.(*ssa.FieldAddr)
			k, isC := st.Val.(*ssa.Const)
			if !isFA || !isC || k.Value != nil {
				return
			}
			if _, isMap := k.Type().Underlying().(*types.Map); !isMap {
				return
			}
			nilled[fieldOwner(fa)] = i
		})
	}
	for _, fn := range c.P.LibFunctions() {
		kg := core.NewKeyGen()
		core.EachInstr(fn, func(i ssa.Instruction) {
			mu, ok := i.(*ssa.MapUpdate)
			if !ok {
				return
			}
			ld, isLoad := mu.Map.(*ssa.UnOp)
			if !isLoad {
				return
			}
			fa, isFA := ld.X.(*ssa.FieldAddr)
			if !isFA {
				return
			}
			at, isNilled := nilled[fieldOwner(fa)]
			if !isNilled {
				return
			}
			st := core.Violated
			for _, g := range guardsOf(i) {
				if strings.Contains(g.Text, norm(mu.Map)+"==nil") && !g.Pol {
					st = core.Proved
				}
			}
			key := strings.TrimSuffix(kg.Key("nil-map-write "+fieldOwner(fa)+" in "+core.FuncName(fn)), "#0")
			r.Add(core.Obligation{Rule: "nil-map-write", Key: key, Func: core.FuncName(fn), Pos: c.P.Pos(core.PosOf(i)), Status: st,
				Basis:  "the assignment is under a test that the map is not nil",
				Detail: fieldOwner(fa) + " is set to nil at " + c.P.Pos(core.PosOf(at)) + " and assigned into here without a nil test: a call that follows (or overlaps) that one panics with 'assignment to entry in nil map'"})
		})
	}
}
