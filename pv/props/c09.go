package props

import (
	"fmt"
	"go/token"
	"go/types"
	"sort"
	"strings"

	"golang.org/x/tools/go/ssa"

	"pv/core"
	"pv/locks"
)

func init() { register("C09", "other", runC09) }

// guardedBy: shared fields and the lock classes that protect them (frozen after the Engler-style
// pass of DESIGN.md Appendix B and reading the comments in hosttable.go / mactable.go).
// write=W means writers need the class in write mode; any listed class in R or W mode suffices for readers.
type guardSpec struct {
	pkg, typ, field string
	read            []string // a reader must hold one of these (read or write mode)
	write           []string // a writer must hold ALL of these in write mode
	why             string
}

var (
	sess = []string{"Session.mutex"}
	row  = []string{"MACEntry.Row"}
)

var guardTable = []guardSpec{
	{"packet", "HostTable", "Table", sess, sess, "host index: session lock (hosttable.go)"},
	{"packet", "MACTable", "Table", sess, sess, "mac index: session lock"},
	{"packet", "MACEntry", "HostList", []string{"Session.mutex", "MACEntry.Row"}, []string{"Session.mutex", "MACEntry.Row"}, "written under both locks so that readers under either lock are excluded"},
	{"packet", "MACEntry", "Captured", sess, sess, "Capture/Release/IsCaptured"},
	{"packet", "MACEntry", "IP4Offer", sess, sess, "SetDHCPv4IPOffer/DHCPv4IPOffer/DHCPv4Update"},
	{"packet", "Host", "Online", row, row, "row lock (hosttable.go:22-24)"},
	{"packet", "Host", "dirty", row, row, "row lock"},
	{"packet", "Host", "LastSeen", row, row, "row lock"},
	{"packet", "MACEntry", "LastSeen", row, row, "row lock"},
	{"packet", "MACEntry", "Online", row, row, "row lock"},
	{"packet", "MACEntry", "IP4", row, row, "row lock"},
	{"packet", "MACEntry", "IP6GUA", row, row, "row lock"},
	{"packet", "MACEntry", "IP6LLA", row, row, "row lock"},
	{"packet", "Host", "DHCP4Name", row, row, "Update*Name"},
	{"packet", "Host", "MDNSName", row, row, "Update*Name"},
	{"packet", "Host", "SSDPName", row, row, "Update*Name"},
	{"packet", "Host", "LLMNRName", row, row, "Update*Name"},
	{"packet", "Host", "NBNSName", row, row, "Update*Name"},
	{"packet", "MACEntry", "DHCP4Name", row, row, "merged by Update*Name, read by toNotification, under the row lock"},
	{"packet", "MACEntry", "MDNSName", row, row, "merged by Update*Name, read by toNotification, under the row lock"},
	{"packet", "MACEntry", "SSDPName", row, row, "merged by Update*Name, read by toNotification, under the row lock"},
	{"packet", "MACEntry", "LLMNRName", row, row, "merged by Update*Name, read by toNotification, under the row lock"},
	{"packet", "MACEntry", "NBNSName", row, row, "merged by Update*Name, read by toNotification, under the row lock"},
	{"arp_spoofer", "Handler", "huntList", []string{"Handler.arpMutex"}, []string{"Handler.arpMutex"}, "hunt list"},
	{"arp_spoofer", "Handler", "closed", []string{"Handler.arpMutex"}, []string{"Handler.arpMutex"}, "written by Close, read by loops"},
	{"icmp_spoofer", "Handler6", "huntList", []string{"Handler6.Mutex"}, []string{"Handler6.Mutex"}, "hunt list"},
	{"icmp_spoofer", "Handler6", "LANRouters", []string{"Handler6.Mutex"}, []string{"Handler6.Mutex"}, "router table"},
	{"icmp_spoofer", "Handler6", "Router", []string{"Handler6.Mutex"}, []string{"Handler6.Mutex"}, "default router"},
	{"icmp_spoofer", "Router", "*", []string{"Handler6.Mutex"}, []string{"Handler6.Mutex"}, "router entries are updated by ProcessPacket on every RA"},
	{"icmp_spoofer", "Handler6", "closeChan", []string{"Handler6.Mutex"}, []string{"Handler6.Mutex"}, "replaced on every RA"},
	{"icmp_spoofer", "Handler6", "closed", []string{"Handler6.Mutex"}, []string{"Handler6.Mutex"}, "written by Close, read by loops"},
	{"dhcp4_spoofer", "Handler", "table", []string{"Handler.Mutex"}, []string{"Handler.Mutex"}, "lease table"},
	{"dhcp4_spoofer", "dhcpSubnet", "nextIP", []string{"Handler.Mutex"}, []string{"Handler.Mutex"}, "allocation cursor"},
	{"dns_naming", "DNSHandler", "DNSTable", []string{"DNSHandler.mutex"}, []string{"DNSHandler.mutex"}, "dns table"},
	{"dns_naming", "DNSHandler", "mdnsCache", []string{"DNSHandler.mutex"}, []string{"DNSHandler.mutex"}, "mdns cache"},
	{"packet", "Session", "closed", sess, sess, "written by Close, read by ReadFrom"},
}

func pkgShort(p *types.Package) string {
	if p == nil {
		return ""
	}
	return p.Name()
}

type fieldAccess struct {
	instr ssa.Instruction
	write bool
	fa    *ssa.FieldAddr
	how   string
}

// accessesOf finds reads/writes of struct field (nt, field) in fn: loads/stores through the
// field address, and map updates/deletes/lookups/ranges/appends on the loaded value.
func accessesOf(fn *ssa.Function, match func(*ssa.FieldAddr) bool) []fieldAccess {
	var out []fieldAccess
	core.EachInstr(fn, func(i ssa.Instruction) {
		fa, ok := i.(*ssa.FieldAddr)
		if !ok || !match(fa) || fa.Referrers() == nil {
			return
		}
		for _, r := range *fa.Referrers() {
			switch t := r.(type) {
			case *ssa.Store:
				if t.Addr == ssa.Value(fa) {
					out = append(out, fieldAccess{t, true, fa, "store"})
				}
			case *ssa.UnOp:
				if t.Op != token.MUL {
					continue
				}
				wrote := false
				if t.Referrers() != nil {
					for _, rr := range *t.Referrers() {
						switch u := rr.(type) {
						case *ssa.MapUpdate:
							if u.Map == ssa.Value(t) {
								out = append(out, fieldAccess{u, true, fa, "map update"})
								wrote = true
							}
						case *ssa.Call:
							if b, ok := u.Call.Value.(*ssa.Builtin); ok && (b.Name() == "delete" || b.Name() == "clear") && len(u.Call.Args) > 0 && u.Call.Args[0] == ssa.Value(t) {
								out = append(out, fieldAccess{u, true, fa, "map delete"})
								wrote = true
							}
						case *ssa.IndexAddr:
							if u.Referrers() != nil {
								for _, r3 := range *u.Referrers() {
									if st, ok := r3.(*ssa.Store); ok && st.Addr == ssa.Value(u) {
										out = append(out, fieldAccess{st, true, fa, "element store"})
										wrote = true
									}
								}
							}
						}
					}
				}
				_ = wrote
				out = append(out, fieldAccess{t, false, fa, "load"})
			case *ssa.FieldAddr, *ssa.IndexAddr:
				// nested access (struct field of a guarded struct): treat as read of the parent unless stored
				out = append(out, fieldAccess{r, false, fa, "address"})
			case *ssa.Call:
				// the field's address is the receiver of a method call (struct-valued field with methods)
				if len(t.Call.Args) > 0 && t.Call.Args[0] == ssa.Value(fa) {
					n := ""
					if cal := t.Call.StaticCallee(); cal != nil {
						n = cal.Name()
					}
					write := n == "Add" || n == "Del" || strings.HasPrefix(n, "Set") || n == "delete" || n == "findOrCreate"
					out = append(out, fieldAccess{t, write, fa, "method " + n})
				}
			}
		}
	})
	return out
}

// freshBase: the object whose field is accessed was allocated in this function (constructor):
// it is not shared yet.
func freshBase(v ssa.Value, depth int) bool {
	if depth > 6 {
		return false
	}
	switch t := v.(type) {
	case *ssa.Alloc:
		return true
	case *ssa.FieldAddr:
		return freshBase(t.X, depth+1)
	case *ssa.UnOp:
		// load of a local variable holding the fresh pointer: the store that reaches this load
		// (the closest dominating one, with no other store able to intervene) must store a fresh object
		if al, ok := t.X.(*ssa.Alloc); ok && al.Referrers() != nil {
			var stores []*ssa.Store
			for _, r := range *al.Referrers() {
				if st, ok := r.(*ssa.Store); ok && st.Addr == ssa.Value(al) {
					stores = append(stores, st)
				}
			}
			var best *ssa.Store
			for _, st := range stores {
				if core.InstrDominates(st, t) && (best == nil || core.InstrDominates(best, st)) {
					best = st
				}
			}
			if best == nil || !freshBase(best.Val, depth+1) {
				return false
			}
			for _, st := range stores {
				if st != best && !core.InstrDominates(st, best) && core.InstrReaches(st, t) {
					return false
				}
			}
			return true
		}
	case *ssa.Phi:
		for _, e := range t.Edges {
			if !freshBase(e, depth+1) {
				return false
			}
		}
		return true
	}
	return false
}

func runC09(c *Ctx) {
	r := c.R
	r.Explanation = "Lock discipline of the session and the handlers, decided on the CFG of every library function: (pairing) on every path to every return the function's net effect on each lock class is zero " +
		"and no lock is released that is not certainly held; (order) the inter-procedural lock-order graph (held -> acquired, through calls) is acyclic and never takes the session lock while a row lock is held " +
		"(documented order, hosttable.go:22-24); self re-acquisition of a non-reentrant lock is a self-loop of that graph; (guarded-by) every access to a field of the frozen guarded-by table holds an acceptable lock " +
		"(must-held locally or at every call site of the function), writers in write mode; (no write under a read lock) follows from the mode check; (stoppable goroutines) every goroutine body with an unbounded loop " +
		"tests its owner's close channel / closed flag on every iteration. These are necessary conditions for the absence of data races and deadlocks; they do not prove it for all schedules (no happens-before reasoning beyond locks)."
	r.Assume("lock classes are (struct type, field): instances of the same class are not distinguished except that a class-level self-loop is only reported when the nested acquisition happens through a call chain",
		"one goroutine runs the ReadFrom/Parse/ProcessPacket/Notify loop (documented contract); Session.Statistics is confined to it")
	r.Rule("lock-classes", "sync.Mutex/RWMutex fields of the module that are locked somewhere", 7)
	r.Rule("pairing", "lock/unlock pairing on all paths of every function with a lock operation", 40)
	r.Rule("order", "lock-order graph acyclic and consistent with 'session before row'", 1)
	r.Rule("guarded-by", "accesses to guarded fields hold an acceptable lock in the required mode", 100)
	r.Rule("goroutine-stop", "goroutine bodies with unbounded loops have a close-controlled exit", 5)

	fns := c.P.LibFunctions()
	an := locks.Analyse(c.P, fns, isConstructor)
	var classes []string
	for cl := range an.Classes {
		classes = append(classes, cl)
	}
	sort.Strings(classes)
	runCloseOnce(c, an)
	runSendAfterClose(c, an)
	runNilMapWrite(c)
	for _, cl := range classes {
		r.Add(core.Obligation{Rule: "lock-classes", Key: "lock-classes " + cl, Func: "-", Status: core.Proved, Basis: "lock class found"})
	}
	r.Extra["lock_classes"] = classes

	// pairing
	for _, fn := range fns {
		fi := an.Info[fn]
		if len(fi.Ops) == 0 {
			continue
		}
		st := core.Proved
		var det []string
		for _, p := range fi.Problems {
			st = core.Violated
			det = append(det, p)
		}
		for _, ex := range fi.ExitMay {
			if len(ex.Held) > 0 {
				st = core.Violated
				det = append(det, fmt.Sprintf("returns at %s with %s possibly still held", c.P.Pos(core.PosOf(ex.Ret)), ex.Held))
			}
		}
		r.Add(core.Obligation{Rule: "pairing", Key: "pairing " + core.FuncName(fn), Func: core.FuncName(fn), Pos: c.P.Pos(fn.Pos()), Status: st,
			Basis: fmt.Sprintf("%d lock operations; every return leaves the lockset as at entry", len(fi.Ops)), Detail: strings.Join(det, " ; ")})
	}

	// order
	var edgeList []string
	for k, where := range an.Edges {
		edgeList = append(edgeList, fmt.Sprintf("%s -> %s (%s)", k[0], k[1], where[0]))
	}
	sort.Strings(edgeList)
	r.Extra["lock_order_edges"] = edgeList
	cycles := an.Cycles()
	for _, cyc := range cycles {
		k := [2]string{cyc[0], cyc[0]}
		if len(cyc) > 1 {
			k = [2]string{cyc[0], cyc[1]}
		}
		r.Add(core.Obligation{Rule: "order", Key: "order cycle " + strings.Join(cyc, " -> ") + " -> " + cyc[0], Func: "-", Status: core.Violated,
			Detail: fmt.Sprintf("lock-order cycle (potential deadlock / self re-acquisition of a non-reentrant lock); first edge at: %s", strings.Join(an.Edges[k], " | "))})
	}
	if where, bad := an.Edges[[2]string{"MACEntry.Row", "Session.mutex"}]; bad {
		r.Add(core.Obligation{Rule: "order", Key: "order MACEntry.Row before Session.mutex", Func: "-", Status: core.Violated,
			Detail: "the session lock is acquired while a row lock may be held, against the documented order (hosttable.go:22-24): " + strings.Join(where, " | ")})
	}
	r.Add(core.Obligation{Rule: "order", Key: "order graph", Func: "-", Status: core.Proved, Basis: fmt.Sprintf("%d lock-order edges, %d cycles", len(an.Edges), len(cycles))})

	// guarded-by
	for _, g := range guardTable {
		g := g
		match := func(fa *ssa.FieldAddr) bool {
			pt, ok := fa.X.Type().Underlying().(*types.Pointer)
			if !ok {
				return false
			}
			nt, ok := pt.Elem().(*types.Named)
			if !ok || nt.Obj().Name() != g.typ || pkgShort(nt.Obj().Pkg()) != g.pkg {
				return false
			}
			st := nt.Underlying().(*types.Struct)
			return g.field == "*" || (fa.Field < st.NumFields() && st.Field(fa.Field).Name() == g.field)
		}
		matchWhole := func(t types.Type) bool {
			if g.field != "*" {
				return false
			}
			pt, ok := t.Underlying().(*types.Pointer)
			if !ok {
				return false
			}
			nt, ok := pt.Elem().(*types.Named)
			return ok && nt.Obj().Name() == g.typ && pkgShort(nt.Obj().Pkg()) == g.pkg
		}
		n := 0
		for _, fn := range fns {
			if isDiagnostic(fn) || isConstructor(fn) || isDead(c, fn) {
				continue
			}
			accs := accessesOf(fn, match)
			if g.field == "*" {
				// entries of a guarded table: only pointers obtained in this function from a lookup / range of a map
				// (the guarded table) are in scope; pointers kept elsewhere are a different question
				var kept []fieldAccess
				for _, ac := range accs {
					if ac.fa != nil && fromMapLookup(ac.fa.X, 0) {
						kept = append(kept, ac)
					}
				}
				accs = kept
			}
			// whole-struct loads/stores through a pointer (copying the guarded object)
			core.EachInstr(fn, func(i ssa.Instruction) {
				if u, ok := i.(*ssa.UnOp); ok && g.field == "*" && !fromMapLookup(u.X, 0) {
					return
				}
				if st, ok := i.(*ssa.Store); ok && g.field == "*" && !fromMapLookup(st.Addr, 0) {
					return
				}
				switch t := i.(type) {
				case *ssa.UnOp:
					if t.Op == token.MUL && matchWhole(t.X.Type()) {
						if _, isAlloc := t.X.(*ssa.Alloc); !isAlloc {
							accs = append(accs, fieldAccess{t, false, nil, "whole-struct load"})
						}
					}
				case *ssa.Store:
					if matchWhole(t.Addr.Type()) {
						if _, isAlloc := t.Addr.(*ssa.Alloc); !isAlloc {
							accs = append(accs, fieldAccess{t, true, nil, "whole-struct store"})
						}
					}
				}
			})
			if len(accs) == 0 {
				continue
			}
			fi := an.Info[fn]
			kg := core.NewKeyGen()
			for _, ac := range accs {
				if ac.how == "address" {
					continue
				}
				n++
				must := fi.MustIn[ac.instr]
				ok := false
				mode := "read"
				need := g.read
				if ac.write {
					mode = "write"
					need = g.write
					ok = true
					for _, cl := range g.write {
						if !must[locks.Held{Class: cl, Mode: "W"}] {
							ok = false
						}
					}
				} else {
					for _, cl := range g.read {
						if must[locks.Held{Class: cl, Mode: "W"}] || must[locks.Held{Class: cl, Mode: "R"}] {
							ok = true
						}
					}
				}
				exempt := ""
				if !ok && ac.fa != nil && freshBase(ac.fa.X, 0) {
					ok = true
					exempt = " (object allocated in this function: not shared yet)"
				}
				st := core.Proved
				if !ok {
					st = core.Violated
				}
				key := kg.Key(fmt.Sprintf("guarded-by %s.%s.%s %s in %s", g.pkg, g.typ, g.field, mode, core.FuncName(fn)))
				key = strings.TrimSuffix(key, "#0")
				r.Add(core.Obligation{Rule: "guarded-by", Key: key, Func: core.FuncName(fn), Pos: c.P.Pos(core.PosOf(ac.instr)), Status: st,
					Basis:  fmt.Sprintf("%s of %s.%s under %s%s", ac.how, g.typ, g.field, must, exempt),
					Detail: fmt.Sprintf("%s (%s) of %s.%s with locks certainly held = %s (entry lockset %s; roots: %s); needs %v%s", mode, ac.how, g.typ, g.field, must, an.Entry[fn], rootWhy(an, fn), need, modeNote(ac.write))})
			}
		}
		if n == 0 {
			r.Add(core.Obligation{Rule: "guarded-by", Key: fmt.Sprintf("guarded-by %s.%s.%s has no access", g.pkg, g.typ, g.field), Func: "-", Status: core.Undecided,
				Detail: "a field of the guarded-by table is not accessed anywhere: the table no longer matches the code (renamed field?)"})
		}
	}

	// renderers: FastLog / String methods are analysed with their caller's locks. A call that renders a shared object
	// (line.Struct(host), host.String(), entry.FastLog(line)) reads every guarded field the renderer touches, so the
	// call site must hold what those fields need.
	// fields that are not in the guarded-by table: a write to any field of a struct that carries a lock (or of Host, which
	// lives under its MAC entry's row lock) happens with some lock held, in a constructor, on a freshly made object - or is
	// one of the sites listed here with the reason why no lock is needed. A new field written from a function that several
	// goroutines run (a scratch buffer shared by the spoof loops, say) has no entry in the table and lands here.
	runC09AtomicOnly(c)
	runC09PoolEscape(c)
	r.Rule("unlisted-writes", "writes to fields of lock-bearing structs and to package-level variables outside the guarded-by table hold a lock or are listed single-writer sites", 8)
	{
		allowed := map[string]string{
			"dhcp4_spoofer.Handler.mode in (*dhcp4_spoofer.Handler).SetMode": "configuration call, not part of the concurrent API C09 lists",
			"packet.MACEntry.HostList in (*packet.MACEntry).link":            "helper without callers; the guarded-by rule covers it through its caller's locks as soon as it has one",
			"packet.Session.Statistics in (*packet.Session).Parse":           "written by the packet loop only (the one goroutine that runs Parse)",
			// package-level variables
			"global dns_naming.sequence in (*dns_naming.DNSHandler).SendNBNSNodeStatus": "NBNS query counter: the send API is not part of the concurrent API C09 lists",
			"global dns_naming.sequence in (*dns_naming.DNSHandler).SendNBNSQuery":      "NBNS query counter: the send API is not part of the concurrent API C09 lists",
			"global packet.manufacturersMap in packet.init#1":                           "package initialisation",
			"global packet.stpCount in packet.Process8023Frame":                         "log throttling, written by the packet loop only",
			"global packet.stpNextLog in packet.Process8023Frame":                       "log throttling, written by the packet loop only",
		}
		seenAllowed := map[string]bool{}
		anU := locks.Analyse(c.P, c.P.LibFunctions(), isConstructor)
		kgu := core.NewKeyGen()
		for _, w := range unlockedWrites(c, anU) {
			site := w
			pos := ""
			if j := strings.Index(w, " at "); j > 0 {
				site, pos = w[:j], w[j+4:]
			}
			key := site
			if j := strings.Index(site, " through "); j > 0 {
				key = site[:j]
			}
			if why, ok := allowed[key]; ok {
				if !seenAllowed[key] {
					seenAllowed[key] = true
					r.Add(core.Obligation{Rule: "unlisted-writes", Key: "unlisted-writes " + key, Func: "-", Pos: pos, Status: core.Proved, Basis: "listed single-writer site: " + why})
				}
				continue
			}
			r.Add(core.Obligation{Rule: "unlisted-writes", Key: strings.TrimSuffix(kgu.Key("unlisted-writes "+site), "#0"), Func: "-", Pos: pos, Status: core.Violated,
				Detail: "write to " + site + " with no lock held: the struct carries a lock, the field is not in the guarded-by table and the site is not a listed single-writer site - goroutines that run this function concurrently (spoof loops, API callers) race on it"})
		}
	}
	r.Rule("render-sites", "objects with guarded fields are rendered (FastLog/String) under the locks those fields need", 20)
	reads := map[string]map[string]bool{} // "pkg.Type" -> fields read by its renderers
	for _, fn := range fns {
		if !isDiagnostic(fn) || fn.Signature.Recv() == nil || len(fn.Params) == 0 || fn.Parent() != nil {
			continue
		}
		tn := namedOf(fn.Signature.Recv().Type())
		if tn == nil {
			continue
		}
		k := pkgShort(tn.Obj().Pkg()) + "." + tn.Obj().Name()
		if reads[k] == nil {
			reads[k] = map[string]bool{}
		}
		st, _ := tn.Underlying().(*types.Struct)
		core.EachInstr(fn, func(i ssa.Instruction) {
			switch t := i.(type) {
			case *ssa.FieldAddr:
				x := t.X
				if al, ok := x.(*ssa.Alloc); ok && al.Referrers() != nil {
					// a value receiver spilled to a local because field addresses are taken
					for _, rf := range *al.Referrers() {
						if sto, ok := rf.(*ssa.Store); ok && sto.Addr == ssa.Value(al) && sto.Val == ssa.Value(fn.Params[0]) {
							x = fn.Params[0]
						}
					}
				}
				if x == ssa.Value(fn.Params[0]) && st != nil && t.Field < st.NumFields() {
					reads[k][st.Field(t.Field).Name()] = true
				}
			case *ssa.Field:
				if t.X == ssa.Value(fn.Params[0]) && st != nil && t.Field < st.NumFields() {
					reads[k][st.Field(t.Field).Name()] = true
				}
			}
		})
	}
	for _, fn := range fns {
		if isDiagnostic(fn) || isConstructor(fn) || isDead(c, fn) {
			continue
		}
		kg := core.NewKeyGen()
		core.EachInstr(fn, func(i ssa.Instruction) {
			call, ok := i.(ssa.CallInstruction)
			if !ok {
				return
			}
			var objs []ssa.Value
			if callee := call.Common().StaticCallee(); callee != nil {
				switch {
				case isDiagnostic(callee) && callee.Signature.Recv() != nil && len(call.Common().Args) > 0:
					objs = append(objs, call.Common().Args[0])
				case callee.Name() == "Struct" && callee.Pkg != nil && callee.Pkg.Pkg.Name() == "fastlog" && len(call.Common().Args) == 2:
					if mi, ok := call.Common().Args[1].(*ssa.MakeInterface); ok {
						objs = append(objs, mi.X)
					}
				case callee.Pkg != nil && callee.Pkg.Pkg.Path() == "fmt" && len(call.Common().Args) > 0:
					// fmt renders its operands through String()/Error(): the values boxed into the variadic slice
					if sl, ok := call.Common().Args[len(call.Common().Args)-1].(*ssa.Slice); ok {
						if al, ok := sl.X.(*ssa.Alloc); ok && al.Referrers() != nil {
							for _, rf := range *al.Referrers() {
								ia, ok := rf.(*ssa.IndexAddr)
								if !ok || ia.Referrers() == nil {
									continue
								}
								for _, rr := range *ia.Referrers() {
									if st, ok := rr.(*ssa.Store); ok {
										if mi, ok := st.Val.(*ssa.MakeInterface); ok {
											objs = append(objs, mi.X)
										}
									}
								}
							}
						}
					}
				}
			}
			for _, obj := range objs {
				renderSite(c, an, fn, i, obj, reads, kg)
			}
		})
	}
	// goroutine bodies
	for _, fn := range fns {
		core.EachInstr(fn, func(i ssa.Instruction) {
			g, ok := i.(*ssa.Go)
			if !ok {
				return
			}
			for _, body := range c.P.Callees(g) {
				if !core.InLib(body) || body.Blocks == nil {
					continue
				}
				checkStoppable(c, fn, g, body)
			}
		})
	}
}

// isConstructor: functions that build the object they touch; it is not shared with other
// goroutines until they return (NewSession starts two goroutines that first wait on one-minute tickers).
func isConstructor(fn *ssa.Function) bool {
	n := fn.Name()
	if fn.Parent() != nil {
		return false
	}
	return strings.HasPrefix(n, "New") || strings.HasPrefix(n, "new") || n == "init" || n == "loadConfig" || n == "loadByteArray"
}

// isDead: unexported function or method without any caller in the module (unreachable code).
func isDead(c *Ctx, fn *ssa.Function) bool {
	if fn.Parent() != nil || fn.Object() == nil || fn.Object().Exported() {
		return false
	}
	n := c.P.CallGraph().Nodes[fn]
	return n == nil || len(n.In) == 0
}

// isDiagnostic: renderers and table printers; their unlocked reads are outside the claimed rule.
func isDiagnostic(fn *ssa.Function) bool {
	n := fn.Name()
	if fn.Parent() != nil {
		n = fn.Parent().Name()
	}
	switch {
	case n == "FastLog" || n == "String" || n == "Log":
		// renderers called with the lock already held by their caller, and unexported print helpers;
		// the exported PrintTable methods are API and are checked like any other reader
		return true
	}
	return false
}

func modeNote(write bool) string {
	if write {
		return " (all of them, in write mode)"
	}
	return " (any of them)"
}

func rootWhy(an *locks.Analysis, fn *ssa.Function) string {
	if w, ok := an.Roots[fn]; ok {
		return w
	}
	return "called only from module functions"
}

// checkStoppable: every unbounded loop in a goroutine body must, on each iteration, either
// receive from a close channel of its owner (select/recv on a field named closeChan/stopChannel)
// or test a `closed` flag, with a path to return.
func checkStoppable(c *Ctx, parent *ssa.Function, g *ssa.Go, body *ssa.Function) {
	for _, l := range core.CFG(body).Loops() {
		cls, _ := classifyLoop(c.P, body, l)
		if cls == "range" || cls == "counted" || cls == "dividing" || cls == "cursor" {
			continue
		}
		// unbounded or event loop: look for the stop test inside the loop
		stop := ""
		for b := range l.Blocks {
			for _, ins := range b.Instrs {
				switch t := ins.(type) {
				case *ssa.Select:
					for _, st := range t.States {
						if st.Dir == types.RecvOnly && mentionsField(st.Chan, "closeChan", "stopChannel", "closeCh") {
							stop = "select on close channel"
						}
					}
				case *ssa.UnOp:
					if t.Op == token.ARROW && mentionsField(t.X, "closeChan", "stopChannel") {
						stop = "receive from close channel"
					}
					if t.Op == token.MUL {
						if fa, ok := t.X.(*ssa.FieldAddr); ok && fieldNameOfFA(fa) == "closed" {
							stop = "closed flag tested"
						}
					}
				}
			}
		}
		// the loop must have an exit (a return or an edge leaving the loop)
		hasExit := false
		for b := range l.Blocks {
			for _, s := range b.Succs {
				if !l.Blocks[s] {
					hasExit = true
				}
			}
			if _, ok := b.Instrs[len(b.Instrs)-1].(*ssa.Return); ok {
				hasExit = true
			}
		}
		st := core.Proved
		if stop == "" || !hasExit {
			st = core.Violated
		}
		c.R.Add(core.Obligation{Rule: "goroutine-stop", Key: fmt.Sprintf("goroutine-stop %s %s", core.FuncName(body), loopDesc(l)), Func: core.FuncName(body), Pos: c.P.Pos(core.PosOf(l.Head.Instrs[0])),
			Status: st, Basis: stop + "; started at " + c.P.Pos(core.PosOf(g)) + " in " + core.FuncName(parent),
			Detail: fmt.Sprintf("goroutine started at %s runs an unbounded loop without a close-controlled exit (no select/receive on the owner's close channel and no closed-flag test inside the loop; exit edge present: %v): Close cannot stop it", c.P.Pos(core.PosOf(g)), hasExit)})
	}
}

func fieldNameOfFA(fa *ssa.FieldAddr) string {
	pt, ok := fa.X.Type().Underlying().(*types.Pointer)
	if !ok {
		return ""
	}
	st, ok := pt.Elem().Underlying().(*types.Struct)
	if !ok || fa.Field >= st.NumFields() {
		return ""
	}
	return st.Field(fa.Field).Name()
}

func mentionsField(v ssa.Value, names ...string) bool {
	for d := 0; d < 4 && v != nil; d++ {
		switch t := v.(type) {
		case *ssa.UnOp:
			v = t.X
		case *ssa.FieldAddr:
			n := fieldNameOfFA(t)
			for _, want := range names {
				if n == want {
					return true
				}
			}
			return false
		case *ssa.Field:
			return false
		case *ssa.FreeVar, *ssa.Parameter:
			for _, want := range names {
				if strings.Contains(strings.ToLower(v.Name()), strings.ToLower(want)) {
					return true
				}
			}
			return false
		default:
			return false
		}
	}
	return false
}

// fromMapLookup: the pointer was read from a map (lookup, comma-ok lookup or range) in this function.
func fromMapLookup(v ssa.Value, depth int) bool {
	if depth > 6 {
		return false
	}
	switch t := v.(type) {
	case *ssa.Lookup:
		_, isMap := t.X.Type().Underlying().(*types.Map)
		return isMap
	case *ssa.Extract:
		switch tt := t.Tuple.(type) {
		case *ssa.Lookup:
			return fromMapLookup(tt, depth+1)
		case *ssa.Next:
			return !tt.IsString
		}
	case *ssa.Phi:
		for _, e := range t.Edges {
			if fromMapLookup(e, depth+1) {
				return true
			}
		}
	case *ssa.UnOp:
		// a local variable holding the looked-up pointer
		if al, ok := t.X.(*ssa.Alloc); ok && al.Referrers() != nil {
			for _, r := range *al.Referrers() {
				if st, ok := r.(*ssa.Store); ok && st.Addr == ssa.Value(al) && fromMapLookup(st.Val, depth+1) {
					return true
				}
			}
		}
	}
	return false
}

// namedOf: the named struct type behind T or *T.
func namedOf(t types.Type) *types.Named {
	if pt, ok := t.Underlying().(*types.Pointer); ok {
		t = pt.Elem()
	}
	nt, _ := t.(*types.Named)
	return nt
}

// renderSite: obj is rendered (FastLog/String) at instruction i of fn.
func renderSite(c *Ctx, an *locks.Analysis, fn *ssa.Function, i ssa.Instruction, obj ssa.Value, reads map[string]map[string]bool, kg *core.KeyGen) {
	r := c.R
	fi := an.Info[fn]
	tn := namedOf(obj.Type())
	if tn == nil {
		return
	}
	// a value (not a pointer) was copied out earlier: the copy itself is the read, at the load
	if _, isPtr := obj.Type().Underlying().(*types.Pointer); !isPtr {
		if ld, isLoad := obj.(*ssa.UnOp); !isLoad || ld.Op != token.MUL {
			return
		}
	}
	k := pkgShort(tn.Obj().Pkg()) + "." + tn.Obj().Name()
	for _, g := range guardTable {
		if g.pkg+"."+g.typ != k || !reads[k][g.field] {
			continue
		}
		must := fi.MustIn[i]
		ok := false
		for _, cl := range g.read {
			if must[locks.Held{Class: cl, Mode: "W"}] || must[locks.Held{Class: cl, Mode: "R"}] {
				ok = true
			}
		}
		// a struct value copied out of *p: the object is p's; a pointer loaded from a local variable: the object is what
		// was stored there (freshBase follows the variable), not the variable's own cell
		base := obj
		if _, isPtr := obj.Type().Underlying().(*types.Pointer); !isPtr {
			if ld, isLoad := obj.(*ssa.UnOp); isLoad {
				base = ld.X
			}
		}
		if !ok && freshBase(base, 0) {
			ok = true
		}
		st := core.Proved
		if !ok {
			st = core.Violated
		}
		key := strings.TrimSuffix(kg.Key(fmt.Sprintf("render-sites %s.%s read by its renderer in %s", k, g.field, core.FuncName(fn))), "#0")
		r.Add(core.Obligation{Rule: "render-sites", Key: key, Func: core.FuncName(fn), Pos: c.P.Pos(core.PosOf(i)), Status: st,
			Basis:  fmt.Sprintf("rendered under %s", must),
			Detail: fmt.Sprintf("the renderer of %s reads %s, which needs one of %v; at this call the locks certainly held are %s (entry lockset %s)", k, g.field, g.read, must, an.Entry[fn])})
	}
}

// runC09AtomicOnly: a word that some goroutine accesses through sync/atomic is accessed through sync/atomic everywhere:
// no plain load or store of a struct field or package-level variable whose address is passed to a sync/atomic
// function anywhere in the module (a plain read "to skip the atomic store on the hot path" races with the atomic
// writer and may act on a stale value). Composite-literal initialisation of a fresh object is not an access.
func runC09AtomicOnly(c *Ctx) {
	r := c.R
	r.Rule("atomic-only", "a field or variable accessed with sync/atomic is never read or written plainly", 1)
	keyOf := func(a ssa.Value) string {
		switch t := a.(type) {
		case *ssa.FieldAddr:
			return fieldOwner(t)
		case *ssa.Global:
			return "global " + t.String()
		}
		return ""
	}
	atomicKeys := map[string]string{} // key -> first atomic site
	atomicOperand := map[ssa.Value]bool{}
	for _, fn := range c.P.ModuleFunctions() {
		core.EachInstr(fn, func(i ssa.Instruction) {
			call, ok := i.(ssa.CallInstruction)
			if !ok {
				return
			}
			cal := call.Common().StaticCallee()
			if cal == nil || cal.Pkg == nil || cal.Pkg.Pkg.Path() != "sync/atomic" || len(call.Common().Args) == 0 {
				return
			}
			a := call.Common().Args[0]
			if k := keyOf(a); k != "" {
				if _, seen := atomicKeys[k]; !seen {
					atomicKeys[k] = c.P.Pos(core.PosOf(i))
				}
				atomicOperand[a] = true
			}
		})
	}
	keys := []string{}
	for k := range atomicKeys {
		keys = append(keys, k)
	}
	sort.Strings(keys)
	for _, k := range keys {
		var bad []string
		for _, fn := range c.P.ModuleFunctions() {
			core.EachInstr(fn, func(i ssa.Instruction) {
				var addr ssa.Value
				what := ""
				switch t := i.(type) {
				case *ssa.UnOp:
					if t.Op == token.MUL {
						addr, what = t.X, "reads"
					}
				case *ssa.Store:
					addr, what = t.Addr, "writes"
				}
				if addr == nil || keyOf(addr) != k {
					return
				}
				if fa, ok := addr.(*ssa.FieldAddr); ok {
					if al, isAl := fa.X.(*ssa.Alloc); isAl && al.Comment == "complit" {
						return
					}
				}
				bad = append(bad, core.FuncName(fn)+" "+what+" it plainly at "+c.P.Pos(core.PosOf(i)))
			})
		}
		st, det := core.Proved, ""
		if len(bad) > 0 {
			sort.Strings(bad)
			st = core.Violated
			det = k + " is accessed with sync/atomic (first at " + atomicKeys[k] + "), but " + strings.Join(bad, "; ") + ": a data race with the atomic accesses of the other goroutine"
		}
		r.Add(core.Obligation{Rule: "atomic-only", Key: "atomic-only " + k, Func: "-", Pos: atomicKeys[k], Status: st,
			Basis: "every load and store of the word in the module goes through sync/atomic", Detail: det})
	}
	if len(keys) == 0 {
		r.Add(core.Obligation{Rule: "atomic-only", Key: "atomic-only words", Func: "-", Status: core.Violated, Detail: "no sync/atomic access found in the module (ipHeartBeat was one)"})
	}
}

// runC09PoolEscape: a buffer taken from a sync.Pool is not used after it went back: a function that puts a pooled object
// back (directly or with defer) does not return a value derived from it. The caller of such a function would read - and
// hand to WriteTo - a frame that the next sender, on another goroutine, is already overwriting.
func runC09PoolEscape(c *Ctx) {
	r := c.R
	r.Rule("pool-escape", "no function returns (a slice of) a pooled buffer it has put back", 10)
	kg := core.NewKeyGen()
	for _, fn := range c.P.LibFunctions() {
		var puts []ssa.Value
		core.EachInstr(fn, func(i ssa.Instruction) {
			var cc *ssa.CallCommon
			switch t := i.(type) {
			case *ssa.Call:
				cc = &t.Call
			case *ssa.Defer:
				cc = &t.Call
			}
			if cc == nil || cc.StaticCallee() == nil || cc.StaticCallee().String() != "(*sync.Pool).Put" || len(cc.Args) < 2 {
				return
			}
			puts = append(puts, cc.Args[1])
		})
		if len(puts) == 0 {
			continue
		}
		// the pooled objects: what the Put arguments are made of (the type-asserted result of Get)
		pooled := map[ssa.Value]bool{}
		for _, p := range puts {
			for w := range dataSlice(fn, p) {
				if ta, ok := w.(*ssa.TypeAssert); ok {
					pooled[ta] = true
				}
			}
		}
		st, det := core.Proved, ""
		core.EachInstr(fn, func(i ssa.Instruction) {
			ret, ok := i.(*ssa.Return)
			if !ok {
				return
			}
			for _, res := range ret.Results {
				if _, isErr := res.Type().Underlying().(*types.Interface); isErr {
					continue
				}
				for w := range dataSlice(fn, res) {
					if pooled[w] {
						st = core.Violated
						det = core.FuncName(fn) + " puts a pooled buffer back and returns " + norm(res) + ", which is a view of it: the caller uses the buffer after another goroutine may have taken it from the pool"
					}
				}
			}
		})
		r.Add(core.Obligation{Rule: "pool-escape", Key: strings.TrimSuffix(kg.Key("pool-escape "+core.FuncName(fn)), "#0"), Func: core.FuncName(fn), Pos: c.P.Pos(fn.Pos()), Status: st,
			Basis: "no result derives from the object handed to Pool.Put", Detail: det})
	}
}
