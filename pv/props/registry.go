// Package props holds one file per property: its rule instances, floors and obligations.
package props

import (
	"sort"

	"pv/core"
)

// Ctx is what a property check receives.
type Ctx struct {
	P    *core.Program
	R    *core.Report
	Tier string
	A    *core.Anchors
}

type Check struct {
	ID    string
	Level string
	Run   func(*Ctx)
}

var registry = map[string]*Check{}

func register(id, level string, run func(*Ctx)) {
	registry[id] = &Check{ID: id, Level: level, Run: run}
}

func Get(id string) *Check { return registry[id] }

func IDs() []string {
	var out []string
	for k := range registry {
		out = append(out, k)
	}
	sort.Strings(out)
	return out
}
