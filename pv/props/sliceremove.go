package props

import (
	"fmt"
	"regexp"
	"strings"

	"golang.org/x/tools/go/ssa"

	"pv/core"
	"pv/locks"
)

// checkSliceRemoval decides that fn removes exactly one element — the one at the index its search found — from the slice
// whose normal form is L, and keeps every other element. Every write to L in fn (stores to L, stores to its elements,
// copy into a slice of it) must be part of one of the removal idioms, all over the same index P:
//
//	shift:   copy(L[P:], L[P+1:]); L = L[:len(L)-1]      (optionally L = L[:P] when P+1 == len(L))
//	swap:    L[P] = L[len(L)-1];   L = L[:len(L)-1]      (same option)
//	append:  L = append(L[:P], L[P+1:]...)
//
// and found(P, guards) must confirm that P is the index the search matched. Any other write (an element stored at
// another index, a truncation at another place, a filter loop) is reported: this is a closed list of idioms.
func checkSliceRemoval(c *Ctx, rule, key string, fn *ssa.Function, L string, found func(P string, gs []Guard) bool) {
	r := c.R
	q := regexp.QuoteMeta(L)
	reLast := regexp.MustCompile(`^` + q + `\[:(.+)\]$`)
	reTrunc := regexp.MustCompile(`^` + q + `\[:\(len\(` + q + `\)-1\)\]$`)
	reElem := regexp.MustCompile(`^` + q + `\[(.+)\]$`)
	reFrom := regexp.MustCompile(`^` + q + `\[(.+):\]$`)
	lastElem := L + "[(len(" + L + ")-1)]"
	var ps []string
	var bad []string
	shift, swap, trunc, app := 0, 0, 0, 0
	var truncIns, moveIns []ssa.Instruction
	notFound := ""
	note := func(P string, i ssa.Instruction) {
		ps = append(ps, P)
		if !found(P, guardsOf(i)) {
			notFound = P
		}
	}
	core.EachInstr(fn, func(i ssa.Instruction) {
		switch t := i.(type) {
		case *ssa.Store:
			a, v := norm(t.Addr), norm(t.Val)
			switch {
			case a == L:
				if reTrunc.MatchString(v) {
					trunc++
					truncIns = append(truncIns, i)
				} else if m := reLast.FindStringSubmatch(v); m != nil && hasGuard(guardsOf(i), `^\(\(`+regexp.QuoteMeta(m[1])+`\+1\)==len\(`+q+`\)\)$`) {
					note(m[1], i) // the element found is the last one
				} else if strings.HasPrefix(v, "append("+L+"[:") {
					// append(L[:P], L[P+1:]...)
					rest := strings.TrimSuffix(strings.TrimPrefix(v, "append("+L+"[:"), ")")
					okA := false
					for k := 0; k < len(rest); k++ {
						if rest[k] == ']' {
							P := rest[:k]
							if strings.HasPrefix(rest[k:], "],"+L+"[("+P+"+1):]") {
								app++
								note(P, i)
								okA = true
							}
							break
						}
					}
					if !okA {
						bad = append(bad, c.P.Pos(core.PosOf(i))+": "+a+" = "+v)
					}
				} else {
					bad = append(bad, c.P.Pos(core.PosOf(i))+": "+a+" = "+v)
				}
			case reElem.MatchString(a) && !strings.Contains(a[len(L):], "]."):
				m := reElem.FindStringSubmatch(a)
				if v == lastElem {
					swap++
					moveIns = append(moveIns, i)
					note(m[1], i)
				} else {
					bad = append(bad, c.P.Pos(core.PosOf(i))+": "+a+" = "+v)
				}
			}
		case *ssa.Call:
			if b, ok := t.Call.Value.(*ssa.Builtin); ok && b.Name() == "copy" && len(t.Call.Args) == 2 {
				d, s := norm(t.Call.Args[0]), norm(t.Call.Args[1])
				if !strings.HasPrefix(d, L) {
					return
				}
				m := reFrom.FindStringSubmatch(d)
				if m != nil && s == L+"[("+m[1]+"+1):]" {
					shift++
					moveIns = append(moveIns, i)
					note(m[1], i)
				} else {
					bad = append(bad, c.P.Pos(core.PosOf(i))+": copy("+d+", "+s+")")
				}
			}
		}
	})
	st, det := core.Proved, ""
	same := true
	for _, p := range ps {
		if p != ps[0] {
			same = false
		}
	}
	form := ""
	switch {
	case len(bad) > 0:
		st, det = core.Violated, "a write to "+L+" that is not part of a removal of the element found: "+strings.Join(bad, "; ")
	case app == 1 && shift == 0 && swap == 0 && trunc == 0:
		form = "append(L[:P], L[P+1:]...)"
	case shift == 1 && swap == 0 && trunc == 1 && app == 0:
		form = "copy(L[P:], L[P+1:]) and L = L[:len(L)-1]"
	case swap == 1 && shift == 0 && trunc == 1 && app == 0:
		form = "L[P] = L[len(L)-1] and L = L[:len(L)-1]"
	default:
		st, det = core.Violated, fmt.Sprintf("the writes to %s do not make up one removal (shift %d, swap %d, truncate %d, append %d)", L, shift, swap, trunc, app)
	}
	// the elements are moved while the slice still has its old length: the move is not reachable from the truncation
	// (after it, len(L)-1 names another element and the last one is lost)
	if st == core.Proved {
		for _, t := range truncIns {
			for _, m := range moveIns {
				if reachesWithout(t, m, func(ssa.Instruction) bool { return false }) {
					st, det = core.Violated, "the slice is truncated at "+c.P.Pos(core.PosOf(t))+" before the elements are moved at "+c.P.Pos(core.PosOf(m))+": len("+L+")-1 then names the element before the last, and the last one is lost"
				}
			}
		}
	}
	if st == core.Proved && !same {
		st, det = core.Violated, "the pieces of the removal use different indices: "+strings.Join(ps, ", ")
	}
	if st == core.Proved && notFound != "" {
		st, det = core.Violated, "the index removed, "+notFound+", is not the index the search matched"
	}
	basis := form
	if len(ps) > 0 {
		basis += " with P = " + ps[0]
	}
	r.Add(core.Obligation{Rule: rule, Key: key, Func: core.FuncName(fn), Pos: c.P.Pos(fn.Pos()), Status: st, Basis: basis,
		Detail: core.FuncName(fn) + ": " + det + " — an element other than the one found is dropped, or the one found is kept"})
}

// checkHuntMAC: a StartHunt function starts its loop (and so emits forged frames addressed to addr.MAC) only for a
// 6-byte MAC, and works on its own copy of it. An empty non-nil MAC passes a nil test; EncodeEther then copies nothing
// and the forged frame goes to whatever destination the pooled buffer last held. A retained caller slice changes under
// the loop when the caller reuses it: the loop's key no longer matches the hunt list.
func checkHuntMAC(c *Ctx, rule string, fn *ssa.Function) {
	r := c.R
	var goIns ssa.Instruction
	core.EachInstr(fn, func(i ssa.Instruction) {
		if g, ok := i.(*ssa.Go); ok && g.Call.StaticCallee() != nil && g.Call.StaticCallee().Name() == "spoofLoop" {
			goIns = i
		}
	})
	if goIns == nil {
		r.Add(core.Obligation{Rule: rule, Key: rule + " " + core.FuncName(fn) + " starts the loop", Func: core.FuncName(fn), Status: core.Undecided, Detail: "no `go spoofLoop` found"})
		return
	}
	st := core.Proved
	gs := guardsOf(goIns)
	if !hasGuard(gs, `^\(len\(local\(\w+\)\.MAC\)==6\)$`) {
		st = core.Violated
	}
	r.Add(core.Obligation{Rule: rule, Key: rule + " " + core.FuncName(fn) + " hunts 6-byte MACs only", Func: core.FuncName(fn), Pos: c.P.Pos(core.PosOf(goIns)), Status: st,
		Basis: "the loop is started under len(addr.MAC) == 6", Detail: "the spoof loop is started without a test that the MAC has 6 bytes (guards: " + guardTexts(gs) + "): an empty or short MAC passes, the Ethernet destination of the forged frames is then left as the pooled buffer held it - possibly the MAC of a host that is not hunted"})
	// ... and stations only: a group address (broadcast, multicast) in the hunt list makes every forged frame a broadcast
	st = core.Proved
	if !hasGuard(gs, `^packet\.IsUnicastMAC\(local\(\w+\)\.MAC\)$`) {
		st = core.Violated
	}
	r.Add(core.Obligation{Rule: rule, Key: rule + " " + core.FuncName(fn) + " hunts unicast MACs only", Func: core.FuncName(fn), Pos: c.P.Pos(core.PosOf(goIns)), Status: st,
		Basis: "the loop is started under IsUnicastMAC(addr.MAC)", Detail: "the spoof loop is started without a test that the MAC is a station's (guards: " + guardTexts(gs) + "): StartHunt with ff:ff:ff:ff:ff:ff sends the forged frames to every host of the LAN, hunted or not"})
	// the places that keep the address: the start of the loop and the insertion into the hunt list
	keepers := []ssa.Instruction{goIns}
	core.EachInstr(fn, func(i ssa.Instruction) {
		switch t := i.(type) {
		case *ssa.MapUpdate:
			if strings.HasSuffix(norm(t.Map), ".huntList") {
				keepers = append(keepers, i)
			}
		case *ssa.Call:
			if cal := t.Common().StaticCallee(); cal != nil && cal.Name() == "Add" && len(t.Common().Args) > 0 && strings.HasSuffix(norm(t.Common().Args[0]), ".huntList") {
				keepers = append(keepers, i)
			}
		}
	})
	copied := false
	core.EachInstr(fn, func(i ssa.Instruction) {
		s, ok := i.(*ssa.Store)
		if !ok || !regexp.MustCompile(`^local\(\w+\)\.MAC$`).MatchString(norm(s.Addr)) {
			return
		}
		if !strings.HasPrefix(norm(s.Val), "packet.CopyMAC(") {
			return
		}
		all := true
		for _, k := range keepers {
			if !core.InstrDominates(i, k) {
				all = false
			}
		}
		if all {
			copied = true
		}
	})
	st = core.Proved
	if !copied {
		st = core.Violated
	}
	r.Add(core.Obligation{Rule: rule, Key: rule + " " + core.FuncName(fn) + " keeps its own copy of the MAC", Func: core.FuncName(fn), Pos: c.P.Pos(core.PosOf(goIns)), Status: st,
		Basis: "addr.MAC = CopyMAC(addr.MAC) dominates the insertion and the loop start", Detail: "the hunt list and the loop keep the caller's MAC slice: when the caller reuses its buffer the loop's key changes, the loop ends with a restore sent to the new bytes (a host that is not hunted) and the original target stays in the list with no loop"})
}

// checkOneLoop: at most one spoof loop per MAC. StartHunt starts a loop only when the handler's record of running loops
// has none for the MAC, and marks it in the same critical section; the loop clears its mark in the critical section in
// which it finds itself released or closed. Without the record, StopHunt followed by StartHunt within one cycle leaves
// the old loop running (it finds the MAC listed again) beside the new one: the stopped loop never terminates and the
// target gets a doubled stream.
func checkOneLoop(c *Ctx, rule string, start, loop *ssa.Function, mutexClass string) {
	r := c.R
	an := locksFor(c)
	// StartHunt
	var goIns ssa.Instruction
	core.EachInstr(start, func(i ssa.Instruction) {
		if g, ok := i.(*ssa.Go); ok && g.Call.StaticCallee() == loop {
			goIns = i
		}
	})
	st, det := core.Violated, "StartHunt starts a loop without consulting a record of running loops: after StopHunt the old loop is still asleep, finds the MAC listed again at its next wake-up and carries on beside the new one"
	if goIns != nil {
		gs := guardsOf(goIns)
		marked := false
		core.EachInstr(start, func(i ssa.Instruction) {
			mu, ok := i.(*ssa.MapUpdate)
			if !ok || !strings.HasSuffix(norm(mu.Map), ".loops") {
				return
			}
			if k, isC := mu.Value.(*ssa.Const); !isC || norm(k) != "true" {
				return
			}
			if heldW(an, start, i)[mutexClass] && (i.Block() == goIns.Block() || i.Block().Dominates(goIns.Block())) {
				marked = true
			}
		})
		// the record is read under the handler mutex too (the goroutine itself may be started after the unlock)
		readLocked := false
		for _, g := range gs {
			if regexp.MustCompile(`^!recv\.loops\[.*\]$`).MatchString(g.Text) {
				if ci, isI := g.Cond.(ssa.Instruction); isI && heldW(an, start, ci)[mutexClass] {
					readLocked = true
				}
			}
		}
		if readLocked && marked {
			st, det = core.Proved, ""
		}
	}
	r.Add(core.Obligation{Rule: rule, Key: rule + " " + core.FuncName(start) + " starts at most one loop per MAC", Func: core.FuncName(start), Pos: c.P.Pos(start.Pos()), Status: st,
		Basis: "go spoofLoop under !loops[mac], loops[mac] = true in the same critical section", Detail: det})
	// the loop clears its mark where it decides to leave
	st, det = core.Violated, "spoofLoop does not clear a record of running loops under the lock in which it decides to leave"
	okAll, n := true, 0
	core.EachInstr(loop, func(i ssa.Instruction) {
		if _, ok := i.(*ssa.Return); !ok {
			return
		}
		n++
		cleared := false
		core.EachInstr(loop, func(j ssa.Instruction) {
			cl, isCall := j.(*ssa.Call)
			if !isCall {
				return
			}
			b, isB := cl.Call.Value.(*ssa.Builtin)
			if !isB || b.Name() != "delete" || len(cl.Call.Args) != 2 || !strings.HasSuffix(norm(cl.Call.Args[0]), ".loops") {
				return
			}
			if heldW(an, loop, j)[mutexClass] && core.InstrDominates(j, i) {
				cleared = true
			}
		})
		if !cleared {
			okAll = false
		}
	})
	if okAll && n > 0 {
		st, det = core.Proved, ""
	}
	r.Add(core.Obligation{Rule: rule, Key: rule + " " + core.FuncName(loop) + " clears its mark before it returns", Func: core.FuncName(loop), Pos: c.P.Pos(loop.Pos()), Status: st,
		Basis: fmt.Sprintf("%d returns, each dominated by delete(loops, mac) under the handler mutex", n), Detail: det})
}

var locksCache = map[*core.Program]*locks.Analysis{}

func locksFor(c *Ctx) *locks.Analysis {
	if a, ok := locksCache[c.P]; ok {
		return a
	}
	a := locks.Analyse(c.P, c.P.LibFunctions(), isConstructor)
	locksCache[c.P] = a
	return a
}
