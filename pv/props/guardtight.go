package props

import (
	"fmt"
	"go/constant"
	"go/token"
	"go/types"
	"sort"
	"strings"

	"golang.org/x/tools/go/ssa"

	"pv/core"
)

// Guard/access agreement ("tight guards"). A length guard that rejects a message
// (`if X > len(s) { return err }`) states a belief about how many bytes of s the code that
// follows needs. The accesses to s that the guard dominates state what is really needed.
// When both are affine in the same values, the two can be compared exactly:
//
//	reject  ⇔  L - len(s) ≥ k          (the guard, in normal form)
//	access  s[..:hi] or s[i] (hi=i+1)  safe ⇔ hi - len(s) ≤ 0
//	L - hi = c (a constant)            slack = k - c
//
// slack = 1: the guard rejects exactly the inputs on which that access would run past len(s).
// slack < 1 for every matched access: the guard also rejects inputs on which every access it
// protects is inside s — a well-formed message is refused (C17 decode, C02 "error exactly when
// truncated"). slack > 1 is the bounds rules' business (C01/C08) and gives no verdict here.

type linForm struct {
	coef map[string]int64
	k    int64
	ok   bool
}

func linOf(v ssa.Value, depth int) linForm {
	if depth > 8 {
		return linForm{coef: map[string]int64{norm(v): 1}, ok: true}
	}
	switch t := v.(type) {
	case *ssa.Const:
		if t.Value != nil && t.Value.Kind() == constant.Int {
			if n, ok := constant.Int64Val(t.Value); ok {
				return linForm{coef: map[string]int64{}, k: n, ok: true}
			}
		}
	case *ssa.BinOp:
		switch t.Op {
		case token.ADD, token.SUB:
			a, b := linOf(t.X, depth+1), linOf(t.Y, depth+1)
			if a.ok && b.ok {
				sign := int64(1)
				if t.Op == token.SUB {
					sign = -1
				}
				out := linForm{coef: map[string]int64{}, k: a.k + sign*b.k, ok: true}
				for n, c := range a.coef {
					out.coef[n] += c
				}
				for n, c := range b.coef {
					out.coef[n] += sign * c
				}
				for n, c := range out.coef {
					if c == 0 {
						delete(out.coef, n)
					}
				}
				return out
			}
		case token.MUL:
			a, b := linOf(t.X, depth+1), linOf(t.Y, depth+1)
			if a.ok && b.ok && len(b.coef) == 0 {
				a, b = b, a
			}
			if a.ok && b.ok && len(a.coef) == 0 {
				out := linForm{coef: map[string]int64{}, k: a.k * b.k, ok: true}
				for n, c := range b.coef {
					out.coef[n] = c * a.k
				}
				return out
			}
		}
	case *ssa.Convert:
		// int conversions between integer types of the same or wider size keep the value; a narrowing
		// conversion is kept as an atom
		if bt, ok := t.Type().Underlying().(*types.Basic); ok && bt.Info()&types.IsInteger != 0 {
			if st, ok := t.X.Type().Underlying().(*types.Basic); ok && st.Info()&types.IsInteger != 0 && intBits(bt) >= intBits(st) && (st.Info()&types.IsUnsigned != 0 || bt.Info()&types.IsUnsigned == 0) {
				return linOf(t.X, depth+1)
			}
		}
	}
	return linForm{coef: map[string]int64{norm(v): 1}, ok: true}
}

func intBits(b *types.Basic) int {
	switch b.Kind() {
	case types.Int8, types.Uint8:
		return 8
	case types.Int16, types.Uint16:
		return 16
	case types.Int32, types.Uint32:
		return 32
	}
	return 64
}

func (a linForm) sub(b linForm) linForm {
	out := linForm{coef: map[string]int64{}, k: a.k - b.k, ok: a.ok && b.ok}
	for n, c := range a.coef {
		out.coef[n] += c
	}
	for n, c := range b.coef {
		out.coef[n] -= c
	}
	for n, c := range out.coef {
		if c == 0 {
			delete(out.coef, n)
		}
	}
	return out
}

func (a linForm) String() string {
	var names []string
	for n := range a.coef {
		names = append(names, n)
	}
	sort.Strings(names)
	var sb strings.Builder
	for _, n := range names {
		c := a.coef[n]
		switch {
		case c == 1:
			sb.WriteString("+" + n)
		case c == -1:
			sb.WriteString("-" + n)
		default:
			fmt.Fprintf(&sb, "%+d*%s", c, n)
		}
	}
	if a.k != 0 || len(names) == 0 {
		fmt.Fprintf(&sb, "%+d", a.k)
	}
	return strings.TrimPrefix(sb.String(), "+")
}

// lenArg: v is len(s) for a slice or string s.
func lenArg(v ssa.Value) (ssa.Value, bool) {
	call, ok := v.(*ssa.Call)
	if !ok {
		return nil, false
	}
	if b, ok := call.Call.Value.(*ssa.Builtin); ok && b.Name() == "len" && len(call.Call.Args) == 1 {
		switch call.Call.Args[0].Type().Underlying().(type) {
		case *types.Slice, *types.Basic:
			return call.Call.Args[0], true
		}
	}
	return nil, false
}

type tightGuard struct {
	Fn      *ssa.Function
	If      *ssa.If
	S       ssa.Value // the slice whose length is tested
	L       linForm   // reject ⇔ L - len(S) ≥ K
	K       int64
	Accept  *ssa.BasicBlock
	Matched []tightAccess
	Hidden  []string // uses of S in the accepted region whose extent is not visible (calls, open re-slices)
}

type tightAccess struct {
	Ins   ssa.Instruction
	Text  string
	Slack int64
}

func (g *tightGuard) key() string {
	return fmt.Sprintf("%s reject %s-len(%s)>=%d", core.FuncName(g.Fn), g.L.String(), norm(g.S), g.K)
}

func (g *tightGuard) maxSlack() (int64, bool) {
	if len(g.Matched) == 0 {
		return 0, false
	}
	m := g.Matched[0].Slack
	for _, a := range g.Matched {
		if a.Slack > m {
			m = a.Slack
		}
	}
	return m, true
}

// lenAtoms finds the len(s) calls inside an affine form's atoms: returns the slice value for atom text.
func collectLens(v ssa.Value, out map[string]ssa.Value, depth int) {
	if depth > 8 {
		return
	}
	if s, ok := lenArg(v); ok {
		out[norm(v)] = s
		return
	}
	switch t := v.(type) {
	case *ssa.BinOp:
		collectLens(t.X, out, depth+1)
		collectLens(t.Y, out, depth+1)
	case *ssa.Convert:
		collectLens(t.X, out, depth+1)
	}
}

// tightGuards lists the rejecting length guards of fn with the accesses they dominate.
func tightGuards(fn *ssa.Function) []*tightGuard {
	if fn == nil || fn.Blocks == nil {
		return nil
	}
	errReg := errorRegion(fn)
	var out []*tightGuard
	for _, b := range fn.Blocks {
		iff, ok := b.Instrs[len(b.Instrs)-1].(*ssa.If)
		if !ok || len(b.Succs) != 2 || b.Succs[0] == b.Succs[1] {
			continue
		}
		cond := iff.Cond
		neg := false
		for {
			if u, ok := cond.(*ssa.UnOp); ok && u.Op == token.NOT {
				cond, neg = u.X, !neg
				continue
			}
			break
		}
		bo, ok := cond.(*ssa.BinOp)
		if !ok {
			continue
		}
		if bt, isB := bo.X.Type().Underlying().(*types.Basic); !isB || bt.Info()&types.IsInteger == 0 {
			continue
		}
		for edge := 0; edge < 2; edge++ {
			rej, acc := b.Succs[edge], b.Succs[1-edge]
			if !errReg[rej] || errReg[acc] || len(acc.Preds) != 1 {
				continue
			}
			holds := (edge == 0) != neg // the comparison holds on the reject edge
			// reject ⇔ D ≥ k
			var d linForm
			var k int64
			x, y := linOf(bo.X, 0), linOf(bo.Y, 0)
			op := bo.Op
			if !holds {
				switch op {
				case token.LSS:
					op = token.GEQ
				case token.LEQ:
					op = token.GTR
				case token.GTR:
					op = token.LEQ
				case token.GEQ:
					op = token.LSS
				default:
					continue
				}
			}
			switch op {
			case token.GTR:
				d, k = x.sub(y), 1
			case token.GEQ:
				d, k = x.sub(y), 0
			case token.LSS:
				d, k = y.sub(x), 1
			case token.LEQ:
				d, k = y.sub(x), 0
			default:
				continue
			}
			lens := map[string]ssa.Value{}
			collectLens(bo.X, lens, 0)
			collectLens(bo.Y, lens, 0)
			for atom, s := range lens {
				if d.coef[atom] != -1 {
					continue
				}
				l := linForm{coef: map[string]int64{}, k: d.k, ok: true}
				for n, c := range d.coef {
					if n != atom {
						l.coef[n] = c
					}
				}
				g := &tightGuard{Fn: fn, If: iff, S: s, L: linForm{coef: l.coef, ok: true}, K: k - l.k, Accept: acc}
				g.collect()
				out = append(out, g)
			}
		}
	}
	return out
}

// collect gathers the accesses to S dominated by the accept edge.
func (g *tightGuard) collect() {
	for _, b := range g.Fn.Blocks {
		if !g.Accept.Dominates(b) && b != g.Accept {
			continue
		}
		for _, ins := range b.Instrs {
			var hi linForm
			text := ""
			switch t := ins.(type) {
			case *ssa.Slice:
				if t.X != g.S {
					continue
				}
				switch {
				case t.High != nil:
					hi = linOf(t.High, 0)
				case t.Low != nil:
					hi = linOf(t.Low, 0)
					g.Hidden = append(g.Hidden, "open re-slice "+norm(t))
				default:
					g.Hidden = append(g.Hidden, "open re-slice "+norm(t))
					continue
				}
				text = norm(t)
			case *ssa.IndexAddr:
				if t.X != g.S {
					continue
				}
				hi = linOf(t.Index, 0)
				hi.k++
				text = norm(t)
			case *ssa.Lookup:
				if t.X != g.S {
					continue
				}
				hi = linOf(t.Index, 0)
				hi.k++
				text = norm(t)
			case ssa.CallInstruction:
				for _, a := range t.Common().Args {
					if a == g.S {
						if _, isLen := lenArg(t.Value()); t.Value() != nil && isLen {
							continue
						}
						g.Hidden = append(g.Hidden, "passed to "+shortCallee(t))
					}
				}
				continue
			default:
				continue
			}
			diff := g.L.sub(hi)
			if len(diff.coef) != 0 {
				continue
			}
			// L - hi = diff.k ; reject ⇔ hi - len ≥ K - diff.k
			g.Matched = append(g.Matched, tightAccess{Ins: ins, Text: text, Slack: g.K - diff.k})
		}
	}
}

// DebugTight prints every rejecting length guard of the library with its matched accesses.
func DebugTight(p *core.Program, filter string) {
	for _, fn := range p.LibFunctions() {
		if filter != "" && !strings.Contains(core.FuncName(fn), filter) {
			continue
		}
		for _, g := range tightGuards(fn) {
			m, has := g.maxSlack()
			verdict := "unmatched"
			if has {
				switch {
				case m == 1:
					verdict = "tight"
				case m < 1:
					verdict = fmt.Sprintf("OVER-STRICT by %d", 1-m)
				default:
					verdict = fmt.Sprintf("loose by %d", m-1)
				}
			}
			fmt.Printf("%-14s %s  @%s hidden=%v\n", verdict, g.key(), p.Pos(core.PosOf(g.If)), g.Hidden)
			for _, a := range g.Matched {
				fmt.Printf("      %s slack=%d\n", a.Text, a.Slack)
			}
		}
	}
}
