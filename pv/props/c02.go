package props

import (
	"fmt"
	"go/constant"
	"go/token"
	"go/types"
	"sort"
	"strings"

	"golang.org/x/tools/go/ssa"

	"pv/bitprov"
	"pv/core"
)

func init() { register("C02", "other", runC02) }

// ---- reference rows: written from the RFC / IEEE layouts, never from the code ----

type fieldRow struct {
	want string // canonical provenance
	ref  string // where the layout comes from
}

func rInt(i bitprov.Int) string { return i.String() }
func be(o, n int) string        { return bitprov.BE("", o, n).String() }
func b8(o int) string           { return bitprov.Byte("", o).String() }
func bitsR(o, hi, lo int) string {
	return bitprov.Bits("", o, hi, lo).String()
}
func flag(o, i int) string { return fmt.Sprintf("nonzero{b%d.%d}", o, i) }
func rng(lo, hi int) string {
	return fmt.Sprintf("[%d:%d]", lo, hi)
}
func rngLen(lo int) string { return fmt.Sprintf("[%d:len]", lo) }

func fieldTable() map[string]fieldRow {
	t := map[string]fieldRow{}
	add := func(typ, ref string, rows map[string]string) {
		for k, v := range rows {
			t[typ+"."+k] = fieldRow{want: v, ref: ref}
		}
	}
	icmpHdr := map[string]string{"Type": b8(0), "Code": b8(1), "Checksum": be(2, 2)}
	with := func(base map[string]string, more map[string]string) map[string]string {
		r := map[string]string{}
		for k, v := range base {
			r[k] = v
		}
		for k, v := range more {
			r[k] = v
		}
		return r
	}
	add("Ether", "IEEE 802.3 clause 3", map[string]string{"Dst": rng(0, 6), "Src": rng(6, 12), "EtherType": be(12, 2)})
	add("ARP", "RFC 826", map[string]string{"HType": be(0, 2), "Proto": be(2, 2), "HLen": b8(4), "PLen": b8(5), "Operation": be(6, 2),
		"SrcMAC": rng(8, 14), "SrcIP": rng(14, 18), "DstMAC": rng(18, 24), "DstIP": rng(24, 28)})
	ihl := bitprov.Bits("", 0, 3, 0).Shl(2)
	add("IP4", "RFC 791 section 3.1", map[string]string{"Version": bitsR(0, 7, 4), "IHL": rInt(ihl), "TOS": b8(1), "TotalLen": be(2, 2), "ID": be(4, 2),
		"Flags": rInt(bitprov.Byte("", 6).And(bitprov.ConstInt(0xe0))), "FlagDontFragment": flag(6, 6), "FlagMoreFragments": flag(6, 5),
		"Fragment": rInt(bitprov.BE("", 6, 2).And(bitprov.ConstInt(0x1fff))), "TTL": b8(8), "Protocol": b8(9), "Checksum": be(10, 2),
		"Src": rng(12, 16), "Dst": rng(16, 20), "Payload": "[" + rInt(ihl) + ":" + be(2, 2) + "]"})
	add("IP6", "RFC 8200 section 3", map[string]string{"Version": bitsR(0, 7, 4),
		"TrafficClass": rInt(bitprov.Bits("", 0, 3, 0).Shl(4).Or(bitprov.Bits("", 1, 7, 4))),
		"FlowLabel":    rInt(bitprov.Bits("", 1, 3, 0).Shl(16).Or(bitprov.BE("", 2, 2))),
		"PayloadLen":   be(4, 2), "NextHeader": b8(6), "HopLimit": b8(7), "Src": rng(8, 24), "Dst": rng(24, 40), "Payload": rngLen(40), "HeaderLen": "40"})
	add("UDP", "RFC 768", map[string]string{"SrcPort": be(0, 2), "DstPort": be(2, 2), "Len": be(4, 2), "Checksum": be(6, 2), "Payload": rngLen(8), "HeaderLen": "8"})
	doff := bitprov.Bits("", 12, 7, 4).Shl(2)
	add("TCP", "RFC 9293 section 3.1", map[string]string{"SrcPort": be(0, 2), "DstPort": be(2, 2), "Seq": be(4, 4), "Ack": be(8, 4), "HeaderLen": rInt(doff),
		"NS": flag(12, 0), "FIN": flag(13, 0), "SYN": flag(13, 1), "RST": flag(13, 2), "PSH": flag(13, 3), "ACK": flag(13, 4), "URG": flag(13, 5), "ECE": flag(13, 6), "CWR": flag(13, 7),
		"Window": be(14, 2), "Checksum": be(16, 2), "Urgent": be(18, 2), "Payload": "[" + rInt(doff) + ":len]"})
	add("ICMP", "RFC 792", with(icmpHdr, map[string]string{"RestOfHeader": rng(4, 8), "Payload": rngLen(8)}))
	add("ICMPEcho", "RFC 792 / RFC 4443 section 4", with(icmpHdr, map[string]string{"EchoID": be(4, 2), "EchoSeq": be(6, 2), "EchoData": rngLen(8)}))
	add("ICMP6NeighborAdvertisement", "RFC 4861 section 4.4", with(icmpHdr, map[string]string{"Router": flag(4, 7), "Solicited": flag(4, 6), "Override": flag(4, 5),
		"TargetAddress": rng(8, 24), "TargetLLA": rng(26, 32)}))
	add("ICMP6NeighborSolicitation", "RFC 4861 section 4.3", with(icmpHdr, map[string]string{"TargetAddress": rng(8, 24), "SourceLLA": rng(26, 32)}))
	add("ICMP6RouterAdvertisement", "RFC 4861 section 4.2, RFC 4191, RFC 4389, RFC 6275", with(icmpHdr, map[string]string{"CurrentHopLimit": b8(4), "Flags": b8(5),
		"ManagedConfiguration": flag(5, 7), "OtherConfiguration": flag(5, 6), "HomeAgent": flag(5, 5), "Preference": bitsR(5, 4, 3), "ProxyFlag": flag(5, 2),
		"Lifetime": be(6, 2), "ReachableTime": be(8, 4), "RetransmitTimer": be(12, 4), "Options": "options" + rngLen(16)}))
	add("ICMP6RouterSolicitation", "RFC 4861 sections 4.1, 4.6.1", with(icmpHdr, map[string]string{"SourceLLA": rng(10, 16), "Options": "options" + rngLen(8)}))
	add("ICMP6Redirect", "RFC 4861 sections 4.5, 4.6.1", with(icmpHdr, map[string]string{"TargetAddress": rng(8, 24), "DstAddress": rng(24, 40), "TargetLinkLayerAddr": rng(42, 48)}))
	add("DHCP4", "RFC 2131 section 2", map[string]string{"OpCode": b8(0), "HType": b8(1), "HLen": b8(2), "Hops": b8(3), "XId": rng(4, 8), "Secs": be(8, 2), "Flags": be(10, 2),
		"Broadcast": flag(10, 7), "CIAddr": rng(12, 16), "YIAddr": rng(16, 20), "SIAddr": rng(20, 24), "GIAddr": rng(24, 28), "CHAddr": rng(28, 34),
		"Cookie": rng(236, 240), "Options": rngLen(240)})
	add("DNS", "RFC 1035 section 4.1.1", map[string]string{"TransactionID": be(0, 2), "QR": flag(2, 7), "OpCode": bitsR(2, 6, 3), "AA": flag(2, 2), "TC": flag(2, 1), "RD": flag(2, 0),
		"RA": flag(3, 7), "Z": bitsR(3, 6, 4), "ResponseCode": bitsR(3, 3, 0), "QDCount": be(4, 2), "ANCount": be(6, 2), "NSCount": be(8, 2), "ARCount": be(10, 2)})
	add("EthernetPause", "IEEE 802.3 annex 31B", map[string]string{"Opcode": be(0, 2), "Duration": be(2, 2), "Reserved": rngLen(4)})
	add("LLC", "IEEE 802.2", map[string]string{"DSAP": b8(0), "SSAP": b8(1), "Control": b8(2)})
	add("SNAP", "IEEE 802 (SNAP)", map[string]string{"DSAP": b8(0), "SSAP": b8(1), "Control": b8(2), "OrganisationID": rng(3, 6), "EtherType": be(6, 2), "Payload": rngLen(8)})
	add("IEEE1905", "IEEE 1905.1 section 6.2", map[string]string{"Version": b8(0), "Reserved": b8(1), "Type": be(2, 2), "ID": be(4, 2), "FragmentID": b8(6), "Flags": b8(7), "TLV": rngLen(8)})
	hlen := bitprov.Byte("", 1).Shl(3).Add(bitprov.ConstInt(8))
	add("HopByHopExtensionHeader", "RFC 8200 section 4.3", map[string]string{"NextHeader": b8(0), "Len": rInt(hlen), "Data": "[2:" + rInt(hlen) + "]"})
	add("RRCP", "Realtek RRCP frame format", map[string]string{"Protocol": b8(0), "OpCode": bitsR(1, 6, 0), "Reply": flag(1, 7), "AuthKey": be(2, 2)})
	return t
}

// trivial results: the "absent" value of a getter with a length test in front.
func trivialResult(s string) bool {
	switch s {
	case "nil", "fresh[0:0]", "opaque(nil)", "opaque(nil), opaque(nil)":
		return true
	}
	return false
}

// normGetter strips the representation wrappers so that addr4(p[12:16]) and p[12:16] both read "[12:16]".
func normGetter(s string) string {
	for _, k := range []string{"addr4(", "addr16(", "addrFromSlice(", "array("} {
		if strings.HasPrefix(s, k) && strings.HasSuffix(s, ")") {
			s = s[len(k) : len(s)-1]
		}
	}
	if strings.HasPrefix(s, "opaque(options[") {
		// (options, err) of the NDP option parser applied to a byte range
		if i := strings.Index(s, "])"); i > 0 {
			return "options" + s[len("opaque(options"):i+1]
		}
	}
	if strings.HasPrefix(s, "p[") {
		s = s[1:]
	}
	// tuple (value, ok) of AddrFromSlice
	return s
}

func runC02(c *Ctx) {
	r := c.R
	r.Explanation = "Getter conformance (engine C): every zero-argument getter of every []byte view type is evaluated symbolically over go/ssa into bit provenance " +
		"(each result bit is a constant, a named bit of a named byte of the view, or unknown; slices are [lo:hi) with such bounds) and compared with a field table written from the RFC / IEEE layouts. " +
		"A getter whose every non-trivial result equals its row is proved; a different provenance is a violation naming the getter, the computed and the expected provenance. " +
		"Getters without a row are listed as unspecified (no verdict). Parse's classification is checked against the decision table of Appendix C.1: each PayloadID assignment is dominated by the EtherType / IP-protocol / port tests of its row."
	r.Rule("getter", "field getter returns the RFC-defined bits", 150)

	table := fieldTable()
	used := map[string]bool{}
	var unspecified []string
	for _, g := range viewGetters(c.P) {
		key := g.Type + "." + g.Name
		row, ok := table[key]
		if !ok {
			if g.Name != "String" && g.Name != "IsValid" {
				unspecified = append(unspecified, key)
			}
			continue
		}
		used[key] = true
		vals := getterValue(g)
		var nontrivial []string
		for _, v := range vals {
			if !trivialResult(v) {
				nontrivial = append(nontrivial, normGetter(v))
			}
		}
		st := core.Proved
		det := ""
		if len(nontrivial) == 0 {
			st, det = core.Violated, "the getter has no non-trivial result"
		}
		for _, v := range nontrivial {
			if v != row.want {
				st = core.Violated
				det = fmt.Sprintf("%s returns %s; %s places it at %s", key, v, row.ref, row.want)
			}
		}
		r.Add(core.Obligation{Rule: "getter", Key: "getter " + key, Func: core.FuncName(g.Fn), Pos: c.P.Pos(g.Fn.Pos()), Status: st,
			Basis: row.ref + ": " + row.want, Detail: det, Hint: "compare the getter with " + row.ref})
	}
	var missing []string
	for k := range table {
		if !used[k] {
			missing = append(missing, k)
		}
	}
	sort.Strings(missing)
	for _, k := range missing {
		// a row without a getter: the table and the code have drifted apart (vacuity guard)
		r.Add(core.Obligation{Rule: "getter", Key: "getter " + k, Status: core.Violated, Detail: "the field table has a row for " + k + " but the view type has no such getter"})
	}
	sort.Strings(unspecified)
	r.Extra["unspecified_getters"] = unspecified
	r.Extra["table_rows"] = len(table)

	// a getter that walks a table of entries behind a fixed header: the entries of the router-address view (header of
	// eight octets: type, code, checksum, count, entry size, lifetime - the layout drawn above the type in the source)
	// start after the header, so every slice of the receiver in Addrs has a lower bound of the form 8 + i*entry size
	if fn := c.A.Method("", "ICMP4Redirect", "Addrs"); fn != nil {
		n := 0
		core.EachInstr(fn, func(i ssa.Instruction) {
			sl, ok := i.(*ssa.Slice)
			if !ok || sl.X != ssa.Value(fn.Params[0]) || sl.Low == nil {
				return
			}
			n++
			st, det := core.Violated, "ICMP4Redirect.Addrs takes entry i from "+norm(sl.Low)+": without the 8 octets of the header the first entry is the header itself (type, code, checksum, count, size, lifetime rendered as a router address)"
			if bo, isB := sl.Low.(*ssa.BinOp); isB && bo.Op == token.ADD {
				for _, side := range []ssa.Value{bo.X, bo.Y} {
					if k, isC := side.(*ssa.Const); isC && k.Value != nil && k.Value.String() == "8" {
						st, det = core.Proved, ""
					}
				}
			}
			r.Add(core.Obligation{Rule: "getter", Key: fmt.Sprintf("getter ICMP4Redirect.Addrs entry slice %d starts behind the header", n), Func: core.FuncName(fn), Pos: c.P.Pos(core.PosOf(i)), Status: st,
				Basis: "lower bound = 8 + i*AddrSize*4", Detail: det})
		})
		if n == 0 {
			r.Add(core.Obligation{Rule: "getter", Key: "getter ICMP4Redirect.Addrs entry slices", Func: core.FuncName(fn), Status: core.Undecided, Detail: "no slice of the receiver found in Addrs"})
		}
	}
	runC02Parse(c)
	runC02Offsets(c)
	// Ether.HeaderLen: 14, +4 under the 802.1Q TPID 0x8100, +8 under the 802.1ad TPID 0x88a8 (IEEE 802.1Q clause 9)
	r.Rule("header-len", "Ethernet header length per tag protocol identifier", 3)
	if fn := c.A.Method("", "Ether", "HeaderLen"); fn != nil {
		want := map[int64]string{18: "(packet.Ether).EtherType(recv)==33024", 22: "(packet.Ether).EtherType(recv)==34984"}
		seen := map[int64]bool{}
		core.EachInstr(fn, func(i ssa.Instruction) {
			rt, ok := i.(*ssa.Return)
			if !ok || len(rt.Results) != 1 {
				return
			}
			k, ok := rt.Results[0].(*ssa.Const)
			if !ok {
				r.Add(core.Obligation{Rule: "header-len", Key: "header-len non-constant", Func: core.FuncName(fn), Pos: c.P.Pos(core.PosOf(i)), Status: core.Violated, Detail: "HeaderLen returns a non-constant " + norm(rt.Results[0])})
				return
			}
			v := k.Int64()
			gs := classGuards(i)
			st := core.Proved
			det := ""
			switch v {
			case 14:
				for _, g := range gs {
					if g.pos && (g.disj == want[18] || g.disj == want[22]) {
						st, det = core.Violated, "14 is returned for a tagged frame: "+g.disj
					}
				}
			case 18, 22:
				if !hasClassGuard(gs, true, want[v]) {
					st, det = core.Violated, fmt.Sprintf("%d is returned without the test %s", v, want[v])
				}
			default:
				st, det = core.Violated, fmt.Sprintf("unexpected header length %d", v)
			}
			key := fmt.Sprintf("header-len %d", v)
			if seen[v] {
				key += " (default)"
			}
			seen[v] = true
			r.Add(core.Obligation{Rule: "header-len", Key: key, Func: core.FuncName(fn), Pos: c.P.Pos(core.PosOf(i)), Status: st, Basis: "IEEE 802.1Q: TPID 0x8100 adds 4 bytes, 0x88a8 adds 8", Detail: det})
		})
		for _, v := range []int64{14, 18, 22} {
			if !seen[v] {
				r.Add(core.Obligation{Rule: "header-len", Key: fmt.Sprintf("header-len %d", v), Func: core.FuncName(fn), Status: core.Violated, Detail: fmt.Sprintf("HeaderLen never returns %d", v)})
			}
		}
	}
	// "an error exactly when the frame is truncated", fixed-header part: the constant minimum length that IsValid
	// demands is the size of the protocol's fixed header (C01 proves it is not smaller than what the getters read;
	// a larger constant refuses complete headers). Sizes from the RFCs; views outside the table get no verdict.
	minLen := map[string]int64{
		"Ether": 14, "ARP": 28, "IP4": 20, "IP6": 40, "UDP": 8, "TCP": 20, "ICMP": 8, "ICMPEcho": 8,
		"ICMP6NeighborAdvertisement": 24, "ICMP6NeighborSolicitation": 24, "ICMP6Redirect": 40,
		"ICMP6RouterAdvertisement": 16, "ICMP6RouterSolicitation": 8, "DNS": 12, "DHCP4": 240, "LLC": 3,
	}
	r.Rule("min-length", "IsValid demands exactly the fixed header size of the protocol", len(minLen))
	var noTable []string
	for _, fn := range c.P.LibFunctions() {
		if fn.Name() != "IsValid" || fn.Signature.Recv() == nil || fn.Pkg == nil || fn.Pkg.Pkg.Name() != "packet" {
			continue
		}
		nt, ok := fn.Signature.Recv().Type().(*types.Named)
		if !ok {
			continue
		}
		want, inTable := minLen[nt.Obj().Name()]
		if !inTable {
			noTable = append(noTable, nt.Obj().Name())
			continue
		}
		// the constant guards on len(receiver): reject ⇔ 0 - len(recv) ≥ K  ⇔  len(recv) < 1-K
		var got []int64
		var at ssa.Instruction
		for _, g := range tightGuards(fn) {
			if g.S != ssa.Value(fn.Params[0]) || len(g.L.coef) != 0 {
				continue
			}
			got = append(got, 1-g.K)
			at = g.If
		}
		st := core.Proved
		det := ""
		pos := c.P.Pos(fn.Pos())
		switch {
		case len(got) == 0:
			st, det = core.Violated, "IsValid has no constant minimum-length test on its receiver (the guard was not recognised or is missing)"
		default:
			max := got[0]
			for _, v := range got {
				if v > max {
					max = v
				}
			}
			pos = c.P.Pos(core.PosOf(at))
			if max != want {
				st = core.Violated
				det = fmt.Sprintf("IsValid demands at least %d bytes; the fixed header of %s is %d bytes: ", max, nt.Obj().Name(), want)
				if max > want {
					det += "complete headers shorter than that are refused as truncated"
				} else {
					det += "a truncated header is accepted"
				}
			}
		}
		r.Add(core.Obligation{Rule: "min-length", Key: "min-length " + nt.Obj().Name() + ".IsValid", Func: core.FuncName(fn), Pos: pos, Status: st,
			Basis: fmt.Sprintf("constant length guard = %d", want), Detail: det})
	}
	sort.Strings(noTable)
	r.Extra["isvalid_without_reference_size"] = noTable
	// the datagram's own length field says where it ends; what follows is Ethernet padding (frames below the 60-byte
	// minimum) and not an inconsistency: IP4.IsValid and IP6.IsValid compare the length field with len(p) by <=, not ==
	r.Rule("trailer", "an IP datagram followed by Ethernet padding is valid", 2)
	for _, tn := range []struct{ typ, field string }{{"IP4", "TotalLen"}, {"IP6", "PayloadLen"}} {
		fn := c.P.Method("", tn.typ, "IsValid")
		if fn == nil {
			r.Add(core.Obligation{Rule: "trailer", Key: "trailer " + tn.typ + ".IsValid", Status: core.Undecided, Detail: "IsValid not found"})
			continue
		}
		st, det := core.Undecided, "no comparison of "+tn.field+" with len(p) recognised in "+tn.typ+".IsValid"
		core.EachInstr(fn, func(i ssa.Instruction) {
			bo, ok := i.(*ssa.BinOp)
			if !ok {
				return
			}
			x, y := norm(bo.X), norm(bo.Y)
			if !(strings.Contains(x, tn.field+"(") && y == "len(recv)" || strings.Contains(y, tn.field+"(") && x == "len(recv)") {
				return
			}
			if _, isIf := firstReferrerIf(bo); !isIf {
				// the comparison may be an operand of && / ||: still the comparison that decides
			}
			switch bo.Op {
			case token.EQL, token.NEQ:
				st, det = core.Violated, tn.typ+".IsValid compares "+tn.field+" with len(p) for equality ("+x+" "+bo.Op.String()+" "+y+"): a datagram followed by Ethernet padding (a frame below the 60-byte minimum, which the library's own Ether.AppendPayload produces) is refused as length-inconsistent"
			case token.LEQ, token.GEQ, token.LSS, token.GTR:
				if st != core.Violated {
					st, det = core.Proved, ""
				}
			}
		})
		r.Add(core.Obligation{Rule: "trailer", Key: "trailer " + tn.typ + ".IsValid", Func: core.FuncName(fn), Pos: c.P.Pos(fn.Pos()), Status: st,
			Basis: tn.field + " compared with len(p) by an inequality", Detail: det})
	}
}

func firstReferrerIf(v ssa.Value) (*ssa.If, bool) {
	if refs := v.Referrers(); refs != nil {
		for _, r := range *refs {
			if iff, ok := r.(*ssa.If); ok {
				return iff, true
			}
		}
	}
	return nil, false
}

// ---- Parse decision table (Appendix C.1) ----

// condAtoms expands a branch condition into a disjunction of atomic conditions: a short-circuit
// `a || b` is a boolean φ whose constant-true edges come from the blocks that tested the earlier operands.
func condAtoms(v ssa.Value, depth int) (atoms []string, ok bool) {
	if depth > 6 {
		return nil, false
	}
	phi, isPhi := v.(*ssa.Phi)
	if !isPhi {
		if bo, ok := v.(*ssa.BinOp); ok {
			switch bo.Op {
			case token.EQL, token.LSS, token.LEQ, token.GTR, token.GEQ:
				return []string{norm(bo.X) + bo.Op.String() + norm(bo.Y)}, true
			}
		}
		return []string{norm(v)}, true
	}
	for i, e := range phi.Edges {
		if k, isC := e.(*ssa.Const); isC {
			if k.Value == nil || !constant.BoolVal(k.Value) {
				return nil, false // an && chain or something else: not a disjunction
			}
			pred := phi.Block().Preds[i]
			iff, isIf := pred.Instrs[len(pred.Instrs)-1].(*ssa.If)
			if !isIf || pred.Succs[0] != phi.Block() {
				return nil, false
			}
			a, ok := condAtoms(iff.Cond, depth+1)
			if !ok {
				return nil, false
			}
			atoms = append(atoms, a...)
			continue
		}
		a, ok := condAtoms(e, depth+1)
		if !ok {
			return nil, false
		}
		atoms = append(atoms, a...)
	}
	sort.Strings(atoms)
	return atoms, true
}

type classGuard struct {
	pos  bool
	disj string // sorted atoms joined by " | "
}

// classGuards renders the dominating conditions of instr with disjunctions expanded.
func classGuards(instr ssa.Instruction) []classGuard {
	var out []classGuard
	for _, g := range guardsOf(instr) {
		atoms, ok := condAtoms(g.Cond, 0)
		if !ok {
			out = append(out, classGuard{g.Pol, "?" + g.Text})
			continue
		}
		pol := g.Pol
		if bo, isBo := g.Cond.(*ssa.BinOp); isBo && bo.Op == token.NEQ {
			// guardsOf folded != into == with flipped polarity; condAtoms rendered the raw operands
			atoms = []string{norm(bo.X) + "==" + norm(bo.Y)}
		}
		out = append(out, classGuard{pol, strings.Join(atoms, " | ")})
	}
	return out
}

func hasClassGuard(gs []classGuard, pos bool, disj string) bool {
	for _, g := range gs {
		if g.pos == pos && g.disj == disj {
			return true
		}
	}
	return false
}

func runC02Parse(c *Ctx) {
	r := c.R
	r.Rule("classify", "each PayloadID assignment in Parse is dominated by exactly the tests of its decision-table row", 30)
	parse := c.A.Method("", "Session", "Parse")
	if parse == nil {
		r.Fatal("Session.Parse not found")
		return
	}
	pk := c.P.Pkg("")
	idName := map[int64]string{}
	for name, m := range pk.Members {
		if nc, ok := m.(*ssa.NamedConst); ok && strings.HasPrefix(name, "Payload") {
			if nt, ok := nc.Type().(*types.Named); ok && nt.Obj().Name() == "PayloadID" {
				if v, ok := constant.Int64Val(nc.Value.Value); ok {
					idName[v] = name
				}
			}
		}
	}
	const et = "(packet.Ether).EtherType(local(frame).ether)"
	const sp = "local(frame).SrcAddr.Port"
	const dp = "local(frame).DstAddr.Port"
	eth := func(v int) string { return fmt.Sprintf("%s==%d", et, v) }
	either := func(p int) string {
		a := []string{fmt.Sprintf("%s==%d", dp, p), fmt.Sprintf("%s==%d", sp, p)}
		sort.Strings(a)
		return strings.Join(a, " | ")
	}
	dst := func(p, q int) string {
		a := []string{fmt.Sprintf("%s==%d", dp, p), fmt.Sprintf("%s==%d", dp, q)}
		sort.Strings(a)
		return strings.Join(a, " | ")
	}
	// EtherType rows (IANA / IEEE registration authority) and IP protocol rows (IANA protocol numbers)
	etherRows := map[string]string{
		"PayloadIP4": eth(0x0800), "PayloadIP6": eth(0x86dd), "PayloadARP": eth(0x0806), "PayloadEthernetPause": eth(0x8808), "PayloadRRCP": eth(0x8899),
		"PayloadLLDP": eth(0x88cc), "Payload802_11r": eth(0x890d), "PayloadIEEE1905": eth(0x893a), "PayloadSonos": eth(0x6970), "Payload880a": eth(0x880a),
	}
	protoRows := map[string]int{"PayloadUDP": 17, "PayloadTCP": 6, "PayloadICMP4": 1, "PayloadICMP6": 58, "PayloadIGMP": 2}
	// UDP port rows, first match wins (order is part of the table)
	type portRow struct {
		id   string
		disj string
	}
	portRows := []portRow{
		{"PayloadSSL", either(443)}, {"PayloadDHCP4", dst(67, 68)}, {"PayloadDHCP6", dst(546, 547)}, {"PayloadDNS", either(53)}, {"PayloadMDNS", either(5353)},
		{"PayloadLLMNR", either(5355)}, {"PayloadNTP", either(123)}, {"PayloadSSDP", either(1900)}, {"PayloadWSDP", either(3702)}, {"PayloadNBNS", dst(137, 138)},
		{"PayloadPlex", dst(32412, 32414)}, {"PayloadUbiquiti", either(10001)},
	}
	seen := map[string]int{}
	core.EachInstr(parse, func(i ssa.Instruction) {
		st, ok := i.(*ssa.Store)
		if !ok || !strings.HasSuffix(norm(st.Addr), "local(frame).PayloadID") {
			return
		}
		k, ok := st.Val.(*ssa.Const)
		if !ok {
			r.Add(core.Obligation{Rule: "classify", Key: "classify non-constant PayloadID", Func: core.FuncName(parse), Pos: c.P.Pos(core.PosOf(i)), Status: core.Violated, Detail: "PayloadID assigned a non-constant value: " + norm(st.Val)})
			return
		}
		name := idName[k.Int64()]
		seen[name]++
		gs := classGuards(i)
		var txt []string
		for _, g := range gs {
			p := ""
			if !g.pos {
				p = "!"
			}
			txt = append(txt, p+"{"+g.disj+"}")
		}
		sort.Strings(txt)
		basis := strings.Join(txt, " && ")
		var why []string
		need := func(pos bool, disj, what string) {
			if !hasClassGuard(gs, pos, disj) {
				why = append(why, "missing "+what)
			}
		}
		// common prefix: valid Ethernet header
		need(true, "(packet.Ether).IsValid(local(frame).ether)==nil", "Ether.IsValid() == nil")
		if name != "PayloadEther" {
			need(true, "packet.IsUnicastMAC(local(frame).SrcAddr.MAC)", "unicast source MAC")
		}
		switch {
		case name == "PayloadEther":
		case name == "Payload8023":
			need(true, et+"<1536", "EtherType < 1536")
		case etherRows[name] != "":
			need(false, et+"<1536", "EtherType >= 1536")
			need(true, etherRows[name], "EtherType test "+etherRows[name])
		case protoRows[name] != 0:
			need(false, et+"<1536", "EtherType >= 1536")
			need(true, fmt.Sprintf("φ==%d", protoRows[name]), fmt.Sprintf("IP protocol == %d", protoRows[name]))
		default:
			idx := -1
			for n, pr := range portRows {
				if pr.id == name {
					idx = n
				}
			}
			if idx < 0 {
				why = append(why, "PayloadID "+name+" has no row in the decision table")
				break
			}
			need(true, "φ==17", "IP protocol == 17")
			need(true, "(packet.UDP).IsValid((packet.Frame).Payload(local(frame)))==nil", "UDP.IsValid() == nil")
			need(true, portRows[idx].disj, "port test "+portRows[idx].disj)
			for n := 0; n < idx; n++ {
				need(false, portRows[n].disj, "earlier row not matched: "+portRows[n].id+" ("+portRows[n].disj+")")
			}
			// no other port test may be required before this one
			for _, g := range gs {
				if strings.Contains(g.disj, ".Port==") && !g.pos {
					known := false
					for n := 0; n < idx; n++ {
						if portRows[n].disj == g.disj {
							known = true
						}
					}
					if !known {
						why = append(why, "an extra port test precedes this row: !{"+g.disj+"}")
					}
				}
			}
		}
		status := core.Proved
		if len(why) > 0 {
			status = core.Violated
		}
		key := "classify " + name
		if seen[name] > 1 {
			key = fmt.Sprintf("classify %s #%d", name, seen[name])
		}
		r.Add(core.Obligation{Rule: "classify", Key: key, Func: core.FuncName(parse), Pos: c.P.Pos(core.PosOf(i)), Status: status, Basis: basis,
			Detail: name + ": " + strings.Join(why, "; ") + " | dominating tests: " + basis})
	})
	// every row of the table is assigned somewhere
	var all []string
	for k := range etherRows {
		all = append(all, k)
	}
	for k := range protoRows {
		all = append(all, k)
	}
	for _, pr := range portRows {
		all = append(all, pr.id)
	}
	all = append(all, "PayloadEther", "Payload8023")
	sort.Strings(all)
	for _, k := range all {
		if seen[k] == 0 {
			r.Add(core.Obligation{Rule: "classify", Key: "classify " + k, Func: core.FuncName(parse), Status: core.Violated, Detail: "Parse never assigns " + k + " (decision-table row without code)"})
		}
	}
	// the protocol φ: IPv4 Protocol under 0x0800, IPv6 NextHeader under 0x86dd
	var protoPhi *ssa.Phi
	core.EachInstr(parse, func(i ssa.Instruction) {
		if bo, ok := i.(*ssa.BinOp); ok && bo.Op == token.EQL {
			if p, ok := bo.X.(*ssa.Phi); ok {
				if k, ok := bo.Y.(*ssa.Const); ok && k.Int64() == 17 {
					protoPhi = p
				}
			}
		}
	})
	st := core.Violated
	det := "the value switched on for the IP protocol was not found"
	if protoPhi != nil {
		var edges []string
		seenE := map[string]bool{}
		for _, e := range protoPhi.Edges {
			if n := norm(e); !seenE[n] {
				seenE[n] = true
				edges = append(edges, n)
			}
		}
		sort.Strings(edges)
		got := strings.Join(edges, " , ")
		want := "(packet.IP4).Protocol((packet.Frame).Payload(local(frame))) , (packet.IP6).NextHeader((packet.Frame).Payload(local(frame)))"
		if got == want {
			st, det = core.Proved, ""
		} else {
			det = "the IP protocol switch reads " + got + "; expected IP4.Protocol() / IP6.NextHeader() of the payload"
		}
	}
	r.Add(core.Obligation{Rule: "classify", Key: "classify protocol operand", Func: core.FuncName(parse), Status: st, Basis: "IP protocol = IP4.Protocol() | IP6.NextHeader()", Detail: det})
}

// ---- Parse offsets and address provenance (engine C on Parse itself) ----

func runC02Offsets(c *Ctx) {
	r := c.R
	r.Rule("layout", "view offsets, payload offset and address provenance of every nil-error result of Parse equal the reference layout", 60)
	parse := c.A.Method("", "Session", "Parse")
	if parse == nil {
		return
	}
	pk := c.P.Pkg("")
	idName := map[uint64]string{}
	for name, m := range pk.Members {
		if nc, ok := m.(*ssa.NamedConst); ok && strings.HasPrefix(name, "Payload") {
			if nt, ok := nc.Type().(*types.Named); ok && nt.Obj().Name() == "PayloadID" {
				if v, ok := constant.Uint64Val(nc.Value.Value); ok {
					idName[v] = name
				}
			}
		}
	}
	isView := func(fn *ssa.Function) bool {
		if fn.Signature.Recv() == nil {
			return false
		}
		switch fn.Name() {
		case "IsValid", "String", "FastLog", "Log":
			return false
		}
		t := fn.Signature.Recv().Type()
		if nt, ok := t.(*types.Named); ok {
			if nt.Obj().Name() == "Frame" {
				return true
			}
			if sl, ok := nt.Underlying().(*types.Slice); ok {
				if b, ok := sl.Elem().Underlying().(*types.Basic); ok && b.Kind() == types.Uint8 {
					return true
				}
			}
		}
		return false
	}
	udpKnown := map[string]bool{"PayloadSSL": true, "PayloadDHCP4": true, "PayloadDHCP6": true, "PayloadDNS": true, "PayloadMDNS": true, "PayloadLLMNR": true, "PayloadNTP": true,
		"PayloadSSDP": true, "PayloadWSDP": true, "PayloadNBNS": true, "PayloadPlex": true, "PayloadUbiquiti": true}
	ipOnly := map[string]bool{"PayloadIP4": true, "PayloadIP6": true, "PayloadICMP4": true, "PayloadICMP6": true, "PayloadIGMP": true}
	count := 0
	for _, H := range []uint64{14, 18, 22} {
		ev := &bitprov.Eval{MaxPaths: 4000, Inline: isView, Extern: func(e *bitprov.Eval, callee *ssa.Function, args []bitprov.Val) (bitprov.Val, bool) {
			if callee.Name() == "HeaderLen" && callee.Signature.Recv() != nil && strings.HasSuffix(callee.Signature.Recv().Type().String(), ".Ether") {
				return bitprov.ConstInt(H), true
			}
			return nil, false
		}}
		rets := ev.Run(parse, []bitprov.Val{bitprov.Opaque{Why: "session"}, recvSlice()})
		type agg struct {
			bad   []string
			paths int
		}
		res := map[string]*agg{}
		for _, rt := range rets {
			if rt.Panic || len(rt.Vals) != 2 {
				continue
			}
			if bitprov.Str(rt.Vals[1]) != "opaque(nil)" {
				continue // error return
			}
			fr, ok := rt.Vals[0].(bitprov.Struct)
			if !ok {
				r.Fatal("Parse result is not a struct value: %s", bitprov.Str(rt.Vals[0]))
				return
			}
			idv, _ := fr.FieldByName("PayloadID").(bitprov.Int)
			idc, isC := idv.IsConst()
			name := idName[idc]
			if !isC || name == "" {
				name = "non-constant PayloadID " + idv.String()
			}
			get := func(f string) string { return bitprov.Str(fr.FieldByName(f)) }
			addr := func(which, f string) string {
				a, _ := fr.FieldByName(which).(bitprov.Struct)
				if a.T == nil {
					return "?"
				}
				return normGetter(bitprov.Str(a.FieldByName(f)))
			}
			v4 := get("offsetIP4") != "0"
			v6 := get("offsetIP6") != "0"
			hC := bitprov.ConstInt(H)
			var l4 bitprov.Int
			exp := map[string]string{"ether": "p[0:len]", "offsetIP4": "0", "offsetIP6": "0", "offsetUDP": "0", "offsetTCP": "0", "offsetPayload": hC.String(),
				"SrcAddr.MAC": "[6:12]", "DstAddr.MAC": "[0:6]", "SrcAddr.IP": "{}", "DstAddr.IP": "{}", "SrcAddr.Port": "0", "DstAddr.Port": "0"}
			hasIP := ipOnly[name] || name == "PayloadUDP" || name == "PayloadTCP" || udpKnown[name]
			if hasIP {
				switch {
				case v4 && !v6:
					l4 = hC.Add(bitprov.Bits("", int(H), 3, 0).Shl(2))
					exp["offsetIP4"] = hC.String()
					// the datagram ends at TotalLen: Ethernet padding (frames below the 60-byte minimum) is not payload
					exp["ether"] = "p[0:" + hC.Add(bitprov.BE("", int(H)+2, 2)).String() + "]"
					exp["SrcAddr.IP"] = fmt.Sprintf("[%d:%d]", H+12, H+16)
					exp["DstAddr.IP"] = fmt.Sprintf("[%d:%d]", H+16, H+20)
				case v6 && !v4:
					l4 = bitprov.ConstInt(H + 40)
					exp["offsetIP6"] = hC.String()
					// the datagram ends at 40 + PayloadLen, like the IPv4 one at TotalLen
					exp["ether"] = "p[0:" + bitprov.ConstInt(H+40).Add(bitprov.BE("", int(H)+4, 2)).String() + "]"
					exp["SrcAddr.IP"] = fmt.Sprintf("[%d:%d]", H+8, H+24)
					exp["DstAddr.IP"] = fmt.Sprintf("[%d:%d]", H+24, H+40)
				default:
					exp["offsetIP4"] = "exactly one of offsetIP4/offsetIP6 set"
				}
				exp["offsetPayload"] = l4.String()
			}
			port := func(off bitprov.Int) string {
				if o, ok := off.IsConst(); ok {
					return bitprov.BE("", int(o), 2).String()
				}
				return fmt.Sprintf("be16 at %s", off.String())
			}
			if name == "PayloadUDP" || name == "PayloadTCP" || udpKnown[name] {
				exp["SrcAddr.Port"] = port(l4)
				exp["DstAddr.Port"] = port(l4.Add(bitprov.ConstInt(2)))
				if name == "PayloadTCP" {
					exp["offsetTCP"] = l4.String()
				} else {
					exp["offsetUDP"] = l4.String()
				}
				if udpKnown[name] {
					exp["offsetPayload"] = l4.Add(bitprov.ConstInt(8)).String()
				}
			}
			got := map[string]string{"ether": get("ether"), "offsetIP4": get("offsetIP4"), "offsetIP6": get("offsetIP6"), "offsetUDP": get("offsetUDP"), "offsetTCP": get("offsetTCP"),
				"offsetPayload": get("offsetPayload"), "SrcAddr.MAC": addr("SrcAddr", "MAC"), "DstAddr.MAC": addr("DstAddr", "MAC"), "SrcAddr.IP": addr("SrcAddr", "IP"),
				"DstAddr.IP": addr("DstAddr", "IP"), "SrcAddr.Port": addr("SrcAddr", "Port"), "DstAddr.Port": addr("DstAddr", "Port")}
			fam := ""
			if v4 {
				fam = "/ip4"
			} else if v6 {
				fam = "/ip6"
			}
			key := fmt.Sprintf("%s%s H=%d", name, fam, H)
			a := res[key]
			if a == nil {
				a = &agg{}
				res[key] = a
			}
			a.paths++
			var fields []string
			for f := range exp {
				fields = append(fields, f)
			}
			sort.Strings(fields)
			for _, f := range fields {
				if got[f] != exp[f] {
					a.bad = append(a.bad, fmt.Sprintf("%s = %s, reference layout: %s", f, got[f], exp[f]))
				}
			}
		}
		var keys []string
		for k := range res {
			keys = append(keys, k)
		}
		sort.Strings(keys)
		for _, k := range keys {
			a := res[k]
			st := core.Proved
			if len(a.bad) > 0 {
				st = core.Violated
			}
			count++
			r.Add(core.Obligation{Rule: "layout", Key: "layout " + k, Func: core.FuncName(parse), Pos: c.P.Pos(parse.Pos()), Status: st,
				Basis: fmt.Sprintf("%d nil-error paths agree with the reference offsets", a.paths), Detail: strings.Join(dedupStrings(a.bad), "; ")})
		}
		if len(ev.Notes) > 0 {
			r.Extra[fmt.Sprintf("parse_eval_notes_H%d", H)] = dedupStrings(ev.Notes)
		}
	}
	r.Extra["parse_layout_classes"] = count
}

func dedupStrings(s []string) []string {
	seen := map[string]bool{}
	var out []string
	for _, x := range s {
		if !seen[x] {
			seen[x] = true
			out = append(out, x)
		}
	}
	return out
}
