package props

import (
	"go/types"

	"golang.org/x/tools/go/ssa"

	"pv/core"
)

// droppedErrors lists the calls in fn to functions of the module whose error result never reaches a return of fn: the
// error is compared with nil at most (and the failure path carries on), assigned to a variable that is overwritten, or
// ignored. "Reaches" is data flow through φ nodes and stores into the function's own result variables.
func droppedErrors(fn *ssa.Function, inModule func(*ssa.Function) bool) []ssa.CallInstruction {
	var out []ssa.CallInstruction
	errType := types.Universe.Lookup("error").Type()
	reachesReturn := func(v ssa.Value) bool {
		seen := map[ssa.Value]bool{}
		var walk func(x ssa.Value) bool
		walk = func(x ssa.Value) bool {
			if seen[x] {
				return false
			}
			seen[x] = true
			refs := x.Referrers()
			if refs == nil {
				return false
			}
			for _, r := range *refs {
				switch t := r.(type) {
				case *ssa.Return:
					return true
				case *ssa.Phi:
					if walk(t) {
						return true
					}
				case *ssa.Store:
					// a named result, a local that is loaded and returned, or an element of a variadic argument list
					if t.Val != x {
						break
					}
					root := t.Addr
					for {
						if ia, ok := root.(*ssa.IndexAddr); ok {
							root = ia.X
							continue
						}
						if fa, ok := root.(*ssa.FieldAddr); ok {
							root = fa.X
							continue
						}
						break
					}
					if al, ok := root.(*ssa.Alloc); ok && walk(al) {
						return true
					}
				case *ssa.UnOp, *ssa.Slice:
					if walk(t.(ssa.Value)) {
						return true
					}
				case *ssa.MakeInterface:
					if walk(t) {
						return true
					}
				case *ssa.Call:
					// wrapped: fmt.Errorf("...%w", err) and the like
					if walk(t) {
						return true
					}
				case *ssa.ChangeInterface:
					if walk(t) {
						return true
					}
				}
			}
			return false
		}
		return walk(v)
	}
	core.EachInstr(fn, func(i ssa.Instruction) {
		call, ok := i.(*ssa.Call)
		if !ok {
			return
		}
		cal := call.Call.StaticCallee()
		if cal == nil || !inModule(cal) {
			return
		}
		res := cal.Signature.Results()
		if res.Len() == 0 || !types.Identical(res.At(res.Len()-1).Type(), errType) {
			return
		}
		var errVal ssa.Value
		if res.Len() == 1 {
			errVal = call
		} else {
			for _, r := range *call.Referrers() {
				if ex, isE := r.(*ssa.Extract); isE && ex.Index == res.Len()-1 {
					errVal = ex
				}
			}
		}
		if errVal == nil || !reachesReturn(errVal) {
			out = append(out, call)
		}
	})
	return out
}
