package props

import (
	"fmt"
	"go/constant"
	"go/token"
	"regexp"
	"sort"
	"strings"

	"golang.org/x/tools/go/ssa"

	"pv/core"
	"pv/locks"
)

func init() { register("C17", "other", runC17) }

func runC17(c *Ctx) {
	r := c.R
	r.Explanation = "The merge algebra of C17, decided by shape: in NameEntry.Merge every store to Name / Model / OS / Manufacturer takes the like-named field of the argument and is control dependent on 'argument field non-empty and different from the current value' " +
		"(so a known attribute is never erased, and a second merge of the same entry changes nothing); the returned 'modified' flag is true exactly on the paths that executed one of these stores (φ chain: constant true on the edge out of each store block, otherwise the previous value, initially false). " +
		"Every Host.Update*Name stores the merged entry into its own field, and merges it into the MAC entry's copy only when the merge reported a change, with the row lock held for writing. " +
		"Decode side, one clause only: a rejecting length guard in layer_dns.go whose bound is affine in the same values as an access it dominates is not stricter than the largest such access (a message that ends exactly at a field boundary is not refused). " +
		"Not decided: equality of decoded DNS names/records with an independent DNS implementation beyond that (decode robustness is C08's); Type and Expire are overwritten by design and excluded."
	r.Rule("merge", "Merge overwrites an attribute only with a different non-empty value, and reports exactly those changes", 8)
	r.Rule("update", "Update*Name stores the merged entry and propagates it to the MAC entry only on change, under the row lock", 5)

	merge := c.P.Method("", "NameEntry", "Merge")
	if merge == nil {
		r.Fatal("NameEntry.Merge not found")
		return
	}
	attrs := []string{"Name", "Model", "OS", "Manufacturer"}
	storeBlock := map[*ssa.BasicBlock]string{}
	for _, a := range attrs {
		found := false
		core.EachInstr(merge, func(i ssa.Instruction) {
			s, ok := i.(*ssa.Store)
			if !ok || norm(s.Addr) != "local(e)."+a {
				return
			}
			found = true
			storeBlock[i.Block()] = a
			st := core.Proved
			var why []string
			if norm(s.Val) != "local(nameEntry)."+a {
				st = core.Violated
				why = append(why, "the value stored is "+norm(s.Val)+", not the argument's "+a)
			}
			gs := guardsOf(i)
			if !hasGuard(gs, `^!\(local\(nameEntry\)\.`+a+`==""\)$`) {
				st = core.Violated
				why = append(why, "not guarded by argument."+a+` != "" (a known value could be erased)`)
			}
			if !hasGuard(gs, `^!\(local\(e\)\.`+a+`==local\(nameEntry\)\.`+a+`\)$`) {
				st = core.Violated
				why = append(why, "not guarded by current."+a+" != argument."+a+" (a repeated merge would report a change)")
			}
			r.Add(core.Obligation{Rule: "merge", Key: "merge attribute " + a, Func: core.FuncName(merge), Pos: c.P.Pos(core.PosOf(i)), Status: st,
				Basis: "stored from the argument under: non-empty and different", Detail: strings.Join(why, "; ") + " | guards: " + guardTexts(gs)})
		})
		if !found {
			r.Add(core.Obligation{Rule: "merge", Key: "merge attribute " + a, Func: core.FuncName(merge), Status: core.Violated, Detail: "Merge never assigns " + a})
		}
	}
	// the remaining fields (the source tag Type, Expire) are not attributes that count as a change, but they are not
	// erased either: each is assigned from the argument only under a test that the argument's value is not the zero value
	core.EachInstr(merge, func(i ssa.Instruction) {
		s, ok := i.(*ssa.Store)
		if !ok || !strings.HasPrefix(norm(s.Addr), "local(e).") {
			return
		}
		f := strings.TrimPrefix(norm(s.Addr), "local(e).")
		for _, a := range attrs {
			if a == f {
				return
			}
		}
		st := core.Proved
		if !hasGuard(guardsOf(i), `^!\(local\(nameEntry\)\.`+regexp.QuoteMeta(f)+`==(""|nil|0)\)$`) {
			st = core.Violated
		}
		r.Add(core.Obligation{Rule: "merge", Key: "merge field " + f + " is not erased", Func: core.FuncName(merge), Pos: c.P.Pos(core.PosOf(i)), Status: st,
			Basis: "assigned under argument." + f + " != zero value", Detail: "Merge assigns " + f + " from the argument whatever it holds (guards: " + guardTexts(guardsOf(i)) + "): merging an entry that leaves " + f + " empty erases the known value, and no change is reported"})
	})
	// the modified flag
	st := core.Violated
	det := "the second result of Merge is not a φ chain over the attribute blocks"
	nRet, nGood := 0, 0
	var bad, entryWhy []string
	entryOK := true
	core.EachInstr(merge, func(i ssa.Instruction) {
		ret, ok := i.(*ssa.Return)
		if !ok || len(ret.Results) != 2 {
			return
		}
		trueEdges := map[string]bool{}
		okChain := true
		var why []string
		var walk func(v ssa.Value, depth int)
		walk = func(v ssa.Value, depth int) {
			if depth > 12 {
				okChain = false
				return
			}
			switch t := v.(type) {
			case *ssa.Const:
				if b, isB := constBool(t); !isB || b {
					okChain = false
					why = append(why, "the initial value of modified is not false")
				}
			case *ssa.Phi:
				for k, e := range t.Edges {
					pred := t.Block().Preds[k]
					if cv, isC := e.(*ssa.Const); isC {
						if b, _ := constBool(cv); b {
							a, isStore := storeBlock[pred]
							if !isStore {
								okChain = false
								why = append(why, "modified becomes true on an edge that stored no attribute")
							}
							trueEdges[a] = true
							continue
						}
					}
					if _, isStore := storeBlock[pred]; isStore {
						okChain = false
						why = append(why, "the edge out of the "+storeBlock[pred]+" store does not set modified")
					}
					walk(e, depth+1)
				}
			default:
				okChain = false
				why = append(why, "modified is computed from "+norm(v))
			}
		}
		walk(ret.Results[1], 0)
		for _, a := range attrs {
			if !trueEdges[a] {
				okChain = false
				why = append(why, "changing "+a+" does not set modified")
			}
		}
		nRet++
		if okChain {
			nGood++
		} else {
			bad = append(bad, why...)
		}
		// the merged entry returned is the receiver's copy (with the stores above), never the argument wholesale
		if norm(ret.Results[0]) != "local(e)" {
			entryOK = false
			entryWhy = append(entryWhy, "a return hands back "+norm(ret.Results[0])+" at "+c.P.Pos(core.PosOf(ret)))
		}
	})
	if nRet > 0 && nGood == nRet {
		st, det = core.Proved, ""
	} else if nRet > 0 {
		det = strings.Join(dedupStrings(bad), "; ")
	}
	est := core.Proved
	if !entryOK || nRet == 0 {
		est = core.Violated
	}
	r.Add(core.Obligation{Rule: "merge", Key: "merge result entry", Func: core.FuncName(merge), Pos: c.P.Pos(merge.Pos()), Status: est,
		Basis: "every return hands back the receiver's copy, changed only by the guarded attribute stores", Detail: "Merge does not always return the receiver's own copy, so attributes the argument lacks are erased: " + strings.Join(entryWhy, "; ")})
	r.Add(core.Obligation{Rule: "merge", Key: "merge modified flag", Func: core.FuncName(merge), Pos: c.P.Pos(merge.Pos()), Status: st,
		Basis: "modified is true exactly on the paths that stored an attribute", Detail: det})

	// Update*Name
	lib := c.P.LibFunctions()
	an := locks.Analyse(c.P, lib, isConstructor)
	for _, k := range []string{"DHCP4", "MDNS", "SSDP", "LLMNR", "NBNS"} {
		fn := c.P.Method("", "Host", "Update"+k+"Name")
		if fn == nil {
			r.Add(core.Obligation{Rule: "update", Key: "update " + k, Status: core.Violated, Detail: "Host.Update" + k + "Name not found"})
			continue
		}
		f := k + "Name"
		own, mac := false, false
		var why []string
		fi := an.Info[fn]
		core.EachInstr(fn, func(i ssa.Instruction) {
			s, ok := i.(*ssa.Store)
			if !ok {
				return
			}
			w := fi.MustIn[i][locks.Held{Class: "MACEntry.Row", Mode: "W"}]
			switch norm(s.Addr) {
			case "recv." + f:
				if norm(s.Val) == fmt.Sprintf("(packet.NameEntry).Merge(recv.%s,arg0)#0", f) && w {
					own = true
				} else {
					why = append(why, "host."+f+" = "+norm(s.Val)+fmt.Sprintf(" (row write lock: %v)", w))
				}
			case "recv.MACEntry." + f:
				if norm(s.Val) == fmt.Sprintf("(packet.NameEntry).Merge(recv.MACEntry.%s,recv.%s)#0", f, f) && w &&
					hasGuard(guardsOf(i), `^\(packet\.NameEntry\)\.Merge\(recv\.`+f+`,arg0\)#1$`) {
					mac = true
				} else {
					why = append(why, "MACEntry."+f+" = "+norm(s.Val)+" under "+guardTexts(guardsOf(i))+fmt.Sprintf(" (row write lock: %v)", w))
				}
			}
		})
		st := core.Proved
		if !own || !mac {
			st = core.Violated
		}
		r.Add(core.Obligation{Rule: "update", Key: "update Host.Update" + f, Func: core.FuncName(fn), Pos: c.P.Pos(fn.Pos()), Status: st,
			Basis: "host." + f + " = host." + f + ".Merge(name); MACEntry." + f + " merged only when the merge reported a change; row lock held", Detail: strings.Join(why, "; ")})
	}
	// names are cut with suffix/prefix functions, not with character sets: strings.Trim/TrimLeft/TrimRight take a *set*;
	// a constant cutset that repeats a character was meant as a suffix or prefix (".local." strips any trailing l,o,c,a,.)
	r.Rule("trim-cutset", "name extraction does not use a character-set trim with a suffix-like argument", 0)
	nTrim := 0
	for _, fn := range c.P.LibFunctions() {
		for _, site := range callsIn(fn, nameIs("TrimRight", "TrimLeft", "Trim")) {
			if !strings.HasPrefix(core.CalleeName(site), "strings.") || len(site.Common().Args) != 2 {
				continue
			}
			k, ok := site.Common().Args[1].(*ssa.Const)
			if !ok || k.Value == nil || k.Value.Kind() != constant.String {
				continue
			}
			nTrim++
			cut := constant.StringVal(k.Value)
			seen := map[rune]bool{}
			dup := false
			for _, ch := range cut {
				if seen[ch] {
					dup = true
				}
				seen[ch] = true
			}
			st := core.Proved
			if dup {
				st = core.Violated
			}
			r.Add(core.Obligation{Rule: "trim-cutset", Key: fmt.Sprintf("trim-cutset %s %q in %s", core.CalleeName(site), cut, core.FuncName(fn)), Func: core.FuncName(fn), Pos: c.P.Pos(core.PosOf(site.(ssa.Instruction))), Status: st,
				Basis: "cutset has no repeated character", Detail: fmt.Sprintf("%s(x, %q) removes every trailing/leading character of the set, not the suffix/prefix %q: names ending in those letters are shortened", core.CalleeName(site), cut, cut)})
		}
	}
	r.Extra["trim_calls_with_constant_cutset"] = nTrim

	// decode side, one structural clause: a length guard of the DNS decoder that rejects a message must be needed by
	// an access it protects (guardtight.go). `if index+2 >= len(data) { return err }` before `data[index:index+2]`
	// refuses a name whose compression pointer sits in the last two octets of the message.
	r.Rule("decode-guards", "rejecting length guards in the DNS decoder are not stricter than every access they protect", 4)
	var unmatched []string
	seenKey := map[string]int{}
	for _, fn := range c.P.LibFunctions() {
		if !strings.HasPrefix(c.P.Pos(fn.Pos()), "layer_dns.go:") {
			continue
		}
		for _, g := range tightGuards(fn) {
			key := fmt.Sprintf("decode-guards %s %s vs len(%s)", core.FuncName(fn), g.L.String(), norm(g.S))
			seenKey[key]++
			if n := seenKey[key]; n > 1 {
				key = fmt.Sprintf("%s #%d", key, n)
			}
			m, has := g.maxSlack()
			if !has {
				unmatched = append(unmatched, key)
				continue
			}
			st := core.Proved
			det := ""
			if m < 1 {
				st = core.Violated
				var acc []string
				for _, a := range g.Matched {
					acc = append(acc, a.Text)
				}
				det = fmt.Sprintf("the guard rejects when %s - len(%s) >= %d, but the accesses it protects (%s) stay inside the message up to %d byte(s) beyond that: a well-formed message whose field ends exactly at the end of the message is refused",
					g.L.String(), norm(g.S), g.K, strings.Join(acc, ", "), 1-m)
			}
			r.Add(core.Obligation{Rule: "decode-guards", Key: key, Func: core.FuncName(fn), Pos: c.P.Pos(core.PosOf(g.If)), Status: st,
				Basis: fmt.Sprintf("reject ⇔ %s-len ≥ %d; largest protected access needs exactly that (slack %d)", g.L.String(), g.K, m), Detail: det})
		}
	}
	sort.Strings(unmatched)
	r.Extra["decode_guards_without_affine_match"] = unmatched
	// RFC 1035 2.3.4: a name is at most 255 octets on the wire. decodeName refuses a label sequence once its end is more
	// than 255 octets past the start of the name: the constant of that guard is 255 (a smaller one refuses legal names)
	if dn := c.P.Func("", "decodeName"); dn != nil {
		found := false
		core.EachInstr(dn, func(i ssa.Instruction) {
			iff, ok := i.(*ssa.If)
			if !ok {
				return
			}
			bo, ok := iff.Cond.(*ssa.BinOp)
			if !ok || bo.Op != token.GTR {
				return
			}
			k, isC := bo.Y.(*ssa.Const)
			sub, isSub := bo.X.(*ssa.BinOp)
			if !isC || !isSub || sub.Op != token.SUB || k.Value == nil {
				return
			}
			// (end of label) - (start offset parameter) > K
			if sub.Y != ssa.Value(dn.Params[1]) {
				return
			}
			found = true
			st := core.Proved
			if k.Int64() != 255 {
				st = core.Violated
			}
			r.Add(core.Obligation{Rule: "decode-guards", Key: "decode-guards packet.decodeName name length limit", Func: core.FuncName(dn), Pos: c.P.Pos(core.PosOf(i)), Status: st,
				Basis: "label sequence longer than 255 octets refused", Detail: fmt.Sprintf("decodeName refuses a name once it is more than %d octets long; RFC 1035 allows 255 octets on the wire (253 characters of text): names of legal maximum length are refused", k.Int64())})
		})
		if !found {
			r.Add(core.Obligation{Rule: "decode-guards", Key: "decode-guards packet.decodeName name length limit", Func: core.FuncName(dn), Status: core.Undecided, Detail: "the over-long name guard of decodeName was not recognised"})
		}
	}

	// record arrays are read relative to the loop counter
	// the shortest question is five octets: the root name (one zero octet), type and class. A pre-check of the question
	// must not demand more before the name is decoded (a query for "." - the priming query - is well formed).
	if dq := c.P.Func("", "DecodeQuestion"); dq != nil && len(dq.Params) >= 2 {
		for _, g := range tightGuards(dq) {
			if g.S != ssa.Value(dq.Params[0]) || len(g.L.coef) != 1 || g.L.coef[norm(dq.Params[1])] != 1 {
				continue
			}
			demanded := 1 - g.K // reject ⇔ index - len(p) ≥ K ⇔ len(p) - index < 1-K
			st := core.Proved
			if demanded > 5 {
				st = core.Violated
			}
			r.Add(core.Obligation{Rule: "decode-guards", Key: "decode-guards packet.DecodeQuestion shortest question", Func: core.FuncName(dq), Pos: c.P.Pos(core.PosOf(g.If)), Status: st,
				Basis:  fmt.Sprintf("the pre-check demands %d octets after the header; the shortest question has 5", demanded),
				Detail: fmt.Sprintf("DecodeQuestion refuses a message with fewer than %d octets after the header before decoding the name; a question for the root name takes 5 (00 type class): a well-formed query or response for \".\" is rejected", demanded)})
		}
	}
	// a well-formed record is skipped or stored, never refused: each error return of the answer decoder lies under a test
	// that witnesses a malformation (name decode failed, record runs past the message, RDATA length of an address record
	// wrong). Anything else fails a whole well-formed message: a PTR owner under in-addr.arpa need not be a reversed
	// address (RFC 6763 section 11: lb._dns-sd._udp.0.0.168.192.in-addr.arpa; RFC 2317 classless delegations).
	r.Rule("refusals", "every error return of the answer decoder is under a malformation test", 7)
	if fn := c.P.Method("", "DNSEntry", "decodeRRs"); fn != nil {
		kg := core.NewKeyGen()
		core.EachInstr(fn, func(i ssa.Instruction) {
			ret, ok := i.(*ssa.Return)
			if !ok || len(ret.Results) == 0 {
				return
			}
			if k, isC := ret.Results[len(ret.Results)-1].(*ssa.Const); isC && k.IsNil() {
				return
			}
			gs := guardsOf(i)
			why := ""
			switch {
			case hasGuard(gs, `^!\(packet\.decodeName\(.*\)#2==nil\)$`):
				why = "name decode failed"
			case hasGuard(gs, `^\(.*>len\(arg1\)\)$`):
				why = "record runs past the message"
			case hasGuard(gs, `^!\(\(encoding/binary\.bigEndian\)\.Uint16\(.*\)==(4|16)\)$`):
				why = "address record with a wrong RDATA length"
			}
			st := core.Proved
			if why == "" {
				st = core.Violated
			}
			msg := ""
			if cl, isCall := ret.Results[len(ret.Results)-1].(*ssa.Call); isCall && len(cl.Call.Args) > 0 {
				msg = norm(cl.Call.Args[0])
			}
			r.Add(core.Obligation{Rule: "refusals", Key: strings.TrimSuffix(kg.Key("refusals decodeRRs error "+msg), "#0"), Func: core.FuncName(fn), Pos: c.P.Pos(core.PosOf(i)), Status: st,
				Basis: why, Detail: "decodeRRs returns the error " + msg + " under no malformation test: a well-formed record (an ip6.arpa or service PTR, say) fails the whole message and none of its records is stored"})
		})
	}
	// the mDNS duplicate filter drops a message only when it has seen the same message: what identifies an entry of the
	// cache depends on the content of the message (mDNS responses all carry ID 0, so sender and ID alone make every later
	// response of a station a "duplicate" for the life of the entry and its names are never extracted)
	r.Rule("mdns-dedupe", "the mDNS duplicate cache is keyed by the content of the message", 2)
	if pm := c.P.Method("handlers/dns_naming", "DNSHandler", "ProcessMDNS"); pm != nil {
		kgm := core.NewKeyGen()
		for _, site := range callsIn(pm, nameIs("getMDNSCache", "putMDNSCache")) {
			// a digest (crc32, adler32, fnv, maphash, sha*, md5) of the message among the arguments: the DNS ID alone is
			// content too, but it is 0 in every mDNS response
			byContent := false
			for _, a := range site.Common().Args {
				for v := range dataSlice(pm, a) {
					cl, isCall := v.(*ssa.Call)
					if !isCall || cl.Common().StaticCallee() == nil {
						continue
					}
					n := core.FuncName(cl.Common().StaticCallee())
					if strings.HasPrefix(n, "hash/") || strings.HasPrefix(n, "crypto/sha") || strings.HasPrefix(n, "crypto/md5") || strings.HasPrefix(n, "(*hash/") || strings.HasPrefix(n, "(hash/") {
						for _, ha := range cl.Common().Args {
							for w := range dataSlice(pm, ha) {
								if c2, isC2 := w.(*ssa.Call); isC2 && c2.Common().StaticCallee() != nil && core.FuncName(c2.Common().StaticCallee()) == "(packet.Frame).Payload" {
									byContent = true
								}
							}
						}
					}
				}
			}
			st := core.Proved
			if !byContent {
				st = core.Violated
			}
			r.Add(core.Obligation{Rule: "mdns-dedupe", Key: strings.TrimSuffix(kgm.Key("mdns-dedupe "+core.CalleeName(site)), "#0"), Func: core.FuncName(pm), Pos: c.P.Pos(core.PosOf(site.(ssa.Instruction))), Status: st,
				Basis: "a key argument is a digest of frame.Payload()", Detail: "the duplicate cache is consulted with the sender and the DNS ID only: mDNS responses carry ID 0, so after one response from a station every different response from it is dropped for five minutes (alpha.local answered, then beta.local from the same MAC: no name extracted)"})
		}
	}
	// every record that passes the length tests reaches the dispatch on its type: no path from the record-length test to
	// the next iteration avoids the comparisons of the type field (a filter on class, TTL or anything else in between drops
	// well-formed records - mDNS sets the top bit of the class on the records a responder owns)
	// ProcessNBNS goes through all the answer records: inside the loop it returns without an error only with a name in
	// hand (a return after the first node status record, name or not, misses the unique name carried by a later record)
	r.Rule("nbns-all-records", "ProcessNBNS stops at an answer record only when it found a name", 1)
	if fn := c.P.Method("handlers/dns_naming", "DNSHandler", "ProcessNBNS"); fn != nil {
		n := 0
		core.EachInstr(fn, func(i ssa.Instruction) {
			ret, ok := i.(*ssa.Return)
			if !ok || len(ret.Results) != 2 {
				return
			}
			if cst, isC := ret.Results[1].(*ssa.Const); !isC || !cst.IsNil() {
				return
			}
			gs := guardsOf(i)
			if !hasGuard(gs, `AnswerHeader\(local\(p\)\)#1==nil\)$`) {
				return // not inside the answer loop
			}
			n++
			st, det := core.Proved, ""
			if !hasGuard(gs, `^\(len\(.*\)>0\)$`) {
				st = core.Violated
				det = "ProcessNBNS returns without an error from inside the answer loop although no name was found (conditions: no len(table) > 0): the records that follow, one of which may carry the unique name, are not read"
			}
			r.Add(core.Obligation{Rule: "nbns-all-records", Key: fmt.Sprintf("nbns-all-records ProcessNBNS return %d", n), Func: core.FuncName(fn), Pos: c.P.Pos(core.PosOf(i)), Status: st,
				Basis: "a nil-error return inside the answer loop is under len(table) > 0", Detail: det})
		})
		if n == 0 {
			r.Add(core.Obligation{Rule: "nbns-all-records", Key: "nbns-all-records ProcessNBNS", Func: core.FuncName(fn), Status: core.Undecided, Detail: "no nil-error return inside the answer loop found"})
		}
	}
	// the group bit of an NBNS name entry is the top bit of the first flags octet (RFC 1002 4.2.18: NAME_FLAGS is a 16-bit
	// field in network order): the value tested with 0x8000 in parseNodeNameArray is binary.BigEndian.Uint16 of the two
	// octets behind the name, or is assembled with the first of them shifted left by eight
	r.Rule("nbns-flags", "the NBNS group bit is read from the first flags octet", 1)
	if fn := c.P.Func("handlers/dns_naming", "parseNodeNameArray"); fn != nil {
		n := 0
		core.EachInstr(fn, func(i ssa.Instruction) {
			bo, ok := i.(*ssa.BinOp)
			if !ok || bo.Op != token.AND {
				return
			}
			var flags ssa.Value
			for k, side := range []ssa.Value{bo.X, bo.Y} {
				if cst, isC := side.(*ssa.Const); isC && cst.Value != nil && cst.Value.String() == "32768" {
					flags = []ssa.Value{bo.Y, bo.X}[k]
				}
			}
			if flags == nil {
				return
			}
			n++
			st, det := core.Violated, "the value tested for the group bit is "+norm(flags)+": not the big-endian reading of the two flags octets, so the bit tested is not the G bit of the entry (group names such as WORKGROUP are taken for the host's name)"
			switch t := flags.(type) {
			case *ssa.Call:
				// which two octets are read is the decoder's layout (16 name octets, then the flags), fixed by the record-loop
				// rule; here: the reading is big-endian
				if cal := t.Call.StaticCallee(); cal != nil && cal.String() == "(encoding/binary.bigEndian).Uint16" {
					st, det = core.Proved, ""
				}
			case *ssa.BinOp:
				if t.Op == token.OR || t.Op == token.ADD {
					for _, side := range []ssa.Value{t.X, t.Y} {
						// the octet shifted into the high half is the first of the two (offset 16 of the entry)
						if sh, isSh := side.(*ssa.BinOp); isSh && sh.Op == token.SHL && norm(sh.Y) == "8" && regexp.MustCompile(`(\+16\)\]|\[16\])$`).MatchString(norm(sh.X)) {
							st, det = core.Proved, ""
						}
					}
				}
			}
			r.Add(core.Obligation{Rule: "nbns-flags", Key: "nbns-flags parseNodeNameArray", Func: core.FuncName(fn), Pos: c.P.Pos(core.PosOf(i)), Status: st,
				Basis: "flags = BigEndian.Uint16(b[index+16:index+18]) (or b[index+16]<<8 | b[index+17])", Detail: det})
		})
		if n == 0 {
			r.Add(core.Obligation{Rule: "nbns-flags", Key: "nbns-flags parseNodeNameArray", Func: core.FuncName(fn), Status: core.Undecided, Detail: "no test of the group bit (& 0x8000) found"})
		}
	}
	// a message that cannot be decoded is refused: in the entry points of the naming handler and in the DNS decoder no
	// error returned by a function of the module is dropped (compared with nil and passed over, or ignored) - a truncated
	// NBNS node name array was read as "no name, no error"
	r.Rule("decode-errors", "the naming handler's entry points and the DNS decoder drop no error of a module function", 4)
	{
		kge := core.NewKeyGen()
		nfn := 0
		for _, fn := range c.P.ModuleFunctions() {
			if fn.Pkg == nil {
				continue
			}
			inScope := false
			switch {
			case fn.Pkg.Pkg.Name() == "dns_naming" && strings.HasPrefix(fn.Name(), "Process") && fn.Signature.Recv() != nil:
				inScope = true
			case fn.Pkg.Pkg.Name() == "dns_naming" && (strings.HasPrefix(fn.Name(), "process") || strings.HasPrefix(fn.Name(), "parse") || strings.HasPrefix(fn.Name(), "decode")):
				inScope = true
			case fn.Pkg.Pkg.Path() == core.ModPath && strings.HasSuffix(c.P.Pos(fn.Pos()), "") && strings.Contains(c.P.Pos(fn.Pos()), "layer_dns.go"):
				inScope = true
			}
			if !inScope {
				continue
			}
			nfn++
			var bad []string
			for _, call := range droppedErrors(fn, core.InModule) {
				if strings.Contains(shortCallee(call), "fastlog") {
					continue
				}
				bad = append(bad, shortCallee(call)+" at "+c.P.Pos(core.PosOf(call.(ssa.Instruction))))
			}
			st, det := core.Proved, ""
			if len(bad) > 0 {
				st = core.Violated
				det = core.FuncName(fn) + " does not hand on the error of " + strings.Join(bad, ", ") + ": a record that the decoder refuses (truncated, malformed) is accepted as if nothing had been there"
			}
			r.Add(core.Obligation{Rule: "decode-errors", Key: strings.TrimSuffix(kge.Key("decode-errors "+core.FuncName(fn)), "#0"), Func: core.FuncName(fn), Pos: c.P.Pos(fn.Pos()), Status: st,
				Basis: "every error result of a module callee flows to a return of the function", Detail: det})
		}
		_ = nfn
	}
	// a name that is known is not erased: every store into a NameEntry field of a MAC entry or host holds the first result
	// of NameEntry.Merge (SetDHCPv4IPOffer assigned the name of the DISCOVER as it came - a DISCOVER without a host name
	// erased the name learned before)
	r.Rule("name-stores", "every store into a NameEntry field of a host or MAC entry is the result of Merge", 6)
	{
		kgn := core.NewKeyGen()
		for _, fn := range c.P.ModuleFunctions() {
			core.EachInstr(fn, func(i ssa.Instruction) {
				st, ok := i.(*ssa.Store)
				if !ok {
					return
				}
				fa, ok := st.Addr.(*ssa.FieldAddr)
				if !ok {
					return
				}
				owner := fieldOwner(fa)
				if !(strings.HasPrefix(owner, "packet.MACEntry.") || strings.HasPrefix(owner, "packet.Host.")) || !strings.HasSuffix(st.Val.Type().String(), "packet.NameEntry") {
					return
				}
				if al, isAl := fa.X.(*ssa.Alloc); isAl && al.Comment == "complit" {
					return
				}
				status, det := core.Violated, core.FuncName(fn)+" stores "+norm(st.Val)+" into "+owner+" as it came: an entry without a name erases the name that was known"
				v := st.Val
				if ex, isE := v.(*ssa.Extract); isE && ex.Index == 0 {
					if call, isC := ex.Tuple.(*ssa.Call); isC && call.Call.StaticCallee() != nil && call.Call.StaticCallee().String() == "("+core.ModPath+".NameEntry).Merge" {
						status, det = core.Proved, ""
					}
				}
				// the merged value carried through a local (newEntry, modified := old.Merge(e); field = newEntry)
				if status != core.Proved {
					for w := range dataSlice(fn, v) {
						if call, isC := w.(*ssa.Call); isC && call.Call.StaticCallee() != nil && call.Call.StaticCallee().String() == "("+core.ModPath+".NameEntry).Merge" {
							status, det = core.Proved, ""
						}
					}
				}
				r.Add(core.Obligation{Rule: "name-stores", Key: strings.TrimSuffix(kgn.Key("name-stores "+core.FuncName(fn)+" "+owner), "#0"), Func: core.FuncName(fn), Pos: c.P.Pos(core.PosOf(i)), Status: status,
					Basis: "value = first result of NameEntry.Merge", Detail: det})
			})
		}
	}
	// "already known?" is asked about the record that is about to be stored: where decodeRRs inserts into one of its record
	// maps under the false branch of a look-up in the same map, the inserted key derives from the key that was looked up
	// (a look-up under the question name and an insert under the owner name keeps only the first alias of a CNAME chain)
	r.Rule("lookup-insert", "a record is inserted under the key whose absence was tested", 4)
	if fn := c.P.Method("", "DNSEntry", "decodeRRs"); fn != nil {
		kgl := core.NewKeyGen()
		core.EachInstr(fn, func(i ssa.Instruction) {
			mu, ok := i.(*ssa.MapUpdate)
			if !ok || !strings.HasPrefix(norm(mu.Map), "recv.") {
				return
			}
			var tested []ssa.Value
			for _, g := range guardsOf(i) {
				ex, isE := g.Cond.(*ssa.Extract)
				if !isE || ex.Index != 1 || g.Pol {
					continue
				}
				if lk, isL := ex.Tuple.(*ssa.Lookup); isL && norm(lk.X) == norm(mu.Map) {
					tested = append(tested, lk.Index)
				}
			}
			if len(tested) == 0 {
				return
			}
			agree := false
			for _, tk := range tested {
				if tk == mu.Key || norm(tk) == norm(mu.Key) || dataSlice(fn, mu.Key)[tk] {
					agree = true
				}
			}
			st, det := core.Proved, ""
			if !agree {
				st = core.Violated
				det = "decodeRRs inserts into " + norm(mu.Map) + " under " + norm(mu.Key) + " after testing the absence of " + norm(tested[0]) + ": records whose key differs from the tested one are dropped once the tested key is present"
			}
			r.Add(core.Obligation{Rule: "lookup-insert", Key: strings.TrimSuffix(kgl.Key("lookup-insert decodeRRs "+norm(mu.Map)), "#0"), Func: core.FuncName(fn), Pos: c.P.Pos(core.PosOf(i)), Status: st,
				Basis: "inserted key derives from the looked-up key", Detail: det})
		})
	}
	// an address record is stored under the address its rdata holds: the key of IP4Records / IP6Records is what
	// netip.AddrFromSlice (AddrFrom4 / AddrFrom16) made of the rdata bytes, with no further conversion (Unmap turns the
	// well-formed AAAA ::ffff:192.0.2.7 into an IPv4 address in the AAAA table)
	r.Rule("rdata-verbatim", "A and AAAA records are keyed by the address decoded from their rdata, unconverted", 2)
	if fn := c.P.Method("", "DNSEntry", "decodeRRs"); fn != nil {
		n := 0
		core.EachInstr(fn, func(i ssa.Instruction) {
			mu, ok := i.(*ssa.MapUpdate)
			if !ok || !(strings.HasSuffix(norm(mu.Map), ".IP4Records") || strings.HasSuffix(norm(mu.Map), ".IP6Records")) {
				return
			}
			n++
			key := mu.Key
			if ex, isE := key.(*ssa.Extract); isE {
				key = ex.Tuple
			}
			st, det := core.Violated, "the key of "+norm(mu.Map)+" is "+norm(mu.Key)+", not the address netip made of the rdata bytes: the record is stored under a converted address and no longer equals what a reference decoder reads"
			if call, isC := key.(*ssa.Call); isC && call.Call.StaticCallee() != nil {
				switch call.Call.StaticCallee().String() {
				case "net/netip.AddrFromSlice", "net/netip.AddrFrom4", "net/netip.AddrFrom16":
					if strings.Contains(norm(call.Call.Args[0]), "arg1[") {
						st, det = core.Proved, ""
					}
				}
			}
			r.Add(core.Obligation{Rule: "rdata-verbatim", Key: "rdata-verbatim decodeRRs " + norm(mu.Map), Func: core.FuncName(fn), Pos: c.P.Pos(core.PosOf(i)), Status: st,
				Basis: "key = netip.AddrFromSlice(rdata bytes of the message)", Detail: det})
		})
		if n == 0 {
			r.Add(core.Obligation{Rule: "rdata-verbatim", Key: "rdata-verbatim decodeRRs", Func: core.FuncName(fn), Status: core.Undecided, Detail: "no store into IP4Records / IP6Records found in decodeRRs"})
		}
	}
	// the change flag of the answer decoder accumulates over the records of one message: once a record has set it, no
	// later record takes it back (a message whose first record is new and whose last is already known is a change)
	r.Rule("change-flag", "the change flag of the record loop is monotone: set by any record, reset by none", 1)
	if fn := c.P.Method("", "DNSEntry", "decodeRRs"); fn != nil {
		flags := loopFlags(fn)
		for _, lf := range flags {
			st, det := core.Proved, ""
			if !lf.Monotone {
				st = core.Violated
				det = "decodeRRs assigns " + lf.Why + " to its loop-carried flag " + lf.Phi.Comment + " on a path where the flag may already be true: a record that is already known erases the change reported by an earlier record of the same message"
			}
			r.Add(core.Obligation{Rule: "change-flag", Key: "change-flag decodeRRs " + lf.Phi.Comment, Func: core.FuncName(fn), Pos: c.P.Pos(lf.Phi.Pos()), Status: st,
				Basis: "every value coming round the record loop is the flag itself, true, or assigned only while the flag is false", Detail: det})
		}
		if len(flags) == 0 {
			r.Add(core.Obligation{Rule: "change-flag", Key: "change-flag decodeRRs", Func: core.FuncName(fn), Pos: c.P.Pos(fn.Pos()), Status: core.Undecided, Detail: "decodeRRs has no loop-carried boolean: the way it reports a change was not recognised"})
		}
	}
	r.Rule("dispatch", "every record that passes the length tests reaches the dispatch on its type", 1)
	if fn := c.P.Method("", "DNSEntry", "decodeRRs"); fn != nil {
		var typ ssa.Value
		core.EachInstr(fn, func(i ssa.Instruction) {
			if bo, ok := i.(*ssa.BinOp); ok && bo.Op == token.EQL {
				if k, isC := bo.Y.(*ssa.Const); isC && k.Value != nil && k.Int64() == 28 {
					typ = bo.X
				}
			}
		})
		isDispatch := func(i ssa.Instruction) bool {
			bo, ok := i.(*ssa.BinOp)
			return ok && typ != nil && bo.X == typ
		}
		st, det := core.Undecided, "the type dispatch or the record loop of decodeRRs was not recognised"
		if typ != nil {
			for _, l := range core.CFG(fn).Loops() {
				// the last length test inside the loop: an If on "...>len(arg1)" that dominates the dispatch
				var gate *ssa.If
				core.EachInstr(fn, func(i ssa.Instruction) {
					iff, ok := i.(*ssa.If)
					if !ok || !l.Blocks[iff.Block()] {
						return
					}
					if strings.HasSuffix(norm(iff.Cond), ">len(arg1))") {
						gate = iff // blocks are visited in order: the last length test of the loop body
					}
				})
				if gate == nil || len(l.Head.Instrs) == 0 {
					continue
				}
				pass := gate.Block().Succs[1] // the test holds on Succs[0] (the refusal)
				st, det = core.Proved, ""
				if len(pass.Instrs) > 0 {
					first := pass.Instrs[0]
					if !isDispatch(first) && reachesWithout(first, l.Head.Instrs[0], isDispatch) {
						st = core.Violated
						det = "decodeRRs can go from the record-length test at " + c.P.Pos(core.PosOf(gate)) + " to the next record without comparing the record type: records are skipped by something other than their type"
					}
				}
			}
		}
		r.Add(core.Obligation{Rule: "dispatch", Key: "dispatch decodeRRs", Func: core.FuncName(fn), Pos: c.P.Pos(fn.Pos()), Status: st,
			Basis: "no path from the last record-length test to the loop head avoids the type comparisons", Detail: det})
	}
	r.Rule("record-loop", "loops over record arrays read every field relative to the loop counter", 10)
	runRecordLoops(c, []string{"layer_dns.go", "handlers/dns_naming/nbns.go", "handlers/dns_naming/mdns.go", "handlers/dns_naming/dns.go", "handlers/dns_naming/llmnr.go", "handlers/dns_naming/ssdp.go"}, "record-loop")

	// decoded names live in the caller's scratch buffer: they are consumed before the scratch is decoded into again
	r.Rule("scratch-live", "a decoded name is not used after its scratch buffer has been handed to another decode", 3)
	sa := newScratchAnalysis(c)
	r.Extra["scratch_summaries"] = sa.describe()
	pairN := map[string]int{}
	for _, f := range sa.check() {
		key := fmt.Sprintf("scratch-live %s %s then %s", core.FuncName(f.Fn), shortCallee(f.View), shortCallee(f.Clobber))
		pairN[key]++
		if n := pairN[key]; n > 1 {
			key = fmt.Sprintf("%s #%d", key, n)
		}
		st := core.Proved
		det := ""
		pos := core.PosOf(f.Clobber.(ssa.Instruction))
		if f.Use != nil {
			st = core.Violated
			pos = core.PosOf(f.Use)
			det = fmt.Sprintf("the value decoded by %s at %s lives in the scratch buffer that %s at %s overwrites, and it is still used afterwards (%d use(s), first at %s): the stored name is the later name's bytes",
				shortCallee(f.View), c.P.Pos(core.PosOf(f.View.(ssa.Instruction))), shortCallee(f.Clobber), c.P.Pos(core.PosOf(f.Clobber.(ssa.Instruction))), f.UseCount, c.P.Pos(core.PosOf(f.Use)))
		}
		r.Add(core.Obligation{Rule: "scratch-live", Key: key, Func: core.FuncName(f.Fn), Pos: c.P.Pos(pos), Status: st,
			Basis: "no use of the earlier decoded name is reachable from the later decode into the same scratch", Detail: det})
	}

}
