package props

import (
	"fmt"
	"go/constant"
	"go/token"
	"go/types"
	"regexp"
	"strings"

	"golang.org/x/tools/go/ssa"

	"pv/core"
)

func init() {
	register("C11", "other", runC11)
	register("C12", "other", runC12)
}

const dhcpRel = "handlers/dhcp4_spoofer"

// shortLease abbreviates the lease expression of handleRequest in guard texts.
func shortLease(s string) string {
	// whatever the arguments of the lookup are spelled like
	return leaseCallRe.ReplaceAllString(s, "LEASE")
}

// shortLeaseD: the lease of handleDiscover in short form.
func shortLeaseD(s string) string {
	return leaseCallRe.ReplaceAllString(s, "LEASE")
}

var leaseCallRe = regexp.MustCompile(`\(dhcp4_spoofer\.Handler\)\.findOrCreate\(recv,[^()]*(\([^()]*(\([^()]*\)[^()]*)*\)[^()]*)*\)`)

func runC11(c *Ctx) {
	r := c.R
	r.Explanation = "Structural conditions of DHCP address uniqueness and reserved-address protection, decided on the CFG of handlers/dhcp4_spoofer. (offer) every assignment of an address to Lease.IPOffer in allocIPOffer is dominated by: the lease table has no entry for it, or a free one, or (requested address only) the client's own; the session tracks no host with it; and it is a usable host address of the lease's subnet — " +
		"for the requested address LAN.Contains, not the network address, not the broadcast address; for the sequential search the cursor idiom nextIP < broadcast starting at FirstIP. " +
		"(ack) the acknowledgement section of handleRequest is entered from each operation arm only with the lease in state Discover or Allocated established by a dominating test, the address acknowledged is lease.Addr.IP, taken from IPOffer only on the Discover path, and the refusal condition of the selecting arm contains the hardware, transaction-id, offered-address and leased-address mismatches. " +
		"(free) DECLINE frees a lease only when server id, address and hardware address match; expiry frees by DHCPExpiry. (interleavings, two clauses) an address on offer to two clients is acknowledged once: findByIP sees outstanding offers or the commit of an offer is preceded by findByIP(lease.IPOffer) and a NAK when another lease holds it; handleDiscover keeps an old IPOffer only for an outstanding offer (or every site that frees a lease clears it). Not decided: uniqueness over arbitrary interleavings beyond these clauses, timing."
	r.Rule("offer", "addresses are offered only if free in the lease table, unknown to the session, not reserved and inside the subnet", 19)
	r.Rule("ack", "acknowledgements require an outstanding offer or lease of the same client, address and transaction", 12)
	r.Rule("free", "leases are freed only by their owner's DECLINE or by expiry", 4)

	alloc := c.P.Method(dhcpRel, "Handler", "allocIPOffer")
	if alloc == nil {
		r.Fatal("allocIPOffer not found")
		return
	}
	// the broadcast address the offer guards compare with is computed from the prefix length bit by bit: the value stored
	// in dhcpSubnet.broadcast depends, as data, on the subnet's address and on Prefix.Bits (a value whose host part is set
	// in whole bytes under a loop counted by the prefix length has only a control dependence on it)
	if ns := c.P.Func(dhcpRel, "newSubnet"); ns != nil {
		found := false
		core.EachInstr(ns, func(i ssa.Instruction) {
			s, ok := i.(*ssa.Store)
			if !ok {
				return
			}
			fa, isFA := s.Addr.(*ssa.FieldAddr)
			if !isFA || fieldOwner(fa) != "dhcp4_spoofer.dhcpSubnet.broadcast" {
				return
			}
			found = true
			bits, addr := false, false
			for v := range dataSlice(ns, s.Val) {
				if call, isCall := v.(*ssa.Call); isCall {
					if cal := call.Common().StaticCallee(); cal != nil {
						switch core.FuncName(cal) {
						case "(net/netip.Prefix).Bits", "net.CIDRMask":
							bits = true
						case "(net/netip.Prefix).Addr":
							addr = true
						}
					}
				}
			}
			st := core.Proved
			if !bits || !addr {
				st = core.Violated
			}
			r.Add(core.Obligation{Rule: "offer", Key: "offer newSubnet broadcast address computed from address and prefix length", Func: core.FuncName(ns), Pos: c.P.Pos(core.PosOf(i)), Status: st,
				Basis: "data slice of the stored value contains Prefix.Addr and Prefix.Bits/CIDRMask", Detail: fmt.Sprintf("the value stored in dhcpSubnet.broadcast has data dependence on the subnet address: %v, on the prefix length: %v; a broadcast address that does not depend on the prefix length bit by bit is wrong for prefix lengths that are not a multiple of 8, and the offer guard 'not the broadcast address' then protects the wrong address", addr, bits)})
		})
		if !found {
			r.Add(core.Obligation{Rule: "offer", Key: "offer newSubnet broadcast address computed from address and prefix length", Func: core.FuncName(ns), Status: core.Undecided, Detail: "no store to dhcpSubnet.broadcast in newSubnet"})
		}
	} else {
		r.Fatal("newSubnet not found")
	}
	// what "reserved" means: the helper the guards call compares the candidate with the router's and with our own address
	if rs := c.P.Method(dhcpRel, "Handler", "reserved"); rs != nil {
		router, own := false, false
		core.EachInstr(rs, func(i ssa.Instruction) {
			if bo, ok := i.(*ssa.BinOp); ok && bo.Op == token.EQL {
				t := norm(bo.X) + " " + norm(bo.Y)
				if strings.Contains(t, "NICInfo.RouterAddr4.IP") && strings.Contains(t, "arg0") {
					router = true
				}
				if strings.Contains(t, "NICInfo.HostAddr4.IP") && strings.Contains(t, "arg0") {
					own = true
				}
			}
		})
		st := core.Proved
		if !router || !own {
			st = core.Violated
		}
		r.Add(core.Obligation{Rule: "offer", Key: "offer reserved addresses are the router's and our own", Func: core.FuncName(rs), Pos: c.P.Pos(rs.Pos()), Status: st,
			Basis: "reserved(ip) compares ip with NICInfo.RouterAddr4.IP and NICInfo.HostAddr4.IP", Detail: fmt.Sprintf("reserved() compares with the router's address: %v, with our own: %v", router, own)})
	} else {
		r.Add(core.Obligation{Rule: "offer", Key: "offer reserved addresses are the router's and our own", Func: "-", Status: core.Violated,
			Detail: "allocIPOffer has no test that keeps the router's and our own address out of the offers other than the session's host table, whose entry for a router that stays silent is purged like any other host's: a DISCOVER asking for the router's address is then offered it"})
	}
	nReq, nSeq := 0, 0
	core.EachInstr(alloc, func(i ssa.Instruction) {
		s, ok := i.(*ssa.Store)
		if !ok || norm(s.Addr) != "arg0.IPOffer" {
			return
		}
		switch v := s.Val.(type) {
		case *ssa.Parameter:
			nReq++
			requireGuards(c, "offer", "allocIPOffer requested address", i, []guardReq{
				{"IPv4", `^\(net/netip\.Addr\)\.Is4\(arg1\)$`},
				{"inside the lease's subnet", `^\(net/netip\.Prefix\)\.Contains\(arg0\.subnet\.SubnetConfig\.LAN,arg1\)$`},
				{"not the network address", `^!\(arg1==\(net/netip\.Prefix\)\.Addr\(arg0\.subnet\.SubnetConfig\.LAN\)\)$`},
				{"not the broadcast address", `^!\(arg1==arg0\.subnet\.broadcast\)$`},
				{"no host tracked by the session", `^\(\(packet\.Session\)\.FindIP\(recv\.session,arg1\)==nil\)$`},
				{"not the router's or our own address", `^!\(dhcp4_spoofer\.Handler\)\.reserved\(recv,arg1\)$`},
			})
			dnf := pathDNFDeep(i.Block())
			bad := []string{}
			for _, d := range dnf {
				switch {
				case strings.Contains(d, "findByIP(recv,arg1)==nil)") && !strings.Contains(d, "!((dhcp4_spoofer.Handler).findByIP(recv,arg1)==nil)"):
				case strings.Contains(d, "((dhcp4_spoofer.Handler).findByIP(recv,arg1).State==0)") && !strings.Contains(d, "!((dhcp4_spoofer.Handler).findByIP(recv,arg1).State==0)"):
				case strings.Contains(d, "bytes.Equal((dhcp4_spoofer.Handler).findByIP(recv,arg1).ClientID,arg0.ClientID)") && !strings.Contains(d, "!bytes.Equal("):
				default:
					bad = append(bad, d)
				}
			}
			st := core.Proved
			if len(dnf) == 0 || len(bad) > 0 {
				st = core.Violated
			}
			r.Add(core.Obligation{Rule: "offer", Key: "offer allocIPOffer requested address is free in the lease table", Func: core.FuncName(alloc), Pos: c.P.Pos(core.PosOf(i)), Status: st,
				Basis: "every path: no lease | free lease | the client's own lease", Detail: "paths reaching the assignment without that: " + strings.Join(bad, "  |  ")})
		case *ssa.Phi:
			_ = v
			nSeq++
		}
	})
	// sequential search: the cursor value is taken under the three conditions
	core.EachInstr(alloc, func(i ssa.Instruction) {
		phi, ok := i.(*ssa.Phi)
		if !ok || !strings.HasSuffix(phi.Type().String(), "netip.Addr") {
			return
		}
		for k, e := range phi.Edges {
			if norm(e) != "arg0.subnet.nextIP" {
				continue
			}
			pred := phi.Block().Preds[k]
			last := pred.Instrs[len(pred.Instrs)-1]
			key := fmt.Sprintf("allocIPOffer cursor pick #%d", phi.Block().Index)
			requireGuards(c, "offer", key, last, []guardReq{
				{"below the broadcast address", `^\(net/netip\.Addr\)\.Less\(arg0\.subnet\.nextIP,arg0\.subnet\.broadcast\)$`},
				{"no host tracked by the session", `^\(\(packet\.Session\)\.FindIP\(recv\.session,arg0\.subnet\.nextIP\)==nil\)$`},
				{"not the router's or our own address", `^!\(dhcp4_spoofer\.Handler\)\.reserved\(recv,arg0\.subnet\.nextIP\)$`},
			})
			// the cursor moves past the address just picked before the search is left: an outstanding offer is recorded
			// nowhere else, so the next client's search must start behind it
			{
				var pick ssa.Instruction
				for _, pi := range pred.Instrs {
					if v, ok := pi.(ssa.Value); ok && v == e {
						pick = pi
					}
				}
				adv := func(j ssa.Instruction) bool {
					st, ok := j.(*ssa.Store)
					return ok && norm(st.Addr) == "arg0.subnet.nextIP" && norm(st.Val) == "(net/netip.Addr).Next(arg0.subnet.nextIP)"
				}
				stA := core.Proved
				if pick == nil || len(phi.Block().Instrs) == 0 || reachesWithout(pick, phi.Block().Instrs[len(phi.Block().Instrs)-1], adv) {
					stA = core.Violated
				}
				r.Add(core.Obligation{Rule: "offer", Key: "offer " + key + " advances the cursor", Func: core.FuncName(alloc), Pos: c.P.Pos(core.PosOf(last)), Status: stA,
					Basis: "nextIP = nextIP.Next() on every path from the pick to the end of the search", Detail: "the allocation cursor is left on the address just offered: the next client's search starts at the same address, which no table records as taken until it is acknowledged"})
			}
			dnf := pathDNFDeep(pred)
			bad := []string{}
			for _, d := range dnf {
				free := (strings.Contains(d, "findByIP(recv,arg0.subnet.nextIP)==nil)") && !strings.Contains(d, "!((dhcp4_spoofer.Handler).findByIP(recv,arg0.subnet.nextIP)==nil)")) ||
					(strings.Contains(d, "findByIP(recv,arg0.subnet.nextIP).State==0)") && !strings.Contains(d, "!((dhcp4_spoofer.Handler).findByIP(recv,arg0.subnet.nextIP).State==0)"))
				if !free {
					bad = append(bad, d)
				}
			}
			st := core.Proved
			if len(dnf) == 0 || len(bad) > 0 {
				st = core.Violated
			}
			r.Add(core.Obligation{Rule: "offer", Key: "offer " + key + " is free in the lease table", Func: core.FuncName(alloc), Pos: c.P.Pos(core.PosOf(last)), Status: st,
				Basis: "every path: no lease | free lease", Detail: "paths picking the cursor address without that: " + strings.Join(bad, "  |  ")})
		}
	})
	// the cursor restarts at FirstIP only
	core.EachInstr(alloc, func(i ssa.Instruction) {
		s, ok := i.(*ssa.Store)
		if !ok || norm(s.Addr) != "arg0.subnet.nextIP" {
			return
		}
		v := norm(s.Val)
		st := core.Proved
		if v != "(net/netip.Addr).Next(arg0.subnet.nextIP)" && v != "arg0.subnet.SubnetConfig.FirstIP" {
			st = core.Violated
		}
		r.Add(core.Obligation{Rule: "offer", Key: fmt.Sprintf("offer allocIPOffer cursor update %s", c.P.Pos(core.PosOf(i))[strings.LastIndex(c.P.Pos(core.PosOf(i)), "/")+1:]), Func: core.FuncName(alloc), Pos: c.P.Pos(core.PosOf(i)), Status: st,
			Basis: "cursor = cursor.Next() | FirstIP", Detail: "the allocation cursor is set to " + v})
	})
	if nReq != 1 || nSeq != 2 {
		r.Add(core.Obligation{Rule: "offer", Key: "offer allocIPOffer assignment sites", Func: core.FuncName(alloc), Status: core.Violated, Detail: fmt.Sprintf("expected 1 requested-address and 2 sequential assignments of IPOffer, found %d and %d", nReq, nSeq)})
	}

	// ---- ack ----
	hr := c.P.Method(dhcpRel, "Handler", "handleRequest")
	if hr != nil {
		var join *ssa.BasicBlock
		var ackCall ssa.CallInstruction
		// the acknowledgement section starts at the join after the operation switch
		join = ackJoin(hr)
		for _, s := range callsIn(hr, nameIs("EncodeDHCP4")) {
			if len(s.Common().Args) > 2 && norm(s.Common().Args[2]) == "5" {
				ackCall = s
			}
		}
		if join == nil || ackCall == nil {
			r.Add(core.Obligation{Rule: "ack", Key: "ack section", Func: core.FuncName(hr), Status: core.Violated, Detail: "the acknowledgement section of handleRequest was not found"})
		} else {
			for k, p := range join.Preds {
				gs := guardsOf(p.Instrs[len(p.Instrs)-1])
				var txt []string
				okState := false
				for _, g := range gs {
					t := shortLease(g.Text)
					txt = append(txt, t)
					if t == "(LEASE.State==2)" || t == "(LEASE.State==1)" || t == "!(LEASE.State==0)" {
						okState = true
					}
				}
				st := core.Proved
				if !okState {
					st = core.Violated
				}
				r.Add(core.Obligation{Rule: "ack", Key: fmt.Sprintf("ack section entry %d has an offer or lease", k+1), Func: core.FuncName(hr), Pos: c.P.Pos(core.PosOf(p.Instrs[len(p.Instrs)-1])), Status: st,
					Basis: "entered under a test establishing State != Free", Detail: "the acknowledgement section can be entered with the lease in state Free (nothing offered, nothing leased): " + strings.Join(txt, " && ")})
			}
			// the last clause of C11 ("never acknowledges an address the session currently tracks for a different MAC"):
			// from every entry of the acknowledgement section, the ACK is reached only past a look-up of the address in
			// the session's host table
			{
				consults := func(j ssa.Instruction) bool {
					cj, ok := j.(ssa.CallInstruction)
					return ok && strings.HasSuffix(core.CalleeName(cj), "Session).FindIP")
				}
				st, det := core.Proved, ""
				if len(hr.Blocks) > 0 && reachesWithout(hr.Blocks[0].Instrs[0], ackCall.(ssa.Instruction), consults) {
					st = core.Violated
					det = "the ACK is reached without a look-up of the address in the session's host table (only the commit of a new offer looks): a lease that is being confirmed (renewal, INIT-REBOOT, repeated select) is acknowledged although a frame from another station has meanwhile made the session track the address for that station's MAC"
				}
				r.Add(core.Obligation{Rule: "ack", Key: "ack every acknowledgement consults the session's host table", Func: core.FuncName(hr), Pos: c.P.Pos(core.PosOf(ackCall.(ssa.Instruction))), Status: st,
					Basis: "session.FindIP on every path to the ACK", Detail: det})
			}
			yi := shortLease(norm(ackCall.Common().Args[5]))
			st := core.Proved
			if yi != "LEASE.Addr.IP" {
				st = core.Violated
			}
			r.Add(core.Obligation{Rule: "ack", Key: "ack acknowledges lease.Addr.IP", Func: core.FuncName(hr), Pos: c.P.Pos(core.PosOf(ackCall.(ssa.Instruction))), Status: st, Basis: "yiaddr = lease.Addr.IP", Detail: "the ACK carries " + yi})
			// every acknowledgement renews the lease: on every path to the ACK the expiry is set to now + the subnet's
			// duration and the state to Allocated (a renewal acknowledged without that runs out while the client holds
			// the address, which is then free for the next client)
			if len(hr.Blocks) > 0 && len(hr.Blocks[0].Instrs) > 0 {
				first := hr.Blocks[0].Instrs[0]
				renew := func(i ssa.Instruction) bool {
					s, ok := i.(*ssa.Store)
					if !ok {
						return false
					}
					fa, ok := s.Addr.(*ssa.FieldAddr)
					if !ok || fieldOwner(fa) != "dhcp4_spoofer.Lease.DHCPExpiry" {
						return false
					}
					v := norm(s.Val)
					return strings.Contains(v, "time.Now()") && strings.Contains(v, ".subnet.SubnetConfig.Duration")
				}
				alloc := func(i ssa.Instruction) bool {
					s, ok := i.(*ssa.Store)
					return ok && shortLease(norm(s.Addr)) == "LEASE.State" && norm(s.Val) == "2"
				}
				st := core.Proved
				if reachesWithout(first, ackCall.(ssa.Instruction), renew) || reachesWithout(first, ackCall.(ssa.Instruction), alloc) {
					st = core.Violated
				}
				r.Add(core.Obligation{Rule: "ack", Key: "ack every acknowledgement renews the lease", Func: core.FuncName(hr), Pos: c.P.Pos(core.PosOf(ackCall.(ssa.Instruction))), Status: st,
					Basis:  "every path to the ACK passes lease.DHCPExpiry = time.Now().Add(lease.subnet.Duration) and lease.State = StateAllocated",
					Detail: "some path reaches the ACK without setting the lease's expiry to now + the subnet's duration (or its state to Allocated): the client is told it holds the address for another lease time while the server's lease keeps its old expiry, is freed by the minute ticker and offered to the next client"})
			}
			// Addr.IP = IPOffer only under State == Discover
			core.EachInstr(hr, func(i ssa.Instruction) {
				s, ok := i.(*ssa.Store)
				if !ok || shortLease(norm(s.Addr)) != "LEASE.Addr.IP" {
					return
				}
				if shortLease(norm(s.Val)) != "LEASE.IPOffer" {
					return
				}
				ok2 := false
				for _, g := range guardsOf(i) {
					if shortLease(g.Text) == "(LEASE.State==1)" {
						ok2 = true
					}
				}
				st := core.Proved
				if !ok2 {
					st = core.Violated
				}
				r.Add(core.Obligation{Rule: "ack", Key: "ack offered address becomes the lease only from state Discover", Func: core.FuncName(hr), Pos: c.P.Pos(core.PosOf(i)), Status: st,
					Basis: "Addr.IP = IPOffer under State == Discover", Detail: "lease.Addr.IP is overwritten with IPOffer outside the Discover state"})
			})
			// the selecting arm's refusal: its block is reached by each mismatch
			for _, s := range callsIn(hr, nameIs("nakPacket")) {
				ins := s.(ssa.Instruction)
				gs := guardsOf(ins)
				isSel := false
				for _, g := range gs {
					if strings.HasSuffix(g.Text, "(φ==φ.SubnetConfig.DHCPServer)") && g.Pol {
						isSel = true
					}
				}
				if !isSel {
					continue
				}
				dnf := pathDNF(ins.Block())
				need := map[string]string{
					"hardware address mismatch":        "!bytes.Equal(LEASE.Addr.MAC,(packet.DHCP4).CHAddr(arg1))",
					"transaction id mismatch":          "!bytes.Equal(LEASE.XID,(packet.DHCP4).XId(arg1))",
					"offered address differs":          "(LEASE.IPOffer!=φ)",
					"leased address differs":           "(LEASE.Addr.IP!=φ)",
					"nothing offered or leased (Free)": "(LEASE.State==0)",
				}
				for what, atom := range need {
					found := false
					for _, d := range dnf {
						if strings.Contains(shortLease(d), atom) {
							found = true
						}
					}
					st := core.Proved
					if !found {
						st = core.Violated
					}
					r.Add(core.Obligation{Rule: "ack", Key: "ack selecting refuses on " + what, Func: core.FuncName(hr), Pos: c.P.Pos(core.PosOf(ins)), Status: st,
						Basis: "the refusal of the selecting arm is reached by " + atom, Detail: "the selecting arm does not refuse a request on: " + what})
				}
			}
		}
	}
	checkHolderLookup(c, "offer")
	// (free) a DECLINE frees the lease of the client that sent it: the lease whose state handleDecline sets to Free is
	// found through the sender's client identifier (findOrCreate(getClientID(..))), not through the declined address (a
	// look-up by address lets a second client identifier on the same hardware address free another client's binding)
	if hd := c.P.Method(dhcpRel, "Handler", "handleDecline"); hd != nil {
		n := 0
		core.EachInstr(hd, func(i ssa.Instruction) {
			st, ok := i.(*ssa.Store)
			if !ok {
				return
			}
			fa, ok := st.Addr.(*ssa.FieldAddr)
			if !ok || !strings.HasSuffix(fieldOwner(fa), "Lease.State") || norm(st.Val) != "0" {
				return
			}
			n++
			byID := false
			for w := range dataSlice(hd, fa.X) {
				if call, isC := w.(*ssa.Call); isC && call.Call.StaticCallee() != nil && call.Call.StaticCallee().Name() == "getClientID" {
					byID = true
				}
			}
			stt, det := core.Proved, ""
			if !byID {
				stt = core.Violated
				det = "handleDecline frees " + norm(fa.X) + ", which is not looked up through the sender's client identifier: a DECLINE naming an address frees whatever lease records that address, also another client's acknowledged binding"
			}
			r.Add(core.Obligation{Rule: "free", Key: "free handleDecline frees the sender's own lease", Func: core.FuncName(hd), Pos: c.P.Pos(core.PosOf(i)), Status: stt,
				Basis: "the freed lease derives from getClientID(p, options)", Detail: det})
		})
		if n == 0 {
			r.Add(core.Obligation{Rule: "free", Key: "free handleDecline frees the sender's own lease", Func: core.FuncName(hd), Status: core.Undecided, Detail: "no State = Free store in handleDecline"})
		}
	}
	// (offer) two clients never hold offers for one address: the lookup that allocIPOffer relies on sees outstanding
	// offers (IPOffer of a lease in state Discover), or the commit of an offer in handleRequest looks the address up again
	{
		fb := c.P.Method(dhcpRel, "Handler", "findByIP")
		seesOffers := false
		if fb != nil && len(fb.Params) == 2 {
			core.EachInstr(fb, func(i ssa.Instruction) {
				bo, ok := i.(*ssa.BinOp)
				if !ok || bo.Op != token.EQL {
					return
				}
				x, y := norm(bo.X), norm(bo.Y)
				if (strings.HasSuffix(x, ".IPOffer") && bo.Y == ssa.Value(fb.Params[1])) || (strings.HasSuffix(y, ".IPOffer") && bo.X == ssa.Value(fb.Params[1])) {
					seesOffers = true
				}
			})
		}
		recheck := false
		if hr := c.P.Method(dhcpRel, "Handler", "handleRequest"); hr != nil {
			core.EachInstr(hr, func(i ssa.Instruction) {
				st, ok := i.(*ssa.Store)
				if !ok || !strings.HasSuffix(shortLease(norm(st.Addr)), "LEASE.Addr.IP") || !strings.HasSuffix(shortLease(norm(st.Val)), "LEASE.IPOffer") {
					return
				}
				// a refusal that the commit cannot bypass: a NAK site guarded by "the address's holder is another lease in
				// state Allocated", where the holder was looked up with findByIP(lease.IPOffer) before the commit
				for _, nk := range callsIn(hr, nameIs("nakPacket")) {
					nki := nk.(ssa.Instruction)
					var lookup ssa.Value
					notSelf, allocated := false, false
					narrow := false
					_ = narrow
					for _, g := range guardsOf(nki) {
						t := shortLease(g.Text)
						if !strings.Contains(t, "findByIP(recv,LEASE.IPOffer)") {
							continue
						}
						switch {
						case strings.HasSuffix(t, ".State==0)") && !g.Pol:
							// the holder is any lease that is not free: an acknowledged client that discovers again is in
							// state Discover and still holds its address
							allocated = true
							if bo, ok := g.Cond.(*ssa.BinOp); ok {
								lookup = bo.X
							}
						case strings.HasSuffix(t, ".State==2)") && g.Pol:
							narrow = true
						case strings.HasSuffix(t, "==LEASE)") && !g.Pol:
							notSelf = true
						}
					}
					if !allocated || !notSelf || lookup == nil {
						continue
					}
					// the lookup precedes the commit on every path
					for _, fc := range callsIn(hr, nameIs("findByIP")) {
						if fc.(ssa.Instruction).Block().Dominates(i.Block()) {
							recheck = true
						}
					}
				}
			})
		}
		st := core.Proved
		if !seesOffers && !recheck {
			st = core.Violated
		}
		pos := ""
		if fb != nil {
			pos = c.P.Pos(fb.Pos())
		}
		r.Add(core.Obligation{Rule: "offer", Key: "offer outstanding offers are visible to the reservation lookup", Func: "(*dhcp4_spoofer.Handler).findByIP", Pos: pos, Status: st,
			Basis:  fmt.Sprintf("findByIP compares the candidate with Lease.IPOffer: %v; the commit of an offer re-checks with findByIP: %v", seesOffers, recheck),
			Detail: "findByIP matches Lease.Addr.IP only and the commit `lease.Addr.IP = lease.IPOffer` in handleRequest is not preceded by a refusal for 'another lease that is not free records the address' (a test for State == Allocated only misses a holder that is re-discovering): an address acknowledged to one client is acknowledged to a second one"})
	}
	// (ack) an offer is made only for an address the session tracks for nobody; by the time the client requests it another
	// station may have shown up with it. The commit of an offer looks the address up in the session's host table again and
	// refuses when a host with another MAC holds it.
	if hr := c.P.Method(dhcpRel, "Handler", "handleRequest"); hr != nil {
		core.EachInstr(hr, func(i ssa.Instruction) {
			st, ok := i.(*ssa.Store)
			if !ok || !strings.HasSuffix(shortLease(norm(st.Addr)), "LEASE.Addr.IP") || !strings.HasSuffix(shortLease(norm(st.Val)), "LEASE.IPOffer") {
				return
			}
			okS := false
			for _, nk := range callsIn(hr, nameIs("nakPacket")) {
				nki := nk.(ssa.Instruction)
				tracked, other := false, false
				for _, g := range guardsOf(nki) {
					t := shortLease(g.Text)
					if !strings.Contains(t, "FindIP(recv.session,LEASE.IPOffer)") {
						continue
					}
					if strings.HasSuffix(t, "==nil)") && !g.Pol {
						tracked = true
					}
					if strings.HasPrefix(t, "!bytes.Equal(") && strings.Contains(t, ".MAC") {
						other = true
					}
				}
				if !tracked || !other {
					continue
				}
				for _, fc := range callsIn(hr, nameIs("FindIP")) {
					if fc.(ssa.Instruction).Block().Dominates(i.Block()) {
						okS = true
					}
				}
			}
			s2 := core.Proved
			if !okS {
				s2 = core.Violated
			}
			r.Add(core.Obligation{Rule: "ack", Key: "ack the commit of an offer re-checks the session's host table", Func: core.FuncName(hr), Pos: c.P.Pos(core.PosOf(i)), Status: s2,
				Basis: "session.FindIP(lease.IPOffer) dominates the commit; a host with another MAC is refused with a NAK", Detail: "handleRequest commits lease.Addr.IP = lease.IPOffer without looking the address up in the session's host table again: a station that started using the address after the offer was made (a static address, say) is tracked for another MAC, and the address is acknowledged all the same"})
		})
	}
	// (ack) the session's host table is told "this client has this address" only where the request is honoured or left to
	// another server - never on the way to a NAK: a refused request for somebody else's address would otherwise re-bind
	// that address to the requester in the session, and the rightful holder's next renewal is acknowledged while the
	// session tracks the address for the other MAC
	if hr := c.P.Method(dhcpRel, "Handler", "handleRequest"); hr != nil {
		kgd := core.NewKeyGen()
		for _, site := range callsIn(hr, nameIs("DHCPv4Update")) {
			ins := site.(ssa.Instruction)
			st, det := core.Proved, ""
			for _, nk := range callsIn(hr, nameIs("nakPacket")) {
				if reachesWithout(ins, nk.(ssa.Instruction), func(ssa.Instruction) bool { return false }) {
					st = core.Violated
					det = "handleRequest calls session.DHCPv4Update at " + c.P.Pos(core.PosOf(ins)) + " and can still refuse the request with the NAK at " + c.P.Pos(core.PosOf(nk.(ssa.Instruction))) + ": the session re-binds the requested address to a client whose request is refused"
				}
			}
			r.Add(core.Obligation{Rule: "ack", Key: strings.TrimSuffix(kgd.Key("ack session update only on a path that does not end in a NAK"), "#0"), Func: core.FuncName(hr), Pos: c.P.Pos(core.PosOf(ins)), Status: st,
				Basis: "no nakPacket reachable from the DHCPv4Update call", Detail: det})
			// an update with an address other than the lease's own is a claim the client makes (a REQUEST to another
			// server): it does not take the address away, in the session, from the client that holds it by our own ACK -
			// the update is made only if the lease table has no lease for the address, this client's, or one not allocated
			if a := site.Common().Args; len(a) >= 3 && !strings.HasSuffix(shortLease(norm(a[2])), "LEASE.Addr.IP") {
				want := "(dhcp4_spoofer.Handler).findByIP(recv," + norm(a[2]) + ")"
				var bad []string
				dnf := pathDNFDeep(ins.Block())
				for _, d := range dnf {
					d2 := shortLease(d)
					switch {
					case strings.Contains(d2, "("+want+"==nil)") && !strings.Contains(d2, "!("+want+"==nil)"):
					case strings.Contains(d2, "("+want+"==LEASE)") && !strings.Contains(d2, "!("+want+"==LEASE)"):
					case strings.Contains(d2, "!("+want+".State==2)"), strings.Contains(d2, "("+want+".State!=2)") && !strings.Contains(d2, "!("+want+".State!=2)"):
					default:
						bad = append(bad, d2)
					}
				}
				s3, d3 := core.Proved, ""
				if len(dnf) == 0 || len(bad) > 0 {
					s3 = core.Violated
					d3 = "handleRequest tells the session that the requester has " + norm(a[2]) + " (the address it asks another server for) without looking at the lease table: if that address is acknowledged by us to another client, the session re-binds it to the requester, and the holder's next INIT-REBOOT is acknowledged while the session tracks the address for the other MAC. Paths: " + strings.Join(bad, "  |  ")
				}
				r.Add(core.Obligation{Rule: "ack", Key: "ack a claim made to another server does not re-bind an address we acknowledged", Func: core.FuncName(hr), Pos: c.P.Pos(core.PosOf(ins)), Status: s3,
					Basis: "every path to the update: no lease for the address | this client's lease | a lease that is not allocated", Detail: d3})
			}
		}
	}
	// (offer) an old offer is not handed out again without going through allocIPOffer: on every path of handleDiscover to
	// the `IPOffer.IsValid()` test, IPOffer was assigned on that path or the lease is an outstanding offer (state Discover)
	if hd := c.P.Method(dhcpRel, "Handler", "handleDiscover"); hd != nil {
		var test ssa.Instruction
		for _, s := range callsIn(hd, nameIs("IsValid")) {
			if len(s.Common().Args) == 1 && strings.HasSuffix(shortLeaseD(norm(s.Common().Args[0])), "LEASE.IPOffer") {
				test = s.(ssa.Instruction)
			}
		}
		if test == nil {
			r.Add(core.Obligation{Rule: "offer", Key: "offer handleDiscover keeps an old offer only while it is outstanding", Func: core.FuncName(hd), Status: core.Undecided, Detail: "the IPOffer.IsValid() test of handleDiscover was not found"})
		} else {
			paths, complete := pathsTo(test.Block(), 256)
			st := core.Proved
			det := ""
			repeatFail := false
			if !complete || len(paths) == 0 {
				st, det = core.Undecided, "the paths to the IPOffer.IsValid() test could not be enumerated"
			}
			for _, p := range paths {
				assigned := false
				for _, b := range p.Blocks {
					for _, ins := range b.Instrs {
						if sto, ok := ins.(*ssa.Store); ok && strings.HasSuffix(shortLeaseD(norm(sto.Addr)), "LEASE.IPOffer") {
							assigned = true
						}
					}
				}
				outstanding := false
				for _, cd := range p.Conds {
					if shortLeaseD(cd) == "(LEASE.State==1)" {
						outstanding = true
					}
				}
				if !assigned && outstanding {
					// an outstanding offer is repeated (same transaction): the address may have been acknowledged to another
					// client that held an offer for it too, so the repeat is preceded by a look-up of the address
					rechecked := false
					for _, cd := range p.Conds {
						if strings.Contains(shortLeaseD(cd), "findByIP(recv,LEASE.IPOffer)") && !strings.Contains(shortLeaseD(cd), ".State==2)") {
							rechecked = true // compared with nil, with the lease itself or with State == Free
						}
					}
					for _, cd := range p.Conds {
						if strings.Contains(shortLeaseD(cd), "findByIP(recv,LEASE.IPOffer).State==2)") {
							rechecked = false // the holder test is 'State == Allocated': a holder that is re-discovering is missed
						}
					}
					if !rechecked {
						st = core.Violated
						repeatFail = true
						det = "a repeated DISCOVER of the same transaction is answered with the stored IPOffer without looking the address up again: if it was acknowledged to another client in the meantime, an address that is currently acknowledged to another client is offered"
						break
					}
					// ... and of the session's host table: a station may have started using the address since the offer
					tracked := false
					for _, cd := range p.Conds {
						if strings.Contains(shortLeaseD(cd), "FindIP(recv.session,LEASE.IPOffer)") {
							tracked = true
						}
					}
					if !tracked {
						st = core.Violated
						repeatFail = true
						det = "a repeated DISCOVER of the same transaction is answered with the stored IPOffer without looking the address up in the session's host table again: a station that started using the address since the first offer is tracked for another MAC, and the address is offered all the same"
						break
					}
				}
				if !assigned && !outstanding {
					var cs []string
					for _, cd := range p.Conds {
						cs = append(cs, shortLeaseD(cd))
					}
					st = core.Violated
					det = "a lease that is neither allocated nor an outstanding offer (for example freed by expiry, which leaves IPOffer set) reaches the offer with its old IPOffer, without allocIPOffer's tests: path " + strings.Join(cs, " && ")
					break
				}
			}
			// the other way to keep the invariant "a free lease has no offer": every place that frees a lease clears IPOffer
			freeSites, cleared := 0, 0
			var notCleared []string
			if st == core.Violated && !repeatFail {
				for _, fn := range c.P.LibFunctions() {
					if fn.Pkg == nil || fn.Pkg.Pkg.Name() != "dhcp4_spoofer" {
						continue
					}
					core.EachInstr(fn, func(i ssa.Instruction) {
						sto, ok := i.(*ssa.Store)
						if !ok {
							return
						}
						fa, isFA := sto.Addr.(*ssa.FieldAddr)
						k, isC := sto.Val.(*ssa.Const)
						if !isFA || !isC || fieldOwner(fa) != "dhcp4_spoofer.Lease.State" || k.Value == nil || k.Int64() != 0 {
							return
						}
						freeSites++
						okClear, _ := mustPass(i, func(j ssa.Instruction) bool {
							s2, ok2 := j.(*ssa.Store)
							if !ok2 {
								return false
							}
							fa2, isFA2 := s2.Addr.(*ssa.FieldAddr)
							return isFA2 && fa2.X == fa.X && strings.HasSuffix(norm(s2.Addr), ".IPOffer") && isZeroStruct(s2.Val)
						})
						if okClear {
							cleared++
						} else {
							notCleared = append(notCleared, c.P.Pos(core.PosOf(i)))
						}
					})
				}
				if freeSites > 0 && cleared == freeSites {
					st, det = core.Proved, ""
				} else {
					det += fmt.Sprintf("; and %d of %d sites that free a lease leave IPOffer set (%s)", freeSites-cleared, freeSites, strings.Join(notCleared, ", "))
				}
			}
			r.Add(core.Obligation{Rule: "offer", Key: "offer handleDiscover keeps an old offer only while it is outstanding", Func: core.FuncName(hd), Pos: c.P.Pos(core.PosOf(test)), Status: st,
				Basis: fmt.Sprintf("%d paths to the IsValid test: each assigns IPOffer or runs under State == Discover; or every site that frees a lease clears IPOffer (%d of %d)", len(paths), cleared, freeSites), Detail: det})
		}
	}
	if hr := c.P.Method(dhcpRel, "Handler", "handleRequest"); hr != nil {
		ok, why, n := selectingAcceptTable(hr)
		st := core.Proved
		if !ok {
			st = core.Violated
			if n == 0 {
				st = core.Undecided
			}
		}
		r.Add(core.Obligation{Rule: "ack", Key: "ack selecting accepts only the offered transaction or the current lease", Func: core.FuncName(hr), Pos: c.P.Pos(hr.Pos()), Status: st,
			Basis: fmt.Sprintf("truth table of the refusal condition over %d consistent valuations of 8 atoms", n), Detail: why})
	}
	// ---- free ----
	if fn := c.P.Method(dhcpRel, "Handler", "handleDecline"); fn != nil {
		core.EachInstr(fn, func(i ssa.Instruction) {
			s, ok := i.(*ssa.Store)
			if !ok || !strings.HasSuffix(norm(s.Addr), ".State") {
				return
			}
			gs := guardsOf(i)
			var txt []string
			for _, g := range gs {
				txt = append(txt, g.Text)
			}
			j := strings.Join(txt, " && ")
			st := core.Proved
			var why []string
			for what, frag := range map[string]string{"server identifier": "subnet.SubnetConfig.DHCPServer", "address": ".Addr.IP", "hardware address": "bytes.Equal("} {
				if !strings.Contains(j, frag) {
					st = core.Violated
					why = append(why, "no test of the "+what)
				}
			}
			r.Add(core.Obligation{Rule: "free", Key: "free DECLINE frees only the matching lease", Func: core.FuncName(fn), Pos: c.P.Pos(core.PosOf(i)), Status: st, Basis: "guards: " + j, Detail: strings.Join(why, "; ") + " | " + j})
		})
	}
	if fn := c.P.Method(dhcpRel, "Handler", "freeLeases"); fn != nil {
		core.EachInstr(fn, func(i ssa.Instruction) {
			s, ok := i.(*ssa.Store)
			if !ok || !strings.HasSuffix(norm(s.Addr), ".State") {
				return
			}
			st := core.Proved
			if !hasGuard(guardsOf(i), `^\(time\.Time\)\.Before\(.*\.DHCPExpiry,arg0\)$`) {
				st = core.Violated
			}
			r.Add(core.Obligation{Rule: "free", Key: "free expiry frees by DHCPExpiry", Func: core.FuncName(fn), Pos: c.P.Pos(core.PosOf(i)), Status: st, Basis: "under DHCPExpiry.Before(now)", Detail: "a lease is freed without DHCPExpiry.Before(now): " + guardTexts(guardsOf(i))})
		})
	}
	// who else writes State = Free / deletes leases
	for _, fn := range c.P.LibFunctions() {
		if fn.Pkg == nil || fn.Pkg != c.P.Pkg(dhcpRel) {
			continue
		}
		core.EachInstr(fn, func(i ssa.Instruction) {
			s, ok := i.(*ssa.Store)
			if !ok || !strings.HasSuffix(norm(s.Addr), ".State") {
				return
			}
			if k, ok := s.Val.(*ssa.Const); !ok || k.Int64() != 0 {
				return
			}
			allowed := map[string]bool{"handleDecline": true, "freeLeases": true, "findOrCreate": true, "handleRequest": true}
			st := core.Proved
			if !allowed[fn.Name()] {
				st = core.Violated
			}
			r.Add(core.Obligation{Rule: "free", Key: "free State = Free in " + core.FuncName(fn), Func: core.FuncName(fn), Pos: c.P.Pos(core.PosOf(i)), Status: st,
				Basis: "freed in DECLINE, expiry, lease creation, or a REQUEST selecting another server", Detail: "a lease is set to Free in " + fn.Name()})
		})
	}
}

func runC12(c *Ctx) {
	r := c.R
	r.Explanation = "Structural conditions of reply segregation and conformance: (subnet) findOrCreate and handleRequest select the netfilter subnet exactly when session.IsCaptured(mac), the home subnet otherwise, and a lease whose subnet or hardware address differs is replaced; " +
		"(config) the two subnet configurations built by Config.New take LAN / gateway / server id / DNS from HomeLAN4, RouterAddr4.IP, HostAddr4.IP, the configured DNS (home) and from the masked NetfilterIP, NetfilterIP.Addr(), HostAddr4.IP, the family DNS (netfilter); " +
		"(options) newSubnet builds server-id, mask (from LAN.Bits()), router and DNS options from those fields; OFFER and ACK add the lease time of the lease's subnet; (reply) OFFER/ACK are encoded into the request buffer as BootReply with nil chaddr/xid (echoing the request's) and yiaddr = the offered / leased address, in the order of the client's parameter list after the mandatory mask-router prefix (C03); " +
		"(destination) the reply is broadcast exactly when the request has no source address or the broadcast flag. Not decided: per-history claims (which subnet a client was in when), NAK-or-silence over all interleavings."
	r.Rule("subnet", "netfilter subnet iff the MAC is captured", 3)
	r.Rule("config", "provenance of the two subnet configurations; the saved configuration is kept only when equal to the configured one", 13)
	r.Rule("options", "provenance of the reply options", 6)
	r.Rule("reply", "OFFER/ACK echo the transaction and carry the lease address", 8)
	r.Rule("destination", "broadcast iff no source address or broadcast flag", 1)

	add := func(rule, key string, fn *ssa.Function, pos ssa.Instruction, ok bool, basis, det string) {
		st := core.Proved
		if !ok {
			st = core.Violated
		}
		p := ""
		if pos != nil {
			p = c.P.Pos(core.PosOf(pos))
		}
		r.Add(core.Obligation{Rule: rule, Key: key, Func: core.FuncName(fn), Pos: p, Status: st, Basis: basis, Detail: det})
	}
	// subnet selection
	for _, name := range []string{"findOrCreate", "handleRequest"} {
		fn := c.P.Method(dhcpRel, "Handler", name)
		if fn == nil {
			continue
		}
		found := false
		core.EachInstr(fn, func(i ssa.Instruction) {
			phi, ok := i.(*ssa.Phi)
			if !ok || found || !strings.HasSuffix(phi.Type().String(), "dhcpSubnet") || len(phi.Edges) != 2 {
				return
			}
			var e1, e2 string
			for k, e := range phi.Edges {
				pred := phi.Block().Preds[k]
				gs := guardsOf(pred.Instrs[len(pred.Instrs)-1])
				captured := hasGuard(gs, `^\(packet\.Session\)\.IsCaptured\(recv\.session,`)
				if captured {
					e2 = norm(e)
				} else {
					e1 = norm(e)
				}
			}
			if e1 == "" && e2 == "" {
				return
			}
			found = true
			add("subnet", "subnet selection in "+name, fn, i, e1 == "recv.net1" && e2 == "recv.net2", "net2 under IsCaptured(mac), net1 otherwise", fmt.Sprintf("not captured -> %s, captured -> %s", e1, e2))
		})
		if !found {
			add("subnet", "subnet selection in "+name, fn, nil, false, "", "no subnet selection by IsCaptured found")
		}
	}
	if fn := c.P.Method(dhcpRel, "Handler", "findOrCreate"); fn != nil {
		// an existing lease is reused only when subnet and hardware address match
		ok := false
		core.EachInstr(fn, func(i ssa.Instruction) {
			if rt, isR := i.(*ssa.Return); isR && len(rt.Results) == 1 && strings.Contains(norm(rt.Results[0]), "recv.table[") {
				gs := guardsOf(i)
				// the subnet itself, not one of its attributes: the two subnets may have the same prefix (the
				// default configuration gives the netfilter prefix the length of the home LAN)
				if hasGuard(gs, `\.subnet==φ\)?$`) && hasGuard(gs, `^bytes\.Equal\(.*\.Addr\.MAC,arg1\)$`) {
					ok = true
				}
			}
		})
		add("subnet", "subnet existing lease reused only for the same subnet and hardware address", fn, nil, ok, "return of the existing lease under lease.subnet == selected subnet and MAC equal", "an existing lease is returned without comparing its subnet (the subnet itself, not its prefix: with a netfilter prefix as long as the home LAN both subnets have the same prefix and a captured client keeps its home lease, router and DNS) and hardware address")
	}
	// config provenance
	if fn := c.P.Method(dhcpRel, "Config", "New"); fn != nil {
		want := map[string]string{
			"local(homeSubnet).LAN": "arg0.NICInfo.HomeLAN4", "local(homeSubnet).DefaultGW": "arg0.NICInfo.RouterAddr4.IP", "local(homeSubnet).DHCPServer": "arg0.NICInfo.HostAddr4.IP", "local(homeSubnet).DNSServer": "local(config).DNSServer",
			"local(netfilterSubnet).LAN": "(net/netip.Prefix).Masked(local(config).NetfilterIP)", "local(netfilterSubnet).DefaultGW": "(net/netip.Prefix).Addr(local(config).NetfilterIP)",
			"local(netfilterSubnet).DHCPServer": "arg0.NICInfo.HostAddr4.IP", "local(netfilterSubnet).DNSServer": "DNSv4CloudFlareFamily1",
		}
		got := map[string]string{}
		core.EachInstr(fn, func(i ssa.Instruction) {
			if s, ok := i.(*ssa.Store); ok {
				if _, w := want[norm(s.Addr)]; w {
					got[norm(s.Addr)] = norm(s.Val)
				}
			}
		})
		for k, w := range want {
			add("config", "config "+strings.TrimPrefix(k, "local("), fn, nil, got[k] == w, w, k+" is "+got[k]+", expected "+w)
		}
	}
	// the configuration read from the lease file replaces the configured one only when equal to it in everything a reply
	// carries: prefix address and length, router, DNS, server identifier
	if fn := c.P.Func(dhcpRel, "configChanged"); fn != nil {
		compared := map[string]bool{}
		side := func(v ssa.Value) (string, string) {
			t := norm(v)
			for _, a := range []string{"local(config)", "arg0"} {
				if strings.Contains(t, a) {
					return "A", strings.ReplaceAll(t, a, "_")
				}
			}
			for _, b := range []string{"local(current)", "arg1"} {
				if strings.Contains(t, b) {
					return "B", strings.ReplaceAll(t, b, "_")
				}
			}
			return "", t
		}
		core.EachInstr(fn, func(i ssa.Instruction) {
			bo, ok := i.(*ssa.BinOp)
			if !ok || (bo.Op != token.NEQ && bo.Op != token.EQL) {
				return
			}
			sx, fx := side(bo.X)
			sy, fy := side(bo.Y)
			if sx != "" && sy != "" && sx != sy && fx == fy {
				compared[fx] = true
			}
		})
		whole := compared["_.LAN"] || compared["(net/netip.Prefix).Masked(_.LAN)"]
		for _, w := range []struct {
			name string
			ok   bool
		}{
			{"prefix address", whole || compared["(net/netip.Prefix).Addr(_.LAN)"] || compared["(net/netip.Prefix).Addr((net/netip.Prefix).Masked(_.LAN))"]},
			{"prefix length", whole || compared["(net/netip.Prefix).Bits(_.LAN)"]},
			{"router", compared["_.DefaultGW"]},
			{"DNS server", compared["_.DNSServer"]},
			{"server identifier", compared["_.DHCPServer"]},
		} {
			add("config", "config configChanged compares the "+w.name, fn, nil, w.ok, "comparison of the like field of both configurations", "configChanged does not compare the "+w.name+" of the configured subnet with the one read from the lease file: a restart with a different value keeps serving the old one")
		}
	}
	// options provenance
	if fn := c.P.Func(dhcpRel, "newSubnet"); fn != nil {
		want := map[string]string{"54": "(net/netip.Addr).AsSlice(local(subnet).SubnetConfig.DHCPServer)", "1": "net.CIDRMask((net/netip.Prefix).Bits(local(subnet).SubnetConfig.LAN),32)",
			"3": "(net/netip.Addr).AsSlice(local(subnet).SubnetConfig.DefaultGW)", "6": "(net/netip.Addr).AsSlice(local(subnet).SubnetConfig.DNSServer)"}
		got := map[string]string{}
		core.EachInstr(fn, func(i ssa.Instruction) {
			if mu, ok := i.(*ssa.MapUpdate); ok {
				got[norm(mu.Key)] = norm(mu.Value)
			}
		})
		for k, w := range want {
			add("options", "options newSubnet option "+k, fn, nil, got[k] == w, w, "option "+k+" is "+got[k]+", expected "+w)
		}
		// an address option carries four bytes: AsSlice of an address that may be IPv6 (an IPv4-mapped DNS server from a
		// net.IP) gives sixteen, which a client reads as four servers
		core.EachInstr(fn, func(i ssa.Instruction) {
			mu, ok := i.(*ssa.MapUpdate)
			if !ok {
				return
			}
			call, ok := mu.Value.(*ssa.Call)
			if !ok || call.Call.StaticCallee() == nil || call.Call.StaticCallee().String() != "(net/netip.Addr).AsSlice" {
				return
			}
			addr := norm(call.Call.Args[0])
			is4 := hasGuard(guardsOf(i), "^"+regexp.QuoteMeta("(net/netip.Addr).Is4("+addr+")")+"$")
			if k := strings.LastIndex(addr, "."); k >= 0 && !is4 {
				// inside the (IPv4) prefix of the subnet: an IPv4 prefix contains no IPv6 and no IPv4-mapped address
				is4 = hasGuard(guardsOf(i), `^\(net/netip\.Prefix\)\.Contains\([^,]*\.LAN,[^,]*`+regexp.QuoteMeta(addr[k:])+`\)$`) &&
					hasGuard(guardsOf(i), `^\(net/netip\.Addr\)\.Is4\(\(net/netip\.Prefix\)\.Addr\(local\(subnet\)\.SubnetConfig\.LAN\)\)$`)
			}
			add("options", "options newSubnet option "+norm(mu.Key)+" is an IPv4 address", fn, i, is4, "under Is4("+addr+")",
				"option "+norm(mu.Key)+" is AsSlice of "+addr+", which is not tested with Is4: an IPv4-mapped address (::ffff:8.8.8.8, what netip.AddrFromSlice(net.ParseIP(..)) gives) puts sixteen bytes into a four-byte-per-address option")
		})
	}
	// reply shape
	type rep struct {
		fn    string
		mt    string
		yi    string
		lease string
	}
	for _, rp := range []rep{{"handleDiscover", "2", ".IPOffer", "offer"}, {"handleRequest", "5", ".Addr.IP", "ack"}} {
		fn := c.P.Method(dhcpRel, "Handler", rp.fn)
		if fn == nil {
			continue
		}
		for _, s := range callsIn(fn, nameIs("EncodeDHCP4")) {
			a := s.Common().Args
			if len(a) != 10 || norm(a[2]) != rp.mt {
				continue
			}
			ins := s.(ssa.Instruction)
			add("reply", "reply "+rp.lease+" is a BootReply into the request buffer", fn, ins, norm(a[0]) == "arg0" || norm(a[0]) == "arg1", "EncodeDHCP4(request buffer, BootReply, ...)", "buffer "+norm(a[0])+" opcode "+norm(a[1]))
			add("reply", "reply "+rp.lease+" keeps chaddr and xid of the request", fn, ins, norm(a[3]) == "nil" && norm(a[6]) == "nil" && norm(a[1]) == "2", "chaddr = nil, xid = nil (keep the request's), opcode 2", fmt.Sprintf("opcode=%s chaddr=%s xid=%s", norm(a[1]), norm(a[3]), norm(a[6])))
			add("reply", "reply "+rp.lease+" yiaddr", fn, ins, strings.HasSuffix(norm(a[5]), rp.yi), "yiaddr = lease"+rp.yi, "yiaddr = "+shortLease(norm(a[5])))
			add("reply", "reply "+rp.lease+" option order from the parameter request list", fn, ins, strings.HasSuffix(norm(a[9]), "[55]"), "order = options[ParameterRequestList]", "order = "+norm(a[9]))
			// options: CopyOptions of the lease's subnet plus lease time
			okOpts := strings.Contains(norm(a[8]), "CopyOptions(") && strings.Contains(norm(a[8]), ".subnet)")
			lt := false
			core.EachInstr(fn, func(i ssa.Instruction) {
				if mu, ok := i.(*ssa.MapUpdate); ok && norm(mu.Key) == "51" && strings.Contains(norm(mu.Value), "OptionsLeaseTime(") && strings.Contains(norm(mu.Value), ".subnet.SubnetConfig.Duration") {
					lt = true
				}
			})
			add("options", "options "+rp.lease+" uses the lease's subnet options and lease time", fn, ins, okOpts && lt, "opts = lease.subnet.CopyOptions(); opts[51] = lease time of that subnet", fmt.Sprintf("options=%s lease-time=%v", shortLease(norm(a[8])), lt))
		}
	}
	// the offered address lies inside the subnet of the client's lease (the subnet whose options the reply carries)
	r.Rule("inside-subnet", "a requested address is offered only inside the lease's subnet", 3)
	if alloc := c.P.Method(dhcpRel, "Handler", "allocIPOffer"); alloc != nil {
		core.EachInstr(alloc, func(i ssa.Instruction) {
			s, ok := i.(*ssa.Store)
			if !ok || norm(s.Addr) != "arg0.IPOffer" {
				return
			}
			if _, isParam := s.Val.(*ssa.Parameter); !isParam {
				return
			}
			requireGuards(c, "inside-subnet", "allocIPOffer requested address", i, []guardReq{
				{"inside the lease's subnet", `^\(net/netip\.Prefix\)\.Contains\(arg0\.subnet\.SubnetConfig\.LAN,arg1\)$`},
				{"not the network address", `^!\(arg1==\(net/netip\.Prefix\)\.Addr\(arg0\.subnet\.SubnetConfig\.LAN\)\)$`},
				{"not the broadcast address", `^!\(arg1==arg0\.subnet\.broadcast\)$`},
			})
		})
	}
	// never ACK what cannot be honoured: every entry into the acknowledgement section has an offer or a lease
	// a REQUEST that names a server is a selecting REQUEST, whatever else it carries: the operation code differs from
	// `selecting` only on paths where the server identifier is absent (zero). Otherwise a request for another server
	// reaches an arm that never looks at the server identifier and is acknowledged.
	r.Rule("classify", "the operation is selecting whenever the request carries a server identifier", 3)
	if hr := c.P.Method(dhcpRel, "Handler", "handleRequest"); hr != nil {
		selVal := int64(-1)
		if pk := c.P.Pkg(dhcpRel); pk != nil {
			if k, ok := pk.Pkg.Scope().Lookup("selecting").(*types.Const); ok {
				if v, exact := constant.Int64Val(k.Val()); exact {
					selVal = v
				}
			}
		}
		// the server identifier: AddrFromSlice(options[54]) and the φ it flows into
		srv := map[ssa.Value]bool{}
		core.EachInstr(hr, func(i ssa.Instruction) {
			lk, ok := i.(*ssa.Lookup)
			if !ok {
				return
			}
			if k, isC := lk.Index.(*ssa.Const); !isC || k.Value == nil || k.Int64() != 54 {
				return
			}
			var fwd func(v ssa.Value, d int)
			fwd = func(v ssa.Value, d int) {
				if d > 8 || srv[v] && d > 0 {
					return
				}
				if refs := v.Referrers(); refs != nil {
					for _, rf := range *refs {
						switch t := rf.(type) {
						case *ssa.Extract:
							if t.Index == 0 {
								fwd(t, d+1)
							}
						case *ssa.Call:
							if cal := t.Common().StaticCallee(); cal != nil && core.FuncName(cal) == "net/netip.AddrFromSlice" {
								fwd(t, d+1)
							}
						case *ssa.Phi:
							if !srv[t] {
								srv[t] = true
								fwd(t, d+1)
							}
						}
					}
				}
				if _, isEx := v.(*ssa.Extract); isEx && d >= 2 {
					srv[v] = true
				}
			}
			fwd(lk, 0)
		})
		srvZero := func(gs []Guard) bool {
			for _, g := range gs {
				bo, ok := g.Cond.(*ssa.BinOp)
				if !ok || !g.Pol || bo.Op != token.EQL && bo.Op != token.NEQ {
					continue
				}
				// guardsOf folds != into == with the polarity flipped: Pol true means "equal"
				x, y := bo.X, bo.Y
				if srv[y] {
					x, y = y, x
				}
				if srv[x] && strings.HasSuffix(norm(y), "IPv4zero") {
					return true
				}
			}
			return false
		}
		var op *ssa.Phi
		core.EachInstr(hr, func(i ssa.Instruction) {
			bo, ok := i.(*ssa.BinOp)
			if !ok || bo.Op != token.EQL {
				return
			}
			ph, isPhi := bo.X.(*ssa.Phi)
			if _, isC := bo.Y.(*ssa.Const); !isC || !isPhi {
				return
			}
			for _, e := range ph.Edges {
				if _, isC := e.(*ssa.Const); !isC {
					return
				}
			}
			if b, isB := ph.Type().Underlying().(*types.Basic); isB && b.Info()&types.IsInteger != 0 {
				op = ph
			}
		})
		if op == nil || selVal < 0 || len(srv) == 0 {
			r.Add(core.Obligation{Rule: "classify", Key: "classify operation code found", Func: core.FuncName(hr), Status: core.Undecided, Detail: fmt.Sprintf("operation φ found: %v, constant `selecting` found: %v, server identifier values: %d", op != nil, selVal >= 0, len(srv))})
		} else {
			kgc := core.NewKeyGen()
			for k, e := range op.Edges {
				cv := e.(*ssa.Const).Int64()
				if cv == selVal {
					continue
				}
				pred := op.Block().Preds[k]
				gs := guardsOf(pred.Instrs[len(pred.Instrs)-1])
				st := core.Proved
				if !srvZero(gs) {
					st = core.Violated
				}
				r.Add(core.Obligation{Rule: "classify", Key: strings.TrimSuffix(kgc.Key(fmt.Sprintf("classify operation %d only without a server identifier", cv)), "#0"), Func: core.FuncName(hr), Pos: c.P.Pos(core.PosOf(pred.Instrs[len(pred.Instrs)-1])), Status: st,
					Basis: "the arm runs under server identifier == 0", Detail: fmt.Sprintf("handleRequest classifies a REQUEST as operation %d on a path where the server identifier may be present (guards: %s): a request naming another server reaches an arm that does not compare the server identifier and can be acknowledged", cv, guardTexts(gs))})
			}
		}
	}
	r.Rule("ack", "the acknowledgement section is entered only with an outstanding offer or lease", 9)
	if hr := c.P.Method(dhcpRel, "Handler", "handleRequest"); hr != nil {
		join := ackJoin(hr)
		if join == nil {
			add("ack", "ack section", hr, nil, false, "", "the acknowledgement section of handleRequest was not found")
		} else {
			for k, p := range join.Preds {
				last := p.Instrs[len(p.Instrs)-1]
				okState := false
				var txt []string
				for _, g := range guardsOf(last) {
					t := shortLease(g.Text)
					txt = append(txt, t)
					if t == "(LEASE.State==2)" || t == "(LEASE.State==1)" || t == "!(LEASE.State==0)" {
						okState = true
					}
				}
				add("ack", fmt.Sprintf("ack section entry %d requires an offer or lease (else NAK or silence)", k+1), hr, last, okState, "entered under a test establishing State != Free",
					"a request that cannot be honoured (nothing offered, nothing leased) reaches the ACK: "+strings.Join(txt, " && "))
				// an expired lease cannot be honoured either: an entry that relies on State == Allocated has tested DHCPExpiry
				// (the selecting arm, which also admits offers, is decided by the truth table below)
				allocated, fresh := false, false
				for _, t := range txt {
					if t == "(LEASE.State==2)" {
						allocated = true
					}
					if t == "!(time.Time).Before(LEASE.DHCPExpiry,time.Now())" {
						fresh = true
					}
				}
				if allocated {
					add("ack", fmt.Sprintf("ack section entry %d acknowledges a lease only if it has not expired", k+1), hr, last, fresh, "entered under !lease.DHCPExpiry.Before(time.Now())",
						"an allocated lease is acknowledged without a test of its expiry (until the next MinuteTicker an expired lease is still Allocated): "+strings.Join(txt, " && "))
				}
			}
		}
	}
	if hr := c.P.Method(dhcpRel, "Handler", "handleRequest"); hr != nil {
		ok, why, n := selectingAcceptTable(hr)
		if !ok && n == 0 {
			r.Add(core.Obligation{Rule: "ack", Key: "ack selecting accepts only the offered transaction or the current lease", Func: core.FuncName(hr), Pos: c.P.Pos(hr.Pos()), Status: core.Undecided, Detail: why})
		} else {
			add("ack", "ack selecting accepts only the offered transaction or the current lease", hr, nil, ok, fmt.Sprintf("truth table of the refusal condition over %d consistent valuations of 8 atoms", n), why)
		}
	}
	// a lease restored from the file is attached to the netfilter subnet only if its address lies inside that subnet
	// (otherwise the first OFFER/ACK after a restart carries a home-LAN address with the netfilter mask and router)
	if fn := c.P.Method(dhcpRel, "Handler", "loadByteArray"); fn != nil {
		core.EachInstr(fn, func(i ssa.Instruction) {
			st, ok := i.(*ssa.Store)
			if !ok || !leaseLocalField(norm(st.Addr), "subnet") {
				return
			}
			gs := guardsOf(i)
			if !hasGuard(gs, `IsCaptured\(`) {
				return // the default (home subnet); the home-LAN test follows before the insertion (C18 insert-guards)
			}
			same := false
			for _, g := range gs {
				call, ok := g.Cond.(*ssa.Call)
				if !ok || !g.Pol || !strings.HasSuffix(core.CalleeName(call), "Prefix).Contains") || len(call.Call.Args) != 2 {
					continue
				}
				if subnetOfPrefix(call.Call.Args[0]) == st.Val {
					same = true
				}
			}
			add("subnet", "restored lease attached to the netfilter subnet only with an address inside it", fn, i, same, "a dominating Contains test on the LAN of the subnet being attached",
				"loadByteArray attaches a captured client's lease to the netfilter subnet without testing the address against that subnet's prefix")
		})
	}
	// the mask precedes the router option whatever the client's parameter list says (decided by the option-order
	// analysis of AppendOptions, shared with C03)
	if fn := c.A.Method("", "DHCP4", "AppendOptions"); fn != nil {
		ost, odet := optionOrderVerdict(c, fn)
		r.Add(core.Obligation{Rule: "options", Key: "options subnet mask is encoded before the router option", Func: core.FuncName(fn), Pos: c.P.Pos(fn.Pos()), Status: ost,
			Basis: "AppendOptions emits the mandatory mask / static route / router sequence before the requested order", Detail: odet})
	}
	// the reply is encoded in place, in the request's buffer: whatever the reply path needs from the request (the
	// broadcast flag for the destination) is read before the handlers run, never from the overwritten buffer
	r.Rule("request-fields", "fields of the request are read before the reply is encoded into the same buffer", 1)
	if fn := c.P.Method(dhcpRel, "Handler", "ProcessPacket"); fn != nil {
		var req ssa.Value
		for _, s := range callsIn(fn, nameIs("IsValid")) {
			if len(s.Common().Args) == 1 && strings.HasSuffix(s.Common().Args[0].Type().String(), "packet.DHCP4") {
				req = s.Common().Args[0]
			}
		}
		if req == nil {
			r.Add(core.Obligation{Rule: "request-fields", Key: "request-fields ProcessPacket", Func: core.FuncName(fn), Status: core.Undecided, Detail: "the DHCP request view of ProcessPacket was not found"})
		} else {
			bw := newBufWrites(c)
			clobbers, stale := bw.staleReads(fn, req)
			st := core.Proved
			det := ""
			if len(clobbers) == 0 {
				st, det = core.Undecided, "no call that writes the request buffer was found (the reply is expected to be encoded in place)"
			}
			if len(stale) > 0 {
				st = core.Violated
				var ds []string
				for _, p := range stale {
					ds = append(ds, fmt.Sprintf("%s at %s (after %s at %s)", shortCallee(p[1].(ssa.CallInstruction)), c.P.Pos(core.PosOf(p[1])), shortCallee(p[0].(ssa.CallInstruction)), c.P.Pos(core.PosOf(p[0]))))
				}
				det = "the request view is read after a call that may have encoded the reply into the same buffer, so the value is the reply's, not the request's: " + strings.Join(dedupStrings(ds), "; ")
			}
			pos := c.P.Pos(fn.Pos())
			if len(stale) > 0 {
				pos = c.P.Pos(core.PosOf(stale[0][1]))
			}
			r.Add(core.Obligation{Rule: "request-fields", Key: "request-fields ProcessPacket", Func: core.FuncName(fn), Pos: pos, Status: st,
				Basis: fmt.Sprintf("%d calls may write the request buffer; no getter of the request view is reachable from them", len(clobbers)), Detail: det})
		}
	}
	// destination
	if fn := c.P.Method(dhcpRel, "Handler", "ProcessPacket"); fn != nil {
		ok := false
		core.EachInstr(fn, func(i ssa.Instruction) {
			s, isS := i.(*ssa.Store)
			if !isS || !strings.Contains(norm(s.Val), "IPv4bcast") {
				return
			}
			dnf := pathDNF(i.Block())
			zero, flag := false, false
			for _, d := range dnf {
				if strings.Contains(d, "(local(frame).SrcAddr.IP==IPv4zero)") && !strings.Contains(d, "!(local(frame).SrcAddr.IP==IPv4zero)") {
					zero = true
				}
				if strings.Contains(d, "(packet.DHCP4).Broadcast(") && !strings.Contains(d, "!(packet.DHCP4).Broadcast(") {
					flag = true
				}
			}
			if zero && flag && len(dnf) == 2 {
				ok = true
			}
		})
		add("destination", "destination broadcast iff no source address or broadcast flag", fn, nil, ok, "broadcast on: SrcAddr.IP == 0 | Broadcast()", "the broadcast destination is not selected by exactly SrcAddr.IP == 0 || Broadcast()")
	}
}

// selectingAcceptTable decides the accept condition of the selecting arm of handleRequest exactly: the refusal
// (NAK) site's path condition is a DNF over seven atoms; for every consistent valuation of the atoms on which no
// disjunct holds (the request goes on to the ACK), the lease must be the client's own (hardware address), must not
// be free, and must match the request: in state Discover the same transaction id and the offered address, in state
// Allocated the leased address. Returns ok, a description of the first offending valuation, and the number of
// valuations examined (0 = the site was not found or contains an atom outside the table: undecided).
func selectingAcceptTable(hr *ssa.Function) (ok bool, why string, n int) {
	atoms := []struct{ name, text string }{
		{"state=Free", "(LEASE.State==0)"},
		{"state=Discover", "(LEASE.State==1)"},
		{"state=Allocated", "(LEASE.State==2)"},
		{"chaddr matches", "bytes.Equal(LEASE.Addr.MAC,(packet.DHCP4).CHAddr(arg1))"},
		{"xid matches", "bytes.Equal(LEASE.XID,(packet.DHCP4).XId(arg1))"},
		{"offered!=requested", "(LEASE.IPOffer!=φ)"},
		{"leased!=requested", "(LEASE.Addr.IP!=φ)"},
		{"lease expired", "(time.Time).Before(LEASE.DHCPExpiry,time.Now())"},
	}
	idx := map[string]int{}
	for i, a := range atoms {
		idx[a.text] = i
	}
	for _, s := range callsIn(hr, nameIs("nakPacket")) {
		ins := s.(ssa.Instruction)
		isSel := false
		for _, g := range guardsOf(ins) {
			if strings.HasSuffix(g.Text, "(φ==φ.SubnetConfig.DHCPServer)") && g.Pol {
				isSel = true
			}
		}
		if !isSel {
			continue
		}
		type lit struct {
			v   int
			neg bool
		}
		var dnf [][]lit
		for _, d := range pathDNF(ins.Block()) {
			var conj []lit
			for _, t := range strings.Split(shortLease(d), " && ") {
				t = strings.TrimSpace(t)
				if t == "" {
					continue
				}
				neg := strings.HasPrefix(t, "!")
				t = strings.TrimPrefix(t, "!")
				v, known := idx[t]
				if !known {
					// the same comparison written with the opposite operator
					alt := ""
					switch {
					case strings.Contains(t, "=="):
						alt = strings.Replace(t, "==", "!=", 1)
					case strings.Contains(t, "!="):
						alt = strings.Replace(t, "!=", "==", 1)
					}
					if v2, ok2 := idx[alt]; ok2 && alt != "" {
						v, known, neg = v2, true, !neg
					}
				}
				if !known {
					return false, "the refusal condition of the selecting arm tests something outside the table: " + t, 0
				}
				conj = append(conj, lit{v, neg})
			}
			dnf = append(dnf, conj)
		}
		if len(dnf) == 0 {
			return false, "the refusal condition of the selecting arm was not recovered", 0
		}
		for m := 0; m < 1<<len(atoms); m++ {
			val := func(i int) bool { return m&(1<<i) != 0 }
			states := 0
			for i := 0; i < 3; i++ {
				if val(i) {
					states++
				}
			}
			if states > 1 {
				continue
			}
			n++
			nak := false
			for _, conj := range dnf {
				all := true
				for _, l := range conj {
					if val(l.v) == l.neg {
						all = false
						break
					}
				}
				if all {
					nak = true
					break
				}
			}
			if nak {
				continue
			}
			bad := ""
			switch {
			case val(0):
				bad = "nothing is offered or leased to the client (state Free)"
			case !val(3):
				bad = "the lease belongs to another hardware address"
			case val(1) && !val(4):
				bad = "the lease is an offer made in a different transaction (xid differs)"
			case val(1) && val(5):
				bad = "the address requested is not the one offered"
			case val(2) && val(6):
				bad = "the address requested is not the client's lease"
			case val(2) && val(7):
				bad = "the client's lease has expired"
			}
			if bad != "" {
				var desc []string
				for i, a := range atoms {
					if val(i) {
						desc = append(desc, a.name)
					}
				}
				return false, fmt.Sprintf("a selecting REQUEST is acknowledged although %s (valuation: %s)", bad, strings.Join(desc, ", ")), n
			}
		}
		return true, "", n
	}
	return false, "the refusal site of the selecting arm was not found", 0
}

// ackJoin: the block where the operation arms of handleRequest merge into the acknowledgement section: the multi-entry
// dominator of the ACK construction closest to the entry that is still below the lease lookup (findOrCreate).
func ackJoin(hr *ssa.Function) *ssa.BasicBlock {
	var ack, lookup ssa.Instruction
	for _, s := range callsIn(hr, nameIs("EncodeDHCP4")) {
		if len(s.Common().Args) > 2 && norm(s.Common().Args[2]) == "5" {
			ack = s.(ssa.Instruction)
		}
	}
	for _, s := range callsIn(hr, nameIs("findOrCreate")) {
		lookup = s.(ssa.Instruction)
	}
	if ack == nil || lookup == nil {
		return nil
	}
	// the join of the `switch operation` arms: every predecessor runs under a test of the operation code (φ == k)
	var join *ssa.BasicBlock
	for d := ack.Block(); d != nil && d != lookup.Block(); d = d.Idom() {
		if len(d.Preds) < 2 || !lookup.Block().Dominates(d) {
			continue
		}
		all := true
		for _, p := range d.Preds {
			arm := false
			for _, g := range guardsOf(p.Instrs[len(p.Instrs)-1]) {
				if opCodeTest.MatchString(strings.TrimPrefix(g.Text, "!")) {
					arm = true
				}
			}
			if !arm {
				all = false
			}
		}
		if all {
			join = d
		}
	}
	return join
}

var opCodeTest = regexp.MustCompile(`^\(φ==\d+\)$`)
