package props

import (
	"fmt"
	"go/constant"
	"go/types"
	"strings"

	"golang.org/x/tools/go/ssa"

	"pv/absint"
	"pv/core"
)

func init() { register("C20", "other", runC20) }

func runC20(c *Ctx) {
	r := c.R
	r.Explanation = "Buffer safety and structure of the fastlog appenders, decided statically. (bounds) The three array appenders that promise truncation — ByteArray, StringArray, IPArray — are interpreted (abstract interpreter of C01, helpers inlined) " +
		"for an arbitrary line with 0 <= index <= len(buffer), arbitrary name and arbitrary value: every index and slice operation on the line buffer must be proved in range. " +
		"(brackets) In those appenders every path from the opening '[' to a return passes the closing ']' (an early return inside the element loop truncates the line without closing it). " +
		"(tables) hexAscii is \"0123456789abcdef\", byteAscii[i] is the decimal text of i for all 256 entries (constant evaluation of the literals), writeHex maps each nibble through +'0' / %10+'a' under the x<10 test. " +
		"Not decided: equality of the rendered text with netip / strconv / time for all values, and what 'fits the buffer' means for the appenders that document no truncation (String, Bytes, MAC, IP, ...)."
	r.Rule("bounds", "index/slice operations of the truncating appenders are in range for every line state and argument", 3)
	r.Rule("brackets", "an opened '[' is closed on every path to a return", 3)
	r.Rule("tables", "constant lookup tables hold the expected text", 3)

	pk := c.P.Pkg("fastlog")
	if pk == nil {
		r.Fatal("package fastlog not loaded")
		return
	}
	lineT, _ := pk.Members["Line"].(*ssa.Type)
	if lineT == nil {
		r.Fatal("fastlog.Line not found")
		return
	}
	st, _ := lineT.Type().Underlying().(*types.Struct)
	bufLen := int64(0)
	idxField := -1
	for i := 0; i < st.NumFields(); i++ {
		if at, ok := st.Field(i).Type().Underlying().(*types.Array); ok {
			bufLen = at.Len()
		}
		if st.Field(i).Name() == "index" {
			idxField = i
		}
	}
	if bufLen == 0 || idxField < 0 {
		r.Fatal("fastlog.Line layout not recognised")
		return
	}

	// ---- bounds ----
	for _, name := range []string{"ByteArray", "StringArray", "IPArray"} {
		fn := c.P.Method("fastlog", "Line", name)
		if fn == nil {
			r.Add(core.Obligation{Rule: "bounds", Key: "bounds Line." + name, Status: core.Violated, Detail: "method not found"})
			continue
		}
		var fails []string
		seen := map[string]bool{}
		n := 0
		in := absint.New(c.P, absint.Config{MaxStates: 256, MaxOutcomes: 32}, func(f absint.Finding) {
			n++
			if !f.OK {
				k := fmt.Sprintf("%s %s: %s", f.Kind, absint.SiteString(f.Site), f.Detail)
				if !seen[k] {
					seen[k] = true
					fails = append(fails, k)
				}
			}
		})
		h := absint.NewHeap()
		idx := in.Atoms.Fresh("line.index", 0, bufLen)
		fields := make([]absint.Value, st.NumFields())
		fields[idxField] = absint.IntV{L: absint.AtomLin(idx)}
		ptr := in.NewTypedCell("line", lineT.Type(), absint.StructV{F: fields}, h)
		args := make([]absint.Value, len(fn.Params))
		args[0] = ptr
		in.Exec(fn, args, nil, h)
		status := core.Proved
		det := ""
		if len(fails) > 0 || n == 0 {
			status = core.Violated
			if len(fails) > 6 {
				fails = append(fails[:6], fmt.Sprintf("... and %d more", len(fails)-6))
			}
			det = "with 0 <= index <= " + fmt.Sprint(bufLen) + " and arbitrary arguments: " + strings.Join(fails, " | ")
		}
		r.Add(core.Obligation{Rule: "bounds", Key: "bounds Line." + name, Func: core.FuncName(fn), Pos: c.P.Pos(fn.Pos()), Status: status,
			Basis: fmt.Sprintf("%d bounds obligations proved for every line state", n), Detail: det})
	}

	// ---- brackets ----
	isAppend := func(i ssa.Instruction, ch byte) bool {
		call, ok := i.(*ssa.Call)
		if !ok || call.Call.StaticCallee() == nil || call.Call.StaticCallee().Name() != "appendByte" || len(call.Call.Args) != 2 {
			return false
		}
		k, ok := call.Call.Args[1].(*ssa.Const)
		return ok && k.Value != nil && k.Int64() == int64(ch)
	}
	writesOpen := func(i ssa.Instruction) bool {
		if isAppend(i, '[') {
			return true
		}
		// copy(buffer[index:], "=[")
		if call, ok := isBuiltinCall(i, "copy"); ok {
			if k, ok := call.Call.Args[1].(*ssa.Const); ok && k.Value != nil && k.Value.Kind() == constant.String && strings.HasSuffix(constant.StringVal(k.Value), "[") {
				return true
			}
		}
		return false
	}
	for _, name := range []string{"ByteArray", "StringArray", "IPArray"} {
		fn := c.P.Method("fastlog", "Line", name)
		if fn == nil {
			continue
		}
		found := false
		core.EachInstr(fn, func(i ssa.Instruction) {
			if !writesOpen(i) {
				return
			}
			found = true
			ok, exit := mustPass(i, func(j ssa.Instruction) bool { return isAppend(j, ']') })
			status := core.Proved
			det := ""
			if !ok {
				status = core.Violated
				det = fmt.Sprintf("a path from the opening '[' reaches the return at %s without appending ']': the array field is cut off and the following fields run into it", c.P.Pos(core.PosOf(exit)))
			}
			r.Add(core.Obligation{Rule: "brackets", Key: "brackets Line." + name, Func: core.FuncName(fn), Pos: c.P.Pos(core.PosOf(i)), Status: status,
				Basis: "every path from '[' to a return appends ']'", Detail: det})
		})
		if !found {
			r.Add(core.Obligation{Rule: "brackets", Key: "brackets Line." + name, Func: core.FuncName(fn), Status: core.Violated, Detail: "no opening '[' found"})
		}
	}

	// ---- tables ----
	initFn := pk.Func("init")
	checkTable := func(gname string, want func(i int) string, n int) {
		g, _ := pk.Members[gname].(*ssa.Global)
		status := core.Violated
		det := gname + " not found or not a constant literal"
		if g != nil && initFn != nil {
			got := map[int64]string{}
			var backing *ssa.Alloc
			core.EachInstr(initFn, func(i ssa.Instruction) {
				if st, ok := i.(*ssa.Store); ok && st.Addr == ssa.Value(g) {
					if sl, ok := st.Val.(*ssa.Slice); ok {
						backing, _ = sl.X.(*ssa.Alloc)
					}
				}
			})
			if backing != nil && backing.Referrers() != nil {
				for _, ref := range *backing.Referrers() {
					ia, ok := ref.(*ssa.IndexAddr)
					if !ok || ia.Referrers() == nil {
						continue
					}
					k, ok := ia.Index.(*ssa.Const)
					if !ok {
						continue
					}
					for _, rr := range *ia.Referrers() {
						if st, ok := rr.(*ssa.Store); ok {
							if cv, ok := st.Val.(*ssa.Const); ok && cv.Value != nil {
								if cv.Value.Kind() == constant.String {
									got[k.Int64()] = constant.StringVal(cv.Value)
								} else {
									got[k.Int64()] = string(rune(cv.Int64()))
								}
							}
						}
					}
				}
				status, det = core.Proved, ""
				if len(got) != n {
					status, det = core.Violated, fmt.Sprintf("%s has %d constant entries, expected %d", gname, len(got), n)
				}
				for i := 0; i < n; i++ {
					if got[int64(i)] != want(i) && status == core.Proved {
						status, det = core.Violated, fmt.Sprintf("%s[%d] = %q, expected %q", gname, i, got[int64(i)], want(i))
					}
				}
			}
		}
		r.Add(core.Obligation{Rule: "tables", Key: "tables " + gname, Func: "fastlog.init", Status: status, Basis: fmt.Sprintf("%d entries evaluated from the literal", n), Detail: det})
	}
	checkTable("hexAscii", func(i int) string { return string("0123456789abcdef"[i]) }, 16)
	checkTable("byteAscii", func(i int) string { return fmt.Sprint(i) }, 256)
	// fixed-format appenders: the sequence of bytes appended after the '=' (in program order along the main path)
	r.Rule("sequence", "fixed-width hex / MAC appenders emit their digits most significant first with the right separators", 3)
	seqWant := map[string][]string{
		"Uint8Hex":  {"48", "120", "hexAscii[((arg1>>4)&15)]", "hexAscii[(arg1&15)]"},
		"Uint16Hex": {"48", "120", "hexAscii[((arg1>>12)&15)]", "hexAscii[((arg1>>8)&15)]", "hexAscii[((arg1>>4)&15)]", "hexAscii[(arg1&15)]"},
		"MAC":       {"arg1[0]", "58", "arg1[1]", "58", "arg1[2]", "58", "arg1[3]", "58", "arg1[4]", "58", "arg1[5]"},
	}
	for _, name := range []string{"Uint8Hex", "Uint16Hex", "MAC"} {
		fn := c.P.Method("fastlog", "Line", name)
		if fn == nil {
			r.Add(core.Obligation{Rule: "sequence", Key: "sequence Line." + name, Status: core.Violated, Detail: "method not found"})
			continue
		}
		var got []string
		started := false
		for _, b := range fn.DomPreorder() {
			for _, i := range b.Instrs {
				call, ok := i.(*ssa.Call)
				if !ok || call.Call.StaticCallee() == nil {
					continue
				}
				cn := call.Call.StaticCallee().Name()
				if (cn != "appendByte" && cn != "writeHex") || len(call.Call.Args) != 2 {
					continue
				}
				a := norm(call.Call.Args[1])
				if !started {
					if a == "61" { // '='
						started = true
					}
					continue
				}
				got = append(got, a)
			}
		}
		status := core.Proved
		det := ""
		if strings.Join(got, " ") != strings.Join(seqWant[name], " ") {
			status = core.Violated
			det = fmt.Sprintf("Line.%s appends %v after '='; expected %v", name, got, seqWant[name])
		}
		r.Add(core.Obligation{Rule: "sequence", Key: "sequence Line." + name, Func: core.FuncName(fn), Pos: c.P.Pos(fn.Pos()), Status: status,
			Basis: strings.Join(seqWant[name], " "), Detail: det})
	}
	// writeHex: each half: x < 10 -> x + '0' ; else x%10 + 'a'
	if fn := c.P.Method("fastlog", "Line", "writeHex"); fn != nil {
		good := 0
		var bad []string
		for _, site := range callsIn(fn, nameIs("appendByte")) {
			arg := norm(site.Common().Args[1])
			gs := guardsOf(site.(ssa.Instruction))
			lt := hasGuard(gs, `^\(.*<10\)$`)
			ge := hasGuard(gs, `^!\(.*<10\)$`)
			switch {
			case lt && strings.HasSuffix(arg, "+48)"):
				good++
			case ge && strings.Contains(arg, "%10") && strings.HasSuffix(arg, "+97)"):
				good++
			default:
				bad = append(bad, arg+" under "+guardTexts(gs))
			}
		}
		status := core.Proved
		if good != 4 || len(bad) > 0 {
			status = core.Violated
		}
		r.Add(core.Obligation{Rule: "tables", Key: "tables writeHex", Func: core.FuncName(fn), Pos: c.P.Pos(fn.Pos()), Status: status,
			Basis: "nibble < 10 -> +'0', else %10 + 'a' (4 sites)", Detail: "unexpected digit expression: " + strings.Join(bad, "; ")})
	}
}
