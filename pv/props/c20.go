package props

import (
	"fmt"
	"go/constant"
	"go/token"
	"go/types"
	"regexp"
	"sort"
	"strings"
	"sync"

	"golang.org/x/tools/go/ssa"

	"pv/absint"
	"pv/bitprov"
	"pv/core"
)

func init() { register("C20", "other", runC20) }

func runC20(c *Ctx) {
	r := c.R
	r.Explanation = "Buffer safety and structure of the fastlog appenders, decided statically. (bounds) The three array appenders that promise truncation — ByteArray, StringArray, IPArray — are interpreted (abstract interpreter of C01, helpers inlined) " +
		"for an arbitrary line with 0 <= index <= len(buffer), arbitrary name and arbitrary value: every index and slice operation on the line buffer must be proved in range. " +
		"(brackets) In those appenders every path from the opening '[' to a return passes the closing ']' (an early return inside the element loop truncates the line without closing it). " +
		"(tables) hexAscii is \"0123456789abcdef\", byteAscii[i] is the decimal text of i for all 256 entries (constant evaluation of the literals), writeHex maps each nibble through +'0' / %10+'a' under the x<10 test. " +
		"Not decided: equality of the rendered text with netip / strconv / time for all values, and what 'fits the buffer' means for the appenders that document no truncation (String, Bytes, MAC, IP, ...)."
	r.Rule("bounds", "index/slice operations of the truncating appenders are in range for every line state and argument", 3)
	r.Rule("brackets", "an opened '[' is closed on every path to a return", 3)
	r.Rule("tables", "constant lookup tables hold the expected text", 3)

	pk := c.P.Pkg("fastlog")
	if pk == nil {
		r.Fatal("package fastlog not loaded")
		return
	}
	lineT, _ := pk.Members["Line"].(*ssa.Type)
	if lineT == nil {
		r.Fatal("fastlog.Line not found")
		return
	}
	st, _ := lineT.Type().Underlying().(*types.Struct)
	bufLen := int64(0)
	idxField := -1
	for i := 0; i < st.NumFields(); i++ {
		if at, ok := st.Field(i).Type().Underlying().(*types.Array); ok {
			bufLen = at.Len()
		}
		if st.Field(i).Name() == "index" {
			idxField = i
		}
	}
	if bufLen == 0 || idxField < 0 {
		r.Fatal("fastlog.Line layout not recognised")
		return
	}

	// ---- bounds ----
	// every method of Line, for every line state and arbitrary arguments (the three truncating appenders were the
	// original scope; a table lookup or copy in any other appender can run out of range just the same)
	var lineMethods []string
	for _, fn := range c.P.LibFunctions() {
		if fn.Pkg != nil && fn.Pkg.Pkg.Name() == "fastlog" && fn.Signature.Recv() != nil && strings.HasSuffix(fn.Signature.Recv().Type().String(), "fastlog.Line") && fn.Parent() == nil {
			lineMethods = append(lineMethods, fn.Name())
		}
	}
	sort.Strings(lineMethods)
	for _, name := range lineMethods {
		fn := c.P.Method("fastlog", "Line", name)
		if fn == nil {
			r.Add(core.Obligation{Rule: "bounds", Key: "bounds Line." + name, Status: core.Violated, Detail: "method not found"})
			continue
		}
		var fails []string
		seen := map[string]bool{}
		n := 0
		truncating := name == "ByteArray" || name == "StringArray" || name == "IPArray"
		in := absint.New(c.P, absint.Config{MaxStates: 256, MaxOutcomes: 32}, func(f absint.Finding) {
			// the property promises in-buffer truncation for the three array appenders only; for the other methods
			// ("whenever the text fits the buffer") the obligations kept are the ones that do not depend on the room
			// left in the line: lookups in the constant tables and slices of the arguments
			if !truncating && strings.Contains(absint.SiteString(f.Site), "recv.buffer[") {
				return
			}
			n++
			if !f.OK {
				k := fmt.Sprintf("%s %s: %s", f.Kind, absint.SiteString(f.Site), f.Detail)
				if !seen[k] {
					seen[k] = true
					fails = append(fails, k)
				}
			}
		})
		h := absint.NewHeap()
		idx := in.Atoms.Fresh("line.index", 0, bufLen)
		fields := make([]absint.Value, st.NumFields())
		fields[idxField] = absint.IntV{L: absint.AtomLin(idx)}
		ptr := in.NewTypedCell("line", lineT.Type(), absint.StructV{F: fields}, h)
		args := make([]absint.Value, len(fn.Params))
		args[0] = ptr
		in.Exec(fn, args, nil, h)
		status := core.Proved
		det := ""
		if !truncating && n == 0 {
			continue // nothing but buffer writes in this method
		}
		if len(fails) > 0 || n == 0 {
			status = core.Violated
			if len(fails) > 6 {
				fails = append(fails[:6], fmt.Sprintf("... and %d more", len(fails)-6))
			}
			det = "with 0 <= index <= " + fmt.Sprint(bufLen) + " and arbitrary arguments: " + strings.Join(fails, " | ")
		}
		r.Add(core.Obligation{Rule: "bounds", Key: "bounds Line." + name, Func: core.FuncName(fn), Pos: c.P.Pos(fn.Pos()), Status: status,
			Basis: fmt.Sprintf("%d bounds obligations proved for every line state", n), Detail: det})
	}

	// ---- brackets ----
	isAppend := func(i ssa.Instruction, ch byte) bool {
		call, ok := i.(*ssa.Call)
		if !ok || call.Call.StaticCallee() == nil || call.Call.StaticCallee().Name() != "appendByte" || len(call.Call.Args) != 2 {
			return false
		}
		k, ok := call.Call.Args[1].(*ssa.Const)
		return ok && k.Value != nil && k.Int64() == int64(ch)
	}
	writesOpen := func(i ssa.Instruction) bool {
		if isAppend(i, '[') {
			return true
		}
		// copy(buffer[index:], "=[")
		if call, ok := isBuiltinCall(i, "copy"); ok {
			if k, ok := call.Call.Args[1].(*ssa.Const); ok && k.Value != nil && k.Value.Kind() == constant.String && strings.HasSuffix(constant.StringVal(k.Value), "[") {
				return true
			}
		}
		return false
	}
	for _, name := range []string{"ByteArray", "StringArray", "IPArray"} {
		fn := c.P.Method("fastlog", "Line", name)
		if fn == nil {
			continue
		}
		found := false
		core.EachInstr(fn, func(i ssa.Instruction) {
			if !writesOpen(i) {
				return
			}
			found = true
			ok, exit := mustPass(i, func(j ssa.Instruction) bool { return isAppend(j, ']') })
			status := core.Proved
			det := ""
			if !ok {
				status = core.Violated
				det = fmt.Sprintf("a path from the opening '[' reaches the return at %s without appending ']': the array field is cut off and the following fields run into it", c.P.Pos(core.PosOf(exit)))
			}
			r.Add(core.Obligation{Rule: "brackets", Key: "brackets Line." + name, Func: core.FuncName(fn), Pos: c.P.Pos(core.PosOf(i)), Status: status,
				Basis: "every path from '[' to a return appends ']'", Detail: det})
		})
		if !found {
			r.Add(core.Obligation{Rule: "brackets", Key: "brackets Line." + name, Func: core.FuncName(fn), Status: core.Violated, Detail: "no opening '[' found"})
		}
	}

	// ---- tables ----
	initFn := pk.Func("init")
	checkTable := func(gname string, want func(i int) string, n int) {
		g, _ := pk.Members[gname].(*ssa.Global)
		status := core.Violated
		det := gname + " not found or not a constant literal"
		if g != nil && initFn != nil {
			got := map[int64]string{}
			var backing *ssa.Alloc
			core.EachInstr(initFn, func(i ssa.Instruction) {
				if st, ok := i.(*ssa.Store); ok && st.Addr == ssa.Value(g) {
					if sl, ok := st.Val.(*ssa.Slice); ok {
						backing, _ = sl.X.(*ssa.Alloc)
					}
				}
			})
			if backing != nil && backing.Referrers() != nil {
				for _, ref := range *backing.Referrers() {
					ia, ok := ref.(*ssa.IndexAddr)
					if !ok || ia.Referrers() == nil {
						continue
					}
					k, ok := ia.Index.(*ssa.Const)
					if !ok {
						continue
					}
					for _, rr := range *ia.Referrers() {
						if st, ok := rr.(*ssa.Store); ok {
							if cv, ok := st.Val.(*ssa.Const); ok && cv.Value != nil {
								if cv.Value.Kind() == constant.String {
									got[k.Int64()] = constant.StringVal(cv.Value)
								} else {
									got[k.Int64()] = string(rune(cv.Int64()))
								}
							}
						}
					}
				}
				status, det = core.Proved, ""
				if len(got) != n {
					status, det = core.Violated, fmt.Sprintf("%s has %d constant entries, expected %d", gname, len(got), n)
				}
				for i := 0; i < n; i++ {
					if got[int64(i)] != want(i) && status == core.Proved {
						status, det = core.Violated, fmt.Sprintf("%s[%d] = %q, expected %q", gname, i, got[int64(i)], want(i))
					}
				}
			}
		}
		r.Add(core.Obligation{Rule: "tables", Key: "tables " + gname, Func: "fastlog.init", Status: status, Basis: fmt.Sprintf("%d entries evaluated from the literal", n), Detail: det})
	}
	checkTable("hexAscii", func(i int) string { return string("0123456789abcdef"[i]) }, 16)
	checkTable("byteAscii", func(i int) string { return fmt.Sprint(i) }, 256)
	// fixed-format appenders: the sequence of bytes appended after the '=' (in program order along the main path)
	r.Rule("sequence", "fixed-width hex / MAC appenders emit their digits most significant first with the right separators", 3)
	seqWant := map[string][]string{
		"Uint8Hex":  {"48", "120", "hexAscii[((arg1>>4)&15)]", "hexAscii[(arg1&15)]"},
		"Uint16Hex": {"48", "120", "hexAscii[((arg1>>12)&15)]", "hexAscii[((arg1>>8)&15)]", "hexAscii[((arg1>>4)&15)]", "hexAscii[(arg1&15)]"},
		"MAC":       {"arg1[0]", "58", "arg1[1]", "58", "arg1[2]", "58", "arg1[3]", "58", "arg1[4]", "58", "arg1[5]"},
	}
	for _, name := range []string{"Uint8Hex", "Uint16Hex", "MAC"} {
		fn := c.P.Method("fastlog", "Line", name)
		if fn == nil {
			r.Add(core.Obligation{Rule: "sequence", Key: "sequence Line." + name, Status: core.Violated, Detail: "method not found"})
			continue
		}
		var got []string
		started := false
		for _, b := range fn.DomPreorder() {
			for _, i := range b.Instrs {
				call, ok := i.(*ssa.Call)
				if !ok || call.Call.StaticCallee() == nil {
					continue
				}
				cn := call.Call.StaticCallee().Name()
				if (cn != "appendByte" && cn != "writeHex") || len(call.Call.Args) != 2 {
					continue
				}
				a := norm(call.Call.Args[1])
				if !started {
					if a == "61" { // '='
						started = true
					}
					continue
				}
				got = append(got, a)
			}
		}
		status := core.Proved
		det := ""
		if strings.Join(got, " ") != strings.Join(seqWant[name], " ") {
			status = core.Violated
			det = fmt.Sprintf("Line.%s appends %v after '='; expected %v", name, got, seqWant[name])
		}
		r.Add(core.Obligation{Rule: "sequence", Key: "sequence Line." + name, Func: core.FuncName(fn), Pos: c.P.Pos(fn.Pos()), Status: status,
			Basis: strings.Join(seqWant[name], " "), Detail: det})
	}
	// writeHex: each half: x < 10 -> x + '0' ; else x%10 + 'a'
	if fn := c.P.Method("fastlog", "Line", "writeHex"); fn != nil {
		good := 0
		var bad []string
		for _, site := range callsIn(fn, nameIs("appendByte")) {
			arg := norm(site.Common().Args[1])
			gs := guardsOf(site.(ssa.Instruction))
			lt := hasGuard(gs, `^\(.*<10\)$`)
			ge := hasGuard(gs, `^!\(.*<10\)$`)
			switch {
			case lt && strings.HasSuffix(arg, "+48)"):
				good++
			case ge && strings.Contains(arg, "%10") && strings.HasSuffix(arg, "+97)"):
				good++
			default:
				bad = append(bad, arg+" under "+guardTexts(gs))
			}
		}
		status := core.Proved
		if good != 4 || len(bad) > 0 {
			status = core.Violated
		}
		r.Add(core.Obligation{Rule: "tables", Key: "tables writeHex", Func: core.FuncName(fn), Pos: c.P.Pos(fn.Pos()), Status: status,
			Basis: "nibble < 10 -> +'0', else %10 + 'a' (4 sites)", Detail: "unexpected digit expression: " + strings.Join(bad, "; ")})
	}
	runC20ZeroRun(c)
	runC20Narrowing(c)
}

func runC20ZeroRun(c *Ctx) {
	r := c.R
	r.Rule("ip6-run", "the zero run chosen for '::' is the first longest run of at least two all-zero groups", 1)
	fn := c.P.Method("fastlog", "Line", "appendIP6")
	if fn == nil {
		r.Add(core.Obligation{Rule: "ip6-run", Key: "ip6-run appendIP6", Status: core.Violated, Detail: "appendIP6 not found"})
		return
	}
	// the selection ends where startZ and endZ are compared
	var stopBlock *ssa.BasicBlock
	var startPhi, endPhi ssa.Value
	core.EachInstr(fn, func(i ssa.Instruction) {
		iff, ok := i.(*ssa.If)
		if !ok || stopBlock != nil {
			return
		}
		bo, ok := iff.Cond.(*ssa.BinOp)
		if !ok || bo.Op != token.EQL {
			return
		}
		name := func(v ssa.Value) string {
			if p, ok := v.(*ssa.Phi); ok {
				return p.Comment
			}
			return ""
		}
		a, b := name(bo.X), name(bo.Y)
		if (a == "endZ" && b == "startZ") || (a == "startZ" && b == "endZ") {
			stopBlock = i.Block()
			if a == "startZ" {
				startPhi, endPhi = bo.X, bo.Y
			} else {
				startPhi, endPhi = bo.Y, bo.X
			}
		}
	})
	if stopBlock == nil {
		r.Add(core.Obligation{Rule: "ip6-run", Key: "ip6-run appendIP6", Func: core.FuncName(fn), Status: core.Violated,
			Detail: "the point where the selected run (startZ, endZ) is complete was not recognised (comparison of startZ and endZ)"})
		return
	}
	type job struct{ code [8]int } // per group: 0 zero, 1 high byte non-zero, 2 high zero / low non-zero
	var jobs []job
	var gen func(k int, cur [8]int)
	gen = func(k int, cur [8]int) {
		if k == 8 {
			jobs = append(jobs, job{cur})
			return
		}
		for v := 0; v < 3; v++ {
			cur[k] = v
			gen(k+1, cur)
		}
	}
	gen(0, [8]int{})
	expected := func(code [8]int) (int64, int64) {
		bs, be, bl := -1, -1, 0
		for i := 0; i < 8; {
			if code[i] != 0 {
				i++
				continue
			}
			j := i
			for j < 8 && code[j] == 0 {
				j++
			}
			if l := j - i; l >= 2 && l > bl {
				bs, be, bl = i, j-1, l
			}
			i = j
		}
		return int64(bs), int64(be)
	}
	type res struct {
		bad string
	}
	results := make([]res, len(jobs))
	var wg sync.WaitGroup
	sem := make(chan struct{}, 16)
	for idx := range jobs {
		wg.Add(1)
		sem <- struct{}{}
		go func(idx int) {
			defer wg.Done()
			defer func() { <-sem }()
			code := jobs[idx].code
			ev := &bitprov.Eval{Unroll: 400, MaxPaths: 4,
				ByteValue: func(src string, off int) (bitprov.Int, bool) {
					if src != "ip" {
						return bitprov.Int{}, false
					}
					g, hi := off/2, off%2 == 0
					switch code[g] {
					case 0:
						return bitprov.ConstInt(0), true
					case 1:
						if hi {
							return bitprov.NonZeroInt("nz"), true
						}
						return bitprov.UnknownInt("any"), true
					default:
						if hi {
							return bitprov.ConstInt(0), true
						}
						return bitprov.NonZeroInt("nz"), true
					}
				},
				StopAt: func(b *ssa.BasicBlock, value func(ssa.Value) bitprov.Val) ([]bitprov.Val, bool) {
					if b != stopBlock {
						return nil, false
					}
					return []bitprov.Val{value(startPhi), value(endPhi)}, true
				},
			}
			rets := ev.Run(fn, []bitprov.Val{bitprov.Opaque{Why: "line"}, bitprov.Slice{Src: "ip", Lo: bitprov.ConstInt(0), Hi: bitprov.ConstInt(16)}})
			ws, we := expected(code)
			if len(rets) != 1 || len(rets[0].Vals) != 2 {
				results[idx].bad = fmt.Sprintf("groups %v: the selection could not be evaluated (%d paths: %s)", code, len(rets), func() string {
					if len(rets) > 0 {
						return bitprov.RetString(rets[0])
					}
					return ""
				}())
				return
			}
			sv, ok1 := rets[0].Vals[0].(bitprov.Int)
			evv, ok2 := rets[0].Vals[1].(bitprov.Int)
			s64, c1 := sv.IsConst()
			e64, c2 := evv.IsConst()
			if !ok1 || !ok2 || !c1 || !c2 {
				results[idx].bad = fmt.Sprintf("groups %v: startZ/endZ are not constants: %s", code, bitprov.RetString(rets[0]))
				return
			}
			gs, ge := int64(s64), int64(e64)
			same := (ws < 0 && gs == ge) || (ws >= 0 && gs == ws && ge == we)
			if !same {
				results[idx].bad = fmt.Sprintf("zero pattern %s: the code selects groups %d..%d for '::', RFC 5952 selects %s", patternString(code), gs, ge, func() string {
					if ws < 0 {
						return "none"
					}
					return fmt.Sprintf("%d..%d", ws, we)
				}())
			}
		}(idx)
	}
	wg.Wait()
	var bad []string
	for _, x := range results {
		if x.bad != "" {
			bad = append(bad, x.bad)
		}
	}
	st := core.Proved
	det := ""
	if len(bad) > 0 {
		st = core.Violated
		n := len(bad)
		if n > 4 {
			bad = bad[:4]
		}
		det = fmt.Sprintf("%d of %d abstract addresses differ, e.g. %s", n, len(jobs), strings.Join(bad, " ; "))
	}
	r.Add(core.Obligation{Rule: "ip6-run", Key: "ip6-run appendIP6 zero-run selection", Func: core.FuncName(fn), Pos: c.P.Pos(fn.Pos()), Status: st,
		Basis: fmt.Sprintf("selection evaluated for all %d abstract addresses (each group: zero / high byte non-zero / low byte non-zero) and equal to RFC 5952 4.2", len(jobs)), Detail: det})
	r.Extra["ip6_abstract_addresses"] = len(jobs)
}

func patternString(code [8]int) string {
	var p []string
	for _, v := range code {
		if v == 0 {
			p = append(p, "0")
		} else {
			p = append(p, "x")
		}
	}
	return strings.Join(p, ":")
}

// runC20Narrowing: an integer appender renders the value it was given: on its way to the digit writer
// (strconv.AppendInt, printInt, the hex tables) the parameter may be widened or reinterpreted at the same width,
// but not narrowed — a narrowing conversion silently drops the high bits of large values.
func runC20Narrowing(c *Ctx) {
	r := c.R
	// netip addresses are rendered by netip itself: Line.IP hands every valid address to (netip.Addr).AppendTo. The
	// hand-written IPv6 formatter knows neither the IPv4-mapped form (::ffff:1.2.3.4) nor zones (fe80::1%eth0).
	// the dotted-quad rendering of a net.IP is chosen exactly when net.IP.String() chooses it: the four bytes rendered
	// through the byteAscii table are those of value.To4(), under "To4() != nil" (a hand-written family test that looks
	// at fewer than the twelve prefix bytes prints 0:0:0:0:1:ffff:c0a8:1 as 192.168.0.1)
	r.Rule("ip4-family", "a net.IP is rendered as a dotted quad exactly when To4() says it is IPv4", 8)
	for _, fn := range c.P.ModuleFunctions() {
		if fn.Pkg == nil || fn.Pkg.Pkg.Name() != "fastlog" {
			continue
		}
		kgf := core.NewKeyGen()
		core.EachInstr(fn, func(i ssa.Instruction) {
			ia, ok := i.(*ssa.IndexAddr)
			if !ok {
				return
			}
			tbl := ia.X
			if ld, isLd := tbl.(*ssa.UnOp); isLd {
				tbl = ld.X
			}
			if g, isG := tbl.(*ssa.Global); !isG || g.Name() != "byteAscii" {
				return
			}
			// index = uint8 element of a net.IP
			idx := stripConv(ia.Index)
			ld, ok := idx.(*ssa.UnOp)
			if !ok {
				return
			}
			el, ok := ld.X.(*ssa.IndexAddr)
			if !ok || el.X.Type().String() != "net.IP" {
				return
			}
			st, det := core.Proved, ""
			call, isCall := el.X.(*ssa.Call)
			if !isCall || call.Call.StaticCallee() == nil || call.Call.StaticCallee().String() != "(net.IP).To4" {
				st, det = core.Violated, "the address byte rendered as a decimal comes from "+norm(el.X)+", not from To4() of the value: the IPv4 form is chosen by something other than net.IP's own test"
			} else if !hasGuard(guardsOf(i), "^!\\("+regexp.QuoteMeta(norm(el.X))+"==nil\\)$") {
				st, det = core.Violated, "the dotted-quad rendering is not under To4() != nil: "+guardTexts(guardsOf(i))
			}
			r.Add(core.Obligation{Rule: "ip4-family", Key: strings.TrimSuffix(kgf.Key("ip4-family "+core.FuncName(fn)), "#0"), Func: core.FuncName(fn), Pos: c.P.Pos(core.PosOf(i)), Status: st,
				Basis: "byteAscii[To4(value)[k]] under To4(value) != nil", Detail: det})
		})
	}
	r.Rule("netip-text", "Line.IP renders every valid netip.Addr with netip's own AppendTo", 1)
	if fn := c.P.Method("fastlog", "Line", "IP"); fn != nil {
		var valid ssa.Instruction
		for _, s := range callsIn(fn, nameIs("IsValid")) {
			valid = s.(ssa.Instruction)
		}
		st, det := core.Violated, "the IsValid test of Line.IP was not found"
		if valid != nil {
			// every return reached with IsValid() true has passed AppendTo on the value
			st, det = core.Proved, ""
			core.EachInstr(fn, func(i ssa.Instruction) {
				ret, ok := i.(*ssa.Return)
				if !ok {
					return
				}
				underValid := false
				for _, g := range guardsOf(ret) {
					if g.Pol && g.Cond == valid.(ssa.Value) {
						underValid = true
					}
				}
				if !underValid {
					return
				}
				if reachesWithout(valid, ret, func(j ssa.Instruction) bool {
					cj, isCall := j.(ssa.CallInstruction)
					return isCall && core.CalleeName(cj) == "(net/netip.Addr).AppendTo"
				}) {
					st = core.Violated
					det = "a valid address reaches the return at " + c.P.Pos(core.PosOf(ret)) + " without (netip.Addr).AppendTo: it is rendered by other code, which does not produce netip's text for IPv4-mapped or zoned addresses"
				}
			})
		}
		r.Add(core.Obligation{Rule: "netip-text", Key: "netip-text Line.IP", Func: core.FuncName(fn), Pos: c.P.Pos(fn.Pos()), Status: st,
			Basis: "every path with IsValid() passes (netip.Addr).AppendTo", Detail: det})
	}
	// durations are rendered by the standard library itself: every return of Line.Duration has passed
	// (time.Duration).String on the value (a hand-written fast path has to reproduce the unit switching at 1µs, 1ms, 1s, 1m, 1h)
	r.Rule("duration-text", "Line.Duration renders every value with time.Duration.String", 1)
	if fn := c.P.Method("fastlog", "Line", "Duration"); fn != nil && len(fn.Blocks) > 0 && len(fn.Blocks[0].Instrs) > 0 {
		st, det := core.Proved, ""
		isStr := func(j ssa.Instruction) bool {
			cj, isCall := j.(ssa.CallInstruction)
			return isCall && core.CalleeName(cj) == "(time.Duration).String" && len(cj.Common().Args) == 1 && cj.Common().Args[0] == ssa.Value(fn.Params[2])
		}
		first := fn.Blocks[0].Instrs[0]
		core.EachInstr(fn, func(i ssa.Instruction) {
			ret, ok := i.(*ssa.Return)
			if !ok {
				return
			}
			if !isStr(first) && reachesWithout(first, ret, isStr) {
				st = core.Violated
				det = "Line.Duration reaches the return at " + c.P.Pos(core.PosOf(ret)) + " without time.Duration.String on its argument: the value is rendered by other code, which has to agree with the standard library at every unit boundary (60s is 1m0s)"
			}
		})
		r.Add(core.Obligation{Rule: "duration-text", Key: "duration-text Line.Duration", Func: core.FuncName(fn), Pos: c.P.Pos(fn.Pos()), Status: st,
			Basis: "every path passes (time.Duration).String(duration)", Detail: det})
	}
	r.Rule("narrowing", "integer appenders do not narrow the value before rendering it", 5)
	sizes := types.SizesFor("gc", "amd64")
	for _, name := range []string{"Int", "Uint8", "Uint16", "Uint32", "Uint8Hex", "Uint16Hex"} {
		fn := c.P.Method("fastlog", "Line", name)
		if fn == nil || len(fn.Params) != 3 {
			r.Add(core.Obligation{Rule: "narrowing", Key: "narrowing Line." + name, Status: core.Violated, Detail: "method not found"})
			continue
		}
		val := fn.Params[2]
		derived := map[ssa.Value]bool{val: true}
		// values derived from the parameter by arithmetic that keeps it an integer of the same meaning
		for changed := true; changed; {
			changed = false
			core.EachInstr(fn, func(i ssa.Instruction) {
				v, ok := i.(ssa.Value)
				if !ok || derived[v] {
					return
				}
				switch t := i.(type) {
				case *ssa.Phi:
					for _, e := range t.Edges {
						if derived[e] {
							derived[v], changed = true, true
						}
					}
				case *ssa.UnOp:
					if t.Op == token.SUB && derived[t.X] {
						derived[v], changed = true, true
					}
				case *ssa.Convert:
					if derived[t.X] {
						derived[v], changed = true, true
					}
				}
			})
		}
		var bad []string
		core.EachInstr(fn, func(i ssa.Instruction) {
			cv, ok := i.(*ssa.Convert)
			if !ok || !derived[cv.X] {
				return
			}
			sb, ok1 := cv.X.Type().Underlying().(*types.Basic)
			db, ok2 := cv.Type().Underlying().(*types.Basic)
			if !ok1 || !ok2 || sb.Info()&types.IsInteger == 0 || db.Info()&types.IsInteger == 0 {
				return
			}
			if sizes.Sizeof(cv.Type()) < sizes.Sizeof(cv.X.Type()) {
				// narrowing is fine when only the kept bits are used on purpose: a nibble / byte extraction feeding a table index
				if name == "Uint8Hex" || name == "Uint16Hex" {
					return
				}
				bad = append(bad, fmt.Sprintf("%s -> %s at %s", cv.X.Type(), cv.Type(), c.P.Pos(cv.Pos())))
			}
		})
		st := core.Proved
		det := ""
		if len(bad) > 0 {
			st = core.Violated
			det = "the value is narrowed before it is rendered (" + strings.Join(bad, "; ") + "): values that do not fit the narrower type are logged as a different number"
		}
		r.Add(core.Obligation{Rule: "narrowing", Key: "narrowing Line." + name, Func: core.FuncName(fn), Pos: c.P.Pos(fn.Pos()), Status: st,
			Basis: "conversions of the logged value are widening or same width (64-bit target sizes)", Detail: det})
	}
}
