package props

import (
	"fmt"
	"go/constant"
	"go/token"
	"go/types"

	"golang.org/x/tools/go/ssa"

	"pv/absint"
	"pv/core"
)

// loopFactsFrom lets the classifier consult ranking functions established by the abstract interpreter.
var loopFactsFrom []*absint.Interp

func loopDesc(l *core.Loop) string {
	// describe the loop by its position-independent shape: ordinal among the function's loops
	fn := l.Head.Parent()
	for i, o := range core.CFG(fn).Loops() {
		if o == l {
			return fmt.Sprintf("loop#%d", i)
		}
	}
	return "loop"
}

// classifyLoop returns a non-empty class when the loop is recognised as terminating
// (or as an event loop, which is outside per-packet termination).
func classifyLoop(p *core.Program, fn *ssa.Function, l *core.Loop) (class, why string) {
	// the loop writes no memory: no store, map update, send, and no call other than to a few pure library functions
	readOnly := true
	for b := range l.Blocks {
		for _, ins := range b.Instrs {
			switch t := ins.(type) {
			case *ssa.Store, *ssa.MapUpdate, *ssa.Send, *ssa.Go, *ssa.Defer:
				readOnly = false
			case *ssa.Call:
				if _, isB := t.Call.Value.(*ssa.Builtin); isB {
					continue
				}
				switch core.CalleeName(t) {
				case "bytes.Equal", "bytes.Compare", "bytes.HasPrefix", "bytes.HasSuffix", "strings.HasPrefix", "strings.HasSuffix":
				default:
					readOnly = false
				}
			}
		}
	}
	var inLoop func(v ssa.Value) bool
	inLoop = func(v ssa.Value) bool {
		i, ok := v.(ssa.Instruction)
		if !ok || !l.Blocks[i.Block()] {
			return false
		}
		// a value recomputed on every iteration from memory the loop never writes is as good as one computed before it:
		// len(x.f) / cap(x.f) / x.f with x defined outside the loop
		if readOnly {
			switch t := v.(type) {
			case *ssa.Call:
				if bi, isB := t.Call.Value.(*ssa.Builtin); isB && (bi.Name() == "len" || bi.Name() == "cap") && len(t.Call.Args) == 1 {
					return inLoop(t.Call.Args[0])
				}
			case *ssa.UnOp:
				if t.Op == token.MUL {
					return inLoop(t.X)
				}
			case *ssa.FieldAddr:
				return inLoop(t.X)
			}
		}
		return true
	}
	// (vi) event loops: blocking select / channel receive / ticker wait inside the loop
	for b := range l.Blocks {
		for _, ins := range b.Instrs {
			switch t := ins.(type) {
			case *ssa.Select:
				if t.Blocking {
					return "event", "blocking select inside the loop (goroutine event loop; exit discipline is C09's)"
				}
			case *ssa.UnOp:
				if t.Op == token.ARROW {
					return "event", "channel receive inside the loop"
				}
			}
		}
	}
	// (i) range over map/string: exit controlled by Next's ok
	for b := range l.Blocks {
		if iff, ok := b.Instrs[len(b.Instrs)-1].(*ssa.If); ok {
			if ex, ok := iff.Cond.(*ssa.Extract); ok && ex.Index == 0 {
				if nx, ok := ex.Tuple.(*ssa.Next); ok && !l.Blocks[nx.Iter.(ssa.Instruction).Block()] {
					if !l.Blocks[b.Succs[0]] || !l.Blocks[b.Succs[1]] {
						return "range", "range over map/string: iterator exhausts"
					}
				}
			}
		}
	}
	// (ii) counted: induction φ with constant step of fixed sign on every back edge, exit test against a loop-invariant bound
	for _, ins := range l.Head.Instrs {
		phi, ok := ins.(*ssa.Phi)
		if !ok {
			break
		}
		if _, isInt := phi.Type().Underlying().(*types.Basic); !isInt {
			continue
		}
		step, ok := constStep(l, phi)
		if !ok || step == 0 {
			continue
		}
		// find an exit test comparing φ (or φ+const) with an invariant operand
		for b := range l.Blocks {
			iff, ok := b.Instrs[len(b.Instrs)-1].(*ssa.If)
			if !ok {
				continue
			}
			exits := !l.Blocks[b.Succs[0]] || !l.Blocks[b.Succs[1]]
			if !exits {
				continue
			}
			cmp, ok := iff.Cond.(*ssa.BinOp)
			if !ok {
				continue
			}
			var ind, bound ssa.Value
			if derivesFrom(cmp.X, phi, l) && !inLoop(cmp.Y) {
				ind, bound = cmp.X, cmp.Y
			} else if derivesFrom(cmp.Y, phi, l) && !inLoop(cmp.X) {
				ind, bound = cmp.Y, cmp.X
			} else {
				continue
			}
			_ = ind
			switch cmp.Op {
			case token.LSS, token.LEQ, token.GTR, token.GEQ:
				// the test must dominate every latch so it is evaluated on every iteration
				dominatesAll := true
				for _, lt := range l.Latch {
					if !(b == lt || b.Dominates(lt)) {
						dominatesAll = false
					}
				}
				if dominatesAll {
					return "counted", fmt.Sprintf("induction value steps by %+d every iteration and is compared (%s) with loop-invariant %s on every iteration", step, cmp.Op, absint.ExprString(bound, 3))
				}
			case token.NEQ, token.EQL:
				if step == 1 || step == -1 {
					dominatesAll := true
					for _, lt := range l.Latch {
						if !(b == lt || b.Dominates(lt)) {
							dominatesAll = false
						}
					}
					if dominatesAll {
						return "counted", fmt.Sprintf("unit step compared for (in)equality with loop-invariant %s", absint.ExprString(bound, 3))
					}
				}
			}
		}
	}
	// (ii-b) dividing: φ' = φ / c (c >= 2) or φ >> k (k >= 1) on every back edge, exit when φ reaches 0
	for _, ins := range l.Head.Instrs {
		phi, ok := ins.(*ssa.Phi)
		if !ok {
			break
		}
		allDiv := true
		n := 0
		for i, e := range phi.Edges {
			if !l.Blocks[l.Head.Preds[i]] {
				continue
			}
			n++
			bo, ok := e.(*ssa.BinOp)
			if !ok || bo.X != ssa.Value(phi) {
				allDiv = false
				break
			}
			c, ok := bo.Y.(*ssa.Const)
			if !ok || c.Value == nil {
				allDiv = false
				break
			}
			k, _ := constant.Int64Val(c.Value)
			if !((bo.Op == token.QUO && k >= 2) || (bo.Op == token.SHR && k >= 1)) {
				allDiv = false
				break
			}
		}
		if !allDiv || n == 0 {
			continue
		}
		for b := range l.Blocks {
			iff, ok := b.Instrs[len(b.Instrs)-1].(*ssa.If)
			if !ok || (l.Blocks[b.Succs[0]] && l.Blocks[b.Succs[1]]) {
				continue
			}
			cmp, ok := iff.Cond.(*ssa.BinOp)
			if !ok || cmp.X != ssa.Value(phi) {
				continue
			}
			if c, ok := cmp.Y.(*ssa.Const); ok && c.Value != nil {
				if k, _ := constant.Int64Val(c.Value); k == 0 && (cmp.Op == token.GTR || cmp.Op == token.NEQ) {
					dominatesAll := true
					for _, lt := range l.Latch {
						if !(b == lt || b.Dominates(lt)) {
							dominatesAll = false
						}
					}
					if dominatesAll {
						return "dividing", "value is divided by a constant >= 2 on every iteration and the loop exits when it reaches 0"
					}
				}
			}
		}
	}
	// (iv) netip.Addr cursor: exit test X.Less(bound) and X = X.Next() stored on every path to a latch
	for b := range l.Blocks {
		iff, ok := b.Instrs[len(b.Instrs)-1].(*ssa.If)
		if !ok || (l.Blocks[b.Succs[0]] && l.Blocks[b.Succs[1]]) {
			continue
		}
		call, ok := iff.Cond.(*ssa.Call)
		if !ok || core.CalleeName(call) != "(net/netip.Addr).Less" || len(call.Call.Args) != 2 {
			continue
		}
		ld, ok := call.Call.Args[0].(*ssa.UnOp)
		if !ok || ld.Op != token.MUL {
			continue
		}
		loc := absint.ExprString(ld.X, 6)
		// a store  loc = Next(*loc)  that dominates every latch
		found := false
		for sb := range l.Blocks {
			for _, ins := range sb.Instrs {
				st, ok := ins.(*ssa.Store)
				if !ok || absint.ExprString(st.Addr, 6) != loc {
					continue
				}
				nx, ok := st.Val.(*ssa.Call)
				if !ok || core.CalleeName(nx) != "(net/netip.Addr).Next" || len(nx.Call.Args) != 1 {
					continue
				}
				if src, ok := nx.Call.Args[0].(*ssa.UnOp); !ok || absint.ExprString(src.X, 6) != loc {
					continue
				}
				all := true
				for _, lt := range l.Latch {
					if !(sb == lt || sb.Dominates(lt)) {
						all = false
					}
				}
				if all {
					found = true
				}
			}
		}
		// no other store to loc in the loop except Next() advances or assignments outside
		if found {
			clean := true
			for sb := range l.Blocks {
				for _, ins := range sb.Instrs {
					if st, ok := ins.(*ssa.Store); ok && absint.ExprString(st.Addr, 6) == loc {
						if nx, ok := st.Val.(*ssa.Call); !ok || core.CalleeName(nx) != "(net/netip.Addr).Next" {
							clean = false
						}
					}
				}
			}
			if clean {
				return "cursor", "netip.Addr cursor advanced by Next() on every iteration and tested with Less(bound): at most 2^32 / 2^128 steps, in practice the subnet size"
			}
		}
	}
	// (iii) ranking function established by the abstract interpreter in every context it analysed
	for _, in := range loopFactsFrom {
		if lf, ok := in.LoopFacts[l.Head]; ok {
			if lf.Terminates {
				return "ranked", fmt.Sprintf("%s (in %d analysed contexts)", lf.Why, lf.Contexts)
			}
			return "", lf.Why
		}
	}
	return "", "not a range, not counted with a constant step against an invariant bound, and no ranking function was established"
}

// constStep: φ's back-edge values are all φ + c (same sign c); returns c of smallest magnitude.
func constStep(l *core.Loop, phi *ssa.Phi) (int64, bool) {
	var step int64
	found := false
	for i, e := range phi.Edges {
		pred := l.Head.Preds[i]
		if !l.Blocks[pred] {
			continue // entry edge
		}
		c, ok := addConst(e, phi, 0)
		if !ok {
			return 0, false
		}
		if found && (c > 0) != (step > 0) {
			return 0, false
		}
		if !found || abs64(c) < abs64(step) {
			step = c
		}
		found = true
	}
	return step, found
}

func abs64(x int64) int64 {
	if x < 0 {
		return -x
	}
	return x
}

// addConst: v == base + c through +/- constants and inner φs that only add constants of the same sign.
func addConst(v ssa.Value, base *ssa.Phi, depth int) (int64, bool) {
	if depth > 6 {
		return 0, false
	}
	if v == ssa.Value(base) {
		return 0, true
	}
	switch t := v.(type) {
	case *ssa.BinOp:
		if t.Op == token.ADD || t.Op == token.SUB {
			if c, ok := t.Y.(*ssa.Const); ok && c.Value != nil && c.Value.Kind() == constant.Int {
				k, _ := constant.Int64Val(c.Value)
				if t.Op == token.SUB {
					k = -k
				}
				b, ok := addConst(t.X, base, depth+1)
				return b + k, ok
			}
			if c, ok := t.X.(*ssa.Const); ok && t.Op == token.ADD && c.Value != nil && c.Value.Kind() == constant.Int {
				k, _ := constant.Int64Val(c.Value)
				b, ok := addConst(t.Y, base, depth+1)
				return b + k, ok
			}
		}
	case *ssa.Convert:
		return addConst(t.X, base, depth+1)
	case *ssa.Phi:
		// all edges must be base + c with the same sign; take the smallest magnitude
		var res int64
		first := true
		for _, e := range t.Edges {
			c, ok := addConst(e, base, depth+1)
			if !ok {
				return 0, false
			}
			if first {
				res, first = c, false
				continue
			}
			if (c > 0) != (res > 0) || c == 0 || res == 0 {
				return 0, false
			}
			if abs64(c) < abs64(res) {
				res = c
			}
		}
		return res, !first
	}
	return 0, false
}

// derivesFrom: v is φ, φ±const or a conversion of those.
func derivesFrom(v ssa.Value, phi *ssa.Phi, l *core.Loop) bool {
	_, ok := addConst(v, phi, 0)
	return ok
}
