package props

import (
	"go/types"
	"strings"

	"golang.org/x/tools/go/ssa"

	"pv/core"
)

// Buffer-write summaries: which slice parameters may a function write through (directly, through copy/append/
// binary.Put*, or by handing a derived slice to a callee that does). Used by rules of the form "the request is not
// read after the reply was encoded into the same buffer".

type bufWrites struct {
	c   *Ctx
	sum map[*ssa.Function]map[int]bool
}

// derivedParam: v is param k of fn or a re-slice / conversion / φ of it.
func derivedParam(fn *ssa.Function, v ssa.Value, depth int) int {
	return derivedParamSeen(fn, v, depth, map[ssa.Value]bool{})
}

func derivedParamSeen(fn *ssa.Function, v ssa.Value, depth int, seen map[ssa.Value]bool) int {
	if v == nil || depth > 12 || seen[v] {
		return -1
	}
	seen[v] = true
	switch t := v.(type) {
	case *ssa.Parameter:
		for i, p := range fn.Params {
			if p == t {
				if _, ok := t.Type().Underlying().(*types.Slice); ok {
					return i
				}
			}
		}
	case *ssa.Slice:
		return derivedParamSeen(fn, t.X, depth+1, seen)
	case *ssa.ChangeType:
		return derivedParamSeen(fn, t.X, depth+1, seen)
	case *ssa.Convert:
		return derivedParamSeen(fn, t.X, depth+1, seen)
	case *ssa.IndexAddr:
		return derivedParamSeen(fn, t.X, depth+1, seen)
	case *ssa.Phi:
		for _, e := range t.Edges {
			if k := derivedParamSeen(fn, e, depth+1, seen); k >= 0 {
				return k
			}
		}
	case *ssa.Call:
		// a view method that returns a re-slice of its receiver (Payload(), Options()...): follow the receiver
		if callee := t.Call.StaticCallee(); callee != nil && callee.Signature.Recv() != nil && len(t.Call.Args) > 0 {
			if _, ok := t.Type().Underlying().(*types.Slice); ok {
				return derivedParamSeen(fn, t.Call.Args[0], depth+1, seen)
			}
		}
	}
	return -1
}

func newBufWrites(c *Ctx) *bufWrites {
	b := &bufWrites{c: c, sum: map[*ssa.Function]map[int]bool{}}
	fns := c.P.LibFunctions()
	for changed := true; changed; {
		changed = false
		for _, fn := range fns {
			if fn.Blocks == nil {
				continue
			}
			cur := b.sum[fn]
			mark := func(k int) {
				if k < 0 {
					return
				}
				if cur == nil {
					cur = map[int]bool{}
					b.sum[fn] = cur
				}
				if !cur[k] {
					cur[k] = true
					changed = true
				}
			}
			core.EachInstr(fn, func(i ssa.Instruction) {
				switch t := i.(type) {
				case *ssa.Store:
					if ia, ok := t.Addr.(*ssa.IndexAddr); ok {
						mark(derivedParam(fn, ia.X, 0))
					}
				case ssa.CallInstruction:
					com := t.Common()
					if bi, ok := com.Value.(*ssa.Builtin); ok {
						if (bi.Name() == "copy" || bi.Name() == "append") && len(com.Args) > 0 {
							mark(derivedParam(fn, com.Args[0], 0))
						}
						return
					}
					callee := com.StaticCallee()
					if callee == nil {
						return
					}
					name := core.CalleeName(t)
					if strings.HasPrefix(name, "(encoding/binary.bigEndian).Put") || strings.HasPrefix(name, "(encoding/binary.littleEndian).Put") {
						if len(com.Args) > 1 {
							mark(derivedParam(fn, com.Args[1], 0))
						}
						return
					}
					for j, a := range com.Args {
						if b.sum[callee][j] {
							mark(derivedParam(fn, a, 0))
						}
					}
				}
			})
		}
	}
	return b
}

// derivedFromValue: v is root or a re-slice / conversion / view-method result of it.
func derivedFromValue(v, root ssa.Value, depth int) bool {
	return derivedFromValueSeen(v, root, depth, map[ssa.Value]bool{})
}

func derivedFromValueSeen(v, root ssa.Value, depth int, seen map[ssa.Value]bool) bool {
	if v == nil || depth > 12 || seen[v] {
		return false
	}
	seen[v] = true
	if v == root {
		return true
	}
	switch t := v.(type) {
	case *ssa.Slice:
		return derivedFromValueSeen(t.X, root, depth+1, seen)
	case *ssa.ChangeType:
		return derivedFromValueSeen(t.X, root, depth+1, seen)
	case *ssa.Convert:
		return derivedFromValueSeen(t.X, root, depth+1, seen)
	case *ssa.Phi:
		for _, e := range t.Edges {
			if derivedFromValueSeen(e, root, depth+1, seen) {
				return true
			}
		}
	}
	return false
}

// staleReads: in fn, calls that read the buffer `root` through a getter (a static callee that does not write its
// receiver) and are reachable from a call that may have overwritten it.
func (b *bufWrites) staleReads(fn *ssa.Function, root ssa.Value) (clobbers []ssa.Instruction, stale [][2]ssa.Instruction) {
	var reads []ssa.Instruction
	core.EachInstr(fn, func(i ssa.Instruction) {
		call, ok := i.(ssa.CallInstruction)
		if !ok {
			return
		}
		callee := call.Common().StaticCallee()
		if callee == nil {
			return
		}
		writes := false
		readsRecv := false
		for j, a := range call.Common().Args {
			if !derivedFromValue(a, root, 0) {
				continue
			}
			if b.sum[callee][j] {
				writes = true
			} else if j == 0 && callee.Signature.Recv() != nil {
				readsRecv = true
			}
		}
		if writes {
			clobbers = append(clobbers, i)
		} else if readsRecv && !isDiagnostic(callee) {
			reads = append(reads, i)
		}
	})
	for _, cl := range clobbers {
		for _, rd := range reads {
			if reachesWithout(cl, rd, func(ssa.Instruction) bool { return false }) {
				stale = append(stale, [2]ssa.Instruction{cl, rd})
			}
		}
	}
	return clobbers, stale
}

// DebugStale lists, for every library function, getter reads of a slice parameter (or of a view converted from one)
// that are reachable from a call that may write the same buffer.
func DebugStale(c *Ctx) {
	bw := newBufWrites(c)
	for _, fn := range c.P.LibFunctions() {
		if fn.Blocks == nil {
			continue
		}
		var roots []ssa.Value
		for _, p := range fn.Params {
			if _, ok := p.Type().Underlying().(*types.Slice); ok {
				roots = append(roots, p)
			}
		}
		core.EachInstr(fn, func(i ssa.Instruction) {
			switch t := i.(type) {
			case *ssa.ChangeType:
				if _, ok := t.Type().Underlying().(*types.Slice); ok {
					roots = append(roots, t)
				}
			case *ssa.Call:
				if _, ok := t.Type().Underlying().(*types.Slice); ok {
					if nt, ok := t.Type().(*types.Named); ok && nt.Obj().Pkg() != nil && nt.Obj().Pkg().Path() == core.ModPath {
						roots = append(roots, t)
					}
				}
			}
		})
		for _, root := range roots {
			_, stale := bw.staleReads(fn, root)
			seen := map[string]bool{}
			for _, p := range stale {
				k := core.FuncName(fn) + ": " + shortCallee(p[1].(ssa.CallInstruction)) + " at " + c.P.Pos(core.PosOf(p[1])) + " after " + shortCallee(p[0].(ssa.CallInstruction)) + " at " + c.P.Pos(core.PosOf(p[0]))
				if !seen[k] {
					seen[k] = true
					println(k)
				}
			}
		}
	}
}
