package props

import (
	"fmt"
	"go/constant"
	"go/token"
	"go/types"
	"os"
	"sort"
	"strings"

	"golang.org/x/tools/go/ssa"

	"pv/absint"
	"pv/bitprov"
	"pv/core"
)

func init() { register("C15", "other", runC15) }

func runC15(c *Ctx) {
	r := c.R
	r.Explanation = "Structural necessary conditions of checksum correctness, each decided semantically (bit provenance, not source text). (orientation) Checksum is evaluated symbolically on inputs of length 0, 1 and 2 with arbitrary byte values " +
		"(the loop has a concrete trip count there): the result must be 0xffff, ^b0 and ^(b1<<8|b0); composed with the way every caller stores the result (IPv4 header bytes 10/11, ICMP bytes 2/3: low byte at the lower address) " +
		"the stored bytes are (^b0, ^b1) — the RFC 1071 checksum of a two-byte message — so word assembly, complement, odd-length tail and store order agree. (coverage) IP4.CalculateChecksum sums exactly header bytes 0-9 and 12-19 with the checksum field as zero; " +
		"the ICMPv6 pseudo-header built by icmp6SendPacket is src(16) dst(16) length(4, big endian) 0 0 0 58 followed by the whole message. (safety) every index in Checksum is in range for every length, and the loop terminates. " +
		"(fold) the sum is truncated to 16 bits only after the end-around carry was added back: the operand of the final truncation is bounded by interval evaluation (y + (y>>16) with y <= 0x1fffe, or <= 0xffff). Not decided: the arithmetic for longer inputs in general (accumulator width for inputs over 128 KiB) — equality with RFC 1071 for all byte strings is a numerical property."
	r.Rule("orientation", "Checksum on 0/1/2-byte inputs and the store order of its callers yield the RFC 1071 bytes", 5)
	r.Rule("coverage", "bytes covered by the IPv4 header checksum and the ICMPv6 pseudo-header", 2)
	r.Rule("safety", "Checksum is in bounds for all lengths and terminates", 1)
	// the IPv4 header is sealed by SetPayload / AppendPayload: no function that calls one of them writes into the header
	// afterwards (a TTL, TOS or flag patched in after the checksum was stored leaves a header that no longer sums to zero)
	r.Rule("sealed", "no write into an IPv4 header after SetPayload/AppendPayload stored its checksum", 6)
	{
		kgs := core.NewKeyGen()
		for _, fn := range c.P.LibFunctions() {
			for _, site := range callsIn(fn, func(n string, _ ssa.CallInstruction) bool {
				return n == "(github.com/irai/packet.IP4).SetPayload" || n == "(github.com/irai/packet.IP4).AppendPayload" || n == "(packet.IP4).SetPayload" || n == "(packet.IP4).AppendPayload"
			}) {
				call := site.(ssa.Instruction)
				var roots []ssa.Value
				if v := site.Value(); v != nil {
					roots = append(roots, v)
					if refs := v.Referrers(); refs != nil {
						for _, rf := range *refs {
							if ex, ok := rf.(*ssa.Extract); ok && ex.Index == 0 {
								roots = append(roots, ex)
							}
						}
					}
				}
				if len(site.Common().Args) > 0 {
					roots = append(roots, site.Common().Args[0])
				}
				st, det := core.Proved, ""
				core.EachInstr(fn, func(j ssa.Instruction) {
					var target ssa.Value
					what := ""
					switch t := j.(type) {
					case *ssa.Store:
						if ia, ok := t.Addr.(*ssa.IndexAddr); ok {
							if k, isK := ia.Index.(*ssa.Const); isK && k.Int64() < 20 {
								target, what = ia.X, fmt.Sprintf("store to byte %d", k.Int64())
							}
						}
					case ssa.CallInstruction:
						n := core.CalleeName(t)
						if strings.Contains(n, "bigEndian).Put") && len(t.Common().Args) > 1 {
							target, what = t.Common().Args[1], n
						}
					}
					if target == nil {
						return
					}
					for _, rt := range roots {
						if derivedFromValue(target, rt, 0) && reachesWithout(call, j, func(ssa.Instruction) bool { return false }) {
							st = core.Violated
							det = what + " at " + c.P.Pos(core.PosOf(j)) + " writes into the IPv4 header after " + core.CalleeName(site) + " stored its checksum: the header emitted no longer sums to zero"
						}
					}
				})
				r.Add(core.Obligation{Rule: "sealed", Key: strings.TrimSuffix(kgs.Key("sealed "+core.FuncName(fn)), "#0"), Func: core.FuncName(fn), Pos: c.P.Pos(core.PosOf(call)), Status: st,
					Basis: "no store into bytes 0-19 of the header reachable from the call", Detail: det})
			}
		}
	}

	cs := c.A.Func("", "Checksum")
	if cs == nil {
		r.Fatal("packet.Checksum not found")
		return
	}
	// ---- orientation: symbolic evaluation for concrete small lengths ----
	want := map[int]string{
		0: "65535",
		1: bitprov.Byte("", 0).Xor(bitprov.ConstInt(0xffff)).String(),
		2: bitprov.LE("", 0, 2).Xor(bitprov.ConstInt(0xffff)).String(),
	}
	results := map[int]bitprov.Int{}
	for n := 0; n <= 2; n++ {
		ev := &bitprov.Eval{Unroll: 4}
		in := bitprov.Slice{Src: "", Lo: bitprov.ConstInt(0), Hi: bitprov.ConstInt(uint64(n))}
		rets := ev.Run(cs, []bitprov.Val{in})
		var got []string
		for _, rt := range rets {
			if rt.Panic {
				got = append(got, "panic")
				continue
			}
			got = append(got, bitprov.RetString(rt))
			if iv, ok := rt.Vals[0].(bitprov.Int); ok {
				results[n] = iv
			}
		}
		sort.Strings(got)
		st := core.Proved
		det := ""
		if len(got) != 1 || got[0] != want[n] {
			st = core.Violated
			det = fmt.Sprintf("Checksum of a %d-byte input evaluates to %s; RFC 1071 with the library's byte order gives %s", n, strings.Join(got, " / "), want[n])
		}
		r.Add(core.Obligation{Rule: "orientation", Key: fmt.Sprintf("orientation Checksum len=%d", n), Func: core.FuncName(cs), Pos: c.P.Pos(cs.Pos()), Status: st,
			Basis: "= " + want[n] + " for all byte values", Detail: det})
	}
	// store order of the callers: the low byte of the value goes to the lower address
	type storeSite struct {
		fn     *ssa.Function
		lo, hi int
		param  string
	}
	checkStore := func(fn *ssa.Function, name string, args []bitprov.Val, lo, hi int, valueName string) {
		if fn == nil {
			r.Add(core.Obligation{Rule: "orientation", Key: "orientation store " + name, Status: core.Violated, Detail: "function not found"})
			return
		}
		ev := &bitprov.Eval{Extern: func(e *bitprov.Eval, callee *ssa.Function, a []bitprov.Val) (bitprov.Val, bool) {
			if callee.Name() == "CalculateChecksum" {
				return bitprov.ParamInt("cs", 16), true
			}
			return nil, false
		}}
		rets := ev.Run(fn, args)
		st := core.Proved
		det := ""
		n := 0
		for _, rt := range rets {
			if rt.Panic {
				continue
			}
			if len(rt.Vals) > 0 {
				if sl, ok := rt.Vals[0].(bitprov.Slice); ok && sl.Nil {
					continue
				}
			}
			n++
			img := bitprov.Image(rt.Writes, "", 64)
			gl, gh := img[lo].String(), img[hi].String()
			wl := bitprov.ParamInt(valueName, 16).Trunc(8).String()
			wh := bitprov.ParamInt(valueName, 16).Shr(8).Trunc(8).String()
			if gl != wl || gh != wh {
				st = core.Violated
				det = fmt.Sprintf("%s stores byte %d = %s and byte %d = %s; the checksum (computed over little-endian words) must be stored low byte first: byte %d = %s, byte %d = %s", name, lo, gl, hi, gh, lo, wl, hi, wh)
			}
		}
		if n == 0 {
			st, det = core.Violated, "no successful path"
		}
		r.Add(core.Obligation{Rule: "orientation", Key: "orientation store " + name, Func: core.FuncName(fn), Pos: c.P.Pos(fn.Pos()), Status: st,
			Basis: fmt.Sprintf("byte %d = low byte, byte %d = high byte of the checksum", lo, hi), Detail: det})
	}
	payload := bitprov.Slice{Src: "b", Lo: bitprov.ConstInt(0), HiLen: true}
	checkStore(c.A.Method("", "IP4", "SetPayload"), "IP4.SetPayload", []bitprov.Val{recvSlice(), payload, bitprov.ParamInt("protocol", 8)}, 10, 11, "cs")
	checkStore(c.A.Method("", "IP4", "AppendPayload"), "IP4.AppendPayload", []bitprov.Val{recvSlice(), payload, bitprov.ParamInt("protocol", 8)}, 10, 11, "cs")
	checkStore(c.A.Method("", "ICMP", "SetChecksum"), "ICMP.SetChecksum", []bitprov.Val{recvSlice(), bitprov.ParamInt("cs", 16)}, 2, 3, "cs")

	// ---- coverage ----
	if fn := c.A.Method("", "IP4", "CalculateChecksum"); fn != nil {
		var summed bitprov.Val
		ev := &bitprov.Eval{Extern: func(e *bitprov.Eval, callee *ssa.Function, a []bitprov.Val) (bitprov.Val, bool) {
			if callee == cs {
				summed = a[0]
				return bitprov.ParamInt("sum", 16), true
			}
			return nil, false
		}}
		rets := ev.Run(fn, []bitprov.Val{recvSlice()})
		st := core.Violated
		det := "Checksum is not called on a fresh 20-byte copy of the header"
		if sl, ok := summed.(bitprov.Slice); ok && len(rets) == 1 && sl.Fresh {
			lo, _ := sl.Lo.IsConst()
			hi, hok := sl.Hi.IsConst()
			img := bitprov.Image(rets[0].Writes, sl.Src, 64)
			var got []string
			okAll := hok && lo == 0 && hi == 20
			for k := 0; k < 20; k++ {
				by, written := img[k]
				w := "0"
				if written {
					w = by.String()
				}
				got = append(got, w)
				exp := "0"
				switch {
				case k < 10:
					exp = bitprov.Byte("p", k).String()
				case k < 18:
					exp = bitprov.Byte("p", k+2).String()
				}
				if w != exp {
					okAll = false
				}
			}
			if okAll {
				st, det = core.Proved, ""
			} else {
				det = "the bytes summed for the IPv4 header checksum are [" + strings.Join(got, " ") + "] (range " + bitprov.Str(sl) + "); expected header bytes 0-9, 12-19 and two zero bytes"
			}
		}
		r.Add(core.Obligation{Rule: "coverage", Key: "coverage IP4.CalculateChecksum", Func: core.FuncName(fn), Pos: c.P.Pos(fn.Pos()), Status: st,
			Basis: "sums header bytes 0-9 and 12-19, checksum field as zero", Detail: det})
	}
	if fn := c.A.Method("", "Session", "icmp6SendPacket"); fn != nil {
		// the pseudo header: find the make()d buffer passed to Checksum and the writes into it
		var summed bitprov.Val
		ev := &bitprov.Eval{MaxPaths: 64, Inline: func(f *ssa.Function) bool {
			switch f.Name() {
			case "Src", "Dst", "Payload", "SetChecksum":
				return true
			}
			return false
		}, Extern: func(e *bitprov.Eval, callee *ssa.Function, a []bitprov.Val) (bitprov.Val, bool) {
			if callee == cs {
				summed = a[0]
				return bitprov.ParamInt("sum", 16), true
			}
			if callee.Name() == "EncodeIP6" || (callee.Name() == "AppendPayload" && len(a) == 3) {
				// the IPv6 header being built: name it so that Src()/Dst() read "ip6" bytes
				ip6 := bitprov.Slice{Src: "ip6", Lo: bitprov.ConstInt(0), HiLen: true}
				if callee.Name() == "AppendPayload" {
					return bitprov.Tuple{F: []bitprov.Val{ip6, bitprov.Opaque{Why: "nil"}}}, true
				}
				return ip6, true
			}
			return nil, false
		}}
		args := []bitprov.Val{bitprov.Opaque{Why: "session"}, bitprov.Opaque{Why: "param srcAddr"}, bitprov.Opaque{Why: "param dstAddr"}, bitprov.Slice{Src: "msg", Lo: bitprov.ConstInt(0), HiLen: true}}
		rets := ev.Run(fn, args)
		st := core.Violated
		det := "Checksum is not called on the pseudo-header buffer"
		if sl, ok := summed.(bitprov.Slice); ok && sl.Fresh && len(rets) > 0 {
			var w []bitprov.Write
			for _, rt := range rets {
				if len(rt.Writes) > len(w) {
					w = rt.Writes
				}
			}
			if os.Getenv("PV_DEBUG") != "" {
				fmt.Println("summed:", bitprov.Str(sl))
				for _, wr := range w {
					fmt.Printf("   %s[%s:%s] <- %s (%s)\n", wr.Dst.Src, wr.Dst.Lo.String(), wr.Dst.Hi.String(), wr.Val, wr.Kind)
				}
			}
			img := bitprov.Image(w, sl.Src, 48)
			render := func(lo, hi int) string {
				var p []string
				for k := lo; k < hi; k++ {
					if by, ok := img[k]; ok {
						p = append(p, by.String())
					} else {
						p = append(p, "0")
					}
				}
				return strings.Join(p, " ")
			}
			exp := func(src string, from, n int) string {
				var p []string
				for k := 0; k < n; k++ {
					p = append(p, bitprov.Byte(src, from+k).String())
				}
				return strings.Join(p, " ")
			}
			var why []string
			if g := render(0, 16); g != exp("ip6", 8, 16) {
				why = append(why, "bytes 0-15 are ["+g+"], expected the IPv6 source address (header bytes 8-23)")
			}
			if g := render(16, 32); g != exp("ip6", 24, 16) {
				why = append(why, "bytes 16-31 are ["+g+"], expected the IPv6 destination address (header bytes 24-39)")
			}
			if g := render(36, 40); g != "0 0 0 58" {
				why = append(why, "bytes 36-39 are ["+g+"], expected 0 0 0 58")
			}
			if g := render(40, 44); g != exp("msg", 0, 4) {
				why = append(why, "bytes 40.. are ["+g+"], expected the ICMPv6 message")
			}
			// length: a 32-bit big-endian len(msg)
			lenOK := false
			for _, wr := range w {
				if wr.Dst.Src == sl.Src && wr.Kind == "be" && wr.Width == 4 {
					if lo, ok := wr.Dst.Lo.IsConst(); ok && lo == 32 && strings.Contains(wr.Val, "len(msg)") {
						lenOK = true
					}
				}
			}
			if !lenOK {
				why = append(why, "bytes 32-35 are not the big-endian 32-bit length of the message")
			}
			if lo, ok := sl.Lo.IsConst(); !ok || lo != 0 || !strings.Contains(sl.Hi.String(), "len(msg)") {
				why = append(why, "the summed range is "+bitprov.Str(sl)+", expected the whole 40+len(msg) bytes")
			}
			if len(why) == 0 {
				st, det = core.Proved, ""
			} else {
				det = strings.Join(why, "; ")
			}
		}
		r.Add(core.Obligation{Rule: "coverage", Key: "coverage ICMPv6 pseudo-header", Func: core.FuncName(fn), Pos: c.P.Pos(fn.Pos()), Status: st,
			Basis: "src(16) dst(16) len(4) 0 0 0 58 message (RFC 8200 section 8.1)", Detail: det})
	}

	runC15Fold(c, cs)
	runC15Accumulate(c, cs)

	// ---- safety ----
	var fails []string
	n := 0
	in := absint.New(c.P, absint.Config{MaxStates: 64}, func(f absint.Finding) {
		n++
		if !f.OK {
			fails = append(fails, fmt.Sprintf("%s %s: %s", f.Kind, absint.SiteString(f.Site), f.Detail))
		}
	})
	in.Exec(cs, []absint.Value{in.InputSlice("B", false)}, nil, absint.NewHeap())
	st := core.Proved
	det := strings.Join(fails, "; ")
	term := true
	for _, lf := range in.LoopFacts {
		if !lf.Terminates {
			term = false
			det += " loop termination not established: " + lf.Why
		}
	}
	if len(fails) > 0 || n == 0 || !term {
		st = core.Violated
	}
	r.Add(core.Obligation{Rule: "safety", Key: "safety Checksum", Func: core.FuncName(cs), Pos: c.P.Pos(cs.Pos()), Status: st,
		Basis: fmt.Sprintf("%d bounds obligations proved for every length; the loop has a ranking function", n), Detail: det})
}

// ---- fold: no carry is lost when the accumulator is truncated to 16 bits ----

// upperBound is a tiny interval evaluator for unsigned expressions: an upper bound of v, or the type maximum.
func upperBound(v ssa.Value, depth int) uint64 {
	tmax := func(t types.Type) uint64 {
		if b, ok := t.Underlying().(*types.Basic); ok {
			switch b.Kind() {
			case types.Uint8:
				return 0xff
			case types.Uint16:
				return 0xffff
			case types.Uint32:
				return 0xffffffff
			}
		}
		return ^uint64(0)
	}
	if depth > 12 {
		return tmax(v.Type())
	}
	min := func(a, b uint64) uint64 {
		if a < b {
			return a
		}
		return b
	}
	switch t := v.(type) {
	case *ssa.Const:
		if t.Value != nil {
			if u, ok := constant.Uint64Val(t.Value); ok {
				return u
			}
		}
	case *ssa.Convert:
		return min(upperBound(t.X, depth+1), tmax(t.Type()))
	case *ssa.BinOp:
		x, y := upperBound(t.X, depth+1), upperBound(t.Y, depth+1)
		switch t.Op {
		case token.SHR:
			if k, ok := t.Y.(*ssa.Const); ok && k.Value != nil {
				if s, ok := constant.Uint64Val(k.Value); ok && s < 64 {
					return x >> s
				}
			}
			return x
		case token.SHL:
			if k, ok := t.Y.(*ssa.Const); ok && k.Value != nil {
				if s, ok := constant.Uint64Val(k.Value); ok && s < 32 && x <= tmax(t.Type())>>s {
					return x << s
				}
			}
			return tmax(t.Type())
		case token.AND:
			return min(x, y)
		case token.ADD:
			if x > tmax(t.Type())-y {
				return tmax(t.Type())
			}
			return x + y
		case token.OR, token.XOR:
			// below the next power of two of the larger operand
			m := x
			if y > m {
				m = y
			}
			p := uint64(1)
			for p <= m && p != 0 {
				p <<= 1
			}
			return min(p-1, tmax(t.Type()))
		}
	}
	return tmax(v.Type())
}

// runC15Accumulate: the 32-bit accumulator of Checksum cannot wrap for any IP datagram only when every
// addend is narrow: at most the sum of two 16-bit words per addition (32768 words of 0xffff stay below 2^32).
// A 32-bit addend (two words loaded at once) drops the carry out of bit 31 for inputs such as ff ff ff ff ...
func runC15Accumulate(c *Ctx, cs *ssa.Function) {
	r := c.R
	r.Rule("accumulate", "every addition into Checksum's 32-bit accumulator has an addend of at most two 16-bit words: no carry out of bit 31 for any datagram", 1)
	n := 0
	var bad []string
	var pos token.Pos
	core.EachInstr(cs, func(i ssa.Instruction) {
		bo, ok := i.(*ssa.BinOp)
		if !ok || bo.Op != token.ADD {
			return
		}
		if b, ok := bo.Type().Underlying().(*types.Basic); !ok || b.Kind() != types.Uint32 {
			return
		}
		n++
		x, y := upperBound(bo.X, 0), upperBound(bo.Y, 0)
		if y < x {
			x = y
		}
		if x > 0x1fffe {
			bad = append(bad, fmt.Sprintf("%s: the narrower operand can reach 0x%x", norm(bo), x))
			if pos == token.NoPos {
				pos = core.PosOf(i)
			}
		}
	})
	st, det := core.Proved, ""
	if n == 0 {
		st, det = core.Violated, "no 32-bit addition found in Checksum"
	} else if len(bad) > 0 {
		st, det = core.Violated, "a 32-bit addend is added to the 32-bit accumulator, the carry out of bit 31 is lost: "+strings.Join(bad, "; ")
	}
	if pos == token.NoPos {
		pos = cs.Pos()
	}
	r.Add(core.Obligation{Rule: "accumulate", Key: "accumulate Checksum addends", Func: core.FuncName(cs), Pos: c.P.Pos(pos), Status: st,
		Basis: fmt.Sprintf("%d 32-bit additions, each with an operand of at most 0x1fffe", n), Detail: det})
}

func runC15Fold(c *Ctx, cs *ssa.Function) {
	r := c.R
	r.Rule("fold", "the end-around carry is folded in before the sum is truncated to 16 bits", 1)
	n := 0
	core.EachInstr(cs, func(i ssa.Instruction) {
		cv, ok := i.(*ssa.Convert)
		if !ok {
			return
		}
		if b, ok := cv.Type().Underlying().(*types.Basic); !ok || b.Kind() != types.Uint16 {
			return
		}
		if sb, ok := cv.X.Type().Underlying().(*types.Basic); !ok || sb.Kind() != types.Uint32 {
			return
		}
		n++
		x := cv.X
		st := core.Violated
		hi := upperBound(x, 0)
		det := fmt.Sprintf("the 32-bit sum %s (at most 0x%x) is truncated to 16 bits: a carry out of bit 15 is dropped instead of being added back (RFC 1071 end-around carry)", norm(x), hi)
		basis := ""
		switch {
		case hi <= 0xffff:
			st, det, basis = core.Proved, "", fmt.Sprintf("operand is at most 0x%x", hi)
		default:
			// y + (y >> 16) with y <= 0x1fffe: adding the single carry bit cannot carry again; bit 16 is dropped on purpose
			if bo, ok := x.(*ssa.BinOp); ok && bo.Op == token.ADD {
				for _, pair := range [][2]ssa.Value{{bo.X, bo.Y}, {bo.Y, bo.X}} {
					y, sh := pair[0], pair[1]
					if sb, ok := sh.(*ssa.BinOp); ok && sb.Op == token.SHR && sb.X == y {
						if k, ok := sb.Y.(*ssa.Const); ok && k.Int64() == 16 {
							if yh := upperBound(y, 0); yh <= 0x1fffe {
								st, det, basis = core.Proved, "", fmt.Sprintf("y + (y>>16) with y at most 0x%x: the carry bit is added back and cannot carry again", yh)
							}
						}
					}
				}
			}
			// or a loop that folds until nothing is left above bit 15
			if st != core.Proved && hasGuard(guardsOf(i), `^\(\(`+regexpQuote(norm(x))+`>>16\)==0\)$`) {
				st, det, basis = core.Proved, "", "truncation only after (sum>>16) == 0"
			}
		}
		r.Add(core.Obligation{Rule: "fold", Key: "fold Checksum truncation", Func: core.FuncName(cs), Pos: c.P.Pos(core.PosOf(i)), Status: st, Basis: basis, Detail: det})
	})
	if n == 0 {
		r.Add(core.Obligation{Rule: "fold", Key: "fold Checksum truncation", Func: core.FuncName(cs), Status: core.Violated, Detail: "no 32-to-16-bit truncation found in Checksum"})
	}
}
