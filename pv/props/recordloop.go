package props

import (
	"fmt"
	"sort"
	"strings"

	"golang.org/x/tools/go/ssa"

	"pv/core"
)

// record-loop (C17 decode clause): a loop that walks an array of fixed-size records reads each record at an offset
// derived from the loop counter. Inside such a loop an access to the same buffer with loop-invariant bounds returns
// the same bytes for every record - the counter-relative sibling shows what was meant (`b[index+16:index+18]` beside
// `b[0:16]`). The rule: in a loop where at least one access to a buffer depends on a loop-carried value, every
// access to that buffer inside the loop does.

type recordLoopFinding struct {
	Fn        *ssa.Function
	Loop      *core.Loop
	Base      ssa.Value
	Dependent []string
	Invariant []ssa.Instruction
}

// dependsOnLoop: the affine form of v mentions a value defined by a φ of the loop (rendered "φ" by norm) or an
// instruction inside the loop that itself depends on one.
func dependsOnLoop(v ssa.Value, l *core.Loop, depth int) bool {
	if v == nil || depth > 8 {
		return false
	}
	switch t := v.(type) {
	case *ssa.Phi:
		return l.Blocks[t.Block()]
	case *ssa.BinOp:
		return dependsOnLoop(t.X, l, depth+1) || dependsOnLoop(t.Y, l, depth+1)
	case *ssa.Convert:
		return dependsOnLoop(t.X, l, depth+1)
	case *ssa.UnOp:
		return dependsOnLoop(t.X, l, depth+1)
	case *ssa.IndexAddr:
		return dependsOnLoop(t.Index, l, depth+1) || dependsOnLoop(t.X, l, depth+1)
	case *ssa.Slice:
		return dependsOnLoop(t.Low, l, depth+1) || dependsOnLoop(t.High, l, depth+1) || dependsOnLoop(t.X, l, depth+1)
	case *ssa.Call:
		for _, a := range t.Call.Args {
			if dependsOnLoop(a, l, depth+1) {
				return true
			}
		}
	case *ssa.Extract:
		return dependsOnLoop(t.Tuple, l, depth+1)
	}
	return false
}

func recordLoops(fn *ssa.Function) []recordLoopFinding {
	var out []recordLoopFinding
	if fn == nil || fn.Blocks == nil {
		return nil
	}
	for _, l := range core.CFG(fn).Loops() {
		type acc struct {
			ins ssa.Instruction
			dep bool
			txt string
		}
		byBase := map[ssa.Value][]acc{}
		for b := range l.Blocks {
			for _, ins := range b.Instrs {
				switch t := ins.(type) {
				case *ssa.Slice:
					if _, isSlice := t.X.Type().Underlying().(interface{ Elem() interface{} }); isSlice {
					}
					if t.Low == nil && t.High == nil {
						continue
					}
					byBase[t.X] = append(byBase[t.X], acc{ins, dependsOnLoop(t.Low, l, 0) || dependsOnLoop(t.High, l, 0), norm(t)})
				case *ssa.IndexAddr:
					byBase[t.X] = append(byBase[t.X], acc{ins, dependsOnLoop(t.Index, l, 0), norm(t)})
				}
			}
		}
		for base, accs := range byBase {
			// the buffer itself must be loop-invariant (defined outside the loop), otherwise `b = b[n:]` style
			// cursors make constant bounds correct
			if bi, ok := base.(ssa.Instruction); ok && l.Blocks[bi.Block()] {
				continue
			}
			var dep []string
			var inv []ssa.Instruction
			for _, a := range accs {
				if a.dep {
					dep = append(dep, a.txt)
				} else {
					inv = append(inv, a.ins)
				}
			}
			if len(dep) == 0 {
				continue
			}
			sort.Strings(dep)
			out = append(out, recordLoopFinding{Fn: fn, Loop: l, Base: base, Dependent: dep, Invariant: inv})
		}
	}
	return out
}

func runRecordLoops(c *Ctx, files []string, rule string) {
	kg := core.NewKeyGen()
	for _, fn := range c.P.LibFunctions() {
		pos := c.P.Pos(fn.Pos())
		in := false
		for _, f := range files {
			if strings.HasPrefix(pos, f+":") {
				in = true
			}
		}
		if !in {
			continue
		}
		for _, f := range recordLoops(fn) {
			st := core.Proved
			det := ""
			at := c.P.Pos(core.PosOf(f.Loop.Head.Instrs[0]))
			if len(f.Invariant) > 0 {
				st = core.Violated
				var inv []string
				for _, i := range f.Invariant {
					inv = append(inv, fmt.Sprintf("%s at %s", norm(i.(ssa.Value)), c.P.Pos(core.PosOf(i))))
				}
				at = c.P.Pos(core.PosOf(f.Invariant[0]))
				det = fmt.Sprintf("inside the record loop the buffer %s is read relative to the loop counter (%s) and also at fixed bounds (%s): the fixed read returns the first record's bytes for every record",
					norm(f.Base), strings.Join(f.Dependent, ", "), strings.Join(inv, ", "))
			}
			key := strings.TrimSuffix(kg.Key(rule+" "+core.FuncName(fn)+" "+norm(f.Base)), "#0")
			c.R.Add(core.Obligation{Rule: rule, Key: key, Func: core.FuncName(fn), Pos: at, Status: st,
				Basis: fmt.Sprintf("%d counter-relative accesses, no fixed one", len(f.Dependent)), Detail: det})
		}
	}
}
