package props

import (
	"fmt"
	"go/token"
	"go/types"
	"regexp"
	"sort"
	"strings"

	"golang.org/x/tools/go/ssa"

	"pv/core"
	"pv/locks"
)

func init() {
	register("C04", "other", runC04)
	register("C05", "other", runC05)
	register("C06", "other", runC06)
}

// pathDNF enumerates the branch decisions on every acyclic path from the immediate dominator chain's
// nearest single-entry ancestor of b down to b: each path is a sorted conjunction of condition texts
// ("!" prefix for a false edge). It expands what guardsOf cannot see: blocks reached from several
// arms of a short-circuit || / &&.
func pathDNF(b *ssa.BasicBlock) []string {
	// start: the closest dominator with a single predecessor (its own guards are covered by guardsOf)
	start := b.Idom()
	for start != nil && len(start.Preds) > 1 {
		start = start.Idom()
	}
	if start == nil {
		return nil
	}
	var out []string
	var walk func(cur *ssa.BasicBlock, conds []string, seen map[*ssa.BasicBlock]bool)
	walk = func(cur *ssa.BasicBlock, conds []string, seen map[*ssa.BasicBlock]bool) {
		if cur == b {
			c := append([]string(nil), conds...)
			sort.Strings(c)
			out = append(out, strings.Join(c, " && "))
			return
		}
		if seen[cur] || len(out) > 64 {
			return
		}
		seen[cur] = true
		defer delete(seen, cur)
		last := cur.Instrs[len(cur.Instrs)-1]
		if iff, ok := last.(*ssa.If); ok {
			txt := norm(iff.Cond)
			walk(cur.Succs[0], append(conds, txt), seen)
			walk(cur.Succs[1], append(conds, "!"+txt), seen)
			return
		}
		for _, s := range cur.Succs {
			walk(s, conds, seen)
		}
	}
	walk(start, nil, map[*ssa.BasicBlock]bool{})
	sort.Strings(out)
	return dedupStrings(out)
}

// ---------------- C04 ----------------

func runC04(c *Ctx) {
	r := c.R
	r.Explanation = "Structural conditions of the host-tracking rules, decided on the CFG (dominating conditions, short-circuit paths expanded): " +
		"(create) each of the three host-creation sites in Parse is reached only for a unicast source MAC that is not the host NIC's and, per family, for an IPv4 source / ARP sender inside the home LAN (looked up with the ARP sender MAC and IP) or an IPv6 link-local source or a global unicast source whose MAC is not the router's; " +
		"(online) onlineTransition is called, and the frame marked, exactly under !Host.Online; inside it a host goes online together with its MAC entry, and other IPv4 addresses of the MAC are marked offline and dirty only when the new host is IPv4 with an address different from the entry's current IPv4, the sibling is IPv4, different and online; " +
		"(ageing) purge selects for deletion under !Online && LastSeen.Before(now-PurgeDeadline), for offline under Online && LastSeen.Before(now-OfflineDeadline), deletes through deleteHost; deleteHost removes the MAC entry only when its host list became empty; " +
		"(who) hosts are created only in findOrCreateHostWithLock (callers: Parse, DHCPv4Update) and removed only in deleteHost (callers: purge, findOrCreateHostWithLock). Not decided: equality with a reference model over histories, timing."
	r.Rule("create", "host creation sites carry the discovery conditions of their family", 12)
	r.Rule("online", "online transition and sibling-offline conditions", 20)
	r.Rule("ageing", "purge selections and deletion conditions", 5)
	// the address a station is recorded under follows its online transitions: the stores MACEntry.IP4 / IP6GUA / IP6LLA =
	// host.Addr.IP in onlineTransition depend only on the family of the address, on "not online yet" and on "differs from
	// the recorded one" (a further condition - "the station has other hosts" - leaves the recorded address stale, and the
	// next change back to it is not seen as a change: two IPv4 addresses of one MAC stay online)
	if ot := c.A.Method("", "Session", "onlineTransition"); ot != nil {
		allowed := regexp.MustCompile(`^!?(\(arg0\.Addr\.IP==arg0\.MACEntry\.(IP4|IP6GUA|IP6LLA)\)|\(arg0\.MACEntry\.(IP4|IP6GUA|IP6LLA)==arg0\.Addr\.IP\)|arg0\.Online|\(net/netip\.Addr\)\.(Is4|Is6|IsGlobalUnicast|IsLinkLocalUnicast)\(arg0\.Addr\.IP\))$`)
		core.EachInstr(ot, func(i ssa.Instruction) {
			st, ok := i.(*ssa.Store)
			if !ok || !regexp.MustCompile(`^arg0\.MACEntry\.(IP4|IP6GUA|IP6LLA)$`).MatchString(norm(st.Addr)) {
				return
			}
			var extra []string
			for _, g := range guardsOf(i) {
				if !allowed.MatchString(g.Text) && !(swapEquality(g.Text) != "" && allowed.MatchString(swapEquality(g.Text))) {
					extra = append(extra, g.Text)
				}
			}
			stt, det := core.Proved, ""
			if len(extra) > 0 {
				stt = core.Violated
				det = "onlineTransition records the station's address in " + norm(st.Addr) + " only if also " + strings.Join(extra, " && ") + ": when that is false the recorded address goes stale, a later change back to it is not recognised, and the sibling addresses are not taken offline"
			}
			r.Add(core.Obligation{Rule: "online", Key: "online onlineTransition records " + norm(st.Addr) + " on every change", Func: core.FuncName(ot), Pos: c.P.Pos(core.PosOf(i)), Status: stt,
				Basis: "conditions: family of the address, not online, differs from the recorded address", Detail: det})
		})
	}
	// a frame from a tracked host refreshes the host's own LastSeen wherever it refreshes the station's: in
	// findOrCreateHostWithLock every store to MACEntry.LastSeen has a store to the host's LastSeen in the same block (a
	// refresh "only while online" leaves a host that comes back with the timestamp it went offline with)
	if fn := c.A.Method("", "Session", "findOrCreateHostWithLock"); fn != nil {
		n := 0
		core.EachInstr(fn, func(i ssa.Instruction) {
			st, ok := i.(*ssa.Store)
			if !ok || !strings.HasSuffix(norm(st.Addr), ".MACEntry.LastSeen") {
				return
			}
			hostAddr := strings.TrimSuffix(norm(st.Addr), ".MACEntry.LastSeen") + ".LastSeen"
			n++
			paired := false
			for _, j := range i.Block().Instrs {
				if s2, ok := j.(*ssa.Store); ok && norm(s2.Addr) == hostAddr && norm(s2.Val) == norm(st.Val) {
					paired = true
				}
			}
			stt, det := core.Proved, ""
			if !paired {
				stt = core.Violated
				det = "findOrCreateHostWithLock refreshes " + norm(st.Addr) + " without refreshing " + hostAddr + " on the same path: a host that was offline and is seen again keeps its old LastSeen, is marked offline again at the next purge and deleted later although it was seen moments ago"
			}
			r.Add(core.Obligation{Rule: "ageing", Key: fmt.Sprintf("ageing findOrCreateHostWithLock refresh %d stamps the host with the station", n), Func: core.FuncName(fn), Pos: c.P.Pos(core.PosOf(i)), Status: stt,
				Basis: "host.LastSeen = now in the block of host.MACEntry.LastSeen = now", Detail: det})
		})
	}
	// the host that purge hands to makeOffline goes offline whatever else is the case: the store Online = false depends on
	// no condition (a return in front of it "because nobody reads the notifications" leaves the host online for ever)
	if mo := c.A.Method("", "Session", "makeOffline"); mo != nil {
		found := false
		core.EachInstr(mo, func(i ssa.Instruction) {
			st, ok := i.(*ssa.Store)
			if !ok || norm(st.Addr) != "arg0.Online" {
				return
			}
			found = true
			gs := guardsOf(i)
			stt, det := core.Proved, ""
			if len(gs) > 0 || !i.Block().Dominates(mo.Blocks[len(mo.Blocks)-1]) && false {
				stt = core.Violated
				det = "makeOffline marks the host offline only if " + guardTexts(gs) + ": otherwise the host stays online although it was silent past the offline deadline, and it is never deleted"
			}
			r.Add(core.Obligation{Rule: "ageing", Key: "ageing makeOffline marks the host offline unconditionally", Func: core.FuncName(mo), Pos: c.P.Pos(core.PosOf(i)), Status: stt, Basis: "the store host.Online = false has no dominating condition", Detail: det})
		})
		if !found {
			r.Add(core.Obligation{Rule: "ageing", Key: "ageing makeOffline marks the host offline unconditionally", Func: core.FuncName(mo), Status: core.Violated, Detail: "no store host.Online = false in makeOffline"})
		}
	}
	r.Rule("who", "who may create and delete hosts", 7)

	parse := c.A.Method("", "Session", "Parse")
	if parse == nil {
		r.Fatal("Session.Parse not found")
		return
	}
	const notOwn = `^!bytes\.Equal\(local\(frame\)\.SrcAddr\.MAC,recv\.NICInfo\.HostAddr4\.MAC\)$`
	const unicast = `^packet\.IsUnicastMAC\(local\(frame\)\.SrcAddr\.MAC\)$`
	n := 0
	for _, site := range callsIn(parse, nameIs("findOrCreateHostWithLock")) {
		ins := site.(ssa.Instruction)
		gs := guardsOf(ins)
		arg := norm(site.Common().Args[1])
		n++
		switch {
		case hasGuard(gs, `^\(\(packet\.Ether\)\.EtherType\(local\(frame\)\.ether\)==2048\)$`):
			requireGuards(c, "create", "Parse IPv4 host", ins, []guardReq{{"unicast source MAC", unicast}, {"source MAC is not the host NIC", notOwn},
				{"IPv4 source inside the home LAN", `^\(net/netip\.Prefix\)\.Contains\(local\(frame\)\.Session\.NICInfo\.HomeLAN4,local\(frame\)\.SrcAddr\.IP\)$`}})
			st := core.Proved
			if arg != "local(frame).SrcAddr" {
				st = core.Violated
			}
			r.Add(core.Obligation{Rule: "create", Key: "create Parse IPv4 host lookup key", Func: core.FuncName(parse), Pos: c.P.Pos(core.PosOf(ins)), Status: st, Basis: "looked up by frame.SrcAddr", Detail: "the host is looked up by " + arg + " instead of the frame source address"})
		case hasGuard(gs, `^\(\(packet\.Ether\)\.EtherType\(local\(frame\)\.ether\)==2054\)$`):
			requireGuards(c, "create", "Parse ARP host", ins, []guardReq{{"unicast source MAC", unicast}, {"source MAC is not the host NIC", notOwn},
				{"ARP sender IP inside the home LAN", `^\(net/netip\.Prefix\)\.Contains\(local\(frame\)\.Session\.NICInfo\.HomeLAN4,net/netip\.AddrFrom4\(toarray\(\(packet\.Frame\)\.Payload\(local\(frame\)\)\[14:18\]\)\)\)$`}})
			cf := complitFields(site.Common().Args[1])
			st := core.Proved
			if !strings.Contains(cf["MAC"], "Payload(local(frame))[8:14]") || !strings.Contains(cf["IP"], "[14:18]") {
				st = core.Violated
			}
			r.Add(core.Obligation{Rule: "create", Key: "create Parse ARP host lookup key", Func: core.FuncName(parse), Pos: c.P.Pos(core.PosOf(ins)), Status: st,
				Basis: "looked up by the ARP sender MAC [8:14) and IP [14:18)", Detail: fmt.Sprintf("ARP host lookup uses MAC=%s IP=%s", cf["MAC"], cf["IP"])})
			// the MAC that enters the host table is a MAC the guards tested: the ARP sender hardware address is not the
			// Ethernet source, so "unicast" and "not our own" must (also) be established for it
			used := cf["MAC"]
			usedRe := regexpQuote(used)
			var missing []string
			if !hasGuard(gs, `^packet\.IsUnicastMAC\((net\.HardwareAddr\()?`+usedRe+`\)?\)$`) {
				missing = append(missing, "unicast")
			}
			if !hasGuard(gs, `^!bytes\.Equal\((net\.HardwareAddr\()?`+usedRe+`\)?,recv\.NICInfo\.HostAddr4\.MAC\)$`) {
				missing = append(missing, "not the host NIC's")
			}
			st = core.Proved
			if len(missing) > 0 {
				st = core.Violated
			}
			r.Add(core.Obligation{Rule: "create", Key: "create Parse ARP host MAC is the MAC tested", Func: core.FuncName(parse), Pos: c.P.Pos(core.PosOf(ins)), Status: st,
				Basis: "unicast and not-own are established for the ARP sender hardware address", Detail: "the host is created under the ARP sender hardware address " + used + ", but only the Ethernet source was tested (" + strings.Join(missing, ", ") + " not established for it): an ARP frame whose sender address is our own MAC creates a host under our MAC and marks our own address offline"})
		case hasGuard(gs, `^\(\(packet\.Ether\)\.EtherType\(local\(frame\)\.ether\)==34525\)$`):
			requireGuards(c, "create", "Parse IPv6 host", ins, []guardReq{{"unicast source MAC", unicast}, {"source MAC is not the host NIC", notOwn}})
			dnf := pathDNF(ins.Block())
			const llu = "(net/netip.Addr).IsLinkLocalUnicast(local(frame).SrcAddr.IP)"
			const gua = "(net/netip.Addr).IsGlobalUnicast(local(frame).SrcAddr.IP)"
			const rtr = "bytes.Equal(local(frame).SrcAddr.MAC,local(frame).Session.NICInfo.RouterAddr4.MAC)"
			okLLU, okGUA, extra := false, false, []string{}
			for _, d := range dnf {
				switch {
				case strings.Contains(d, llu) && !strings.Contains(d, "!"+llu) && !strings.Contains(d, gua) && !strings.Contains(d, rtr):
					// a link-local source creates a host whatever its MAC (the router's link-local address is tracked too):
					// the router test belongs to the global-unicast alternative only
					okLLU = true
				case strings.Contains(d, "!"+llu) && strings.Contains(d, gua) && !strings.Contains(d, "!"+gua) && strings.Contains(d, "!"+rtr):
					okGUA = true
				default:
					extra = append(extra, d)
				}
			}
			st := core.Proved
			if !okLLU || !okGUA || len(extra) > 0 {
				st = core.Violated
			}
			r.Add(core.Obligation{Rule: "create", Key: "create Parse IPv6 host family condition", Func: core.FuncName(parse), Pos: c.P.Pos(core.PosOf(ins)), Status: st,
				Basis: "reached by: link-local source | global unicast source from a MAC other than the router's", Detail: "IPv6 host creation is reached by the paths: " + strings.Join(dnf, "  |  ")})
		default:
			r.Add(core.Obligation{Rule: "create", Key: fmt.Sprintf("create Parse site %d", n), Func: core.FuncName(parse), Pos: c.P.Pos(core.PosOf(ins)), Status: core.Violated, Detail: "host creation outside the IPv4 / IPv6 / ARP arms: " + guardTexts(gs)})
		}
	}
	if n != 3 {
		r.Add(core.Obligation{Rule: "create", Key: "create three sites", Func: core.FuncName(parse), Status: core.Violated, Detail: fmt.Sprintf("expected 3 host creation sites in Parse, found %d", n)})
	}
	// online: call and flag store under !Host.Online
	for k, site := range callsIn(parse, nameIs("onlineTransition")) {
		ins := site.(ssa.Instruction)
		st := core.Proved
		if !hasGuard(guardsOf(ins), `^!local\(frame\)\.Host\.Online$`) {
			st = core.Violated
		}
		r.Add(core.Obligation{Rule: "online", Key: fmt.Sprintf("online Parse transition site %d under !Host.Online", k+1), Func: core.FuncName(parse), Pos: c.P.Pos(core.PosOf(ins)), Status: st,
			Basis: "onlineTransition called under !Host.Online", Detail: "onlineTransition is not called under !Host.Online: " + guardTexts(guardsOf(ins))})
		ok, _ := mustPass(ins, func(j ssa.Instruction) bool {
			s, isS := j.(*ssa.Store)
			return isS && strings.HasSuffix(norm(s.Addr), "local(frame).flags") && strings.Contains(norm(s.Val), "markOnlineTransition")
		})
		st = core.Proved
		if !ok {
			st = core.Violated
		}
		r.Add(core.Obligation{Rule: "online", Key: fmt.Sprintf("online Parse transition site %d marks the frame", k+1), Func: core.FuncName(parse), Pos: c.P.Pos(core.PosOf(ins)), Status: st,
			Basis: "frame.flags = markOnlineTransition() follows on every path", Detail: "the frame is not marked as an online transition after onlineTransition"})
	}
	// every other caller of onlineTransition (DHCPv4Update) runs it exactly when the host is not online
	for _, fn := range c.P.LibFunctions() {
		if fn == parse {
			continue
		}
		for _, site := range callsIn(fn, nameIs("onlineTransition")) {
			if len(site.Common().Args) != 2 {
				continue
			}
			ins := site.(ssa.Instruction)
			host := norm(site.Common().Args[1])
			st := core.Proved
			if !hasGuard(guardsOf(ins), `^!`+regexpQuote(host)+`\.Online$`) {
				st = core.Violated
			}
			r.Add(core.Obligation{Rule: "online", Key: "online " + core.FuncName(fn) + " transition under !host.Online", Func: core.FuncName(fn), Pos: c.P.Pos(core.PosOf(ins)), Status: st,
				Basis: "onlineTransition(host) called under !host.Online", Detail: "onlineTransition is not called under !host.Online (a tracked host that is offline would stay offline, or an online one would be re-announced): " + guardTexts(guardsOf(ins))})
		}
	}
	if ot := c.A.Method("", "Session", "onlineTransition"); ot != nil {
		core.EachInstr(ot, func(i ssa.Instruction) {
			s, ok := i.(*ssa.Store)
			if !ok {
				return
			}
			a := norm(s.Addr)
			switch {
			case strings.HasSuffix(a, "HostList[(φ+1)].Online") || strings.HasSuffix(a, "HostList[(φ+1)].dirty"):
				requireGuards(c, "online", "onlineTransition sibling "+a[strings.LastIndex(a, ".")+1:], i, []guardReq{
					{"new host is IPv4", `^\(net/netip\.Addr\)\.Is4\(arg0\.Addr\.IP\)$`},
					{"its address differs from the MAC entry's current IPv4", `^!\((arg0\.Addr\.IP==arg0\.MACEntry\.IP4|arg0\.MACEntry\.IP4==arg0\.Addr\.IP)\)$`},
					{"sibling is IPv4", `^\(net/netip\.Addr\)\.Is4\(.*HostList\[\(φ\+1\)\]\.Addr\.IP\)$`},
					{"sibling has a different address", `^!\(arg0\.MACEntry\.HostList\[\(φ\+1\)\]\.Addr\.IP==arg0\.Addr\.IP\)$`},
					{"sibling is online", `^arg0\.MACEntry\.HostList\[\(φ\+1\)\]\.Online$`}})
			case a == "arg0.Online" || a == "arg0.MACEntry.Online" || a == "arg0.dirty":
				st := core.Proved
				if v, isC := constBool(s.Val); !isC || !v || !hasGuard(guardsOf(i), `^!arg0\.Online$`) {
					st = core.Violated
				}
				r.Add(core.Obligation{Rule: "online", Key: "online onlineTransition sets " + a, Func: core.FuncName(ot), Pos: c.P.Pos(core.PosOf(i)), Status: st, Basis: "set to true under !host.Online", Detail: a + " is not set to true under !host.Online"})
			}
		})
	}
	// ageing
	if pg := c.A.Method("", "Session", "purge"); pg != nil {
		const e = `\(packet\.Session\)\.GetHosts\(local\(h\)\)\[\(φ\+1\)\]`
		core.EachInstr(pg, func(i ssa.Instruction) {
			call, ok := isBuiltinCall(i, "append")
			if !ok {
				return
			}
			switch call.Type().String() {
			case "[]net/netip.Addr":
				requireGuards(c, "ageing", "purge deletion list", i, []guardReq{{"host is offline", `^!` + e + `\.Online$`},
					{"not seen since now - PurgeDeadline", `^\(time\.Time\)\.Before\(` + e + `\.LastSeen,\(time\.Time\)\.Add\(local\(now\),\(local\(h\)\.PurgeDeadline-1\)\)\)$`}})
			case "[]*github.com/irai/packet.Host":
				requireGuards(c, "ageing", "purge offline list", i, []guardReq{{"host is online", `^` + e + `\.Online$`},
					{"not seen since now - OfflineDeadline", `^\(time\.Time\)\.Before\(` + e + `\.LastSeen,\(time\.Time\)\.Add\(local\(now\),\(local\(h\)\.OfflineDeadline-1\)\)\)$`}})
			}
		})
	}
	if dh := c.A.Method("", "Session", "deleteHost"); dh != nil {
		for _, site := range callsIn(dh, nameIs("delete")) {
			if strings.Contains(core.CalleeName(site), "MACTable") {
				ins := site.(ssa.Instruction)
				st := core.Proved
				if !hasGuard(guardsOf(ins), `^\(len\(.*MACEntry\.HostList\)==0\)$`) {
					st = core.Violated
				}
				r.Add(core.Obligation{Rule: "ageing", Key: "ageing deleteHost removes the MAC entry only when empty", Func: core.FuncName(dh), Pos: c.P.Pos(core.PosOf(ins)), Status: st,
					Basis: "MACTable.delete under len(HostList) == 0", Detail: "the MAC entry is deleted without the test len(HostList) == 0: " + guardTexts(guardsOf(ins))})
			}
		}
	}
	// who
	lib := c.P.LibFunctions()
	allow := func(rule, key string, fn *ssa.Function, ins ssa.Instruction, allowed ...string) {
		st := core.Proved
		ok := false
		for _, a := range allowed {
			if fn.Name() == a {
				ok = true
			}
		}
		if !ok {
			st = core.Violated
		}
		r.Add(core.Obligation{Rule: rule, Key: key + " in " + core.FuncName(fn), Func: core.FuncName(fn), Pos: c.P.Pos(core.PosOf(ins)), Status: st,
			Basis: "allowed in: " + strings.Join(allowed, ", "), Detail: key + " outside " + strings.Join(allowed, ", ")})
	}
	for _, fn := range lib {
		if fn.Pkg == nil || fn.Pkg.Pkg.Path() != core.ModPath {
			// handlers and examples may not touch the tables at all
		}
		core.EachInstr(fn, func(i ssa.Instruction) {
			switch t := i.(type) {
			case *ssa.Alloc:
				if strings.HasSuffix(t.Type().String(), "packet.Host") && t.Heap && t.Comment == "complit" {
					allow("who", "who creates a Host", fn, i, "findOrCreateHostWithLock")
				}
			case ssa.CallInstruction:
				switch {
				case strings.HasSuffix(core.CalleeName(t), "Session).findOrCreateHostWithLock"):
					allow("who", "who calls findOrCreateHostWithLock", fn, i, "Parse", "DHCPv4Update", "NewSession")
				case strings.HasSuffix(core.CalleeName(t), "Session).deleteHost"):
					allow("who", "who calls deleteHost", fn, i, "purge", "findOrCreateHostWithLock")
				}
			}
			if call, ok := isBuiltinCall(i, "delete"); ok && strings.Contains(norm(call.Call.Args[0]), "HostTable.Table") {
				allow("who", "who deletes from HostTable", fn, i, "deleteHost")
			}
		})
	}
}

// ---------------- C05 ----------------

func runC05(c *Ctx) {
	r := c.R
	r.Explanation = "Structural conditions of the host/MAC table invariant: (who-writes) the host index, the MAC table, MACEntry.HostList, Host.MACEntry, Host.Addr and MACEntry.MAC are written only by findOrCreateHostWithLock, deleteHost, MACTable.findOrCreate/delete, MACEntry.link/unlink (and constructors), in no handler; " +
		"(locked) every such write happens with the session mutex held for writing; (pairing) on creation the host stored under Table[addr.IP] is the one whose MACEntry is findOrCreate(addr.MAC), whose Addr.MAC is that entry's MAC and which is appended to that entry's HostList; " +
		"deleteHost unlinks the host, removes Table[ip] and deletes the MAC entry only when its list is empty; findOrCreate appends an entry only after findMAC returned nil; (online) a host goes online together with its MAC entry and makeOffline recomputes the entry's flag from the list. " +
		"Not decided: that the mutators jointly preserve the invariant over all histories (an inductive argument), quiescent-point claims."
	r.Rule("who-writes", "table and link fields are written only by the table mutators", 8)
	r.Rule("locked", "table mutations hold the session mutex for writing", 7)
	r.Rule("pairing", "creation and deletion keep index, link and list together", 18)
	r.Rule("online", "MAC entry online flag follows its hosts", 2)
	runC05Holders(c)
	// unlink removes the host found from the MAC entry's list and no other (a removal that drops the hosts after it
	// leaves them in the index without a list entry)
	if ul := c.P.Method("", "MACEntry", "unlink"); ul != nil {
		checkSliceRemoval(c, "pairing", "pairing MACEntry.unlink removes the host found and no other", ul, "recv.HostList", func(P string, gs []Guard) bool {
			return hasGuard(gs, `^\(recv\.HostList\[`+regexp.QuoteMeta(P)+`\]\.Addr\.IP==arg0\.Addr\.IP\)$`) || hasGuard(gs, `^\(recv\.HostList\[`+regexp.QuoteMeta(P)+`\]==arg0\)$`)
		})
	} else {
		r.Fatal("MACEntry.unlink not found")
	}
	// MACTable.delete removes the entry found and no other (the third removal from a slice in the tables)
	if dl := c.P.Method("", "MACTable", "delete"); dl != nil {
		checkSliceRemoval(c, "pairing", "pairing MACTable.delete removes the entry found and no other", dl, "recv.Table", func(P string, _ []Guard) bool {
			return strings.Contains(P, "(packet.MACTable).findMAC(recv,arg0)#1")
		})
	} else {
		r.Fatal("MACTable.delete not found")
	}
	// unlinking a host and removing it from the index go together, wherever it is done: every call of MACEntry.unlink is
	// followed, on every path to a return, by a delete from the host index (a host taken off its MAC entry's list only -
	// to cap the list, say - stays indexed and belongs to no MAC entry)
	for _, fn := range c.P.LibFunctions() {
		kgul := core.NewKeyGen()
		for _, site := range callsIn(fn, nameIs("unlink")) {
			ins := site.(ssa.Instruction)
			isIdxDel := func(j ssa.Instruction) bool {
				cl, isCall := j.(*ssa.Call)
				if !isCall {
					return false
				}
				b, isB := cl.Call.Value.(*ssa.Builtin)
				return isB && b.Name() == "delete" && len(cl.Call.Args) == 2 && strings.HasSuffix(norm(cl.Call.Args[0]), ".HostTable.Table")
			}
			okAll, exit := mustPass(ins, isIdxDel)
			if !okAll {
				// or the index entry went first: a delete from the index dominates the unlink
				core.EachInstr(fn, func(j ssa.Instruction) {
					if isIdxDel(j) && core.InstrDominates(j, ins) {
						okAll = true
					}
				})
			}
			st, det := core.Proved, ""
			if !okAll {
				st = core.Violated
				det = core.FuncName(fn) + " unlinks a host from its MAC entry and can return at " + c.P.Pos(core.PosOf(exit)) + " without deleting it from the host index: the host stays indexed under its IP and points at a MAC entry that no longer lists it"
			}
			r.Add(core.Obligation{Rule: "pairing", Key: strings.TrimSuffix(kgul.Key("pairing unlink is followed by removal from the index in "+core.FuncName(fn)), "#0"), Func: core.FuncName(fn), Pos: c.P.Pos(core.PosOf(ins)), Status: st,
				Basis: "every path from unlink to a return passes delete(HostTable.Table, ip), or the delete dominates the unlink", Detail: det})
		}
	}
	// one key discipline for the host index: every lookup, insertion and deletion uses the address as it is (or every one
	// passes it through the same normaliser). A lookup that normalises while the insertion does not misses the hosts stored
	// under the other form: deleteHost does nothing for them and a re-bound address leaves its old host linked.
	{
		type use struct {
			fn   *ssa.Function
			ins  ssa.Instruction
			kind string
			cls  string
		}
		var uses []use
		classify := func(k ssa.Value) string {
			for {
				switch t := k.(type) {
				case *ssa.ChangeType:
					k = t.X
					continue
				case *ssa.MakeInterface:
					k = t.X
					continue
				case *ssa.Call:
					if cal := t.Common().StaticCallee(); cal != nil {
						return "through " + core.FuncName(cal)
					}
					return "through a call"
				}
				return "as it is"
			}
		}
		for _, fn := range c.P.LibFunctions() {
			core.EachInstr(fn, func(i ssa.Instruction) {
				switch t := i.(type) {
				case *ssa.Lookup:
					if strings.HasSuffix(norm(t.X), ".HostTable.Table") {
						uses = append(uses, use{fn, i, "lookup", classify(t.Index)})
					}
				case *ssa.MapUpdate:
					if strings.HasSuffix(norm(t.Map), ".HostTable.Table") {
						uses = append(uses, use{fn, i, "insert", classify(t.Key)})
					}
				case *ssa.Call:
					if b, ok := t.Call.Value.(*ssa.Builtin); ok && b.Name() == "delete" && len(t.Call.Args) == 2 && strings.HasSuffix(norm(t.Call.Args[0]), ".HostTable.Table") {
						uses = append(uses, use{fn, i, "delete", classify(t.Call.Args[1])})
					}
				}
			})
		}
		ref := ""
		for _, u := range uses {
			if u.kind == "insert" {
				ref = u.cls
			}
		}
		kgk := core.NewKeyGen()
		for _, u := range uses {
			st := core.Proved
			if u.cls != ref {
				st = core.Violated
			}
			r.Add(core.Obligation{Rule: "pairing", Key: strings.TrimSuffix(kgk.Key("pairing host index key "+u.kind+" in "+core.FuncName(u.fn)), "#0"), Func: core.FuncName(u.fn), Pos: c.P.Pos(core.PosOf(u.ins)), Status: st,
				Basis: "key used " + u.cls + ", like the insertion", Detail: "the host index is keyed " + u.cls + " at this " + u.kind + " and " + ref + " at the insertion: hosts stored under the other form of an address (IPv4-mapped IPv6) are not found, so they are never deleted and a re-bound address leaves its old host linked to its old MAC"})
		}
	}
	// a MAC entry leaves the table only when no host refers to it any more: every call of MACTable.delete, wherever it
	// is, runs under len(entry.HostList) == 0 (an entry that is merely offline still owns its hosts)
	for _, fn := range c.P.LibFunctions() {
		kgd := core.NewKeyGen()
		for _, site := range callsIn(fn, nameIs("delete")) {
			if !strings.HasSuffix(core.CalleeName(site), "MACTable).delete") {
				continue
			}
			ins := site.(ssa.Instruction)
			st := core.Proved
			if !hasGuard(guardsOf(ins), `^\(len\(.*HostList\)==0\)$`) {
				st = core.Violated
			}
			key := strings.TrimSuffix(kgd.Key("pairing MAC entry removed only when it has no host, in "+core.FuncName(fn)), "#0")
			r.Add(core.Obligation{Rule: "pairing", Key: key, Func: core.FuncName(fn), Pos: c.P.Pos(core.PosOf(ins)), Status: st,
				Basis: "MACTable.delete under len(HostList) == 0", Detail: "the MAC entry is removed from the table while hosts may still refer to it (" + guardTexts(guardsOf(ins)) + "): those hosts stay in the host index but belong to no entry of the MAC table"})
		}
	}

	lib := c.P.LibFunctions()
	an := locks.Analyse(c.P, lib, isConstructor)
	mutators := map[string]bool{"findOrCreateHostWithLock": true, "deleteHost": true, "findOrCreate": true, "delete": true, "link": true, "unlink": true}
	fieldsWatched := map[string]bool{"packet.HostTable.Table": true, "packet.MACTable.Table": true, "packet.MACEntry.HostList": true, "packet.Host.MACEntry": true, "packet.Host.Addr": true, "packet.MACEntry.MAC": true}
	kg := core.NewKeyGen()
	for _, fn := range c.P.ModuleFunctions() {
		if isConstructor(fn) {
			continue
		}
		core.EachInstr(fn, func(i ssa.Instruction) {
			var what string
			switch t := i.(type) {
			case *ssa.Store:
				if fa, ok := t.Addr.(*ssa.FieldAddr); ok && fieldsWatched[fieldOwner(fa)] {
					// composite literal initialisation of a fresh object is construction, not mutation of the tables
					if al, ok := fa.X.(*ssa.Alloc); ok && al.Comment == "complit" {
						if fn.Name() != "findOrCreateHostWithLock" && fn.Name() != "findOrCreate" {
							// a Host / MACEntry literal elsewhere (tests helpers are not in the library)
							if strings.HasSuffix(fieldOwner(fa), "Host.MACEntry") || strings.HasSuffix(fieldOwner(fa), "MACEntry.MAC") {
								what = "initialises " + fieldOwner(fa) + " of a new object"
							}
						}
						break
					}
					what = "writes " + fieldOwner(fa)
				}
				if fa, ok := t.Addr.(*ssa.FieldAddr); ok {
					// Host.Addr.MAC / Host.Addr.IP
					if inner, ok := fa.X.(*ssa.FieldAddr); ok && fieldOwner(inner) == "packet.Host.Addr" {
						if al, ok := inner.X.(*ssa.Alloc); !ok || al.Comment != "complit" {
							what = "writes packet.Host.Addr." + fieldNameOfFA(fa)
						}
					}
				}
			case *ssa.MapUpdate:
				if strings.HasSuffix(norm(t.Map), "HostTable.Table") {
					what = "inserts into HostTable.Table"
				}
			}
			if call, ok := isBuiltinCall(i, "delete"); ok && strings.HasSuffix(norm(call.Call.Args[0]), "HostTable.Table") {
				what = "deletes from HostTable.Table"
			}
			if what == "" {
				return
			}
			st := core.Proved
			inLib := fn.Pkg != nil && fn.Pkg.Pkg.Path() == core.ModPath
			if !inLib || !mutators[fn.Name()] {
				st = core.Violated
			}
			key := strings.TrimSuffix(kg.Key(fmt.Sprintf("who-writes %s %s", core.FuncName(fn), what)), "#0")
			r.Add(core.Obligation{Rule: "who-writes", Key: key, Func: core.FuncName(fn), Pos: c.P.Pos(core.PosOf(i)), Status: st,
				Basis: "written by a table mutator", Detail: core.FuncName(fn) + " " + what + " outside the table mutators (findOrCreateHostWithLock, deleteHost, MACTable.findOrCreate/delete, MACEntry.link/unlink)"})
			if node := c.P.CallGraph().Nodes[fn]; st == core.Proved && (node == nil || len(node.In) == 0) {
				return // never called: no lock context to check (reported by the dead-code cross-reference)
			}
			if st == core.Proved {
				fi := an.Info[fn]
				held := fi != nil && fi.MustIn[i][locks.Held{Class: "Session.mutex", Mode: "W"}]
				ls := core.Proved
				if !held {
					ls = core.Violated
				}
				lk := strings.TrimSuffix(kg.Key(fmt.Sprintf("locked %s %s", core.FuncName(fn), what)), "#0")
				r.Add(core.Obligation{Rule: "locked", Key: lk, Func: core.FuncName(fn), Pos: c.P.Pos(core.PosOf(i)), Status: ls,
					Basis: "Session.mutex held for writing (directly or by every caller)", Detail: what + " without the session mutex held for writing"})
			}
		})
	}
	// check and act in one critical section: the lookup that decides "no such host, create one" (or "another MAC holds the
	// address, replace it") is made with the session mutex held for writing, like the insertion. A decision carried over
	// from the read-locked fast path lets two goroutines both miss and both insert: the second overwrites the index slot
	// while both hosts stay in the MAC entry's list.
	if fn := c.A.Method("", "Session", "findOrCreateHostWithLock"); fn != nil {
		fi := an.Info[fn]
		core.EachInstr(fn, func(i ssa.Instruction) {
			mu, ok := i.(*ssa.MapUpdate)
			if !ok || !strings.HasSuffix(norm(mu.Map), ".HostTable.Table") {
				return
			}
			st := core.Violated
			core.EachInstr(fn, func(j ssa.Instruction) {
				lk, isL := j.(*ssa.Lookup)
				if !isL || norm(lk.X) != norm(mu.Map) || norm(lk.Index) != norm(mu.Key) {
					return
				}
				if fi != nil && fi.MustIn[j][locks.Held{Class: "Session.mutex", Mode: "W"}] && j.Block().Dominates(i.Block()) {
					st = core.Proved
				}
			})
			r.Add(core.Obligation{Rule: "pairing", Key: "pairing findOrCreateHostWithLock looks the address up again under the write lock", Func: core.FuncName(fn), Pos: c.P.Pos(core.PosOf(i)), Status: st,
				Basis: "a lookup of the same key with Session.mutex held for writing dominates the insertion", Detail: "the host is inserted on the strength of a lookup made before the write lock was taken: two goroutines that both miss the same new address both insert, the index keeps the second host and the MAC entry lists both"})
		})
	}
	// ... and the decision "another MAC holds the address: remove its host first" is taken on that same lookup: the host
	// tested against nil in front of deleteHost is the one the write-locked lookup returned (a `:=` in the re-lookup
	// shadows the result variable, and the test then sees what the read-locked fast path found)
	if fn := c.A.Method("", "Session", "findOrCreateHostWithLock"); fn != nil {
		fi := an.Info[fn]
		wLocked := map[ssa.Value]bool{}
		anyLookup := map[ssa.Value]bool{}
		var lockCall ssa.Instruction
		core.EachInstr(fn, func(j ssa.Instruction) {
			if lk, isL := j.(*ssa.Lookup); isL && strings.HasSuffix(norm(lk.X), ".HostTable.Table") {
				anyLookup[lk] = true
				if fi != nil && fi.MustIn[j][locks.Held{Class: "Session.mutex", Mode: "W"}] {
					wLocked[lk] = true
				}
			}
			if cj, ok := j.(ssa.CallInstruction); ok && lockCall == nil && strings.HasSuffix(core.CalleeName(cj), "RWMutex).Lock") && strings.HasSuffix(norm(cj.Common().Args[0]), ".mutex") {
				lockCall = j
			}
		})
		fromLocked := func(v ssa.Value) (locked, unlocked bool) {
			for w := range dataSlice(fn, v) {
				if anyLookup[w] {
					if wLocked[w] {
						locked = true
					} else {
						unlocked = true
					}
				}
			}
			return
		}
		n := 0
		for _, site := range callsIn(fn, nameIs("deleteHost")) {
			// the nil test that guards the call
			for _, g := range guardsOf(site.(ssa.Instruction)) {
				bo, ok := g.Cond.(*ssa.BinOp)
				if !ok || (norm(bo.Y) != "nil" && norm(bo.X) != "nil") {
					continue
				}
				tested := bo.X
				if norm(bo.X) == "nil" {
					tested = bo.Y
				}
				n++
				st, det := core.Proved, ""
				if ld, isLoad := tested.(*ssa.UnOp); isLoad && ld.Op == token.MUL {
					if al, isAl := ld.X.(*ssa.Alloc); isAl && lockCall != nil {
						// a variable in memory: every path from taking the write lock to the test stores the locked lookup's result
						stores := func(j ssa.Instruction) bool {
							s, ok := j.(*ssa.Store)
							if !ok || s.Addr != ssa.Value(al) {
								return false
							}
							l, u := fromLocked(s.Val)
							return l && !u
						}
						if reachesWithout(lockCall, bo, stores) {
							st, det = core.Violated, "the host tested against nil in front of deleteHost is read from "+norm(ld.X)+", which is not assigned from the write-locked lookup on every path from mutex.Lock(): the decision is taken on what the read-locked fast path found"
						}
					} else {
						st, det = core.Undecided, "the tested host is loaded from "+norm(ld.X)
					}
				} else {
					l, u := fromLocked(tested)
					if !l || u {
						st, det = core.Violated, "the host tested against nil in front of deleteHost does not come (only) from the lookup made with the write lock held"
					}
				}
				r.Add(core.Obligation{Rule: "pairing", Key: "pairing findOrCreateHostWithLock decides the takeover on the write-locked lookup", Func: core.FuncName(fn), Pos: c.P.Pos(core.PosOf(site.(ssa.Instruction))), Status: st,
					Basis: "the host compared with nil in front of deleteHost is the result of the lookup made under mutex.Lock()", Detail: det})
			}
		}
		if n == 0 {
			r.Add(core.Obligation{Rule: "pairing", Key: "pairing findOrCreateHostWithLock decides the takeover on the write-locked lookup", Func: core.FuncName(fn), Status: core.Undecided, Detail: "no nil test in front of deleteHost was found"})
		}
	}
	// the same for the other table mutation that is decided on an earlier look: purge selects the hosts to delete while it
	// holds only their row locks and deletes them afterwards by address. The deletion is decided again under the write
	// lock: the host is looked up with the mutex held, and the call is control dependent on that host's Online flag and
	// LastSeen (a frame parsed in between brings the host back - or gives the address to another station - and the
	// deletion by address would remove an online host without a trace)
	if pg := c.A.Method("", "Session", "purge"); pg != nil {
		fi := an.Info[pg]
		n := 0
		for _, site := range callsIn(pg, nameIs("deleteHost")) {
			ins := site.(ssa.Instruction)
			n++
			var lookups []ssa.Value
			for _, lk := range callsIn(pg, nameIs("findIP")) {
				li := lk.(ssa.Instruction)
				if len(lk.Common().Args) == 2 && norm(lk.Common().Args[1]) == norm(site.Common().Args[1]) && core.InstrDominates(li, ins) &&
					fi != nil && fi.MustIn[li][locks.Held{Class: "Session.mutex", Mode: "W"}] {
					if v, ok := li.(ssa.Value); ok {
						lookups = append(lookups, v)
					}
				}
			}
			online, seen := false, false
			for _, g := range guardsOf(ins) {
				vals := dataSlice(pg, g.Cond)
				// a condition assembled with && / || is a φ: what decides which edge is taken is part of it
				for w := range dataSlice(pg, g.Cond) {
					if ph, isPhi := w.(*ssa.Phi); isPhi {
						for _, pred := range ph.Block().Preds {
							for _, gg := range guardsOf(pred.Instrs[len(pred.Instrs)-1]) {
								for x := range dataSlice(pg, gg.Cond) {
									vals[x] = true
								}
							}
						}
					}
				}
				for w := range vals {
					fa, ok := w.(*ssa.FieldAddr)
					if !ok {
						continue
					}
					for _, lk := range lookups {
						if fa.X == lk {
							switch fieldOwner(fa) {
							case "packet.Host.Online":
								online = true
							case "packet.Host.LastSeen":
								seen = true
							}
						}
					}
				}
			}
			st, det := core.Proved, ""
			if len(lookups) == 0 || !online || !seen {
				st = core.Violated
				det = fmt.Sprintf("purge deletes %s on the strength of the selection it made before it took the session mutex (look-up under the write lock: %v, Online re-examined: %v, LastSeen re-examined: %v): a frame parsed between the selection and the deletion brings the host online again, and it is deleted all the same - an online host that is in no table, with no offline notification", norm(site.Common().Args[1]), len(lookups) > 0, online, seen)
			}
			r.Add(core.Obligation{Rule: "pairing", Key: fmt.Sprintf("pairing purge deletion %d is decided again under the write lock", n), Func: core.FuncName(pg), Pos: c.P.Pos(core.PosOf(ins)), Status: st,
				Basis: "findIP(addr) with Session.mutex held for writing dominates the call, which is control dependent on that host's Online and LastSeen", Detail: det})
		}
		if n == 0 {
			r.Add(core.Obligation{Rule: "pairing", Key: "pairing purge deletion", Func: core.FuncName(pg), Status: core.Undecided, Detail: "no deleteHost call in purge"})
		}
	}
	// the host list of a MAC entry is written through its backing array only by the table mutators: no append whose
	// destination is (a re-slice of) MACEntry.HostList outside link / findOrCreateHostWithLock (a scratch slice made as
	// HostList[:0] "to filter without allocating" overwrites the front of the list while it is being ranged over)
	{
		kga := core.NewKeyGen()
		for _, fn := range c.P.ModuleFunctions() {
			core.EachInstr(fn, func(i ssa.Instruction) {
				call, ok := isBuiltinCall(i, "append")
				if !ok || len(call.Call.Args) == 0 {
					return
				}
				// where the destination's backing array comes from: through φ, earlier appends (their destination only) and re-slices
				fromList := false
				seenV := map[ssa.Value]bool{}
				var origin func(v ssa.Value)
				origin = func(v ssa.Value) {
					if v == nil || seenV[v] {
						return
					}
					seenV[v] = true
					switch t := v.(type) {
					case *ssa.Phi:
						for _, e := range t.Edges {
							origin(e)
						}
					case *ssa.Slice:
						origin(t.X)
					case *ssa.ChangeType:
						origin(t.X)
					case *ssa.Call:
						if bi, isB := t.Call.Value.(*ssa.Builtin); isB && bi.Name() == "append" && len(t.Call.Args) > 0 {
							origin(t.Call.Args[0])
						}
					case *ssa.UnOp:
						if fa, isFA := t.X.(*ssa.FieldAddr); isFA && t.Op == token.MUL && fieldOwner(fa) == "packet.MACEntry.HostList" {
							fromList = true
						}
					}
				}
				origin(call.Call.Args[0])
				if !fromList {
					return
				}
				st, det := core.Proved, ""
				if fn.Name() != "link" && fn.Name() != "findOrCreateHostWithLock" && fn.Name() != "unlink" {
					st = core.Violated
					det = core.FuncName(fn) + " appends to a slice that shares the backing array of MACEntry.HostList (" + norm(call.Call.Args[0]) + "): the entries of the host list are overwritten outside the table mutators - a host is listed twice and another drops out of its MAC entry while it stays in the index"
				}
				r.Add(core.Obligation{Rule: "who-writes", Key: strings.TrimSuffix(kga.Key("who-writes "+core.FuncName(fn)+" appends into the host list"), "#0"), Func: core.FuncName(fn), Pos: c.P.Pos(core.PosOf(i)), Status: st,
					Basis: "append with a destination derived from MACEntry.HostList only in link / unlink / findOrCreateHostWithLock", Detail: det})
			})
		}
	}
	// MAC entries are unique per address because findOrCreate looks before it appends - and the look-up examines every
	// entry of the table: its loop is a range over the table, counts up from 0 while below len, or counts down from len-1
	// while not below 0 (a loop that stops above index 0 never finds the first entry again, and a second entry is appended)
	if fn := c.A.Method("", "MACTable", "findMAC"); fn != nil {
		st, det := core.Undecided, "the loop of findMAC over the table was not recognised"
		core.EachInstr(fn, func(i ssa.Instruction) {
			ph, ok := i.(*ssa.Phi)
			if !ok || len(ph.Edges) != 2 || st == core.Proved {
				return
			}
			iff, ok := ph.Block().Instrs[len(ph.Block().Instrs)-1].(*ssa.If)
			if !ok {
				return
			}
			init := ""
			for k, p := range ph.Block().Preds {
				if !ph.Block().Dominates(p) {
					init = norm(ph.Edges[k])
				}
			}
			cond := norm(iff.Cond)
			switch {
			case init == "-1" && cond == "((φ+1)<len(recv.Table))", init == "0" && cond == "(φ<len(recv.Table))",
				init == "(len(recv.Table)-1)" && (cond == "(φ>=0)" || cond == "(φ>-1)"):
				st, det = core.Proved, ""
			case init == "(len(recv.Table)-1)" || init == "-1" || init == "0" || init == "1":
				st, det = core.Violated, "findMAC starts at "+init+" and goes on while "+cond+": not every entry of the table is examined (the first entry - the NIC's own, created by NewSession - is never found again, findOrCreate appends a second entry for that MAC and its hosts hang under two entries)"
			}
		})
		r.Add(core.Obligation{Rule: "pairing", Key: "pairing MACTable.findMAC examines every entry", Func: core.FuncName(fn), Pos: c.P.Pos(fn.Pos()), Status: st,
			Basis: "range over the table | i := 0; i < len | i := len-1; i >= 0", Detail: det})
	}
	// pairing: creation
	if fn := c.A.Method("", "Session", "findOrCreateHostWithLock"); fn != nil {
		var hostLit *ssa.Alloc
		core.EachInstr(fn, func(i ssa.Instruction) {
			if al, ok := i.(*ssa.Alloc); ok && al.Comment == "complit" && strings.HasSuffix(al.Type().String(), "packet.Host") {
				hostLit = al
			}
		})
		add := func(key string, ok bool, basis, det string) {
			st := core.Proved
			if !ok {
				st = core.Violated
			}
			r.Add(core.Obligation{Rule: "pairing", Key: "pairing " + key, Func: core.FuncName(fn), Pos: c.P.Pos(fn.Pos()), Status: st, Basis: basis, Detail: det})
		}
		if hostLit == nil {
			add("creation literal", false, "", "no &Host{} literal in findOrCreateHostWithLock")
		} else {
			cf := complitFields(hostLit)
			const me = "(packet.MACTable).findOrCreate(recv.MACTable,local(addr).MAC)"
			add("creation Host.MACEntry", cf["MACEntry"] == me, "Host.MACEntry = findOrCreate(addr.MAC)", "Host.MACEntry is "+cf["MACEntry"])
			mac, ip := "", ""
			core.EachInstr(fn, func(i ssa.Instruction) {
				if s, ok := i.(*ssa.Store); ok {
					switch norm(s.Addr) {
					case "local(complit).Addr.MAC":
						mac = norm(s.Val)
					case "local(complit).Addr.IP":
						ip = norm(s.Val)
					}
				}
			})
			add("creation Host.Addr.MAC", mac == me+".MAC", "Host.Addr.MAC = the MAC entry's own (copied) MAC", "Host.Addr.MAC is "+mac)
			add("creation Host.Addr.IP", ip == "local(addr).IP", "Host.Addr.IP = addr.IP", "Host.Addr.IP is "+ip)
			idx, list := false, false
			core.EachInstr(fn, func(i ssa.Instruction) {
				switch t := i.(type) {
				case *ssa.MapUpdate:
					if strings.HasSuffix(norm(t.Map), "HostTable.Table") && norm(t.Key) == "local(addr).IP" && norm(t.Value) == "local(host)" {
						idx = true
					}
				case *ssa.Store:
					if norm(t.Addr) == me+".HostList" && strings.HasPrefix(norm(t.Val), "append("+me+".HostList,") {
						list = true
					}
				}
			})
			add("creation index", idx, "Table[addr.IP] = host", "the new host is not stored under Table[addr.IP]")
			add("creation list", list, "entry.HostList = append(entry.HostList, host) for the same entry", "the new host is not appended to the host list of findOrCreate(addr.MAC)")
		}
	}
	if fn := c.A.Method("", "Session", "findOrCreateHostWithLock"); fn != nil {
		// when the address is already indexed under another MAC (host != nil on the slow path), the previous owner is
		// deleted (unlinked from its MAC entry) on every path before the slot is overwritten
		var takeover *ssa.BasicBlock
		var update ssa.Instruction
		core.EachInstr(fn, func(i ssa.Instruction) {
			switch t := i.(type) {
			case *ssa.If:
				if norm(t.Cond) == "(local(host)!=nil)" || norm(t.Cond) == "!(local(host)==nil)" {
					takeover = i.Block().Succs[0]
				}
				if bo, ok := t.Cond.(*ssa.BinOp); ok && norm(bo.X) == "local(host)" && norm(bo.Y) == "nil" {
					if bo.Op == token.NEQ {
						takeover = i.Block().Succs[0]
					} else if bo.Op == token.EQL {
						takeover = i.Block().Succs[1]
					}
				}
			case *ssa.MapUpdate:
				if strings.HasSuffix(norm(t.Map), "HostTable.Table") {
					update = i
				}
			}
		})
		st := core.Violated
		det := "the duplicate-address branch (host != nil) or the index update was not found"
		if takeover != nil && update != nil && len(takeover.Instrs) > 0 {
			isDel := func(j ssa.Instruction) bool {
				cj, ok := j.(ssa.CallInstruction)
				return ok && strings.HasSuffix(core.CalleeName(cj), "Session).deleteHost") && norm(cj.Common().Args[1]) == "local(addr).IP"
			}
			first := takeover.Instrs[0]
			if isDel(first) || !reachesWithout(first, update, isDel) {
				st, det = core.Proved, ""
			} else {
				det = "when the address is already indexed for another MAC, a path reaches Table[addr.IP] = host without deleteHost(addr.IP): the previous owner stays linked under its MAC entry while the index points to the new host"
			}
		}
		r.Add(core.Obligation{Rule: "pairing", Key: "pairing address takeover deletes the previous owner first", Func: core.FuncName(fn), Pos: c.P.Pos(fn.Pos()), Status: st,
			Basis: "every path from host != nil to the index update passes deleteHost(addr.IP)", Detail: det})
	}
	if fn := c.A.Method("", "Session", "deleteHost"); fn != nil {
		unl, del := false, false
		for _, s := range callsIn(fn, nameIs("unlink")) {
			if len(s.Common().Args) == 2 && strings.HasSuffix(norm(s.Common().Args[0]), ".MACEntry") {
				unl = true
			}
		}
		core.EachInstr(fn, func(i ssa.Instruction) {
			if call, ok := isBuiltinCall(i, "delete"); ok && strings.HasSuffix(norm(call.Call.Args[0]), "HostTable.Table") && norm(call.Call.Args[1]) == "arg0" {
				del = true
			}
		})
		st := core.Proved
		if !unl || !del {
			st = core.Violated
		}
		r.Add(core.Obligation{Rule: "pairing", Key: "pairing deletion unlinks and removes the index", Func: core.FuncName(fn), Pos: c.P.Pos(fn.Pos()), Status: st,
			Basis: "MACEntry.unlink(host) and delete(Table, ip) both occur", Detail: fmt.Sprintf("unlink=%v delete=%v", unl, del)})
	}
	if dh := c.A.Method("", "Session", "deleteHost"); dh != nil {
		for _, site := range callsIn(dh, nameIs("delete")) {
			if strings.Contains(core.CalleeName(site), "MACTable") {
				ins := site.(ssa.Instruction)
				st := core.Proved
				if !hasGuard(guardsOf(ins), `^\(len\(.*MACEntry\.HostList\)==0\)$`) {
					st = core.Violated
				}
				r.Add(core.Obligation{Rule: "pairing", Key: "pairing MAC entry removed only when its host list is empty", Func: core.FuncName(dh), Pos: c.P.Pos(core.PosOf(ins)), Status: st,
					Basis: "MACTable.delete under len(HostList) == 0", Detail: "the MAC entry is deleted while hosts may still be linked to it: " + guardTexts(guardsOf(ins))})
			}
		}
	}
	if fn := c.P.Method("", "MACTable", "findOrCreate"); fn != nil {
		ok := false
		core.EachInstr(fn, func(i ssa.Instruction) {
			if s, isS := i.(*ssa.Store); isS && strings.HasSuffix(norm(s.Addr), ".Table") && strings.Contains(norm(s.Val), "append(") {
				if hasGuard(guardsOf(i), `^\(\(packet\.MACTable\)\.findMAC\(recv,arg0\)#0==nil\)$`) {
					ok = true
				}
			}
		})
		st := core.Proved
		if !ok {
			st = core.Violated
		}
		r.Add(core.Obligation{Rule: "pairing", Key: "pairing MAC entries unique", Func: core.FuncName(fn), Pos: c.P.Pos(fn.Pos()), Status: st,
			Basis: "a MAC entry is appended only after findMAC(mac) returned nil", Detail: "MACTable.findOrCreate appends without a dominating findMAC(mac) == nil"})
	}
	// online
	if ot := c.A.Method("", "Session", "onlineTransition"); ot != nil {
		var hostStores, macStores []ssa.Instruction
		core.EachInstr(ot, func(i ssa.Instruction) {
			if s, ok := i.(*ssa.Store); ok {
				if v, isC := constBool(s.Val); isC && v {
					switch norm(s.Addr) {
					case "arg0.Online":
						hostStores = append(hostStores, i)
					case "arg0.MACEntry.Online":
						macStores = append(macStores, i)
					}
				}
			}
		})
		// wherever the host goes online the MAC entry does: a store MACEntry.Online = true dominates the host's store, or
		// lies on every path from it to a return (a store only in the branches that refresh the entry's recorded address
		// misses the host that comes back with the address the entry already records)
		st := core.Proved
		if len(hostStores) == 0 || len(macStores) == 0 {
			st = core.Violated
		}
		for _, hs := range hostStores {
			together := false
			for _, ms := range macStores {
				if core.InstrDominates(ms, hs) {
					together = true
				}
			}
			if !together {
				isMac := func(j ssa.Instruction) bool {
					for _, ms := range macStores {
						if j == ms {
							return true
						}
					}
					return false
				}
				if ok, _ := mustPass(hs, isMac); ok {
					together = true
				}
			}
			if !together {
				st = core.Violated
			}
		}
		r.Add(core.Obligation{Rule: "online", Key: "online host and MAC entry go online together", Func: core.FuncName(ot), Pos: c.P.Pos(ot.Pos()), Status: st,
			Basis: "MACEntry.Online = true dominates Host.Online = true or lies on every path after it", Detail: fmt.Sprintf("onlineTransition sets Host.Online (%d sites) on a path that does not set MACEntry.Online (%d sites): a host that returns with the address its MAC entry already records is online under an entry marked offline", len(hostStores), len(macStores))})
	}
	if mo := c.A.Method("", "Session", "makeOffline"); mo != nil {
		ok := false
		why := ""
		core.EachInstr(mo, func(i ssa.Instruction) {
			if s, isS := i.(*ssa.Store); isS && strings.HasSuffix(norm(s.Addr), ".MACEntry.Online") {
				// the value is "some host of the list is online": a φ network whose leaves are the constant false (nothing
				// found yet) and the constant true on an edge taken under an element's Online flag; a leaf that loads an
				// element's flag directly (macOnline = v.Online) makes the result the last element's state
				seen := map[ssa.Value]bool{}
				good, leaves := true, 0
				var walk func(v ssa.Value)
				walk = func(v ssa.Value) {
					if seen[v] {
						return
					}
					seen[v] = true
					switch t := v.(type) {
					case *ssa.Phi:
						for k, e := range t.Edges {
							if cv, isC := e.(*ssa.Const); isC {
								leaves++
								if b, _ := constBool(cv); b {
									// the edge that brings true: its source block runs under an element's Online test
									pred := t.Block().Preds[k]
									under := false
									for _, g := range guardsOf(pred.Instrs[len(pred.Instrs)-1]) {
										if g.Pol && strings.HasSuffix(g.Text, ".Online") {
											under = true
										}
									}
									if !under {
										good = false
										why = "the flag becomes true on an edge that is not under a host's Online test"
									}
								}
								continue
							}
							walk(e)
						}
					default:
						good = false
						why = "the flag is computed from " + norm(v) + ", not accumulated over the list (it ends up as the last host's state)"
					}
				}
				walk(s.Val)
				if good && leaves >= 2 {
					ok = true
				}
			}
		})
		st := core.Proved
		if !ok {
			st = core.Violated
		}
		r.Add(core.Obligation{Rule: "online", Key: "online makeOffline recomputes the MAC entry flag", Func: core.FuncName(mo), Pos: c.P.Pos(mo.Pos()), Status: st,
			Basis: "MACEntry.Online = (some host in the list is online)", Detail: "makeOffline does not recompute MACEntry.Online as 'some host of the list is online': " + why})
	}
	// the MAC entry's flag goes down only through that recomputation: every other store to MACEntry.Online in the module
	// is the constant true (a store of false elsewhere marks an entry offline whose other hosts are still online)
	r.Rule("mac-online-stores", "MACEntry.Online is set to true, or recomputed over the host list in makeOffline - nothing else", 4)
	kg = core.NewKeyGen()
	for _, fn := range c.P.ModuleFunctions() {
		core.EachInstr(fn, func(i ssa.Instruction) {
			s, ok := i.(*ssa.Store)
			if !ok {
				return
			}
			fa, ok := s.Addr.(*ssa.FieldAddr)
			if !ok || fieldOwner(fa) != "packet.MACEntry.Online" {
				return
			}
			if al, isA := fa.X.(*ssa.Alloc); isA && al.Comment == "complit" {
				return // a new entry's initial state
			}
			st, det := core.Proved, ""
			v, isC := constBool(s.Val)
			switch {
			case isC && v:
			case fn.Name() == "makeOffline" && !isC:
			default:
				st = core.Violated
				det = core.FuncName(fn) + " stores " + norm(s.Val) + " in MACEntry.Online without looking at the entry's other hosts: a host of the same MAC that is still online is then online under an entry marked offline"
			}
			key := strings.TrimSuffix(kg.Key("mac-online-stores "+core.FuncName(fn)), "#0")
			r.Add(core.Obligation{Rule: "mac-online-stores", Key: key, Func: core.FuncName(fn), Pos: c.P.Pos(core.PosOf(i)), Status: st,
				Basis: "constant true, or the recomputed flag in makeOffline", Detail: det})
		})
	}
}

// ---------------- C06 ----------------

func runC06(c *Ctx) {
	r := c.R
	r.Explanation = "Structural conditions of 'every transition is notified exactly once': (channel) the only send on the notification channel is in sendNotification, under len(C) < cap(C), and only Close closes it; " +
		"(snapshot) in notify and makeOffline the dirty flag is cleared and the notification snapshot taken inside one MACEntry.Row critical section, before the send; notify returns without sending when the host is not dirty; " +
		"(dirty) every dirty = true is control dependent on a creation, an online transition, a sibling going offline, or a name merge that reported a change; (order) in notify the offline notifications of superseded addresses are sent before the online one. " +
		"Not decided: exactly-once over histories, loss when the channel is full, equality of notification content with the tracked state."
	r.Rule("channel", "who sends on / closes the notification channel", 2)
	r.Rule("snapshot", "dirty cleared and snapshot taken in one critical section before the send", 3)
	r.Rule("dirty", "dirty is set only on a reportable change", 8)
	r.Rule("order", "offline notifications precede the online one", 1)

	lib := c.P.LibFunctions()
	an := locks.Analyse(c.P, lib, isConstructor)
	nSend, nClose := 0, 0
	for _, fn := range lib {
		core.EachInstr(fn, func(i ssa.Instruction) {
			if s, ok := i.(*ssa.Send); ok && strings.HasSuffix(norm(s.Chan), ".C") && strings.Contains(s.Chan.Type().String(), "Notification") {
				nSend++
				st := core.Proved
				det := ""
				if fn.Name() != "sendNotification" {
					st, det = core.Violated, "a notification is sent outside sendNotification"
				} else if !hasGuard(guardsOf(i), `^\(len\(recv\.C\)<cap\(recv\.C\)\)$`) {
					st, det = core.Violated, "the send is not under len(C) < cap(C) and may block the packet loop: "+guardTexts(guardsOf(i))
				}
				r.Add(core.Obligation{Rule: "channel", Key: "channel send in " + core.FuncName(fn), Func: core.FuncName(fn), Pos: c.P.Pos(core.PosOf(i)), Status: st, Basis: "non-blocking send in sendNotification", Detail: det})
			}
			// the other non-blocking form: select { case C <- n: default: }
			if sel, ok := i.(*ssa.Select); ok {
				for _, state := range sel.States {
					if state.Dir != types.SendOnly || !strings.HasSuffix(norm(state.Chan), ".C") || !strings.Contains(state.Chan.Type().String(), "Notification") {
						continue
					}
					nSend++
					st := core.Proved
					det := ""
					if fn.Name() != "sendNotification" {
						st, det = core.Violated, "a notification is sent outside sendNotification"
					} else if sel.Blocking {
						st, det = core.Violated, "the select that sends the notification has no default case and may block the packet loop"
					}
					r.Add(core.Obligation{Rule: "channel", Key: "channel send in " + core.FuncName(fn), Func: core.FuncName(fn), Pos: c.P.Pos(core.PosOf(i)), Status: st, Basis: "non-blocking send in sendNotification", Detail: det})
				}
			}
			if call, ok := isBuiltinCall(i, "close"); ok && strings.Contains(call.Call.Args[0].Type().String(), "Notification") {
				nClose++
				st := core.Proved
				if fn.Name() != "Close" {
					st = core.Violated
				}
				r.Add(core.Obligation{Rule: "channel", Key: "channel close in " + core.FuncName(fn), Func: core.FuncName(fn), Pos: c.P.Pos(core.PosOf(i)), Status: st, Basis: "closed by Session.Close only", Detail: "the notification channel is closed outside Session.Close"})
			}
		})
	}
	if nSend == 0 {
		r.Add(core.Obligation{Rule: "channel", Key: "channel send present", Status: core.Violated, Detail: "no send on the notification channel found"})
	}
	for _, name := range []string{"notify", "makeOffline"} {
		fn := c.A.Method("", "Session", name)
		if fn == nil {
			continue
		}
		fi := an.Info[fn]
		var clear, snap, send ssa.Instruction
		core.EachInstr(fn, func(i ssa.Instruction) {
			switch t := i.(type) {
			case *ssa.Store:
				if strings.HasSuffix(norm(t.Addr), ".dirty") {
					if v, ok := constBool(t.Val); ok && !v {
						clear = i
					}
				}
			case ssa.CallInstruction:
				switch {
				case strings.HasSuffix(core.CalleeName(t), "packet.toNotification"):
					snap = i
				case strings.HasSuffix(core.CalleeName(t), "Session).sendNotification"):
					send = i
				}
			}
		})
		st := core.Proved
		var why []string
		if clear == nil || snap == nil || send == nil {
			st = core.Violated
			why = append(why, fmt.Sprintf("clear=%v snapshot=%v send=%v", clear != nil, snap != nil, send != nil))
		} else {
			w := locks.Held{Class: "MACEntry.Row", Mode: "W"}
			if !fi.MustIn[clear][w] || !fi.MustIn[snap][w] {
				st = core.Violated
				why = append(why, "dirty = false and toNotification are not both under the row write lock")
			}
			// same critical section: no unlock between them
			first, second := clear, snap
			if core.InstrDominates(snap, clear) {
				first, second = snap, clear
			}
			if reachesWithoutPassing(first, second) {
				st = core.Violated
				why = append(why, "the row lock is released between the snapshot and clearing dirty")
			}
			if !core.InstrDominates(clear, send) || !core.InstrDominates(snap, send) {
				st = core.Violated
				why = append(why, "the send is not preceded by the snapshot and the clearing of dirty on every path")
			}
			if fi.MustIn[send][w] {
				st = core.Violated
				why = append(why, "the send happens with the row lock held")
			}
			// the snapshot reflects the state this function establishes: every store to the host's Online flag in the
			// function comes before the snapshot (a snapshot taken first reports the old state)
			core.EachInstr(fn, func(i ssa.Instruction) {
				so, isS := i.(*ssa.Store)
				if !isS {
					return
				}
				fa, isFA := so.Addr.(*ssa.FieldAddr)
				if !isFA || fieldOwner(fa) != "packet.Host.Online" {
					return
				}
				if !core.InstrDominates(i, snap) {
					st = core.Violated
					why = append(why, "Host.Online is stored at "+c.P.Pos(core.PosOf(i))+" after (or beside) the snapshot: the notification carries the previous online flag")
				}
			})
		}
		r.Add(core.Obligation{Rule: "snapshot", Key: "snapshot " + name, Func: core.FuncName(fn), Pos: c.P.Pos(fn.Pos()), Status: st,
			Basis: "dirty=false and toNotification in one Row.Lock region, then sendNotification outside it", Detail: strings.Join(why, "; ")})
	}
	if fn := c.A.Method("", "Session", "notify"); fn != nil {
		// returns before any send when !dirty
		ok := false
		core.EachInstr(fn, func(i ssa.Instruction) {
			if _, isRet := i.(*ssa.Return); isRet && hasGuard(guardsOf(i), `^!local\(frame\)\.Host\.dirty$`) {
				ok = true
			}
		})
		sendUnderDirty := true
		for _, s := range callsIn(fn, nameIs("sendNotification", "makeOffline")) {
			if !hasGuard(guardsOf(s.(ssa.Instruction)), `^local\(frame\)\.Host\.dirty$`) {
				sendUnderDirty = false
			}
		}
		st := core.Proved
		if !ok || !sendUnderDirty {
			st = core.Violated
		}
		r.Add(core.Obligation{Rule: "snapshot", Key: "snapshot notify is silent unless dirty", Func: core.FuncName(fn), Pos: c.P.Pos(fn.Pos()), Status: st,
			Basis: "return under !Host.dirty; every send under Host.dirty", Detail: fmt.Sprintf("early return=%v sends under dirty=%v", ok, sendUnderDirty)})
		// the superseded addresses are gathered under the same predicate that marked them in onlineTransition
		r.Rule("gather", "superseded IPv4 addresses are collected for the offline notification", 1)
		nG := 0
		core.EachInstr(fn, func(i ssa.Instruction) {
			call, ok := isBuiltinCall(i, "append")
			if !ok || call.Type().String() != "[]*github.com/irai/packet.Host" {
				return
			}
			nG++
			requireGuards(c, "gather", "notify offline list", i, []guardReq{
				{"the frame is an online transition", `^\(packet\.Frame\)\.onlineTransition\(local\(frame\)\)$`},
				{"the host that came online is IPv4 (its tracked address, as in onlineTransition)", `^\(net/netip\.Addr\)\.Is4\(local\(frame\)\.Host\.Addr\.IP\)$`},
				{"the sibling is offline", `^!.*HostList\[\(φ\+1\)\]\.Online$`},
				{"the sibling has a pending change", `HostList\[\(φ\+1\)\]\.dirty$`},
			})
		})
		if nG == 0 {
			r.Add(core.Obligation{Rule: "gather", Key: "gather notify offline list", Func: core.FuncName(fn), Status: core.Violated, Detail: "notify does not collect superseded addresses"})
		}
		// order
		var lastOff, online ssa.Instruction
		for _, s := range callsIn(fn, nameIs("makeOffline")) {
			lastOff = s.(ssa.Instruction)
		}
		for _, s := range callsIn(fn, nameIs("sendNotification")) {
			online = s.(ssa.Instruction)
		}
		st = core.Proved
		det := ""
		if lastOff == nil || online == nil {
			st, det = core.Violated, "makeOffline / sendNotification calls not found"
		} else if core.InstrReaches(online, lastOff) {
			st, det = core.Violated, "an offline notification can be sent after the online notification"
		}
		r.Add(core.Obligation{Rule: "order", Key: "order notify offline before online", Func: core.FuncName(fn), Pos: c.P.Pos(fn.Pos()), Status: st,
			Basis: "no path from the online sendNotification back to makeOffline", Detail: det})
	}
	// the frame of an online transition is marked as such (notify gathers the superseded addresses only for marked frames)
	r.Rule("frame-marked", "every online transition in Parse marks its frame as an online transition", 3)
	if parse := c.A.Method("", "Session", "Parse"); parse != nil {
		for k, site := range callsIn(parse, nameIs("onlineTransition")) {
			ins := site.(ssa.Instruction)
			ok, _ := mustPass(ins, func(j ssa.Instruction) bool {
				s, isS := j.(*ssa.Store)
				return isS && strings.HasSuffix(norm(s.Addr), "local(frame).flags") && strings.Contains(norm(s.Val), "markOnlineTransition")
			})
			st := core.Proved
			if !ok {
				st = core.Violated
			}
			r.Add(core.Obligation{Rule: "frame-marked", Key: fmt.Sprintf("frame-marked Parse transition site %d", k+1), Func: core.FuncName(parse), Pos: c.P.Pos(core.PosOf(ins)), Status: st,
				Basis: "frame.flags = markOnlineTransition() follows the transition on every path", Detail: "after onlineTransition the frame is not marked with markOnlineTransition(): notify will not emit the offline notifications of the superseded addresses before the online one"})
		}
	}
	// a pending notification is cancelled only by being delivered: Host.dirty is set to the constant true, or cleared (the
	// constant false) where the snapshot for the notification is taken (notify, makeOffline) - never assigned a computed
	// value (dirty = "the name changed" clears the flag an online transition has just set, and the transition is lost)
	r.Rule("dirty-stores", "Host.dirty is set to true, or cleared at the notification snapshot - nothing else", 8)
	{
		kgd := core.NewKeyGen()
		for _, fn := range c.P.ModuleFunctions() {
			core.EachInstr(fn, func(i ssa.Instruction) {
				st, ok := i.(*ssa.Store)
				if !ok {
					return
				}
				fa, ok := st.Addr.(*ssa.FieldAddr)
				if !ok || fieldOwner(fa) != "packet.Host.dirty" {
					return
				}
				if al, isAl := fa.X.(*ssa.Alloc); isAl && al.Comment == "complit" {
					return
				}
				stt, det := core.Proved, ""
				v, isC := constBool(st.Val)
				switch {
				case isC && v:
				case isC && !v && (fn.Name() == "notify" || fn.Name() == "makeOffline"):
				default:
					stt = core.Violated
					det = core.FuncName(fn) + " assigns " + norm(st.Val) + " to Host.dirty: when that is false a notification that was pending (an online transition made by the same frame) is cancelled without having been sent"
				}
				r.Add(core.Obligation{Rule: "dirty-stores", Key: strings.TrimSuffix(kgd.Key("dirty-stores "+core.FuncName(fn)), "#0"), Func: core.FuncName(fn), Pos: c.P.Pos(core.PosOf(i)), Status: stt,
					Basis: "constant true, or constant false in notify / makeOffline", Detail: det})
			})
		}
	}
	// what a notification says about the station is what is tracked for the station: every name field and the router flag
	// of the Notification built by toNotification is loaded from the MAC entry's field of the same name (names are learned
	// on one address of a station and reported for all of them)
	r.Rule("station-fields", "the names and the router flag of a notification come from the MAC entry", 6)
	if fn := c.P.Func("", "toNotification"); fn != nil {
		core.EachInstr(fn, func(i ssa.Instruction) {
			st, ok := i.(*ssa.Store)
			if !ok {
				return
			}
			fa, ok := st.Addr.(*ssa.FieldAddr)
			if !ok || !strings.HasPrefix(fieldOwner(fa), "packet.Notification.") {
				return
			}
			f := strings.TrimPrefix(fieldOwner(fa), "packet.Notification.")
			if f == "Addr" || f == "Online" {
				return // per address
			}
			want := "arg0.MACEntry." + f
			stt, det := core.Proved, ""
			if norm(st.Val) != want {
				stt = core.Violated
				det = "Notification." + f + " is taken from " + norm(st.Val) + ", not from " + want + ": a name learned on one address of the station is missing from the notifications of its other addresses (or differs from the tracked state)"
			}
			r.Add(core.Obligation{Rule: "station-fields", Key: "station-fields Notification." + f, Func: core.FuncName(fn), Pos: c.P.Pos(core.PosOf(i)), Status: stt, Basis: "value = host.MACEntry." + f, Detail: det})
		})
	}
	// an address that returns from offline goes online again: wherever Parse tracks the sender (findOrCreateHostWithLock),
	// the online transition that follows depends on nothing but "the host is not online" - not on whether the host was
	// just created (a host that aged out stays in the table until the purge deadline and is found, not created)
	r.Rule("returns-online", "after tracking the sender, Parse makes the online transition whenever the host is not online", 3)
	if parse := c.A.Method("", "Session", "Parse"); parse != nil {
		trans := callsIn(parse, nameIs("onlineTransition"))
		for k, site := range callsIn(parse, nameIs("findOrCreateHostWithLock")) {
			fins := site.(ssa.Instruction)
			base := map[string]bool{}
			for _, g := range guardsOf(fins) {
				base[g.Text] = true
			}
			st, det := core.Violated, "no onlineTransition call follows this tracking site"
			for _, t := range trans {
				tins := t.(ssa.Instruction)
				if !core.InstrDominates(fins, tins) {
					continue
				}
				var extra []string
				for _, g := range guardsOf(tins) {
					if !base[g.Text] {
						extra = append(extra, g.Text)
					}
				}
				if len(extra) == 1 && regexp.MustCompile(`^!local\(frame\)\.Host\.Online$`).MatchString(extra[0]) {
					st, det = core.Proved, ""
					break
				}
				sort.Strings(extra)
				det = "the online transition after this tracking site runs only if " + strings.Join(extra, " && ") + ": a tracked host that is not online (aged out, still in the table) sends a frame and stays offline, with no online notification"
			}
			r.Add(core.Obligation{Rule: "returns-online", Key: fmt.Sprintf("returns-online Parse tracking site %d", k+1), Func: core.FuncName(parse), Pos: c.P.Pos(core.PosOf(fins)), Status: st,
				Basis: "guards(onlineTransition) minus guards(findOrCreateHostWithLock) = { !frame.Host.Online }", Detail: det})
		}
	}
	// an address that ages out gets its offline notification: purge hands makeOffline exactly the online hosts whose own
	// LastSeen passed the offline deadline (the MAC entry's LastSeen is refreshed by every address of the station)
	r.Rule("aged-out", "purge selects for the offline notification by the host's own LastSeen", 1)
	if pg := c.A.Method("", "Session", "purge"); pg != nil {
		const e = `\(packet\.Session\)\.GetHosts\(local\(h\)\)\[\(φ\+1\)\]`
		core.EachInstr(pg, func(i ssa.Instruction) {
			call, ok := isBuiltinCall(i, "append")
			if !ok || call.Type().String() != "[]*github.com/irai/packet.Host" {
				return
			}
			requireGuards(c, "aged-out", "purge offline list", i, []guardReq{{"host is online", `^` + e + `\.Online$`},
				{"the host itself was not seen since now - OfflineDeadline", `^\(time\.Time\)\.Before\(` + e + `\.LastSeen,\(time\.Time\)\.Add\(local\(now\),\(local\(h\)\.OfflineDeadline-1\)\)\)$`}})
		})
	}
	// Notify finds the host of a DHCP frame (no source address, frame.Host == nil) through MACEntry.IP4Offer: DHCPv4Update
	// records the address it has just made current there, on every path, so that the notification that follows is
	// the one of that address (a stale value makes notify report the superseded address twice and the new one late)
	r.Rule("dhcp-lookup", "DHCPv4Update records the updated address for Notify's lookup on every path", 1)
	if du := c.A.Method("", "Session", "DHCPv4Update"); du != nil {
		var lookup ssa.Instruction
		for _, s := range callsIn(du, nameIs("findOrCreateHostWithLock")) {
			lookup = s.(ssa.Instruction)
		}
		st := core.Violated
		det := "the host lookup of DHCPv4Update was not found"
		if lookup != nil {
			ok, exit := mustPass(lookup, func(j ssa.Instruction) bool {
				so, isS := j.(*ssa.Store)
				return isS && strings.HasSuffix(norm(so.Addr), ".MACEntry.IP4Offer") && strings.HasSuffix(norm(so.Val), ".Addr.IP")
			})
			if ok {
				st, det = core.Proved, ""
			} else {
				det = "a path from the host lookup reaches the return at " + c.P.Pos(core.PosOf(exit)) + " without MACEntry.IP4Offer = host.Addr.IP: Notify then looks the DHCP frame's host up under a previous address"
			}
		}
		r.Add(core.Obligation{Rule: "dhcp-lookup", Key: "dhcp-lookup DHCPv4Update records the address", Func: core.FuncName(du), Pos: c.P.Pos(du.Pos()), Status: st,
			Basis: "every path from the lookup to a return stores MACEntry.IP4Offer = host.Addr.IP", Detail: det})
	}
	// every online transition is reported: once Host.Online is set, dirty is set on every path to the return
	r.Rule("transition-dirty", "an online transition always marks the host for notification", 1)
	if ot := c.A.Method("", "Session", "onlineTransition"); ot != nil {
		var on ssa.Instruction
		core.EachInstr(ot, func(i ssa.Instruction) {
			if s, ok := i.(*ssa.Store); ok && norm(s.Addr) == "arg0.Online" {
				if v, isC := constBool(s.Val); isC && v {
					on = i
				}
			}
		})
		st := core.Violated
		det := "Host.Online = true not found in onlineTransition"
		if on != nil {
			isDirty := func(j ssa.Instruction) bool {
				s, ok := j.(*ssa.Store)
				if !ok || norm(s.Addr) != "arg0.dirty" {
					return false
				}
				v, isC := constBool(s.Val)
				return isC && v
			}
			ok, exit := mustPass(on, isDirty)
			// the store may also precede Online = true in the same straight-line region
			before := false
			core.EachInstr(ot, func(j ssa.Instruction) {
				if isDirty(j) && core.InstrDominates(j, on) {
					before = true
				}
			})
			if ok || before {
				st, det = core.Proved, ""
			} else {
				det = "a path from Host.Online = true reaches the return at " + c.P.Pos(core.PosOf(exit)) + " without dirty = true: a host coming back online (same address) produces no notification"
			}
		}
		r.Add(core.Obligation{Rule: "transition-dirty", Key: "transition-dirty onlineTransition", Func: core.FuncName(ot), Pos: c.P.Pos(ot.Pos()), Status: st,
			Basis: "dirty = true on every path once Online = true", Detail: det})
	}
	// dirty = true sites
	kg := core.NewKeyGen()
	for _, fn := range lib {
		core.EachInstr(fn, func(i ssa.Instruction) {
			s, ok := i.(*ssa.Store)
			if !ok || !strings.HasSuffix(norm(s.Addr), ".dirty") {
				return
			}
			if v, isC := constBool(s.Val); !isC || !v {
				return
			}
			gs := guardsOf(i)
			reason := ""
			switch {
			case fn.Name() == "findOrCreateHostWithLock" && strings.HasPrefix(norm(s.Addr), "local(host)"):
				reason = "creation of the host"
			case fn.Name() == "onlineTransition" && hasGuard(gs, `^!arg0\.Online$`) && norm(s.Addr) == "arg0.dirty":
				reason = "online transition"
			case fn.Name() == "onlineTransition" && hasGuard(gs, `HostList\[\(φ\+1\)\]\.Online$`):
				reason = "sibling address going offline"
			case strings.HasPrefix(fn.Name(), "Update") && hasGuard(gs, `Merge\(.*\)#1$`):
				reason = "name merge reported a change"
			}
			st := core.Proved
			if reason == "" {
				st = core.Violated
			}
			key := strings.TrimSuffix(kg.Key("dirty set in "+core.FuncName(fn)), "#0")
			r.Add(core.Obligation{Rule: "dirty", Key: key, Func: core.FuncName(fn), Pos: c.P.Pos(core.PosOf(i)), Status: st, Basis: reason,
				Detail: "dirty is set without a reportable change (creation, online transition, sibling offline, changed name): " + guardTexts(gs)})
		})
	}
}

// reachesWithoutPassing: some path from a to b passes a Row unlock.
func reachesWithoutPassing(a, b ssa.Instruction) bool {
	unl := func(j ssa.Instruction) bool {
		cj, ok := j.(ssa.CallInstruction)
		return ok && strings.HasSuffix(core.CalleeName(cj), "RWMutex).Unlock")
	}
	// b reachable from a at all, and not reachable when unlocks block the way => fine; reachable only through an unlock => bad
	if !core.InstrReaches(a, b) {
		return false
	}
	return !reachesWithout(a, b, unl)
}

// runC05Holders: table entries are reachable only through the tables. A *MACEntry or *Host kept in any other
// struct field, map or slice is an alias that deleteHost / MACTable.delete cannot clear: after the entry is
// removed the alias still hands it out (a one-entry lookup cache is the typical case). The places that may hold
// such pointers are a frozen table; per-packet carriers (Frame.Host) are listed with the reason.
func runC05Holders(c *Ctx) {
	r := c.R
	r.Rule("holders", "pointers to table entries are stored only in the tables and their links", 5)
	allowed := map[string]string{
		"*packet.MACEntry -> packet.Host.MACEntry":    "the host's link to its MAC entry (cleared with the host)",
		"*packet.MACEntry -> packet.MACTable.Table[]": "the MAC table itself",
		"*packet.Host -> packet.HostTable.Table[]":    "the host index itself",
		"*packet.Host -> packet.MACEntry.HostList[]":  "the MAC entry's list of its hosts (unlink removes it)",
		"*packet.Host -> packet.Frame.Host":           "per-packet carrier, lives for one Parse/ProcessPacket/Notify round",
		"*packet.MACEntry -> packet.Result.HuntStage": "",
	}
	delete(allowed, "*packet.MACEntry -> packet.Result.HuntStage")
	isEntry := func(t types.Type) string {
		pt, ok := t.(*types.Pointer)
		if !ok {
			return ""
		}
		nt, ok := pt.Elem().(*types.Named)
		if !ok || nt.Obj().Pkg() == nil || nt.Obj().Pkg().Path() != core.ModPath {
			return ""
		}
		if n := nt.Obj().Name(); n == "MACEntry" || n == "Host" {
			return "*packet." + n
		}
		return ""
	}
	// destination description for an address / container value
	var dest func(v ssa.Value, depth int) string
	dest = func(v ssa.Value, depth int) string {
		if depth > 4 {
			return ""
		}
		switch t := v.(type) {
		case *ssa.FieldAddr:
			if al, ok := t.X.(*ssa.Alloc); ok && !al.Heap {
				return "" // a local struct value
			}
			return fieldOwner(t)
		case *ssa.IndexAddr:
			if d := dest(t.X, depth+1); d != "" {
				return d + "[]"
			}
		case *ssa.UnOp:
			return dest(t.X, depth+1)
		case *ssa.Slice:
			return dest(t.X, depth+1)
		case *ssa.Field:
			return ""
		}
		return ""
	}
	kg := core.NewKeyGen()
	for _, fn := range c.P.LibFunctions() {
		core.EachInstr(fn, func(i ssa.Instruction) {
			var val ssa.Value
			where := ""
			switch t := i.(type) {
			case *ssa.Store:
				val = t.Val
				where = dest(t.Addr, 0)
			case *ssa.MapUpdate:
				val = t.Value
				if d := dest(t.Map, 0); d != "" {
					where = d + "[]"
				}
			case *ssa.Call:
				// append(field, entry)
				if b, ok := t.Call.Value.(*ssa.Builtin); ok && b.Name() == "append" && len(t.Call.Args) == 2 {
					if sl, ok := t.Call.Args[1].(*ssa.Slice); ok {
						if al, ok := sl.X.(*ssa.Alloc); ok {
							// varargs array: its element stores
							if refs := al.Referrers(); refs != nil {
								for _, rf := range *refs {
									if ia, ok := rf.(*ssa.IndexAddr); ok && ia.Referrers() != nil {
										for _, rr := range *ia.Referrers() {
											if st, ok := rr.(*ssa.Store); ok && isEntry(st.Val.Type()) != "" {
												val = st.Val
											}
										}
									}
								}
							}
						}
					}
					if val != nil {
						if d := dest(t.Call.Args[0], 0); d != "" {
							where = d + "[]"
						} else {
							val = nil
						}
					}
				}
			}
			if val == nil || where == "" {
				return
			}
			kind := isEntry(val.Type())
			if kind == "" {
				return
			}
			// a nil constant clears a holder
			if k, ok := val.(*ssa.Const); ok && k.Value == nil {
				return
			}
			desc := kind + " -> " + where
			st := core.Proved
			reason, ok := allowed[desc]
			if !ok {
				st = core.Violated
			}
			key := strings.TrimSuffix(kg.Key("holders "+desc+" in "+core.FuncName(fn)), "#0")
			r.Add(core.Obligation{Rule: "holders", Key: key, Func: core.FuncName(fn), Pos: c.P.Pos(core.PosOf(i)), Status: st, Basis: reason,
				Detail: "a pointer to a table entry is kept in " + where + ", which deleteHost / MACTable.delete do not clear: after the entry is removed from the table this alias still refers to it (lookups through it return an entry that is no longer tracked)"})
		})
	}
}
